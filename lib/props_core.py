"""Checks of the history properties C01, C02, C03, C05, C06, C10: generators and
oracles.  The oracles are evaluated on the *implementation's* trace; the
reference answers come either from the extracted reference model (Spec.v, run
by `modeldrv spec`) or from bookkeeping written directly from the property
text below."""

import os
import engine
import gen
from engine import History, parse_snapshot, split_line, present
from props import Prop, Walk, CORE_OPS, REGISTRY, core_batch, final_key, slot


def spec_parse(line):
    """'OP -> res | pre=1 keys=[..]' -> (res, judged, keys or None)"""
    try:
        _, rest = line.split(" -> ", 1)
        res, tail = rest.split(" | ", 1)
    except ValueError:
        return None, False, None
    if not tail.startswith("pre=1"):
        return res, False, None
    ks = tail.split("keys=[", 1)[1].rstrip("]")
    return res, True, [int(x) for x in ks.split(",")] if ks else []


def latent_ok(snap):
    """counter == recount, member lists == tags, sentinels (the latent state
    of C02's anchors), evaluated on the implementation's own snapshot"""
    B, S, V = snap["B"], snap["S"], snap["V"]
    if B.get(0) != [0] or B.get(1) != [0]:
        return "reserved member lists are %r / %r, expected the sentinel [0]" % (B.get(0), B.get(1))
    if S.get(0, 0) != 0 or S.get(1, 0) != 0:
        return "reserved counters are %r / %r, expected 0" % (S.get(0, 0), S.get(1, 0))
    tagged = {}
    for v, x in V.items():
        if x is not None and x["branch"] >= 2:
            tagged.setdefault(x["branch"], set()).add(v)
    for b in range(2, 16):
        m = B.get(b) or []
        if len(set(m)) != len(m):
            return "member list %d has duplicates: %r" % (b, m)
        if set(m) != tagged.get(b, set()):
            return "member list %d = %r but vertices tagged %d = %r" % (b, m, b, sorted(tagged.get(b, set())))
        recount = sum(1 for v in m if V.get(v) and V[v]["pers"] == "S")
        if S.get(b, 0) != recount:
            return "unread counter of slot %d is %d, recount of unread members is %d" % (b, S.get(b, 0), recount)
    return None


class SpecProp(Prop):
    """oracle: implementation results and alive set == reference model's, while
    the history is inside the limits (as judged by the reference model)"""
    needs_spec = True
    check_latent = True
    ops = CORE_OPS

    def spec_oracle(self, h, il):
        sl = self.spec_lines.get(h.hid)
        if sl is None:
            return None
        dead = set()      # handles that left the limits
        for i, op in enumerate(h.ops):
            if i >= len(sl):
                break
            t = op.split()
            sres, judged, keys = spec_parse(sl[i])
            handle = {"CLONE": 2}.get(t[0], 1)
            hd = t[handle] if handle < len(t) else None
            if not judged:
                if "pre=0" in sl[i] or "| out" in sl[i]:
                    dead.add(hd)
                if i >= len(il):
                    break
                if il[i].endswith("-> PANIC") and t[0] not in ("KID", "KIDS", "KEYS"):
                    break      # the implementation history ends here (outside the limits: no claim)
                continue
            if i >= len(il):
                return {"reason": "implementation trace ends before call %d (inside the limits)" % i, "index": i,
                        "expected": sl[i], "observed": "<history ended>"}
            try:
                _, ires, isnap = split_line(il[i])
            except ValueError:
                return {"reason": "unparsable implementation line", "index": i, "expected": sl[i], "observed": il[i][:300]}
            if ires == "PANIC":
                return {"reason": "%s panicked inside the capacity limits" % t[0], "index": i,
                        "expected": sres, "observed": "PANIC"}
            if t[0] not in ("NEW", "CLONE", "SNAP") and ires != sres:
                return {"reason": "%s returned %s, the reference model returns %s" % (t[0], ires, sres), "index": i,
                        "expected": sres, "observed": ires}
            if isnap is not None:
                snap = parse_snapshot(isnap)
                if snap is None:
                    return {"reason": "unparsable snapshot", "index": i, "expected": "", "observed": isnap[:300]}
                if present(snap) != keys:
                    return {"reason": "alive set after %s is %s, the reference model's is %s" % (op, present(snap), keys),
                            "index": i, "expected": str(keys), "observed": str(present(snap))}
                if self.check_latent:
                    bad = latent_ok(snap)
                    if bad:
                        return {"reason": "latent state after %s: %s" % (op, bad), "index": i,
                                "expected": "counter == recount, member lists == tags, sentinels intact",
                                "observed": isnap[:600]}
        return None

    def oracle(self, h, il):
        return self.spec_oracle(h, il)

    def core_mix(self, rng, tier, quick_n, thorough_n, prefix):
        n = quick_n if tier == "quick" else thorough_n
        hs = []
        for i in range(n):
            k = i % 10
            r = rng.fork()
            if k < 4:
                hs.append(gen.adversary_history(r, "%sadv%d" % (prefix, i)))
            elif k < 6:
                hs.append(gen.boundary_history(r, "%sbnd%d" % (prefix, i)))
            else:
                hs.append(gen.core_history(r, "%score%d" % (prefix, i)))
        return hs

    def nontrivial(self, h, il):
        t = h.meta.get("tracker")
        if t is not None and t.collections > 0:
            return final_key(h, il)
        return None


def bfs_tour(n, cap, nlab, ndat, maxstates=200000):
    """breadth-first closure of the model's state space over a tiny domain, as one
    history that visits every (state, call) transition once (modeldrv bfs)"""
    import subprocess
    r = subprocess.run([engine.MODEL_BIN, "bfs", str(n), str(cap), str(nlab), str(ndat), str(maxstates)],
                       capture_output=True, text=True, timeout=3600)
    lines = r.stdout.split("\n")
    info = dict(kv.split("=") for kv in lines[0].split()[2:])
    hid = lines[1].split()[1]
    ops = [l for l in lines[2:] if l]
    return History(hid, n, ops, {"bfs": True, "states": int(info["states"]), "transitions": int(info["transitions"]),
                                 "closed": info["closed"] == "true", "domain": "ids 0..%d, %d label(s), %d datum/data, N=%d" % (cap - 1, nlab, ndat, n)})


def bfs_linear(h, idx):
    """the linear history (one handle) that leads to call number idx of a bfs tour"""
    ops = h.ops
    chain = []
    i = idx
    while i > 0:
        if ops[i].startswith("CLONE"):        # the failing line is itself a CLONE: move to the op before
            i -= 1
            continue
        chain.append(ops[i])
        src = ops[i - 1].split()[1]          # "CLONE sK t"
        if src == "s0":
            break
        j = next(k for k in range(i - 1, -1, -1) if ops[k] == "CLONE t %s" % src)
        i = j - 1
    chain.reverse()
    lin = [ops[0].replace("s0", "g")] + [" ".join([c.split()[0], "g"] + c.split()[2:]) for c in chain]
    return History(h.hid + "-path", h.n, lin, {"from_bfs": True})


class BfsMixin:
    """adds the tiny-domain closures to a history check and reports them in the evidence"""
    bfs_quick = [(1, 2, 1, 1), (2, 2, 2, 1), (1, 3, 1, 1)]
    bfs_thorough = [(1, 2, 1, 1), (2, 2, 2, 2), (1, 3, 1, 1), (1, 3, 1, 2)]

    bfs_small = [(1, 2, 1, 1), (2, 2, 2, 1)]
    bfs_thorough_light = [(1, 2, 1, 1), (2, 2, 2, 2), (1, 3, 1, 1)]

    def bfs_histories(self, tier):
        self._bfs = []
        plan = {"quick": self.bfs_quick, "thorough": self.bfs_thorough, "small": self.bfs_small,
                "thorough_light": self.bfs_thorough_light}[tier]
        for (n, cap, nl, nd) in plan:
            h = bfs_tour(n, cap, nl, nd, 400000 if tier == "quick" else 2500000)
            self._bfs.append(h)
        return list(self._bfs)

    def extra_coverage(self):
        tours = getattr(self, "_bfs", [])
        if not tours:
            return {}
        return {"states": sum(h.meta["states"] for h in tours),
                "transitions": sum(h.meta["transitions"] for h in tours),
                "exhaustive_closures": [{"domain": h.meta["domain"], "states": h.meta["states"],
                                         "transitions": h.meta["transitions"], "closed": h.meta["closed"]} for h in tours],
                "closure_note": "every (state, call) transition of each closed tiny domain is executed on model and implementation "
                                "and compared incl. the complete internal state; the random histories are NOT exhaustive"}


# ------------------------------------------------------------------ C02

class C02(BfsMixin, SpecProp):
    pid = "C02"
    rule = ("add/bind/put/data/next_id histories: 40% order adversaries (put before bind, overwrite of unread data, re-add of "
            "present and of collected ids, reads of ungrouped vertices, binds across groups) continued randomly, 20% boundary "
            "prefixes (exactly N labels, exactly 16 members, exactly 14 groups, last free id), 40% structured random; every "
            "call is judged against the extracted reference model while the reference model says the history is inside the "
            "limits (preb); plus the breadth-first closure of tiny domains (2 ids with 2 labels and N=2; 3 ids, one label, N=1): every "
            "transition of the closed state space is run on model and implementation; non-trivial = the history contains at "
            "least one collection; distinct = distinct final state")
    assumptions = ["the limits and preconditions are judged by preb (proved equivalent to pre, C02_limits_decided) on the reference run"]

    def generate(self, rng, tier):
        return self.bfs_histories(tier) + self.core_mix(rng, tier, 2500, 60000, "c02-")

    def search(self, rng, tier, diverging):
        return self.core_mix(rng, "quick", 12000, 12000, "c02s-")


# ------------------------------------------------------------------ C01

class UnionFind:
    def __init__(self):
        self.p = {}

    def find(self, x):
        self.p.setdefault(x, x)
        while self.p[x] != x:
            self.p[x] = self.p[self.p[x]]
            x = self.p[x]
        return x

    def union(self, a, b):
        self.p[self.find(a)] = self.find(b)


class C01(SpecProp):
    pid = "C01"
    ops = CORE_OPS | {"SLICE", "MERGE", "SAVE", "LOAD"}
    rule = ("same history mix as C02 plus clone/slice/merge/save+load calls interleaved (the loaded graph is read on, also data "
            "read before the save, and is judged by the history of the graph that was saved); after every call the oracle (written "
            "from the property text, independent of the reference model) checks: the alive set shrinks only at a data() "
            "call that reads a datum for the first time since its put; every removed vertex is connected to the vertex read "
            "through the bind calls of the history, holds no unread datum, and was an endpoint of a bind; non-trivial = the "
            "history contains a collection; distinct = distinct final state")
    assumptions = ["'linked through the history of bind calls' = connected in the undirected graph of all bind(v1,v2) calls issued so far on that graph"]

    def generate(self, rng, tier):
        hs = self.core_mix(rng, tier, 2000, 50000, "c01-")
        n = 300 if tier == "quick" else 10000
        for i in range(n):
            hs.append(multi_history(rng.fork(), "c01-multi%d" % i))
        return hs

    def search(self, rng, tier, diverging):
        return self.core_mix(rng, "quick", 12000, 12000, "c01s-")

    def safety_oracle(self, h, il):
        uf, unread, endpoint, keys, images = {}, {}, {}, {}, {}
        for i, t, res, before, after in Walk(h, il):
            k = t[0]
            hd = t[1] if len(t) > 1 else None
            if k == "NEW":
                uf[hd], unread[hd], endpoint[hd] = UnionFind(), set(), set()
            elif k == "CLONE":
                src, dst = t[1], t[2]
                if src in uf:
                    u = UnionFind()
                    u.p = dict(uf[src].p)
                    uf[dst], unread[dst], endpoint[dst] = u, set(unread[src]), set(endpoint[src])
                else:
                    uf.pop(dst, None)
                continue       # the destination handle now names another graph: nothing was removed from anything
            if k == "SAVE" and len(t) > 2:
                if hd in uf:
                    u = UnionFind()
                    u.p = dict(uf[hd].p)
                    images[t[2]] = (u, set(unread[hd]), set(endpoint[hd]))
                else:
                    images.pop(t[2], None)
                continue
            if k == "LOAD" and len(t) > 2:
                # the loaded graph carries the history of the graph that was saved (its binds, its unread data):
                # the calls that follow on it are judged like calls on a clone
                if res == "ok" and t[1] in images:
                    u0, un0, ep0 = images[t[1]]
                    u = UnionFind()
                    u.p = dict(u0.p)
                    uf[t[2]], unread[t[2]], endpoint[t[2]] = u, set(un0), set(ep0)
                else:
                    uf.pop(t[2], None)
                continue
            if hd not in uf:
                continue
            s0, s1 = before.get(hd), after.get(hd)
            if k in ("MERGE", "SCRIPT", "LOAD", "LOADRAW", "SLICE"):
                # bookkeeping cannot follow these; what they must not do is remove a vertex (checked below);
                # afterwards the handle is no longer tracked
                if s0 is not None and s1 is not None and k in ("MERGE", "SCRIPT"):
                    gone = set(present(s0)) - set(present(s1))
                    if gone and res != "PANIC":
                        return {"reason": "%s removed vertices %s" % (k, sorted(gone)), "index": i,
                                "expected": "no vertex removed", "observed": il[i][:400]}
                uf.pop(hd, None)
                continue
            if res == "PANIC":
                break
            if s0 is None or s1 is None:
                continue
            gone = set(present(s0)) - set(present(s1))
            if k == "ADD":
                v = int(t[2])
                if v < s0["cap"] and slot(s0, v)["branch"] == 0:
                    unread[hd].discard(v)
                    endpoint[hd].discard(v)
            elif k == "BIND":
                a, b = int(t[2]), int(t[3])
                uf[hd].union(a, b)
                endpoint[hd].update((a, b))
            elif k == "PUT":
                unread[hd].add(int(t[2]))
            if gone:
                if k != "DATA":
                    return {"reason": "%s removed vertices %s" % (op_text(t), sorted(gone)), "index": i,
                            "expected": "only data() removes vertices", "observed": il[i][:400]}
                v = int(t[2])
                if v not in unread[hd]:
                    return {"reason": "data(%d) removed %s although it was not the first read since a put" % (v, sorted(gone)),
                            "index": i, "expected": "no removal", "observed": il[i][:400]}
                left_unread = unread[hd] - {v}
                for w in sorted(gone):
                    if uf[hd].find(w) != uf[hd].find(v):
                        return {"reason": "data(%d) removed %d which no chain of bind calls links to %d" % (v, w, v),
                                "index": i, "expected": "only linked vertices removed", "observed": il[i][:400]}
                    if w in left_unread:
                        return {"reason": "data(%d) removed %d which holds a datum put and not yet read" % (v, w),
                                "index": i, "expected": "vertices with unread data stay", "observed": il[i][:400]}
                    if w not in endpoint[hd]:
                        return {"reason": "data(%d) removed %d which was never an endpoint of a bind" % (v, w),
                                "index": i, "expected": "unbound vertices are never removed", "observed": il[i][:400]}
            if k == "DATA":
                unread[hd].discard(int(t[2]))
        return None

    def oracle(self, h, il):
        f = self.safety_oracle(h, il)
        if f is not None:
            lim = gen.first_outside_limits(h)
            if lim is None or f["index"] < lim:
                return f
        return self.spec_oracle(h, il)


def op_text(t):
    return "%s(%s)" % (t[0].lower(), ",".join(t[2:]))


def multi_history(rng, hid):
    """core history on g with clone / slice / merge / save+load interleaved
    (the calls C01 says never remove a vertex)"""
    h0 = gen.core_history(rng, hid, length=rng.pick([10, 20, 35]), cap=rng.pick([8, 12, 16, 24]),
                          weights={"put": 18, "data": 18})
    ops = list(h0.ops)
    t = h0.meta["tracker"]
    pres = sorted(t.present)
    extra = []
    k = rng.below(4)
    if k == 0:
        extra = ["CLONE g c", "KEYS c", "SNAP g"]
    elif k == 1 and pres:
        extra = ["SLICE g %d s" % rng.pick(pres), "SNAP g", "KEYS g"]
    elif k == 2:
        extra = ["SAVE g img", "LOAD img l", "SNAP g", "KEYS g", "KEYS l"]
        if not os.environ.get("VERIF_NO_W12"):
            # the loaded graph is read on: data read before the save are read again, the rest for the first time
            tl = t.clone()
            for _ in range(rng.pick([3, 6, 10])):
                cur = sorted(tl.present)
                if not cur:
                    break
                reread = sorted((tl.hasdata - tl.unread) & tl.present)
                v = rng.pick(reread) if reread and rng.chance(1, 2) else rng.pick(cur)
                extra.append("DATA l %d" % v)
                tl.data(v)
            extra.append("KEYS l")
    elif pres:
        extra = ["NEW r %d" % h0.meta["cap"], "ADD r 0", "ADD r 1", "BIND r 0 1 %s" % gen.lab_alpha(3),
                 "PUT r 1 V0102", "MERGE g r %d 0" % rng.pick(pres), "KEYS g"]
    ops += extra
    return History(hid, h0.n, ops, dict(h0.meta))


# ------------------------------------------------------------------ C03

class C03(SpecProp):
    pid = "C03"
    ops = CORE_OPS | {"MERGE"}
    rule = ("C02's history mix with more kid/kids/data observers, all three label variants (ASCII, 2-byte Greek, 4-byte, "
            "alpha indices up to 2^64-1, 8-character names) and data of 0..12 bytes in the heap and the inline representation "
            "(zero and non-zero padding); the oracle keeps last-write maps written from the property text (edges per vertex "
            "in first-bind order, last datum per vertex, reset when an absent id is added) and compares every kid/kids/data "
            "answer of the implementation with them; a stream of tree merges enters the right tree's edges and data into the "
            "left graph's maps (a vertex merge() creates must read back blank plus exactly what the right tree demands); "
            "non-trivial = a history in which an edge is re-bound or a datum "
            "overwritten or a collection happens before a read; distinct = distinct final state")

    def generate(self, rng, tier):
        n = 2500 if tier == "quick" else 60000
        hs = []
        w = {"kid": 14, "kids": 10, "data": 20, "put": 18, "bind": 30}
        for i in range(n):
            r = rng.fork()
            if i % 5 == 0:
                hs.append(gen.adversary_history(r, "c03-adv%d" % i))
            elif i % 5 == 1:
                hs.append(gen.boundary_history(r, "c03-bnd%d" % i))
            else:
                hs.append(gen.core_history(r, "c03-%d" % i, weights=w))
        # read-back over a long life: an edge into a group that is collected early, then hundreds of unrelated collections
        for j, cyc in enumerate([] if os.environ.get("VERIF_NO_W9") else [270, 300, 530] if tier == "quick" else [270, 300, 530, 1100, 2100]):
            hs.append(gen.soak_history(rng.fork(), "c03-soak%d" % j, cyc, bystanders=1 + j % 3, witness=True))
            # and with two rotating groups alive at a time: ids collected earlier are alive again when later groups die
            hs.append(gen.soak_history(rng.fork(), "c03-soakt%d" % j, cyc, bystanders=j % 4))
        # data far beyond every small length: 2^16 - 1, 2^16, 2^17 bytes, overwritten by shorter and longer data
        r = rng.fork()
        big = lambda l: "V" + bytes(r.below(256) for _ in range(l)).hex()
        for j, ls in enumerate([] if os.environ.get("VERIF_NO_W9") else [(65535, 65536, 9), (131072, 300, 65537)]):
            ops = ["NEW g 8", "ADD g 1", "ADD g 2", "BIND g 1 2 %s" % gen.lab_alpha(0), "PUT g 2 V00"]
            for l in ls:
                ops += ["PUT g 1 %s" % big(l), "DATA g 1", "DATA g 1", "KIDS g 1"]
            ops += ["CLONE g h", "DATA h 1", "DATA g 2", "KEYS g", "DATA h 1"]
            hs.append(History("c03-huge%d" % j, 4, ops, {"cap": 8, "n": 4}))
        # vertices created by merge() of trees read back what the right tree demands and nothing else (Y2-3)
        if not os.environ.get("VERIF_NO_W12"):
            import props_ext
            for j in range(200 if tier == "quick" else 6000):
                hm = props_ext.merge_history(rng.fork(), "c03-merge%d" % j, extras=False)
                hm.meta["c03merge"] = True
                hs.append(hm)
        return hs

    def search(self, rng, tier, diverging):
        return [gen.core_history(rng.fork(), "c03s-%d" % i, weights={"kid": 14, "kids": 10, "data": 20}) for i in range(8000)]

    def readback_oracle(self, h, il):
        edges, data = {}, {}      # handle -> v -> ordered list of (label, target) / data repr
        rebinds = 0
        for i, t, res, before, after in Walk(h, il):
            k = t[0]
            hd = t[1] if len(t) > 1 else None
            if k == "NEW":
                edges[hd], data[hd] = {}, {}
                continue
            if k == "CLONE":
                if t[1] in edges:
                    edges[t[2]] = {v: list(e) for v, e in edges[t[1]].items()}
                    data[t[2]] = dict(data[t[1]])
                continue
            if hd not in edges or res == "PANIC":
                if res == "PANIC" and k not in ("KID", "KIDS", "KEYS"):
                    break
                continue
            s0 = before.get(hd)
            if k == "ADD":
                v = int(t[2])
                if s0 is not None and v < s0["cap"] and slot(s0, v)["branch"] == 0:
                    edges[hd][v], data[hd][v] = [], None
            elif k == "BIND":
                v1, v2, a = int(t[2]), int(t[3]), t[4]
                e = edges[hd].setdefault(v1, [])
                for j, (l, _) in enumerate(e):
                    if l == a:
                        e[j] = (a, v2)
                        rebinds += 1
                        break
                else:
                    e.append((a, v2))
            elif k == "PUT":
                data[hd][int(t[2])] = t[3]
            elif k == "KID":
                v, a = int(t[2]), t[3]
                want = next(("some %d" % w for l, w in edges[hd].get(v, []) if l == a), "none")
                if res != want:
                    return {"reason": "kid(%d,%s) = %s, last bind says %s" % (v, a, res, want), "index": i,
                            "expected": want, "observed": res}
            elif k == "KIDS":
                v = int(t[2])
                want = "[%s]" % ";".join("%s>%d" % (l, w) for l, w in edges[hd].get(v, []))
                if res != want:
                    return {"reason": "kids(%d) = %s, expected one entry per bound label: %s" % (v, res, want), "index": i,
                            "expected": want, "observed": res}
            elif k == "DATA":
                v = int(t[2])
                d = data[hd].get(v)
                want = "none" if d is None else "some " + d
                if res != want:
                    return {"reason": "data(%d) = %s, last put says %s" % (v, res, want), "index": i,
                            "expected": want, "observed": res}
            elif k == "MERGE" and len(t) >= 5 and res == "ok" and t[2] in edges and after.get(hd) is not None \
                    and h.meta.get("c03merge"):
                # merge() of trees "as if the additions had been made by add/bind/put": the right tree's edges and data,
                # as the calls on the right graph wrote them, are entered into the left graph's maps; the id of a vertex
                # merge() creates is read off the state (any absent id will do here), its content must be blank + demanded
                sm, rh = after.get(hd), t[2]
                todo = [(int(t[4]), int(t[3]))]
                while todo:
                    rv, gv = todo.pop()
                    if data[rh].get(rv) is not None:
                        data[hd][gv] = data[rh][rv]
                    for a, w in edges[rh].get(rv, []):
                        e = edges[hd].setdefault(gv, [])
                        tg = next((x for l, x in e if l == a), None)
                        if tg is None:
                            tg = next((x for l, x in slot(sm, gv)["edges"] if l == a), None) if gv < sm["cap"] else None
                            if tg is None:
                                return {"reason": "after merge() vertex %d has no edge %s although the right tree demands it" % (gv, a),
                                        "index": i, "expected": "an edge %s" % a, "observed": str(slot(sm, gv)["edges"])[:300]}
                            e.append((a, tg))
                            edges[hd][tg], data[hd][tg] = [], None
                        todo.append((w, tg))
            elif k not in ("KEYS", "NEXT", "SNAP", "LEN"):
                edges.pop(hd, None)       # a call this oracle does not follow (merge, script, load ...): no claim afterwards
                continue
            # what kid()/kids()/data() WOULD answer for every present vertex, read off the state after the call: a write
            # that is lost silently (e.g. during a call on another vertex) is seen when it happens, not when somebody asks
            s1 = after.get(hd)
            if s1 is not None and k in ("ADD", "BIND", "PUT", "DATA", "NEXT", "MERGE"):
                for v in present(s1):
                    if v not in edges[hd]:
                        continue
                    x = slot(s1, v)
                    # (the order in which merge() makes its binds is not fixed by any text: compared as sets there)
                    if (sorted(x["edges"]) != sorted(edges[hd][v])) if h.meta.get("c03merge") else (x["edges"] != edges[hd][v]):
                        return {"reason": "after %s vertex %d has edges %s, the binds made since it was created say %s"
                                          % (h.ops[i], v, x["edges"], edges[hd][v]), "index": i,
                                "expected": str(edges[hd][v])[:400], "observed": str(x["edges"])[:400]}
                    d = data[hd].get(v)
                    have = None if x["pers"] == "E" else engine.data_bytes(x["data"])
                    want = None if d is None else engine.data_bytes(d)
                    if have != want:
                        return {"reason": "after %s vertex %d holds data %s, the last put says %s" % (h.ops[i], v, have, want),
                                "index": i, "expected": str(want)[:400], "observed": str(have)[:400]}
        h.meta["rebinds"] = rebinds
        return None

    def oracle(self, h, il):
        f = self.readback_oracle(h, il)
        if f is not None:
            lim = gen.first_outside_limits(h)
            if lim is None or f["index"] < lim:
                return f
        return self.spec_oracle(h, il)

    def nontrivial(self, h, il):
        t = h.meta.get("tracker")
        if h.meta.get("rebinds", 0) > 0 or (t is not None and t.collections > 0):
            return final_key(h, il)
        return None


# ------------------------------------------------------------------ C05

class C05(SpecProp):
    pid = "C05"
    ops = CORE_OPS | {"MERGE", "SCRIPT"}
    rule = ("histories with many next_id() calls interleaved with add() of ids ahead of and behind the allocator, "
            "collections that free lower ids, clones (the clone continues with its own next_id calls), merge() (also one that "
            "unified two vertices and left a removed slot behind: implementation-only oracle there) and script "
            "variables; oracle from the property text: every returned id is below the capacity, absent at that moment "
            "(implementation's own snapshot before the call) and different from every id returned earlier on the same graph "
            "or the graph it was cloned from; ids created inside merge()/script are checked to be absent before the call; "
            "non-trivial = at least two next_id calls with an add or a collection in between; distinct = distinct trace of ids")

    def generate(self, rng, tier):
        n = 2000 if tier == "quick" else 100000
        w = {"next": 22, "nextadd": 14, "add": 20, "data": 18, "put": 14, "bind": 20}
        hs = []
        for i in range(n):
            r = rng.fork()
            k = i % 6
            if k == 0:
                hs.append(gen.adversary_history(r, "c05-adv%d" % i))
            elif k == 1:
                hs.append(alloc_clone_history(r, "c05-cl%d" % i))
            elif k == 2:
                hs.append(alloc_merge_history(r, "c05-mg%d" % i))
            else:
                hs.append(gen.core_history(r, "c05-%d" % i, weights=w, cap=r.pick([4, 6, 8, 12, 16, 40]),
                                           idpool=r.pick([3, 4, 6, 8])))
        return hs

    def search(self, rng, tier, diverging):
        w = {"next": 25, "nextadd": 15, "add": 20, "data": 18}
        return [gen.core_history(rng.fork(), "c05s-%d" % i, weights=w) for i in range(8000)]

    def fresh_oracle(self, h, il):
        handed = {}
        for i, t, res, before, after in Walk(h, il):
            k = t[0]
            if k == "NEW":
                handed[t[1]] = set()
            elif k == "CLONE" and t[1] in handed:
                handed[t[2]] = set(handed[t[1]])
            elif k == "NEXT" and res != "PANIC":
                hd = t[1]
                s0 = before.get(hd)
                v = int(res)
                if s0 is None:
                    continue
                if v >= s0["cap"]:
                    return {"reason": "next_id() returned %d, at or above the capacity %d" % (v, s0["cap"]), "index": i,
                            "expected": "< %d" % s0["cap"], "observed": res}
                if slot(s0, v)["branch"] != 0:
                    return {"reason": "next_id() returned %d which is present" % v, "index": i,
                            "expected": "an absent id", "observed": res}
                if v in handed.get(hd, set()):
                    return {"reason": "next_id() returned %d again" % v, "index": i,
                            "expected": "an id not returned before on this graph or its clone source", "observed": res}
                handed.setdefault(hd, set()).add(v)
            elif k in ("MERGE", "SCRIPT") and res != "PANIC":
                hd = t[1]
                s0, s1 = before.get(hd), after.get(hd)
                if s0 is None or s1 is None:
                    continue
                # vertices created internally never coincide with a present vertex: every vertex present
                # before keeps its edges as a prefix and its identity; new ids were absent before
                new = set(present(s1)) - set(present(s0))
                for v in new:
                    if v in handed.get(hd, set()):
                        return {"reason": "%s created vertex %d, an id next_id() had already handed out" % (k, v),
                                "index": i, "expected": "fresh id", "observed": il[i][:300]}
                if k == "MERGE":
                    handed.setdefault(hd, set()).update(new)     # merge() obtains the ids of the vertices it creates from next_id()
                if k == "MERGE":
                    # ids taken inside merge are handed out by the same allocator
                    for v in range(s0["next"], s1["next"]):
                        if slot(s0, v)["branch"] == 0:
                            handed.setdefault(hd, set()).add(v)
        return None

    def oracle(self, h, il):
        f = self.fresh_oracle(h, il)
        if f is not None:
            lim = gen.first_outside_limits(h)
            if lim is None or f["index"] < lim:
                return f
        return self.spec_oracle(h, il)

    def nontrivial(self, h, il):
        ids = tuple(l.split(" -> ")[1].split(" | ")[0] for l in il if l.startswith("NEXT ->"))
        return ids if len(ids) >= 2 else None


def alloc_clone_history(rng, hid):
    w = {"next": 22, "nextadd": 14, "add": 20, "data": 18, "put": 14}
    h0 = gen.core_history(rng, hid, weights=w, length=rng.pick([8, 16]), observers=False, cap=rng.pick([6, 10, 16]))
    ops = [o for o in h0.ops if not o.startswith(("KEYS", "KIDS"))]
    ops.append("CLONE g h")
    for _ in range(rng.pick([3, 6, 10])):
        hd = rng.pick(["g", "h"])
        k = rng.below(3)
        if k == 0:
            ops.append("NEXT %s" % hd)
        elif k == 1:
            ops.append("ADD %s %d" % (hd, rng.below(h0.meta["cap"])))
        else:
            ops.append("NEXT %s" % hd)
            ops.append("NEXT %s" % ("h" if hd == "g" else "g"))
    return History(hid, h0.n, ops, dict(h0.meta))


def alloc_merge_history(rng, hid):
    cap = rng.pick([8, 12, 16])
    n = rng.pick([2, 4, 16])
    ops = ["NEW g %d" % cap, "ADD g 0"]
    for _ in range(rng.below(4)):
        ops.append("NEXT g")
    if rng.chance(1, 2):
        ops += ["ADD g 1", "BIND g 0 1 %s" % gen.lab_alpha(0)]
    ops += ["NEW r %d" % cap, "ADD r 0", "ADD r 1", "BIND r 0 1 %s" % gen.lab_alpha(rng.below(2))]
    if n > 1:
        ops += ["ADD r 2", "BIND r 0 2 %s" % gen.lab_alpha(5)]
    if rng.chance(1, 4):
        return alloc_join_history(rng, hid)
    if rng.chance(1, 5) and not os.environ.get("VERIF_NO_W8"):
        return alloc_emptied_history(rng, hid)
    if rng.chance(1, 3):
        # a right graph with an unreachable vertex: merge() creates vertices and then returns Err; the ids stay handed out,
        # also after the created vertices have been collected
        ops += ["ADD r 5", "MERGE g r 0 0", "KEYS g", "PUT g 0 V01", "DATA g 0", "KEYS g", "NEXT g", "NEXT g", "KEYS g"]
    else:
        ops += ["MERGE g r 0 0", "NEXT g", "SCRIPT g %s" % "ADD($x); BIND(0, $x, foo); ADD($y);".encode().hex(), "NEXT g", "KEYS g"]
    return History(hid, n, ops, {"cap": cap, "n": n})


def alloc_emptied_history(rng, hid):
    """every vertex the allocator handed out ends up in one group (or two) that is collected: the graph is empty again,
    the allocator must not start over"""
    cap = rng.pick([8, 16, 40])
    k = rng.pick([2, 3, 5])
    ops = ["NEW g %d" % cap]
    ids = list(range(k))
    for v in ids:
        ops += ["NEXT g", "ADD g %d" % v]
    for v in ids[1:]:
        ops.append("BIND g %d %d %s" % (ids[rng.below(ids.index(v))], v, gen.lab_alpha(v)))
    ops += ["PUT g %d V01" % ids[-1], "KEYS g", "DATA g %d" % ids[-1], "KEYS g", "NEXT g", "NEXT g"]
    ops += ["SCRIPT g %s" % "ADD($a); ADD($b); BIND($a, $b, x);".encode().hex(), "KEYS g", "NEXT g"]
    return History(hid, 4, ops, {"cap": cap, "n": 4})


def alloc_join_history(rng, hid):
    """an earlier merge() that unified two left vertices (the right graph reaches one vertex along two paths mapped to
    different left vertices): the store has a removed slot from then on.  The extended model (XJoin.v) covers that merge
    and the calls after it; the property's own oracle judges every later next_id() on the implementation's
    snapshots.  No collection afterwards (the unchanged code keeps the removed id in its group's member list)."""
    cap = rng.pick([16, 24, 40])
    a, b, c, d, e = (gen.lab_alpha(i) for i in range(5))
    ops = ["NEW g %d" % cap, "ADD g 0", "ADD g 1", "BIND g 0 1 %s" % a, "ADD g 2", "BIND g 1 2 %s" % b,
           "NEW r %d" % cap, "ADD r 0", "ADD r 4", "BIND r 0 4 %s" % c, "ADD r 3", "BIND r 0 3 %s" % a,
           "BIND r 4 3 %s" % d, "ADD r 5", "BIND r 3 5 %s" % e, "MERGE g r 0 0", "KEYS g"]
    # explicit ids at and around the allocator position, then next_id() calls
    for _ in range(rng.pick([2, 4, 8])):
        k = rng.below(4)
        if k == 0:
            ops.append("NEXT g")
        elif k == 1:
            ops.append("ADD g %d" % rng.pick([4, 5, 6, 7, 8, 9]))
        elif k == 2:
            ops += ["NEXT g", "NEXT g"]
        else:
            ops += ["ADD g %d" % rng.pick([5, 6, 7, 8]), "NEXT g"]
    ops += ["NEXT g", "KEYS g"]
    return History(hid, 16, ops, {"cap": cap, "n": 16, "join": True})


# ------------------------------------------------------------------ C06

class C06(SpecProp):
    pid = "C06"
    rule = ("soak histories: 0..13 bystander groups kept alive, then many create/put/read cycles (groups of 2 and 3, put "
            "before bind, overwrites, a second datum read first) over a rotating pool of 3..9 ids; after every call the "
            "alive set must equal the reference model's and the number of occupied group slots in the implementation's "
            "snapshot must equal the number of alive groups plus the two reserved slots; non-trivial = a history with at "
            "least 15 collections (the 14 slots have wrapped around); distinct = distinct (bystanders, N, pool, cycles) shape and final state")

    def generate(self, rng, tier):
        hs = []
        if tier == "quick":
            plan = [(30, 15)] * 28 + [(200, 4)] + ([] if os.environ.get("VERIF_NO_W9") else [(300, 1), (520, 1)])
        else:
            plan = [(40, 3000), (300, 300), (1000, 60)]
        j = 0
        for cycles, count in plan:
            for c in range(count):
                r = rng.fork()
                hs.append(gen.soak_history(r, "c06-%d" % j, cycles, bystanders=(j % 14)))
                j += 1
        return hs

    def timeout(self, tier):
        return 1500 if tier == "quick" else 14000

    def search(self, rng, tier, diverging):
        return [gen.soak_history(rng.fork(), "c06s-%d" % i, 40) for i in range(1500)]

    def oracle(self, h, il):
        f = self.spec_oracle(h, il)
        if f is not None:
            return f
        sl = self.spec_lines.get(h.hid) or []
        for i, t, res, before, after in Walk(h, il):
            if len(t) < 2:
                continue
            if i < len(sl) and "pre=1" not in sl[i]:
                break          # the history has left the limits / preconditions: no claim from here on
            s1 = after.get(t[1])
            if s1 is None or res == "PANIC":
                continue
            occupied = sum(1 for b, m in s1["B"].items() if m)
            groups = len({x["branch"] for x in s1["V"].values() if x is not None and x["branch"] >= 2})
            if occupied != groups + 2:
                return {"reason": "%d group slots are occupied but %d groups are alive (+2 reserved)" % (occupied, groups),
                        "index": i, "expected": str(groups + 2), "observed": str(occupied)}
        return None

    def nontrivial(self, h, il):
        drops = 0
        prev = None
        for l in il:
            if " | " in l:
                s = parse_snapshot(l.split(" | ", 1)[1])
                if s is not None:
                    cur = len(present(s))
                    if prev is not None and cur < prev:
                        drops += 1
                    prev = cur
        if drops >= 15:
            return (h.meta.get("bystanders"), h.n, h.meta.get("cap"), drops, final_key(h, il))
        return None


# ------------------------------------------------------------------ C10

class C10(Prop):
    pid = "C10"
    shrink_ok = False
    ops = CORE_OPS
    rule = ("a random history on g, then clone(); (i) the clone's complete internal state (hook snapshot) equals the "
            "original's; (ii) the same continuation (incl. next_id, puts, reads that collect) is applied to both copies call "
            "by call and must give identical results and states; (iii) one copy is mutated while the other is observed after "
            "every call and must not change, in both directions; non-trivial = the shared continuation contains a "
            "collection or a next_id; distinct = distinct final pair of states")
    assumptions = ["independence (no aliasing) is a runtime fact observed by this check, not expressible in the functional model (DESIGN.md section 12)"]

    def generate(self, rng, tier):
        n = 1200 if tier == "quick" else 60000
        return [gen.clone_history(rng.fork(), "c10-%d" % i) for i in range(n)]

    def search(self, rng, tier, diverging):
        return [gen.clone_history(rng.fork(), "c10s-%d" % i) for i in range(5000)]

    def oracle(self, h, il):
        ca = h.meta.get("clone_at")
        if ca is None or ca >= len(il):
            return None
        last = {}
        lines = []
        for i, (op, line) in enumerate(zip(h.ops, il)):
            t = op.split()
            try:
                _, res, snap = split_line(line)
            except ValueError:
                return None
            lines.append((t, res, snap))
            if i == ca:
                if snap != last.get("g"):
                    return {"reason": "the clone's internal state differs from the original's", "index": i,
                            "expected": str(last.get("g"))[:500], "observed": str(snap)[:500]}
            if snap is not None:
                hd = t[2] if t[0] == "CLONE" else t[1]
                if i in h.meta.get("watch", []) and snap != last.get(hd):
                    return {"reason": "mutating the other copy (%s) changed %s" % (h.ops[i - 1], hd), "index": i,
                            "expected": str(last.get(hd))[:500], "observed": snap[:500]}
                last[hd] = snap
        for a, b in h.meta.get("pairs", []):
            if b >= len(lines):
                break
            ra, rb = lines[a], lines[b]
            if ra[1] != rb[1] or ra[2] != rb[2]:
                return {"reason": "the same call (%s) gives different answers on original and clone" % h.ops[a], "index": b,
                        "expected": il[a][:500], "observed": il[b][:500]}
        return None

    def nontrivial(self, h, il):
        ca = h.meta.get("clone_at", 0)
        tail = h.ops[ca:]
        if any(o.startswith("NEXT") for o in tail) or any(o.startswith("DATA") for o in tail):
            return (il[-1], il[-2] if len(il) > 1 else "")
        return None


import props as _props


class C04(BfsMixin, _props.C04):
    """C04 of props.py plus, in the thorough tier, the tiny-domain closures (every ADD transition of the closed spaces)"""

    def generate(self, rng, tier):
        hs = _props.C04.generate(self, rng, tier)
        return self.bfs_histories("thorough_light" if tier == "thorough" else "small") + hs


class C01T(C01):
    pass


def _with_bfs(cls):
    class X(BfsMixin, cls):
        def generate(self, rng, tier):
            hs = cls.generate(self, rng, tier)
            return self.bfs_histories("thorough_light" if tier == "thorough" else "small") + hs
    X.__name__ = cls.__name__
    X.pid = cls.pid
    return X


REGISTRY.update({c.pid: c for c in [_with_bfs(C01), C02, _with_bfs(C03), C04, _with_bfs(C05), C06, C10]})
