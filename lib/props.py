"""Per-property configuration: projection of the correspondence, generators,
oracle evaluated on the implementation's own trace, non-triviality rule."""

import engine
import gen
from engine import History, parse_snapshot, split_line, present, data_bytes

TRUSTED_BASE = [
    "Coq 8.16.1 kernel incl. its VM (vm_compute in Examples/witnesses only); no native_compute; coqchk -o on the property file in the thorough tier",
    "axioms: none (every Print Assumptions must answer 'Closed under the global context'; no Axiom/Parameter/Admitted/admit, no Program/Equations, scanned on every run)",
    "hand-written Gallina model coq/theories/{Base,Text,Hex,HexMore,Label,Sodg,Esort,Print,Export,Slice,Merge,Serial,Script}.v and reference model Spec.v/SpecDec.v, tied to /repo by the correspondence check (differential testing on generated histories, corpus and exhaustive tiny-domain tours; not proof)",
    "extraction: ExtrOcamlBasic only (bool, option, unit, list, prod, sumbool, sumor -> OCaml built-ins; andb/orb inlined); nat/positive/N/Z stay inductive; OCaml 4.13.1 ocamlopt; cross-checked against vm_compute on 120 histories at every model build (tools/xcheck.py)",
    "unverified glue: model/conv.ml, model/modeldrv.ml (op parsing, tabulation of the reference state, bfs tour), harness/src/main.rs, lib/*.py (generators, tracker, snapshot parsing, abs_state, oracles, shrinking, audit)",
    "modelled, not verified: emap/micromap/microstack semantics (incl. emap's private high-water mark), bincode 1.3.3, serde derive layout, regex, str::trim/split/from_str, hex::decode, xml-builder (no attribute escaping modelled), itertools::sorted, slice indexing, String::from_utf8, HashMap/HashSet as sets; Sodg::join() and graphs with vacant slots: coq/theories/XJoin.v (conservative extension), run by the driver for every graph handle; P_Bridge.v (audited at every check) pins that on states without vacant slots every extended operation is the proved one",
    "rustc/cargo stable, dev profile (debug assertions and overflow checks on); verif_snapshot() hook (cargo feature verif) as the window on the internal state",
]

CORE_OPS = {"NEW", "ADD", "BIND", "PUT", "DATA", "NEXT", "KID", "KIDS", "KEYS", "SNAP", "CLONE"}

BLANK = {"branch": 0, "pers": "E", "data": "B0000000000000000:0", "edges": []}


def slot(snap, v):
    # a slot removed by merge()'s join() is listed as "-": it holds no vertex
    return snap["V"].get(v) or BLANK


class Walk:
    """replays the op list next to the implementation's trace and keeps the
    last snapshot of every handle"""

    def __init__(self, h, ilines):
        self.h, self.ilines = h, ilines

    def __iter__(self):
        snaps = {}
        for i, (op, line) in enumerate(zip(self.h.ops, self.ilines)):
            t = op.split()
            try:
                _, res, snap = split_line(line)
            except ValueError:
                continue
            before = dict(snaps)
            if snap is not None:
                handle = {"CLONE": 2, "SLICE": 3, "LOAD": 2, "LOADCUT": 3, "LOADFLIP": 4, "LOADRAW": 2}.get(t[0], 1)
                if handle < len(t):
                    snaps[t[handle]] = parse_snapshot(snap)
            yield i, t, res, before, snaps


class Prop:
    pid = None
    ops = CORE_OPS
    rule = ""
    assumptions = []
    trusted_extra = []
    exhaustive = False
    stay_in_limits = True    # shrinking keeps histories inside the property's quantifier
    oracle_beyond_limits = False   # True: the property's own text puts no limit on the states its oracle judges (C13)
    needs_spec = False       # run the extracted reference model (Spec.v) next to the implementation
    shrink_ok = True         # False where the oracle relates several graphs/handles of one history (twins, pairs,
                             # positions recorded in meta): deleting calls would fabricate differences

    def __init__(self):
        self.spec_lines = {}
        self.model_lines = {}     # traces of the extracted model (used as a reference only where a theorem makes it one)

    def in_projection(self, op):
        return op in self.ops

    def timeout(self, tier):
        return 900 if tier == "quick" else 7200

    def counts(self, tier):
        return 1

    def generate(self, rng, tier):
        return []

    def oracle(self, h, ilines):
        return None

    def known_finding(self, h, ilines, finding):
        return None

    def nontrivial(self, h, ilines):
        return None

    def search(self, rng, tier, diverging):
        """extra histories tried when the tie is broken and no witness is known yet"""
        return []

    def extra_coverage(self):
        return {}

    def post_run(self, hs, impl, tier):
        """extra work after the main run; returns a finding (history, dict) or None"""
        return None


def core_batch(rng, count, prefix, **kw):
    return [gen.core_history(rng.fork(), "%s%d" % (prefix, i), **kw) for i in range(count)]


def final_key(h, ilines):
    return ilines[-1] if ilines else None


# ------------------------------------------------------------------ C04

class C04(Prop):
    pid = "C04"
    rule = ("structured random add/bind/put/data/next_id histories over a small id pool with extra weight on "
            "re-adding present vertices and ids of collected vertices; a history is non-trivial if it re-adds a "
            "collected id or adds a present vertex; distinct = distinct final implementation state")
    assumptions = ["preconditions of the property (ids below capacity etc.) are enforced by the generator's tracker"]

    def generate(self, rng, tier):
        n = 1500 if tier == "quick" else 60000
        w = {"readd": 14, "add": 22, "nextadd": 8, "data": 22}
        return core_batch(rng, n, "c04-", weights=w)

    def search(self, rng, tier, diverging):
        return core_batch(rng, 8000, "c04s-", weights={"readd": 20, "add": 25, "data": 25})

    def nontrivial(self, h, il):
        if h.meta.get("readds", 0) > 0:
            return final_key(h, il)
        return None

    def oracle(self, h, il):
        for i, t, res, before, after in Walk(h, il):
            if t[0] != "ADD" or res != "ok":
                continue
            s0, s1 = before.get(t[1]), after.get(t[1])
            if s0 is None or s1 is None:
                continue
            v = int(t[2])
            if v >= s0["cap"]:
                continue
            if slot(s0, v)["branch"] != 0:
                if s0 != s1:
                    return {"reason": "add(%d) on a present vertex changed the graph" % v, "index": i,
                            "expected": "state unchanged", "observed": il[i][:600]}
            else:
                x = slot(s1, v)
                want = {"branch": 1, "pers": "E", "data": "B0000000000000000:0", "edges": []}
                rest0 = {k: y for k, y in s0["V"].items() if k != v}
                rest1 = {k: y for k, y in s1["V"].items() if k != v}
                if x != want:
                    return {"reason": "add(%d) on an absent id did not create a blank vertex" % v, "index": i,
                            "expected": str(want), "observed": str(x)}
                if rest0 != rest1 or s0["B"] != s1["B"] or s0["S"] != s1["S"] or s0["next"] != s1["next"]:
                    return {"reason": "add(%d) on an absent id changed something else" % v, "index": i,
                            "expected": "rest of the graph unchanged", "observed": il[i][:600]}
        return None


REGISTRY = {c.pid: c for c in [C04]}


def get(pid):
    import props_core      # noqa: F401  (registers C01, C02, C03, C05, C06, C10)
    import props_ext       # noqa: F401  (registers C07, C08, C09, C11, C12, C13, C14, C18, C19, C20)
    if pid not in REGISTRY:
        raise SystemExit("no check registered for %s" % pid)
    return REGISTRY[pid]()


# ------------------------------------------------------------------ stateless helpers

def batches(ops, size, prefix, n=4):
    return [History("%s%d" % (prefix, i), n, ops[j:j + size]) for i, j in enumerate(range(0, len(ops), size))]


def text_hex(s):
    return s.encode("utf-8").hex() if s else "-"


def hex_text(h):
    return "" if h == "-" else bytes.fromhex(h).decode("utf-8")


USIZE_MAX = 2 ** 64 - 1


# ------------------------------------------------------------------ C17

C17_ALPHABET = ["a", "Z", "1", "0", "9", "+", "-", " ", "α", "ρ", "\U0001d711", "é"]


def label_of_text_class(t):
    """classification of a label text by the property's own wording:
    'valid' (must round-trip), 'reject' (must be Err), None (no claim)"""
    if t == "":
        return None
    if t[0] == "α":
        tail = t[1:]
        if tail.isascii() and tail.isdigit():
            n = int(tail)
            if n > USIZE_MAX:
                return "reject"
            return "valid" if str(n) == tail else None       # leading zeros: accepted, not canonical
        body = tail[1:] if tail.startswith("+") else tail
        if body and body.isascii() and body.isdigit():
            return "reject" if int(body) > USIZE_MAX else None   # '+5': accepted by Rust's integer grammar
        return "reject"                                      # malformed index
    if " " in t:
        return None
    if len(t) > 8:
        return "reject"
    return "valid"


def canonical_label(l):
    if l[0] == "G":
        return int(l[1:], 16) != 0x3b1
    if l[0] == "A":
        return int(l[1:]) <= USIZE_MAX
    cps = [int(x, 16) for x in l[1:].split(".")]
    body = list(cps)
    while body and body[-1] == 0x20:
        body.pop()
    return len(cps) == 8 and 2 <= len(body) and 0x20 not in body and body[0] != 0x3b1


class C17(Prop):
    pid = "C17"
    ops = {"LABELRT", "LABELRTL", "LABELPARSE", "LABELPRINT", "NEW", "ADD", "SCRIPT", "KID", "BIND"}
    stay_in_limits = False
    rule = ("every string of length 0..3 over the 12-symbol alphabet [a Z 1 0 9 + - space α ρ U+1D711 é] (exhaustive), "
            "random strings up to length 10 and boundary index texts are parsed and printed back; canonical and "
            "non-canonical label values are printed and parsed back; edges bound from script text are looked up under "
            "the constructed label.  A case is non-trivial if the text/label has more than one character or a "
            "multi-byte character or is an index; distinct = distinct input")
    assumptions = ["'alpha followed by +5 / leading zeros / more than 8 characters' are accepted by Rust's integer grammar; the property makes no claim about them (DESIGN.md section 13)"]
    exhaustive = True

    def generate(self, rng, tier):
        ops = []
        al = C17_ALPHABET
        texts = [""]
        for a in al:
            texts.append(a)
            for b in al:
                texts.append(a + b)
                for c in al:
                    texts.append(a + b + c)
        texts += ["α18446744073709551615", "α18446744073709551616", "α99999999999999999999999", "α+5", "α05", "α00",
                  "α-1", "α1ρ", "α1+2", "α", "α+", "abcdefgh", "abcdefghi", "ρρρρρρρρ", "ρρρρρρρρρ",
                  "\U0001d711\U0001d711\U0001d711\U0001d711\U0001d711\U0001d711\U0001d711\U0001d711", "α1234567", "α12345678",
                  "hello", "+bar", "foo", "x", "ρ", "σ", "π", "\U0001d711"]
        nrand = 3000 if tier == "quick" else 300000
        for _ in range(nrand):
            k = 4 + rng.below(7)
            texts.append("".join(rng.pick(al) for _ in range(k)))
        for t in texts:
            ops.append("LABELRT %s" % text_hex(t))
        labels = []
        for a in al:
            labels.append(gen.lab_greek(ord(a)))
        for n in [0, 1, 9, 10, 99, 2 ** 32, 2 ** 63, USIZE_MAX]:
            labels.append(gen.lab_alpha(n))
        nsl = [x for x in al if x != " "]
        for k in range(1, 9):
            for _ in range(40 if tier == "quick" else 2000):
                body = "".join(rng.pick(nsl) for _ in range(k))
                labels.append(gen.lab_str(body))
        # non-canonical values (malformed stream: results only compared with the model)
        labels += [gen.lab_str("a b"), gen.lab_str(" ab"), gen.lab_str("α7"), gen.lab_str("a"), gen.lab_str("")]
        for l in labels:
            ops.append("LABELRTL %s" % l)
        hs = batches(ops, 400, "c17-")
        # an edge bound under a parsed name is found under the same name built directly
        kid_ops = ["NEW g 4", "ADD g 0", "ADD g 1"]
        for name, lab in [("ρ", gen.lab_greek(0x3c1)), ("foo", gen.lab_str("foo")), ("α7", gen.lab_alpha(7)),
                          ("x", gen.lab_greek(0x78)), ("\U0001d711", gen.lab_greek(0x1d711)), ("héllo", gen.lab_str("héllo"))]:
            kid_ops.append("SCRIPT g %s" % text_hex("BIND(0, 1, %s);" % name))
            kid_ops.append("KID g 0 %s" % lab)
        hs.append(History("c17-kid", 8, kid_ops))
        # distinct names stay distinct inside a graph: two edges bound under two different valid names (one may be a
        # prefix of the other, a one-character name next to a longer one, an index next to a longer index) are two
        # edges, each found under its own name, in both binding orders, bound by value and bound from script text
        names = ["ab", "abc", "x1", "x12", "foo", "foo-bar", "1234567", "12345678", "a", "b", "ρ", "ρρ", "α1", "α12",
                 "héllo", "héll", "\U0001d711", "\U0001d711x"]

        def lab_of(t):
            if t[0] == "α":
                return gen.lab_alpha(int(t[1:]))
            return gen.lab_greek(ord(t)) if len(t) == 1 else gen.lab_str(t)
        k = 0
        for t1 in names:
            for t2 in names:
                if t1 == t2:
                    continue
                l1, l2 = lab_of(t1), lab_of(t2)
                by_script = (k % 2 == 0)
                b1 = "SCRIPT g %s" % text_hex("BIND(0, 1, %s);" % t1) if by_script else "BIND g 0 1 %s" % l1
                b2 = "SCRIPT g %s" % text_hex("BIND(0, 2, %s);" % t2) if by_script else "BIND g 0 2 %s" % l2
                hs.append(History("c17-pair%d" % k, 4, ["NEW g 4", "ADD g 0", "ADD g 1", "ADD g 2", b1, b2,
                                                        "KID g 0 %s" % l1, "KID g 0 %s" % l2, "KIDS g 0"],
                                  {"pair": (l1, l2)}))
                k += 1
        return hs

    def claimed_line(self, op):
        """the property speaks about label texts of 1..8 non-space characters (valid: round trip) and about texts it says
        must be rejected, and about canonical label values; everything else (texts with blanks, the empty text, `α+5`,
        leading zeros, non-canonical values) is compared with the model for information only"""
        t = op.split()
        if t[0] == "LABELRT":
            return label_of_text_class(hex_text(t[1])) in ("valid", "reject")
        if t[0] == "LABELRTL":
            return bool(canonical_label(t[1]))
        return True

    def oracle(self, h, il):
        seen = getattr(self, "_inj", None)
        if seen is None:
            seen = self._inj = {}
        for i, (op, line) in enumerate(zip(h.ops, il)):
            t = op.split()
            res = line.split(" -> ", 1)[1]
            if t[0] == "LABELRT":
                txt = hex_text(t[1])
                cls = label_of_text_class(txt)
                if cls == "valid":
                    p = res.split()
                    if p[0] != "ok" or hex_text(p[2]) != txt:
                        return {"reason": "valid label text %r does not round-trip" % txt, "index": i,
                                "expected": "ok <label> %s" % t[1], "observed": res}
                    other = seen.setdefault(p[1], txt)
                    if other != txt:
                        return {"reason": "distinct texts %r and %r give the same label" % (other, txt), "index": i,
                                "expected": "distinct labels", "observed": res}
                elif cls == "reject" and res != "err":
                    return {"reason": "label text %r must be rejected" % txt, "index": i, "expected": "err", "observed": res}
            elif t[0] == "LABELRTL" and canonical_label(t[1]):
                p = res.split()
                if len(p) != 3 or p[1] != "ok" or p[2] != t[1]:
                    return {"reason": "canonical label %s does not round-trip through text" % t[1], "index": i,
                            "expected": "<text> ok %s" % t[1], "observed": res}
            elif t[0] == "KID" and "pair" in h.meta:
                want = "some 1" if t[3] == h.meta["pair"][0] else "some 2"
                if res != want:
                    return {"reason": "two edges bound under the distinct names %s and %s: kid under %s gives %s" % (
                        h.meta["pair"][0], h.meta["pair"][1], t[3], res), "index": i, "expected": want, "observed": res}
            elif t[0] == "KIDS" and "pair" in h.meta:
                want = "[%s>1;%s>2]" % h.meta["pair"]
                if res != want:
                    return {"reason": "two edges bound under distinct names are not two entries of kids()", "index": i,
                            "expected": want, "observed": res}
            elif t[0] == "KID" and h.hid == "c17-kid":
                if res != "some 1":
                    return {"reason": "edge bound under a parsed name is not found under the constructed label %s" % t[3],
                            "index": i, "expected": "some 1", "observed": res}
        return None

    def nontrivial(self, h, il):
        keys = set()
        for op in h.ops:
            t = op.split()
            if t[0] == "LABELRT" and len(hex_text(t[1])) > 1:
                keys.add(op)
            elif t[0] == "LABELRTL" and not t[1].startswith("G"):
                keys.add(op)
        return keys


# ------------------------------------------------------------------ C15 / C16

def hx_bytes(r):
    return bytes.fromhex(data_bytes(r))


def hx_from_vec(bs):
    if len(bs) <= 8:
        return "B%s:%d" % ((bs + bytes(8 - len(bs))).hex(), len(bs))
    return "V" + bs.hex()


def hex_shapes(rng, maxlen=10, extra_random=0):
    shapes = []
    for n in range(maxlen + 1):
        variants = [bytes(range(1, n + 1)), bytes(rng.below(256) for _ in range(n)), bytes(n), bytes([0xFF] * n)]
        for _ in range(extra_random):
            variants.append(bytes(rng.below(256) for _ in range(n)))
        for bs in variants:
            shapes.append("V" + bs.hex())
            if n <= 8:
                shapes.append("B%s:%d" % ((bs + bytes(8 - n)).hex(), n))
                shapes.append("B%s:%d" % ((bs + bytes(0xF0 | rng.below(16) for _ in range(8 - n))).hex(), n))
    return shapes


def rust_slice(bs, kind, s, e):
    """reference semantics of indexing a byte slice: bytes or None (panic)"""
    n = len(bs)
    if kind == "RFULL":
        return bs
    if kind == "RF":
        return bs[s:] if s <= n else None
    if kind in ("RI", "RTI"):
        if e == USIZE_MAX:
            return None
        e += 1
    if kind in ("RT", "RTI"):
        s = 0
    return bs[s:e] if s <= e <= n else None


def usz(x):
    return "MAX" if x == USIZE_MAX else str(x)


class C15(Prop):
    pid = "C15"
    ops = {"HEXALL", "HEXIDX", "HEXBYTEAT", "HEXTAIL", "HEXRANGE", "HEXEQ", "HEXFROMI64", "HEXFROMF64",
           "HEXFROMSTR", "HEXFROMVEC", "HEXFROMSLICE"}
    # the rest of the Hex API (HexMore.v): outside the property text.  Compared with the model and with a byte-level
    # expectation to keep the whole type under the tie, but a disagreement there is counted in the evidence, not raised
    informational_ops = ("HEXSET", "HEXSTRBYTES", "HEXTOBOOL", "HEXTOUTF8", "HEXFROMINT", "HEXFROMF32", "HEXFROMBOOL")
    stay_in_limits = False
    exhaustive = True
    rule = ("byte strings of every length 0..10 (fixed and random content) in the heap representation and, up to 8 "
            "bytes, in the inline representation with zero and with non-zero padding; every index 0..12 and usize::MAX; "
            "every (start,end) in (0..12 + MAX)^2 for the six range kinds (exhaustive over these shapes); i64/f64 round "
            "trips on boundary and random values; from_str on formatted and corrupted texts.  Non-trivial = distinct "
            "(shape, accessor, arguments) whose byte string is non-empty")

    def generate(self, rng, tier):
        shapes = hex_shapes(rng, 10, 0 if tier == "quick" else 6)
        idxs = list(range(13)) + [USIZE_MAX]
        ops = []
        for sh in shapes:
            ops.append("HEXALL %s" % sh)
            for i in idxs:
                ops.append("HEXIDX %s %s" % (sh, usz(i)))
                ops.append("HEXBYTEAT %s %s" % (sh, usz(i)))
                ops.append("HEXTAIL %s %s" % (sh, usz(i)))
                ops.append("HEXRANGE %s RF %s 0" % (sh, usz(i)))
                ops.append("HEXRANGE %s RT 0 %s" % (sh, usz(i)))
                ops.append("HEXRANGE %s RTI 0 %s" % (sh, usz(i)))
            ops.append("HEXRANGE %s RFULL 0 0" % sh)
            for s in idxs:
                for e in idxs:
                    ops.append("HEXRANGE %s R %s %s" % (sh, usz(s), usz(e)))
                    ops.append("HEXRANGE %s RI %s %s" % (sh, usz(s), usz(e)))
        for a in shapes[::3]:
            for b in shapes[::5]:
                ops.append("HEXEQ %s %s" % (a, b))
        # every pair of shapes of one byte string (heap / inline / inline with other padding), both ways round
        same = {}
        for sh in shapes:
            same.setdefault(hx_bytes(sh), []).append(sh)
        for grp in same.values():
            for a in grp:
                for b in grp:
                    ops.append("HEXEQ %s %s" % (a, b))
        for z in [0, 1, -1, 42, 2 ** 63 - 1, -2 ** 63, 256, -256, 2 ** 32, -2 ** 32 - 1] + \
                 [rng.next() - 2 ** 63 for _ in range(200 if tier == "quick" else 20000)]:
            ops.append("HEXFROMI64 %d" % z)
        for w in [0, 1, 0x7ff0000000000000, 0xfff0000000000000, 0x7ff8000000000001, 0x400921fb54442d18, 2 ** 64 - 1] + \
                 [rng.next() for _ in range(200 if tier == "quick" else 20000)]:
            ops.append("HEXFROMF64 %016x" % w)
        for _ in range(300 if tier == "quick" else 30000):
            n = rng.below(12)
            bs = bytes(rng.below(256) for _ in range(n))
            txt = "-".join(("%02X" if rng.chance(1, 2) else "%02x") % b for b in bs)
            k = rng.below(6)
            if k == 0 and txt:
                txt = txt[:-1]                  # odd length
            elif k == 1:
                txt = txt + "g"                 # not a hex digit
            elif k == 2:
                txt = "--" + txt + "-"
            ops.append("HEXFROMSTR %s" % text_hex(txt))
            ops.append("HEXFROMVEC %s" % (bs.hex() or "-"))
            ops.append("HEXFROMSLICE %s" % (bs.hex() or "-"))
        # the remaining API of Hex
        for sh in shapes:
            for i in idxs[:11]:
                ops.append("HEXSET %s %s %02x" % (sh, usz(i), rng.below(256)))
            ops.append("HEXTOBOOL %s" % sh)
            ops.append("HEXTOUTF8 %s" % sh)
        for txt in ["", "a", "héllo", "ρσ", "\U0001d711x", "abcdefgh", "abcdefghi", "привет"]:
            ops.append("HEXSTRBYTES %s" % text_hex(txt))
            ops.append("HEXTOUTF8 V%s" % txt.encode("utf-8").hex())
        for bad in ["c3", "e28282e2", "f0288cbc", "eda080", "c0af", "ff", "41c328"]:
            ops.append("HEXTOUTF8 V%s" % bad)
        for k, lo, hi in [(4, -2 ** 31, 2 ** 31 - 1), (2, -2 ** 15, 2 ** 15 - 1), (1, -128, 127)]:
            for z in [0, 1, -1, lo, hi, 42] + [lo + rng.below(hi - lo + 1) for _ in range(40)]:
                ops.append("HEXFROMINT %d %d" % (k, z))
        for w in [0, 1, 0x7f800000, 0xff800000, 0x7fc00001, 0x40490fdb, 2 ** 32 - 1] + [rng.below(2 ** 32) for _ in range(40)]:
            ops.append("HEXFROMF32 %08x" % w)
        ops += ["HEXFROMBOOL 0", "HEXFROMBOOL 1"]
        return batches(ops, 3000, "c15-")

    def expected(self, t):
        """expected result text from the byte string alone, or None (no claim)"""
        k = t[0]
        if k in ("HEXFROMI64", "HEXFROMF64", "HEXFROMSTR", "HEXFROMVEC", "HEXFROMSLICE") and True:
            if k == "HEXFROMI64":
                z = int(t[1])
                return "B%s:8 back=%d" % ((z % 2 ** 64).to_bytes(8, "big").hex(), z)
            if k == "HEXFROMF64":
                return "B%s:8 back=%s" % (t[1], t[1])
            if k == "HEXFROMSTR":
                txt = hex_text(t[1]).replace("-", "")
                try:
                    if len(txt) % 2:
                        raise ValueError
                    bs = bytes(int(txt[i:i + 2], 16) if all(c in "0123456789abcdefABCDEF" for c in txt[i:i + 2]) else int("zz", 16)
                               for i in range(0, len(txt), 2))
                except ValueError:
                    return "err"
                return "ok " + hx_from_vec(bs)
            bs = bytes.fromhex("" if t[1] == "-" else t[1])
            return hx_from_vec(bs)
        if k == "HEXSTRBYTES":
            return hx_from_vec(hex_text(t[1]).encode("utf-8"))
        if k == "HEXFROMINT":
            return hx_from_vec(int(t[2]).to_bytes(int(t[1]), "big", signed=True))
        if k == "HEXFROMF32":
            return hx_from_vec(bytes.fromhex(t[1]))
        if k == "HEXFROMBOOL":
            return hx_from_vec(bytes([int(t[1])]))
        bs = hx_bytes(t[1])
        arg = lambda s: USIZE_MAX if s == "MAX" else int(s)
        if k == "HEXSET":
            i = arg(t[2])
            if i >= len(bs):
                return "PANIC"
            nb = bs[:i] + bytes([int(t[3], 16)]) + bs[i + 1:]
            return None if t[1].startswith("B") else "V" + nb.hex()     # inline: padding is kept, compared with the model only
        if k == "HEXTOBOOL":
            return "PANIC" if not bs else ("1" if bs[0] == 1 else "0")
        if k == "HEXTOUTF8":
            try:
                return "ok " + text_hex(bs.decode("utf-8"))
            except UnicodeDecodeError:
                return "err"
        if k == "HEXALL":
            pr = "-".join("%02X" % b for b in bs) if bs else "--"
            i64 = str(int.from_bytes(bs, "big", signed=True)) if len(bs) == 8 else "err"
            f64 = bs.hex() if len(bs) == 8 else "err"
            return "len=%d bytes=%s print=%s empty=%d vec=%s i64=%s f64=%s rt=%s rteq=11" % (
                len(bs), bs.hex(), text_hex(pr), 1 if not bs else 0, bs.hex(), i64, f64, hx_from_vec(bs))
        if k in ("HEXIDX", "HEXBYTEAT"):
            i = arg(t[2])
            return str(bs[i]) if i < len(bs) else "PANIC"
        if k == "HEXTAIL":
            s = arg(t[2])
            return hx_from_vec(bs[s:]) if s <= len(bs) else "PANIC"
        if k == "HEXRANGE":
            r = rust_slice(bs, t[2], arg(t[3]), arg(t[4]))
            return "PANIC" if r is None else "[%s]" % r.hex()
        if k == "HEXEQ":
            return "1" if bs == hx_bytes(t[2]) else "0"
        return None

    def oracle(self, h, il):
        for i, (op, line) in enumerate(zip(h.ops, il)):
            t = op.split()
            if t[0] in self.informational_ops:
                want = self.expected(t)
                if want is not None and want != line.split(" -> ", 1)[1]:
                    self._more_mismatch = getattr(self, "_more_mismatch", 0) + 1
                continue
            if t[0] not in self.ops:
                continue
            want = self.expected(t)
            got = line.split(" -> ", 1)[1]
            if want is not None and want != got:
                return {"reason": "%s depends on more than the byte string / differs from the byte slice" % t[0],
                        "index": i, "expected": want, "observed": got}
        return None

    def extra_coverage(self):
        return {"rest_of_hex_api": {"ops": list(self.informational_ops),
                                    "byte_level_expectation_mismatches": getattr(self, "_more_mismatch", 0)}}

    def nontrivial(self, h, il):
        return {op for op in h.ops if op.split()[0] in self.ops and op.split()[0] in ("HEXALL", "HEXIDX", "HEXBYTEAT", "HEXTAIL", "HEXRANGE", "HEXEQ")
                and len(hx_bytes(op.split()[1])) > 0}


class C16(Prop):
    pid = "C16"
    ops = {"HEXCONCAT"}
    stay_in_limits = False
    exhaustive = True
    rule = ("a.concat(b) for every pair of lengths 0..12 x 0..12, receiver and argument in the heap representation and "
            "(up to 8 bytes) in the inline representation with zero and non-zero padding (exhaustive over these shapes), "
            "plus random pairs; non-trivial = both operands non-empty; distinct = distinct operand pair")
    KNOWN = "class=inline-spill: inline receiver of used length l<8 with l+len(b)>8 yields its 8 array bytes (padding included) followed by b"

    def generate(self, rng, tier):
        shapes = hex_shapes(rng, 12, 0 if tier == "quick" else 3)
        ops = []
        for a in shapes:
            for b in shapes:
                ops.append("HEXCONCAT %s %s" % (a, b))
        # long operands (length fields of more than one byte) against every short shape, both ways
        longs = ["V" + bytes(rng.below(256) for _ in range(n)).hex() for n in (16, 17, 255, 256, 300)]
        for a in longs:
            for b in shapes + longs:
                ops.append("HEXCONCAT %s %s" % (a, b))
                ops.append("HEXCONCAT %s %s" % (b, a))
        return batches(ops, 3000, "c16-")

    @staticmethod
    def in_known_class(a, b):
        if not a.startswith("B"):
            return False
        l = int(a.split(":")[1])
        return l < 8 and l + len(hx_bytes(b)) > 8

    def oracle(self, h, il):
        known_hit = None
        for i, (op, line) in enumerate(zip(h.ops, il)):
            t = op.split()
            if t[0] != "HEXCONCAT":
                continue
            got = line.split(" -> ", 1)[1].split()
            if got[0] == "PANIC":
                return {"reason": "concat panicked", "index": i, "expected": "bytes(a)+bytes(b)", "observed": "PANIC"}
            want = hx_bytes(t[1]) + hx_bytes(t[2])
            if got[1] != "a=" + t[1] or got[2] != "b=" + t[2]:
                return {"reason": "concat changed an operand", "index": i, "expected": "a,b unchanged", "observed": " ".join(got)}
            if hx_bytes(got[0]) != want:
                known = (self.in_known_class(t[1], t[2])
                         and hx_bytes(got[0]) == bytes.fromhex(t[1][1:17]) + hx_bytes(t[2]))
                f = {"reason": "concat(%s, %s) is not the concatenation of the byte strings" % (t[1], t[2]),
                     "index": i, "expected": want.hex(), "observed": got[0], "known": known}
                if not known:
                    return f
                known_hit = known_hit or f      # a listed finding never hides a different violation
        return known_hit

    def known_finding(self, h, il, finding):
        # suppressed only if known-findings.txt (committed, never written at run time) lists the class
        listed = any(k["property"] == "C16" and k["cls"] == "inline-spill" for k in engine.known_findings()[0])
        return self.KNOWN if finding.get("known") and listed else None

    def nontrivial(self, h, il):
        return {op for op in h.ops if op.startswith("HEXCONCAT ")
                and len(hx_bytes(op.split()[1])) and len(hx_bytes(op.split()[2]))}


REGISTRY.update({c.pid: c for c in [C15, C16, C17]})
