"""Per-property configuration: projection of the correspondence, generators,
oracle evaluated on the implementation's own trace, non-triviality rule."""

import engine
import gen
from engine import History, parse_snapshot, split_line, present, data_bytes

TRUSTED_BASE = [
    "Coq 8.16.1 kernel incl. its VM (vm_compute in Examples/witnesses); no native_compute",
    "axioms: none (every Print Assumptions must answer 'Closed under the global context')",
    "hand-written Gallina model coq/theories/{Base,Text,Hex,Label,Sodg,Esort,Print,Export,Slice,Merge,Serial,Script}.v, tied to /repo by the correspondence check (differential testing, not proof)",
    "extraction: ExtrOcamlBasic only (bool, option, unit, list, prod, sumbool, sumor -> OCaml built-ins; andb/orb inlined); nat/positive/N/Z stay inductive; OCaml 4.13.1 ocamlopt",
    "unverified glue: model/conv.ml, model/modeldrv.ml, harness/src/main.rs, lib/*.py",
    "modelled, not verified: emap/micromap/microstack semantics, bincode 1.3.3, serde derive layout, regex, str::trim/split/from_str, hex::decode, xml-builder, itertools::sorted, slice indexing, HashMap/HashSet as sets",
    "rustc/cargo stable, dev profile (debug assertions and overflow checks on)",
]

CORE_OPS = {"NEW", "ADD", "BIND", "PUT", "DATA", "NEXT", "KID", "KIDS", "KEYS", "SNAP", "CLONE"}

BLANK = {"branch": 0, "pers": "E", "data": "B0000000000000000:0", "edges": []}


def slot(snap, v):
    return snap["V"].get(v, BLANK)


class Walk:
    """replays the op list next to the implementation's trace and keeps the
    last snapshot of every handle"""

    def __init__(self, h, ilines):
        self.h, self.ilines = h, ilines

    def __iter__(self):
        snaps = {}
        for i, (op, line) in enumerate(zip(self.h.ops, self.ilines)):
            t = op.split()
            try:
                _, res, snap = split_line(line)
            except ValueError:
                continue
            before = dict(snaps)
            if snap is not None:
                handle = {"CLONE": 2, "SLICE": 3, "LOAD": 2, "LOADCUT": 3, "LOADFLIP": 4, "LOADRAW": 2}.get(t[0], 1)
                if handle < len(t):
                    snaps[t[handle]] = parse_snapshot(snap)
            yield i, t, res, before, snaps


class Prop:
    pid = None
    ops = CORE_OPS
    rule = ""
    assumptions = []
    trusted_extra = []
    exhaustive = False
    stay_in_limits = True    # shrinking keeps histories inside the property's quantifier

    def in_projection(self, op):
        return op in self.ops

    def timeout(self, tier):
        return 900 if tier == "quick" else 7200

    def counts(self, tier):
        return 1

    def generate(self, rng, tier):
        return []

    def oracle(self, h, ilines):
        return None

    def known_finding(self, h, ilines, finding):
        return None

    def nontrivial(self, h, ilines):
        return None

    def search(self, rng, tier, diverging):
        """extra histories tried when the tie is broken and no witness is known yet"""
        return []

    def extra_coverage(self):
        return {}


def core_batch(rng, count, prefix, **kw):
    return [gen.core_history(rng.fork(), "%s%d" % (prefix, i), **kw) for i in range(count)]


def final_key(h, ilines):
    return ilines[-1] if ilines else None


# ------------------------------------------------------------------ C04

class C04(Prop):
    pid = "C04"
    rule = ("structured random add/bind/put/data/next_id histories over a small id pool with extra weight on "
            "re-adding present vertices and ids of collected vertices; a history is non-trivial if it re-adds a "
            "collected id or adds a present vertex; distinct = distinct final implementation state")
    assumptions = ["preconditions of the property (ids below capacity etc.) are enforced by the generator's tracker"]

    def generate(self, rng, tier):
        n = 1500 if tier == "quick" else 60000
        w = {"readd": 14, "add": 22, "nextadd": 8, "data": 22}
        return core_batch(rng, n, "c04-", weights=w)

    def search(self, rng, tier, diverging):
        return core_batch(rng, 8000, "c04s-", weights={"readd": 20, "add": 25, "data": 25})

    def nontrivial(self, h, il):
        if h.meta.get("readds", 0) > 0:
            return final_key(h, il)
        return None

    def oracle(self, h, il):
        for i, t, res, before, after in Walk(h, il):
            if t[0] != "ADD" or res != "ok":
                continue
            s0, s1 = before.get(t[1]), after.get(t[1])
            if s0 is None or s1 is None:
                continue
            v = int(t[2])
            if v >= s0["cap"]:
                continue
            if slot(s0, v)["branch"] != 0:
                if s0 != s1:
                    return {"reason": "add(%d) on a present vertex changed the graph" % v, "index": i,
                            "expected": "state unchanged", "observed": il[i][:600]}
            else:
                x = slot(s1, v)
                want = {"branch": 1, "pers": "E", "data": "B0000000000000000:0", "edges": []}
                rest0 = {k: y for k, y in s0["V"].items() if k != v}
                rest1 = {k: y for k, y in s1["V"].items() if k != v}
                if x != want:
                    return {"reason": "add(%d) on an absent id did not create a blank vertex" % v, "index": i,
                            "expected": str(want), "observed": str(x)}
                if rest0 != rest1 or s0["B"] != s1["B"] or s0["S"] != s1["S"] or s0["next"] != s1["next"]:
                    return {"reason": "add(%d) on an absent id changed something else" % v, "index": i,
                            "expected": "rest of the graph unchanged", "observed": il[i][:600]}
        return None


REGISTRY = {c.pid: c for c in [C04]}


def get(pid):
    if pid not in REGISTRY:
        raise SystemExit("no check registered for %s" % pid)
    return REGISTRY[pid]()
