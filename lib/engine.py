"""Engine shared by all checks: build, run op files on implementation and
model, compare traces, write evidence, report violations.

Hand-written and unverified (trusted base, DESIGN.md section 11)."""

import concurrent.futures
import fcntl
import hashlib
import json
import os
import re
import subprocess
import sys
import time

VERIF = os.environ.get("VERIF_ROOT") or "/verif"      # VERIF_ROOT: a scratch copy of this directory (development only)
REPO = os.environ.get("VERIF_REPO") or "/repo"
CACHE = os.path.join(VERIF, ".cache")
HARNESS_TARGET = os.path.join(CACHE, "harness-target")
HARNESS_BIN = os.path.join(HARNESS_TARGET, "debug", "sodg-verif-harness")
MODEL_DIR = os.path.join(CACHE, "model")
MODEL_BIN = os.path.join(MODEL_DIR, "modeldrv")
COQ_DIR = os.path.join(VERIF, "coq")
NCPU = 16

ENV = dict(os.environ)
ENV.update({"CARGO_NET_OFFLINE": "true", "CARGO_TARGET_DIR": HARNESS_TARGET})


def log(msg):
    print(msg, file=sys.stderr, flush=True)


class Lock:
    """serialises builds between concurrently running checks"""

    def __init__(self, name):
        os.makedirs(CACHE, exist_ok=True)
        self.path = os.path.join(CACHE, name)

    def __enter__(self):
        self.f = open(self.path, "w")
        fcntl.flock(self.f, fcntl.LOCK_EX)
        return self

    def __exit__(self, *a):
        fcntl.flock(self.f, fcntl.LOCK_UN)
        self.f.close()


def tree_hash(paths):
    h = hashlib.sha256()
    for root in paths:
        if os.path.isfile(root):
            files = [root]
        else:
            files = []
            for d, _, fs in os.walk(root):
                for f in fs:
                    if f.endswith((".v", ".ml", "_CoqProject", ".toml", ".rs", ".lock")):
                        files.append(os.path.join(d, f))
        for f in sorted(files):
            h.update(f.encode())
            h.update(open(f, "rb").read())
    return h.hexdigest()


class BuildError(Exception):
    pass


def build_model(force=False):
    """Coq development (full .vo build) + extraction + OCaml driver; cached on
    the content hash of coq/theories and model/ (it does not depend on /repo)."""
    with Lock("model.lock"):
        want = tree_hash([os.path.join(COQ_DIR, "theories"), os.path.join(COQ_DIR, "_CoqProject"),
                          os.path.join(VERIF, "model"), os.path.join(VERIF, "bin", "build-model"),
                          os.path.join(VERIF, "tools", "xcheck.py")])
        stamp = os.path.join(CACHE, "model.stamp")
        if (not force and os.path.exists(stamp) and open(stamp).read() == want
                and os.path.exists(MODEL_BIN)):
            xc = os.path.join(CACHE, "xcheck.txt")
            return {"cached": True, "hash": want, "xcheck": open(xc).read() if os.path.exists(xc) else "?"}
        t0 = time.time()
        r = subprocess.run([os.path.join(VERIF, "bin", "build-model")], capture_output=True, text=True)
        if r.returncode != 0:
            if os.path.exists(stamp):
                os.remove(stamp)
            raise BuildError("model build failed:\n" + r.stdout[-4000:] + r.stderr[-4000:])
        # extraction cross-check: vm_compute inside Coq vs the extracted code on the same histories
        x = subprocess.run([sys.executable, os.path.join(VERIF, "tools", "xcheck.py")], capture_output=True, text=True)
        if x.returncode != 0:
            raise BuildError("extraction cross-check failed:\n" + x.stdout[-3000:] + x.stderr[-2000:])
        open(os.path.join(CACHE, "xcheck.txt"), "w").write(x.stdout.strip().split("\n")[-1])
        open(stamp, "w").write(want)
        return {"cached": False, "hash": want, "wall_s": time.time() - t0, "xcheck": x.stdout.strip().split("\n")[-1]}


def build_harness():
    """always rebuilt from /repo's current working tree (cargo decides what is stale)"""
    with Lock("harness.lock"):
        hdir = os.path.join(VERIF, "harness")
        lock_src = os.path.join(REPO, "Cargo.lock")
        lock_dst = os.path.join(hdir, "Cargo.lock")
        if not os.path.exists(lock_dst):
            open(lock_dst, "wb").write(open(lock_src, "rb").read())
        t0 = time.time()
        r = subprocess.run(["cargo", "build", "--offline", "--quiet"], cwd=hdir, env=ENV,
                           capture_output=True, text=True)
        if r.returncode != 0:
            raise BuildError("harness build failed (does /repo still compile with --features verif?):\n"
                             + r.stderr[-6000:])
        return {"wall_s": time.time() - t0}


ASAN_TARGET = os.path.join(CACHE, "harness-asan-target")
ASAN_BIN = os.path.join(ASAN_TARGET, "x86_64-unknown-linux-gnu", "debug", "sodg-verif-harness")


def build_harness_asan():
    """the same harness on the nightly toolchain with AddressSanitizer (thorough tier of C07 only)"""
    with Lock("harness-asan.lock"):
        hdir = os.path.join(VERIF, "harness")
        env = dict(ENV)
        env.update({"CARGO_TARGET_DIR": ASAN_TARGET, "RUSTFLAGS": "-Zsanitizer=address"})
        t0 = time.time()
        r = subprocess.run(["cargo", "+nightly", "build", "--offline", "--quiet", "--target", "x86_64-unknown-linux-gnu"],
                           cwd=hdir, env=env, capture_output=True, text=True)
        if r.returncode != 0:
            raise BuildError("ASan harness build failed:\n" + r.stderr[-4000:])
        return {"wall_s": time.time() - t0}


def run_impl_asan(histories, timeout=3600, shards=NCPU):
    """impl traces under AddressSanitizer; returns (traces, problems)"""
    shards = max(1, min(shards, len(histories)))
    chunks = [histories[i::shards] for i in range(shards)]
    env = dict(os.environ, ASAN_OPTIONS="detect_leaks=0:abort_on_error=0")
    traces, problems = {}, []

    def job(chunk):
        text = "".join(h.text() for h in chunk)
        try:
            r = subprocess.run([ASAN_BIN], input=text, capture_output=True, text=True, timeout=timeout, env=env)
            return chunk, r.returncode, r.stdout, r.stderr
        except subprocess.TimeoutExpired as e:
            return chunk, "timeout", "", ""

    with concurrent.futures.ThreadPoolExecutor(max_workers=NCPU) as ex:
        for chunk, rc, out, err in ex.map(job, chunks):
            tr = parse_trace(out)
            traces.update(tr)
            if rc != 0:
                missing = [h.hid for h in chunk if h.hid not in tr]
                problems.append({"rc": rc, "stderr": err[-3000:], "first_unfinished": missing[0] if missing else None,
                                 "last_started": list(tr.keys())[-1] if tr else None})
    return traces, problems


# ---------------------------------------------------------------- histories

class History:
    __slots__ = ("hid", "n", "ops", "meta")

    def __init__(self, hid, n, ops, meta=None):
        self.hid = hid
        self.n = n
        self.ops = ops
        self.meta = meta or {}

    def text(self):
        return "H %s %d\n%s\n" % (self.hid, self.n, "\n".join(self.ops))


def parse_trace(text):
    """-> dict hid -> list of output lines (without H/END markers)"""
    out = {}
    cur = None
    for line in text.split("\n"):
        if line.startswith("H "):
            cur = []
            out[line.split()[1]] = cur
        elif line == "END":
            cur = None
        elif cur is not None and line:
            cur.append(line)
    return out


def _run_bin(binary, ops_text, timeout, args=()):
    try:
        r = subprocess.run([binary] + list(args), input=ops_text, capture_output=True, text=True, timeout=timeout)
        return r.returncode, r.stdout, r.stderr
    except subprocess.TimeoutExpired as e:
        return "timeout", (e.stdout or b"").decode() if isinstance(e.stdout, bytes) else (e.stdout or ""), ""


def run_histories(histories, timeout=600, shards=NCPU, want_model=True, want_spec=False):
    """runs all histories on implementation, model and (optionally) the
    reference model; returns (impl, model, problems, spec), each a dict
    hid -> lines"""
    shards = max(1, min(shards, len(histories)))
    chunks = [histories[i::shards] for i in range(shards)]
    impl, model, spec, problems = {}, {}, {}, []

    def job(kind, chunk):
        text = "".join(h.text() for h in chunk)
        if kind == "impl":
            return kind, chunk, _run_bin(HARNESS_BIN, text, timeout)
        if kind == "spec":
            return kind, chunk, _run_bin(MODEL_BIN, text, timeout, ["spec"])
        return kind, chunk, _run_bin(MODEL_BIN, text, timeout)

    with concurrent.futures.ThreadPoolExecutor(max_workers=NCPU) as ex:
        futs = []
        for c in chunks:
            futs.append(ex.submit(job, "impl", c))
            if want_model:
                futs.append(ex.submit(job, "model", c))
            if want_spec:
                futs.append(ex.submit(job, "spec", c))
        for f in futs:
            kind, chunk, (rc, out, err) = f.result()
            tr = parse_trace(out)
            {"impl": impl, "model": model, "spec": spec}[kind].update(tr)
            if rc != 0:
                missing = [h.hid for h in chunk if h.hid not in tr]
                problems.append({"kind": kind, "rc": rc, "stderr": err[-2000:],
                                 "first_unfinished": missing[0] if missing else None,
                                 "last_started": list(tr.keys())[-1] if tr else None})
    return impl, model, problems, spec


# ---------------------------------------------------------------- snapshots

_SNAP_RE = re.compile(r"cap=(\d+) next=(\d+) bc=(\d+) sc=(\d+) V\[(.*?)\] B\[(.*?)\] S\[(.*?)\]$")


_SNAP_CACHE = {}


def parse_snapshot(s):
    """parsed snapshots are shared (never mutate the result); the cache makes the bfs tours affordable"""
    r = _SNAP_CACHE.get(s)
    if r is None:
        r = _parse_snapshot(s)
        if len(_SNAP_CACHE) < 400000:
            _SNAP_CACHE[s] = r
    return r


def _parse_snapshot(s):
    m = _SNAP_RE.match(s.strip())
    if not m:
        return None
    cap, nxt, bc, sc, vs, bs, ss = m.groups()
    verts = {}
    for ent in vs.split(" ") if vs else []:
        vid, rest = ent.split(":", 1)
        if rest == "-":
            verts[int(vid)] = None
            continue
        # branch,pers,data,[edges]
        m2 = re.match(r"(\d+),([EST]),([^,]*),\[(.*)\]$", rest)
        branch, pers, data, edges = m2.groups()
        el = []
        for e in edges.split(";") if edges else []:
            lab, to = e.rsplit(">", 1)
            el.append((lab, int(to)))
        verts[int(vid)] = {"branch": int(branch), "pers": pers, "data": data, "edges": el}
    branches = {}
    for ent in bs.split(" ") if bs else []:
        b, rest = ent.split(":", 1)
        branches[int(b)] = None if rest == "-" else [int(x) for x in rest.split(".")]
    stores = {}
    for ent in ss.split(" ") if ss else []:
        b, rest = ent.split(":", 1)
        stores[int(b)] = None if rest == "-" else int(rest)
    return {"cap": int(cap), "next": int(nxt), "bc": int(bc), "sc": int(sc),
            "V": verts, "B": branches, "S": stores}


def data_bytes(d):
    """bytes (hex string) of a data repr V<hex> | B<16hex>:<len>"""
    if d.startswith("V"):
        return d[1:]
    a, l = d[1:].split(":")
    return a[: 2 * int(l)]


def present(snap):
    return sorted(v for v, x in snap["V"].items() if x is not None and x["branch"] != 0)


def abs_state(snap):
    """forgets slot numbers and the order inside member lists"""
    verts = {}
    for v, x in snap["V"].items():
        if x is None:
            verts[v] = None
        else:
            cls = 0 if x["branch"] == 0 else (1 if x["branch"] == 1 else 2)
            verts[v] = (cls, x["pers"], x["data"], tuple(x["edges"]))
    groups = sorted((tuple(sorted(m)), snap["S"].get(b, 0)) for b, m in snap["B"].items()
                    if b >= 2 and m)
    same_group = {}
    for b, m in snap["B"].items():
        if b >= 2 and m:
            for v in m:
                same_group[v] = tuple(sorted(m))
    reserved = tuple((b, tuple(snap["B"].get(b) or []), snap["S"].get(b, 0)) for b in (0, 1))
    return (snap["cap"], snap["next"], snap["bc"], snap["sc"], tuple(sorted(verts.items())),
            tuple(groups), reserved)


def split_line(line):
    """'OP -> result | snapshot' -> (op, result, snapshot or None)"""
    op, rest = line.split(" -> ", 1)
    if " | " in rest:
        res, snap = rest.split(" | ", 1)
        return op, res, snap
    return op, rest, None


# ---- exported / printed text as documents.  The properties speak about content and order (one node per present vertex,
# ascending ids, every edge with label and target, the data bytes), not about white space, styling attributes, header lines
# or the group lines of Debug: both the oracles and the comparison with the model read the text through these parsers.

def _hex_to_text(x):
    try:
        return bytes.fromhex(x).decode("utf-8")
    except ValueError:
        return None


def canon_xml(txt):
    """[(id, [(label, target)], data text or None)] in document order"""
    nodes = []
    for m in re.finditer(r"<v\b([^>]*?)(?:/>|>(.*?)</v\s*>)", txt, re.S):
        attrs = dict(re.findall(r'([\w:-]+)\s*=\s*"([^"]*)"', m.group(1)))
        if "id" not in attrs or not attrs["id"].isdigit():
            return None
        body = m.group(2) or ""
        edges = []
        for e in re.finditer(r"<e\b([^>]*?)/?>", body, re.S):
            ea = dict(re.findall(r'([\w:-]+)\s*=\s*"([^"]*)"', e.group(1)))
            if "a" not in ea or not ea.get("to", "").isdigit():
                return None
            edges.append((ea["a"], int(ea["to"])))
        d = re.search(r"<data\b[^>]*>(.*?)</data\s*>", body, re.S)
        nodes.append((int(attrs["id"]), edges, " ".join(d.group(1).split()) if d else None))
    return nodes


def canon_dot(txt):
    """[(id, [(label, target)], data text or None)]; an edge line belongs to the node line before it"""
    nodes, cur = [], None
    for line in txt.split("\n"):
        m = re.match(r'^\s*v(\d+)\s*\[([^\]]*)\]\s*;?\s*(?:/\*\s*(.*?)\s*\*/)?\s*$', line)
        if m and re.search(r'label\s*=\s*"ν%s"' % m.group(1), m.group(2)):
            cur = (int(m.group(1)), [], m.group(3))
            nodes.append(cur)
            continue
        m = re.match(r'^\s*v(\d+)\s*->\s*v(\d+)\s*\[([^\]]*)\]', line)
        if m:
            lab = re.search(r'label\s*=\s*"([^"]*)"', m.group(3))
            if lab is None:
                return None
            if cur is not None and int(m.group(1)) == cur[0]:
                cur[1].append((lab.group(1), int(m.group(2))))
            else:
                nodes.append((int(m.group(1)), [("<edge outside its node>", -1)], None))
    return nodes


def canon_debug(txt):
    """[(id, text between the brackets)] of the vertex entries `ν<id> -> ⟦...⟧`; everything else (the group lines) is
    nobody's contract"""
    return [(int(m.group(1)), m.group(2)) for m in re.finditer(r"^ν(\d+) -> ⟦(.*?)⟧$", txt, re.M | re.S)]


def canon_inspect(txt):
    """(start id, [(depth, label, target, seen-before marker)]): the depth is the rank of the line's indentation among the
    open ones, whatever its width"""
    lines = [l for l in txt.split("\n") if l.strip()]
    if not lines:
        return None
    m = re.match(r"^\s*ν(\d+)\s*$", lines[0])
    if not m:
        return None
    out, stack = [], []
    for ln in lines[1:]:
        m2 = re.match(r"^(\s*)\.(.*?) ➞ ν(\d+)(…?)\s*$", ln)
        if not m2:
            return None
        w = len(m2.group(1))
        while stack and stack[-1] > w:
            stack.pop()
        if not stack or stack[-1] < w:
            stack.append(w)
        out.append((len(stack) - 1, m2.group(2), int(m2.group(3)), m2.group(4)))
    return (int(m.group(1)), out)


_CANON = {"XML": canon_xml, "DOT": canon_dot, "DEBUG": canon_debug, "INSPECT": canon_inspect}


def lines_agree(ml, il):
    """raw equality, else equality of result and abstract state (or, for exported text, of the documents)"""
    if ml == il:
        return True, False
    op = ml.split(" ", 1)[0]
    if op in _CANON and il.startswith(op + " -> ") and " | " not in ml:
        a, b = _hex_to_text(ml[len(op) + 4:]), _hex_to_text(il[len(op) + 4:])
        if a is None or b is None:
            return False, False
        da, db = _CANON[op](a), _CANON[op](b)
        return (da is not None and da == db), True
    try:
        mo, mr, ms = split_line(ml)
        io, ir, isn = split_line(il)
    except ValueError:
        return False, False
    if mo != io or mr != ir or (ms is None) != (isn is None):
        return False, False
    if ms is None:
        return False, False
    a, b = parse_snapshot(ms), parse_snapshot(isn)
    if a is None or b is None:
        return False, False
    return abs_state(a) == abs_state(b), True


def compare_history(h, mlines, ilines, in_projection, strict_image=False, informational=(), claimed=None):
    """first disagreement inside the projection, or None.
    Returns dict(status=agree|diverge|unmodelled|outoffuel, index=..., ...)"""
    n = min(len(mlines), len(ilines))
    abs_only = 0
    compared = 0
    info = 0
    for i in range(n):
        ml, il = mlines[i], ilines[i]
        op = ml.split(" ", 1)[0]
        if "UNMODELLED-LOAD" in ml:
            continue      # decoder met a number beyond the model's cut-off: no claim about this one load
        if "UNMODELLED" in ml.split(" | ")[0]:
            return {"status": "unmodelled", "index": i, "compared": compared, "abs_only": abs_only}
        if "OUTOFFUEL" in ml.split(" | ")[0]:
            return {"status": "outoffuel", "index": i, "model": ml, "impl": il,
                    "compared": compared, "abs_only": abs_only}
        if "UNSUPPORTED" in ml:
            return {"status": "diverge", "index": i, "model": ml, "impl": il,
                    "compared": compared, "abs_only": abs_only}
        if op in informational or (claimed is not None and i < len(h.ops) and not claimed(h.ops[i])):
            # compared to exercise the model, but outside the property's text: a disagreement is counted, not raised
            if not lines_agree(ml, il)[0]:
                info += 1
            continue
        if not in_projection(op):
            # outside this property's projection: only the panic class matters,
            # because it decides where the history ends
            if ml.endswith("-> PANIC") != il.endswith("-> PANIC"):
                return {"status": "offproj", "index": i, "compared": compared, "abs_only": abs_only}
            continue
        if op == "SAVE" and not strict_image:
            # the bytes of the image matter to the properties about the format (C08, C09) only; everybody else needs
            # "save() succeeded" and what load() makes of it (the next lines)
            ok, via_abs = (ml.split(" ")[:3] == il.split(" ")[:3]), True
        else:
            ok, via_abs = lines_agree(ml, il)
        compared += 1
        if via_abs and ok:
            abs_only += 1
        if not ok and op == "LOADFLIP":
            # a bit-flipped image is not a prefix of a valid one: outside C09's quantifier (and everybody else's).  The
            # stream exercises the model's decoder; a disagreement is counted, it is nobody's alarm
            info += 1
            continue
        if not ok:
            return {"status": "diverge", "index": i, "model": ml, "impl": il,
                    "compared": compared, "abs_only": abs_only, "informational": info}
    if len(mlines) != len(ilines):
        i = n
        return {"status": "diverge", "index": i,
                "model": mlines[i] if i < len(mlines) else "<history ended>",
                "impl": ilines[i] if i < len(ilines) else "<history ended>",
                "compared": compared, "abs_only": abs_only}
    return {"status": "agree", "compared": compared, "abs_only": abs_only, "informational": info}


# ---------------------------------------------------------------- proof audit

FORBIDDEN = re.compile(
    r"\b(Admitted|admit|Axiom|Axioms|Parameter|Parameters|Conjecture|Conjectures|Hypothesis|Hypotheses|Variable|Variables|"
    r"Unset\s+Guard\s+Checking|Unset\s+Positivity\s+Checking|Unset\s+Universe\s+Checking|"
    r"bypass_check|Admit\s+Obligations|type-in-type|impredicative-set|native_compute)\b")


def strip_coq_comments(src):
    out, depth, i = [], 0, 0
    while i < len(src):
        if src.startswith("(*", i):
            depth += 1
            i += 2
        elif src.startswith("*)", i) and depth:
            depth -= 1
            i += 2
        else:
            if depth == 0:
                out.append(src[i])
            i += 1
    return "".join(out)


def coq_sources():
    d = os.path.join(COQ_DIR, "theories")
    return sorted(os.path.join(d, f) for f in os.listdir(d) if f.endswith(".v"))


def audit_sources():
    """no Admitted/admit/Axiom/Parameter/... anywhere in the development
    (Variable/Hypothesis are allowed inside a Section only)"""
    bad = []
    for f in coq_sources():
        src = strip_coq_comments(open(f).read())
        depth = 0
        for ln, line in enumerate(src.split("\n"), 1):
            if re.match(r"\s*Section\b", line):
                depth += 1
            if re.match(r"\s*End\b", line) and depth:
                depth -= 1
            for m in FORBIDDEN.finditer(line):
                w = m.group(1)
                if w in ("Variable", "Variables", "Hypothesis", "Hypotheses") and depth > 0:
                    continue
                bad.append("%s:%d: %s" % (os.path.basename(f), ln, w))
    return bad


def coqchk_property(pid):
    """independent re-check of the compiled property file and everything it depends on (thorough tier)"""
    t0 = time.time()
    r = subprocess.run(["coqchk", "-silent", "-o", "-Q", "theories", "Sodg", "Sodg.P_%s" % pid],
                       cwd=COQ_DIR, capture_output=True, text=True, timeout=3600)
    out = r.stdout + r.stderr
    m = re.search(r"\* Axioms:\s*(.*?)\n\s*\n", out, re.S)
    axioms = m.group(1).strip() if m else "?"
    ok = r.returncode == 0 and axioms == "<none>" and "type-in-type: <none>" in out \
        and "unsafe (co)fixpoints: <none>" in out and "positivity is assumed: <none>" in out
    return {"ok": ok, "axioms": axioms, "wall_s": round(time.time() - t0, 1),
            "cmd": "cd /verif/coq && coqchk -silent -o -Q theories Sodg Sodg.P_%s" % pid,
            "tail": out[-600:] if not ok else ""}


def audit_property_file(pid):
    """Re-checks P_<pid>.v with coqc (its dependencies are already compiled),
    collects every `Print Assumptions` answer and every pinned statement.
    Returns dict(obligations, discharged, theorems, assumptions, errors)."""
    f = os.path.join(COQ_DIR, "theories", "P_%s.v" % pid)
    res = {"file": f, "obligations": 0, "discharged": 0, "theorems": [], "open_assumptions": [],
           "errors": []}
    if not os.path.exists(f):
        res["errors"].append("missing " + f)
        return res
    src = strip_coq_comments(open(f).read())
    thms = re.findall(r"^\s*(?:Theorem|Corollary)\s+(\w+)", src, re.M)
    checks = re.findall(r"^\s*Check\s+(\w+)\s*:", src, re.M)
    prints = re.findall(r"^\s*Print Assumptions\s+(\w+)", src, re.M)
    res["theorems"] = thms
    res["obligations"] = len(thms)
    for t in thms:
        if t not in prints:
            res["errors"].append("theorem %s has no Print Assumptions" % t)
        if t not in checks:
            res["errors"].append("theorem %s has no pinned `Check %s : <statement>`" % (t, t))
    t0 = time.time()
    os.makedirs(os.path.join(CACHE, "audit"), exist_ok=True)
    r = subprocess.run(["coqc", "-Q", "theories", "Sodg", "-o", os.path.join(CACHE, "audit", "P_%s.vo" % pid),
                        "theories/P_%s.v" % pid],
                       cwd=COQ_DIR, capture_output=True, text=True, timeout=1800)
    res["coqc_wall_s"] = time.time() - t0
    res["checker_cmd"] = "cd /verif/coq && make -j16 (full .vo build of theories/*.v) && coqc -Q theories Sodg theories/P_%s.v" % pid
    if r.returncode != 0:
        res["errors"].append("coqc failed: " + (r.stderr or r.stdout)[-3000:])
        return res
    out = r.stdout
    closed = out.count("Closed under the global context")
    axioms = re.findall(r"^Axioms:\n((?:.+\n)+)", out, re.M)
    res["open_assumptions"] = axioms
    res["discharged"] = min(closed, len(thms)) if not axioms else 0
    if closed < len(prints):
        res["errors"].append("only %d of %d Print Assumptions are closed" % (closed, len(prints)))
    return res


# ---------------------------------------------------------------- reporting

def write_json(path, obj):
    os.makedirs(os.path.dirname(path), exist_ok=True)
    tmp = path + ".tmp"
    with open(tmp, "w") as f:
        json.dump(obj, f, indent=1, ensure_ascii=False)
        f.write("\n")
    os.replace(tmp, path)


def known_findings():
    """-> (known: list of dict(property, cls, text), fixed: list)"""
    known, fixed = [], []
    p = os.path.join(VERIF, "known-findings.txt")
    if os.path.exists(p):
        for line in open(p):
            line = line.strip()
            if line.startswith("known:"):
                m = re.match(r"known:\s+property=(\S+)\s+class=(\S+)\s+(.*)", line)
                known.append({"property": m.group(1), "cls": m.group(2), "text": m.group(3)})
            elif line.startswith("fixed:"):
                fixed.append(line)
    return known, fixed
