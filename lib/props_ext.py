"""Checks of C07, C08, C09, C11, C12, C13, C14, C18, C19, C20: generators and
oracles evaluated on the implementation's own traces (hand-written, unverified:
trusted base, DESIGN.md section 11)."""

import os
import re

import engine
import gen
import gen_join
from engine import History, parse_snapshot, split_line, present, data_bytes
from props import Prop, Walk, CORE_OPS, REGISTRY, final_key, slot, text_hex, hex_text, BLANK
from props_core import SpecProp, latent_ok, spec_parse

# ------------------------------------------------------------------ helpers

SAFE_LABELS = [l for l in gen.LABEL_POOL]          # none of them needs XML escaping


def label_text(l):
    if l[0] == "G":
        return chr(int(l[1:], 16))
    if l[0] == "A":
        return "α" + l[1:]
    return "".join(chr(int(x, 16)) for x in l[1:].split(".") if int(x, 16) != 0x20)


def label_key(l):
    """derived Ord of the Label enum: variant, then payload"""
    if l[0] == "G":
        return (0, int(l[1:], 16))
    if l[0] == "A":
        return (1, int(l[1:]))
    return (2, tuple(int(x, 16) for x in l[1:].split(".")))


def print_hex(d):
    bs = bytes.fromhex(data_bytes(d))
    return "-".join("%02X" % b for b in bs) if bs else "--"


def snap_graph(snap):
    """present vertices -> (ordered edges, data repr or None)"""
    g = {}
    for v, x in snap["V"].items():
        if x is not None and x["branch"] != 0:
            g[v] = (list(x["edges"]), None if x["pers"] == "E" else x["data"])
    return g


def all_edges(snap, v):
    x = snap["V"].get(v)
    return list(x["edges"]) if x else []


def reach(snap, v, accept=lambda a, b, l: True):
    seen, todo = {v}, [v]
    while todo:
        u = todo.pop()
        for l, w in all_edges(snap, u):
            if w not in seen and accept(u, w, l):
                seen.add(w)
                todo.append(w)
    return seen


def build_graph(rng, hd, cap, n, k, m, stale=False, data=True, tree=False, ids=None, labels=None, dangling=False, many_groups=False,
                crowd=False):
    """ops that build a random digraph (cycles, shared targets, parallel edges)
    on handle hd inside the limits; returns (ops, vertices)"""
    labels = labels or SAFE_LABELS
    ops = []
    if ids is None:
        pool = list(range(cap))
        ids = []
        for _ in range(min(k, cap)):
            ids.append(pool.pop(rng.below(len(pool))))
    if stale and cap - len(ids) >= 2:
        rest = [v for v in range(cap) if v not in ids]
        a, b = rest[0], rest[1]
        ops += ["ADD %s %d" % (hd, a), "ADD %s %d" % (hd, b), "BIND %s %d %d %s" % (hd, a, b, gen.lab_alpha(9)),
                "PUT %s %d V0a0b" % (hd, b), "DATA %s %d" % (hd, b)]
    if stale and len(ids) >= 2 and rng.chance(1, 2):
        # a past life of two of the vertices themselves: edges but no data on the first one, then collected;
        # the ADD loop below re-adds them (a recycled slot must come back blank)
        a, b = ids[0], ids[1]
        past = rng.pick(["V0c", "V", "B0000000000000000:0", "Bffffffffffffffff:0", "V" + "ab" * 20])   # also zero-length data
        ops += ["ADD %s %d" % (hd, a), "ADD %s %d" % (hd, b), "BIND %s %d %d %s" % (hd, a, b, gen.lab_alpha(8)),
                "BIND %s %d %d %s" % (hd, b, a, gen.lab_greek(0x3c3)), "PUT %s %d %s" % (hd, b, past), "DATA %s %d" % (hd, b)]
    if many_groups and cap - len(ids) >= 30:
        # exactly 14 groups alive (the documented limit): 13 bystander pairs, the graph proper forms at most one more
        rest = [v for v in range(cap) if v not in ids]
        for j in range(13):
            a, b = rest[2 * j], rest[2 * j + 1]
            ops += ["ADD %s %d" % (hd, a), "ADD %s %d" % (hd, b), "BIND %s %d %d %s" % (hd, a, b, gen.lab_alpha(1))]
            if rng.chance(1, 3):
                ops.append("PUT %s %d %s" % (hd, b, gen.gen_data(rng)))
    if crowd and cap - len(ids) >= 320 and not os.environ.get("VERIF_NO_W9"):
        # more than 255 present vertices in all (bystanders without edges, a few with data)
        rest = [v for v in range(cap) if v not in ids][40:]
        for j, v in enumerate(rest[:rng.pick([250, 256, 270])]):
            ops.append("ADD %s %d" % (hd, v))
            if j % 97 == 5:
                ops.append("PUT %s %d %s" % (hd, v, gen.gen_data(rng)))
    for v in ids:
        ops.append("ADD %s %d" % (hd, v))
    used = {v: [] for v in ids}
    if tree:
        for i, v in enumerate(ids[1:], 1):
            p = ids[rng.below(i)]
            free = [l for l in labels if l not in used[p]]
            if len(used[p]) >= n or not free:
                continue
            a = rng.pick(free)
            used[p].append(a)
            ops.append("BIND %s %d %d %s" % (hd, p, v, a))
    elif len(ids) >= 2:
        if many_groups:
            # the graph proper must be ONE group (13 bystander groups are alive): a spanning path first
            for a_, b_ in zip(ids, ids[1:]):
                lab = rng.pick(labels)
                used[a_].append(lab)
                ops.append("BIND %s %d %d %s" % (hd, a_, b_, lab))
        for _ in range(m):
            v1 = rng.pick(ids)
            v2 = rng.pick([x for x in ids if x != v1])
            if used[v1] and (len(used[v1]) >= n or rng.chance(1, 6)):
                a = rng.pick(used[v1])
            else:
                free = [l for l in labels if l not in used[v1]]
                if not free:
                    continue
                a = rng.pick(free)
                used[v1].append(a)
            ops.append("BIND %s %d %d %s" % (hd, v1, v2, a))
    if data:
        isolated = [v for v in ids if not any(o.split()[0] == "BIND" and str(v) in o.split()[2:4] for o in ops)]
        for v in ids:
            if rng.chance(1, 3):
                ops.append("PUT %s %d %s" % (hd, v, gen.gen_data(rng)))
                # a datum that has been read and survives: ungrouped vertices never die; a grouped one survives while
                # another member holds unread data (put one there first)
                if v in isolated and rng.chance(1, 2):
                    ops.append("DATA %s %d" % (hd, v))
                elif v not in isolated and rng.chance(1, 4):
                    mates = [int(o.split()[3]) if int(o.split()[2]) == v else int(o.split()[2])
                             for o in ops if o.split()[0] == "BIND" and str(v) in o.split()[2:4]]
                    if mates:
                        ops.append("PUT %s %d %s" % (hd, mates[0], gen.gen_data(rng)))
                        ops.append("DATA %s %d" % (hd, v))
    if dangling and not many_groups and len(ids) >= 2 and cap - len(ids) >= 4:
        # an edge from a present vertex to a vertex whose group has been collected since
        grouped = [v for v in ids if any(o.split()[0] == "BIND" and str(v) in o.split()[2:4] for o in ops)]
        rest = [v for v in range(cap) if v not in ids][2:]
        if grouped and len(rest) >= 2:
            v, x, y = rng.pick(grouped), rest[0], rest[1]
            free = [l for l in labels if l not in used[v]]
            if free and len(used[v]) < n:
                ops += ["ADD %s %d" % (hd, x), "ADD %s %d" % (hd, y), "BIND %s %d %d %s" % (hd, x, y, gen.lab_alpha(3)),
                        "BIND %s %d %d %s" % (hd, v, x, free[0]), "PUT %s %d V0e" % (hd, y), "DATA %s %d" % (hd, y)]
    return ops, ids


# ------------------------------------------------------------------ C18

class C18(Prop):
    pid = "C18"
    shrink_ok = False
    ops = CORE_OPS | {"XML", "DOT"}
    rule = ("random digraphs of up to 10 vertices (all label variants, no character that needs XML escaping, data in both "
            "representations, stale slots left behind by a collected group, never-added slots) exported with to_xml()/to_dot(); "
            "the text is parsed back and compared with the implementation's own snapshot: one node per present vertex in "
            "ascending order, none for absent ids, one entry per edge in label order, the data bytes of every vertex with data. "
            "Each graph is built a second time in a different call order, with another capacity and the other data "
            "representation, and both texts must be equal.  Non-trivial = a graph with at least one edge and one datum and one "
            "absent slot; distinct = distinct XML text")

    def generate(self, rng, tier):
        n = 400 if tier == "quick" else 30000
        hs = []
        for i in range(n):
            r = rng.fork()
            N = r.pick([2, 4, 16])
            cap = r.pick([6, 12, 20, 256, 600])
            k = 1 + r.below(min(10, cap - 2))
            ops1, ids = build_graph(r, "g", cap, N, k, r.below(2 * k + 1), stale=r.chance(1, 2), dangling=r.chance(1, 3),
                                    many_groups=(cap == 256 and r.chance(1, 2)), crowd=(cap == 600 and r.chance(1, 4)))
            ops = ["NEW g %d" % cap] + ops1
            # the same content again: other capacity, shuffled order, other representation of the data.
            # The content of g is computed by the steering tracker (present set, last edge per label, last datum);
            # graphs with an edge into a collected vertex cannot be rebuilt through the interface and are exported once only
            cap2 = cap + r.below(5)
            t = gen.Tracker(N, cap)
            for o in ops1:
                gen.apply_op(t, o)
            pres = sorted(t.present)
            dangling = any(w not in t.present for v in pres for w in t.edges.get(v, {}).values())
            ops2 = []
            if not dangling and not t.out_of_limits:
                adds2 = list(pres)
                for j in range(len(adds2) - 1, 0, -1):
                    jj = r.below(j + 1)
                    adds2[j], adds2[jj] = adds2[jj], adds2[j]
                b2 = [(v, w, a) for v in pres for a, w in t.edges.get(v, {}).items()]
                for j in range(len(b2) - 1, 0, -1):
                    jj = r.below(j + 1)
                    b2[j], b2[jj] = b2[jj], b2[j]
                if cap == 256:
                    # near the group limit (13 bystander groups): every connected component must become ONE group again, so
                    # its edges are bound in an order in which each bind touches the part already built
                    done, rest, b3 = set(), list(b2), []
                    while rest:
                        k = next((j for j, (v, w, a) in enumerate(rest) if v in done or w in done), None)
                        if k is None:
                            k = 0
                        v, w, a = rest.pop(k)
                        b3.append((v, w, a))
                        done.update((v, w))
                        # finish this component before starting the next one
                        while True:
                            k = next((j for j, (v2, w2, a2) in enumerate(rest) if v2 in done or w2 in done), None)
                            if k is None:
                                break
                            v2, w2, a2 = rest.pop(k)
                            b3.append((v2, w2, a2))
                            done.update((v2, w2))
                        done = set()
                    b2 = b3
                ops2 = ["NEW h %d" % cap2] + ["ADD h %d" % v for v in adds2] + ["BIND h %d %d %s" % e for e in b2]
                for v in pres:
                    d = t.datum.get(v)
                    if d is None:
                        continue
                    bs = bytes.fromhex(data_bytes(d))
                    other = ("V" + bs.hex()) if d.startswith("B") else (
                        "B%s:%d" % ((bs + bytes(0xA0 + x for x in range(8 - len(bs)))).hex(), len(bs)) if len(bs) <= 8 else d)
                    ops2.append("PUT h %d %s" % (v, other))
                ops2 += ["SNAP h", "XML h", "DOT h"]
            ops += ["SNAP g", "XML g", "DOT g"] + ops2
            hs.append(History("c18-%d" % i, N, ops, {"stale": True}))
        return hs

    @staticmethod
    def parse_xml(txt):
        return engine.canon_xml(txt) or []

    @staticmethod
    def parse_dot(txt):
        return engine.canon_dot(txt) or []

    def check_doc(self, kind, nodes, snap, i):
        g = snap_graph(snap)
        if [v for v, _, _ in nodes] != sorted(g):
            return {"reason": "%s lists nodes %s, present vertices are %s" % (kind, [v for v, _, _ in nodes], sorted(g)),
                    "index": i, "expected": str(sorted(g)), "observed": str([v for v, _, _ in nodes])}
        for v, edges, d in nodes:
            want = [(label_text(l), w) for l, w in sorted(g[v][0], key=lambda e: label_key(e[0]))]
            if edges != want:
                return {"reason": "%s: edges of vertex %d are %s, expected (label order) %s" % (kind, v, edges, want),
                        "index": i, "expected": str(want), "observed": str(edges)}
            wd = None if g[v][1] is None else print_hex(g[v][1])
            if kind == "to_xml" and wd is not None:
                wd = " ".join(wd.replace("-", " ").split())       # the parser normalises white space inside <data>
            if d != wd:
                return {"reason": "%s: data of vertex %d is %r, expected %r" % (kind, v, d, wd), "index": i,
                        "expected": str(wd), "observed": str(d)}
        return None

    def oracle(self, h, il):
        texts = {}
        for i, t, res, before, after in Walk(h, il):
            if t[0] in ("XML", "DOT") and res not in ("PANIC", "err"):
                snap = after.get(t[1])
                if snap is None:
                    continue
                txt = hex_text(res)
                if t[0] == "XML":
                    f = self.check_doc("to_xml", self.parse_xml(txt), snap, i)
                else:
                    f = self.check_doc("to_dot", self.parse_dot(txt), snap, i)
                if f:
                    return f
                texts[(t[0], t[1])] = (txt, i)
        for k in ("XML", "DOT"):
            if (k, "g") in texts and (k, "h") in texts and texts[(k, "g")][0] != texts[(k, "h")][0]:
                return {"reason": "two graphs with the same vertices, edges and data give different %s text" % k,
                        "index": texts[(k, "h")][1], "expected": texts[(k, "g")][0][:600], "observed": texts[(k, "h")][0][:600]}
        return None

    def nontrivial(self, h, il):
        for op, l in zip(h.ops, il):
            if op == "XML g" and "<e " in hex_text(l.split(" -> ", 1)[1]) and "<data>" in hex_text(l.split(" -> ", 1)[1]):
                return l
        return None


# ------------------------------------------------------------------ C20

def deep_path_history(rng, hid):
    """a simple path much longer than a group: segments of up to 16 vertices (one group each) chained by an edge between
    two vertices that are already grouped (which unites nothing), so the walk of inspect() nests 17..60 levels deep;
    a few side branches and a back edge to the start"""
    seg = rng.pick([5, 8, 12, 16])
    L = rng.pick([17, 18, 19, 20, 24, 33, 48, 60])
    L = min(L, seg * 13)
    if L % seg == 1:
        L += 1            # a last segment of one vertex would join the previous (possibly full) group
    cap = rng.pick([L + 2, 64, 256]) if L + 2 <= 64 else 256
    N = rng.pick([2, 4, 16])
    ops = ["NEW g %d" % cap] + ["ADD g %d" % v for v in range(L)]
    starts = list(range(0, L, seg))
    for s0 in starts:
        for v in range(s0, min(s0 + seg, L) - 1):
            ops.append("BIND g %d %d %s" % (v, v + 1, gen.lab_alpha(v % 3)))
    for s0 in starts[1:]:
        ops.append("BIND g %d %d %s" % (s0 - 1, s0, gen.lab_alpha(7)))        # both ends grouped: no group changes
    if rng.chance(1, 2):
        ops.append("BIND g %d 0 %s" % (L - 1, gen.lab_alpha(8)))          # back edge: a cycle through everything
    if rng.chance(1, 2):
        ops.append("PUT g %d %s" % (L - 1, gen.gen_data(rng)))
    ops += ["SNAP g", "DEBUG g", "INSPECT g 0", "VPRINT g 0", "INSPECT g %d" % (L // 2), "INSPECT g %d" % (L - 1)]
    return History(hid, N, ops)


class C20(Prop):
    pid = "C20"
    ops = CORE_OPS | {"INSPECT", "DEBUG", "VPRINT"}
    rule = ("random digraphs of up to 12 vertices with cycles, shared targets, parallel edges and self-reachable start "
            "vertices; inspect(v) from every present vertex (a process time-out counts as non-termination), Debug/Display and "
            "v_print(v) for every vertex; the printed lines are parsed back and compared with the implementation's own "
            "snapshot: every edge of every vertex reachable from v exactly once, exactly the present vertices with all edges "
            "and data, the data marker iff the vertex has data, where \"has data\" is also derived from the calls themselves (a put "
            "since the vertex was last created; recycled slots with zero-length data in their past).  Non-trivial = a graph with "
            "a cycle reachable from the start; "
            "distinct = distinct inspect text")

    def generate(self, rng, tier):
        n = 500 if tier == "quick" else 40000
        hs = []
        for i in range(n):
            r = rng.fork()
            N = r.pick([1, 2, 4, 16])
            cap = r.pick([4, 8, 14, 30, 256, 600])
            k = 1 + r.below(min(12, cap))
            ops1, ids = build_graph(r, "g", cap, N, k, r.below(3 * k + 1), stale=r.chance(1, 3), dangling=r.chance(1, 3),
                                    many_groups=(cap == 256 and r.chance(1, 2)), crowd=(cap == 600 and r.chance(1, 4)))
            ops = ["NEW g %d" % cap] + ops1 + ["SNAP g", "DEBUG g"]
            for v in ids:
                ops += ["INSPECT g %d" % v, "VPRINT g %d" % v]
            hs.append(History("c20-%d" % i, N, ops))
        for i in range(0 if os.environ.get("VERIF_NO_W8") else n // 12):
            hs.append(deep_path_history(rng.fork(), "c20-deep%d" % i))
        return hs

    def check_inspect(self, txt, snap, v, i):
        doc = engine.canon_inspect(txt)
        if doc is None or doc[0] != v:
            return {"reason": "inspect(%d) is not a listing that starts with ν%d" % (v, v), "index": i, "expected": "ν%d" % v,
                    "observed": txt[:200]}
        listed = []
        stack = [v]          # stack[d] = vertex whose edges are listed at depth d
        for d, lab, tgt, _ in doc[1]:
            if d >= len(stack):
                return {"reason": "inspect line nested deeper than its parent: %s ➞ ν%d" % (lab, tgt), "index": i, "expected": "",
                        "observed": txt[:300]}
            stack = stack[: d + 1]
            listed.append((stack[d], lab, tgt))
            stack.append(tgt)
        # required: every edge of every present vertex reachable through present vertices, exactly once;
        # tolerated in addition: edges stored in absent (collected) slots that the walk passes through (the code follows
        # stored edges whatever the tags; the property speaks about vertices, i.e. present ones), each at most once
        pres = set(present(snap))
        rs_all = reach(snap, v)
        rs_pres = reach(snap, v, lambda a, b, l: a in pres)
        rs_pres = {u for u in rs_pres if u in pres}
        want = sorted((u, label_text(l), w) for u in rs_pres for l, w in all_edges(snap, u))
        extra_ok = sorted((u, label_text(l), w) for u in rs_all - rs_pres for l, w in all_edges(snap, u))
        got = sorted(listed)
        rest = list(got)
        for e in want:
            if e in rest:
                rest.remove(e)
            else:
                return {"reason": "inspect(%d) does not list edge %s of a reachable vertex" % (v, e), "index": i,
                        "expected": str(want)[:600], "observed": str(got)[:600]}
        allowed = list(extra_ok)
        for e in rest:
            if e in allowed:
                allowed.remove(e)
            else:
                return {"reason": "inspect(%d) lists %s which is a repetition or not an edge of a reachable vertex" % (v, e),
                        "index": i, "expected": str(want)[:600], "observed": str(got)[:600]}
        return None

    def oracle(self, h, il):
        hasdata = {}     # "v has data" from the calls themselves: a put() since v was last created
        for i, t, res, before, after in Walk(h, il):
            snap = after.get(t[1]) if len(t) > 1 else None
            if t[0] == "ADD" and res == "ok" and t[1] == "g":
                s0 = before.get("g")
                if s0 is not None and slot(s0, int(t[2]))["branch"] == 0:
                    hasdata[int(t[2])] = False
            elif t[0] == "PUT" and res == "ok" and t[1] == "g":
                hasdata[int(t[2])] = True
            if snap is None or res in ("PANIC", "err"):
                if t[0] in ("INSPECT", "DEBUG", "VPRINT") and res == "PANIC":
                    return {"reason": "%s panicked" % t[0], "index": i, "expected": "a listing", "observed": "PANIC"}
                continue
            if t[0] in ("INSPECT", "VPRINT") and slot(snap, int(t[2]))["branch"] == 0:
                continue       # the property is about present start vertices
            if t[0] in ("VPRINT", "DEBUG") and t[1] == "g":
                for v in present(snap):
                    if v in hasdata and hasdata[v] != (slot(snap, v)["pers"] != "E"):
                        return {"reason": "vertex %d %s according to the calls made, the printed state says the opposite"
                                          % (v, "has data" if hasdata[v] else "has no data (nothing was put since it was created)"),
                                "index": i, "expected": "marker iff data", "observed": il[i][:300]}
            if t[0] == "INSPECT":
                f = self.check_inspect(hex_text(res), snap, int(t[2]), i)
                if f:
                    return f
            elif t[0] == "VPRINT":
                v = int(t[2])
                x = snap["V"].get(v) or {"pers": "E", "edges": []}
                want = "ν%d⟦%s%s⟧" % (v, "" if x["pers"] == "E" else "Δ, ",
                                                      ", ".join(label_text(l) for l, _ in x["edges"]))
                if hex_text(res) != want:
                    return {"reason": "v_print(%d) shows %r" % (v, hex_text(res)), "index": i, "expected": want, "observed": hex_text(res)}
            elif t[0] == "DEBUG":
                txt = hex_text(res)
                g = snap_graph(snap)
                vs = []
                for v, inner in engine.canon_debug(txt):
                    s = "ν%d -> ⟦%s⟧" % (v, inner)
                    m = re.match(r"ν(\d+) -> ⟦(.*)⟧$", s, re.S)
                    vs.append(v)
                    if v not in g:
                        return {"reason": "Debug lists vertex %d which is absent" % v, "index": i, "expected": str(sorted(g)), "observed": s[:200]}
                    attrs = ["\n\t%s ➞ ν%d" % (label_text(l), w) for l, w in g[v][0]]
                    if g[v][1] is not None:
                        attrs.append(print_hex(g[v][1]))
                    if m.group(2) != ", ".join(attrs):
                        return {"reason": "Debug shows vertex %d as %r" % (v, m.group(2)), "index": i,
                                "expected": ", ".join(attrs), "observed": m.group(2)}
                if vs != sorted(g):
                    return {"reason": "Debug lists vertices %s, present are %s" % (vs, sorted(g)), "index": i,
                            "expected": str(sorted(g)), "observed": str(vs)}
        return None

    def nontrivial(self, h, il):
        keys = set()
        for op, l in zip(h.ops, il):
            if op.startswith("INSPECT") and "e280a6" in l:      # an ellipsis: something was reached twice
                keys.add(l)
        return keys


# ------------------------------------------------------------------ C13

def dense_slice_history(rng, hid):
    """dense reachable parts: the complete acyclic graph (or the complete digraph) on 6..14 vertices, edges stored in
    descending, ascending or random target order – every vertex is met again and again during the walk"""
    k = rng.pick([6, 8, 10, 12, 14])
    cap = rng.pick([k, 16, 64])
    ids = list(range(k)) if rng.chance(1, 2) else sorted(rng.below(cap) for _ in range(0))
    if not ids:
        pool = list(range(cap))
        ids = sorted(pool.pop(rng.below(len(pool))) for _ in range(k))
    order = rng.below(3)
    full = rng.chance(1, 4)
    ops = ["NEW g %d" % cap] + ["ADD g %d" % v for v in ids]
    for i, v in enumerate(ids):
        tg = [w for j, w in enumerate(ids) if (j > i or (full and j != i))]
        if order == 0:
            tg = tg[::-1]
        elif order == 2:
            tg = [tg.pop(rng.below(len(tg))) for _ in range(len(tg))]
        for w in tg:
            ops.append("BIND g %d %d %s" % (v, w, gen.lab_alpha(ids.index(w))))
    ops.append("SNAP g")
    for j, v in enumerate([ids[0], ids[1], ids[k // 2]]):
        ops += ["SLICE g %d s%d" % (v, j), "SNAP g"]
    ops += ["SLICE g %d s3 %d:%d:%s" % (ids[0], ids[0], ids[1], gen.lab_alpha(1)), "SNAP g"]
    return History(hid, 16, ops)


def slice_after_join_history(rng, hid):
    """the source went through a merge() that unified two of its vertices (a right graph with one kid under two names:
    not a tree, outside merge()'s contract; covered by the extended model XJoin.v): the store has a vacant slot from then
    on.  The slice oracle needs the implementation's snapshots only; the comparison with the model goes on past the merge."""
    cap = rng.pick([16, 32])
    n = 3 + rng.below(5)
    ops = ["NEW g %d" % cap] + ["ADD g %d" % v for v in range(n)]
    ops += ["BIND g 0 1 %s" % gen.lab_alpha(0), "BIND g 0 2 %s" % gen.lab_alpha(1)]
    for v in range(3, n):
        ops.append("BIND g %d %d %s" % (rng.pick([1, 2] + list(range(2, v))), v, gen.lab_alpha(v)))
    ops += ["NEW r %d" % cap, "ADD r 0", "ADD r 5", "BIND r 0 5 %s" % gen.lab_alpha(0), "BIND r 0 5 %s" % gen.lab_alpha(1),
            "MERGE g r 0 0", "KEYS g", "SNAP g"]
    for j, v in enumerate([0, 2] + [rng.below(n) for _ in range(3)]):
        if v != 1:
            ops += ["SLICE g %d s%d" % (v, j), "SNAP g"]
    return History(hid, 16, ops, {"join": True})


class C13(Prop):
    pid = "C13"
    # "for every reachable graph and start vertex v such that everything reachable from v is present and numbers at most
    # 14 vertices": the text limits the sliced part, not the source.  The oracle (slice vs reachability on the
    # implementation's own snapshot) therefore also judges sources with more groups than the crate can hold (a pair
    # bound while all 14 slots are taken stays ungrouped, with its edge); the comparison with the model stops at the limit.
    oracle_beyond_limits = True
    ops = CORE_OPS | {"SLICE"}
    rule = ("random digraphs of up to 14 vertices (cycles, shared targets, parallel edges, no self loops, every reachable "
            "vertex present) sliced from random start vertices with slice() and with slice_some() under random rejected-edge "
            "sets (incl. an edge rejected on one path while its target is reached on another); oracle recomputes reachability "
            "over accepted edges from the source snapshot: the slice's present vertices are exactly the reachable ones under "
            "their ids, its edges are exactly the source edges between kept vertices in the same order, the source snapshot is "
            "unchanged, the call returns (time-out = non-termination); half of the plain slices are sliced once more from the "
            "same vertex and judged the same way.  Non-trivial = the reachable part contains a cycle or a "
            "rejected edge matters; distinct = distinct slice state")

    def generate(self, rng, tier):
        n = 600 if tier == "quick" else 40000
        hs = []
        for i in range(n):
            r = rng.fork()
            N = r.pick([2, 3, 4, 16])
            cap = r.pick([5, 9, 14, 20, 64, 200, 256, 600])
            k = 1 + r.below(min(14, cap))
            ops1, ids = build_graph(r, "g", cap, N, k, r.below(3 * k + 1), stale=False, data=r.chance(1, 2),
                                    many_groups=(cap >= 64 and r.chance(1, 3)), crowd=(cap == 600 and r.chance(1, 4)))
            ops = ["NEW g %d" % cap] + ops1 + ["SNAP g"]
            edges = [(o.split()[2], o.split()[3], o.split()[4]) for o in ops1 if o.startswith("BIND")]
            for j in range(3):
                v = r.pick(ids)
                if j == 0 or not edges:
                    ops.append("SLICE g %d s%d" % (v, j))
                    if r.chance(1, 2) and not os.environ.get("VERIF_NO_W12"):
                        ops.append("SLICE s%d %d t%d" % (j, v, j))        # a slice of the slice (C13_slice_of_slice)
                else:
                    rej = set()
                    for _ in range(1 + r.below(3)):
                        rej.add(r.pick(edges))
                    ops.append("SLICE g %d s%d %s" % (v, j, " ".join("%s:%s:%s" % e for e in sorted(rej))))
                ops.append("SNAP g")
            hs.append(History("c13-%d" % i, N, ops))
        for i in range(30 if tier == "quick" else 1500):
            hs.append(slice_after_join_history(rng.fork(), "c13-join%d" % i))
        for i in range(0 if os.environ.get("VERIF_NO_W8") else 40 if tier == "quick" else 1500):
            hs.append(dense_slice_history(rng.fork(), "c13-dense%d" % i))
        for i in range(30 if tier == "quick" else 1000):
            # all 14 group slots taken, then the part to be sliced is bound (its vertices stay ungrouped, with their edges)
            r = rng.fork()
            ops = ["NEW g 64"]
            for b in range(14):
                ops += ["ADD g %d" % (2 * b), "ADD g %d" % (2 * b + 1), "BIND g %d %d %s" % (2 * b, 2 * b + 1, gen.lab_alpha(0))]
            k = 2 + r.below(5)
            ids = list(range(40, 40 + k))
            ops += ["ADD g %d" % v for v in ids]
            for j in range(1, k):
                ops.append("BIND g %d %d %s" % (ids[r.below(j)], ids[j], gen.lab_alpha(j)))
            if r.chance(1, 2):
                ops.append("BIND g %d %d %s" % (ids[-1], ids[0], gen.lab_alpha(9)))
            ops.append("SNAP g")
            for j, v in enumerate([ids[0], r.pick(ids), 0]):
                ops += ["SLICE g %d s%d" % (v, j), "SNAP g"]
            hs.append(History("c13-over%d" % i, 16, ops))
        return hs

    def oracle(self, h, il):
        src0 = None
        for i, t, res, before, after in Walk(h, il):
            if t[0] == "SNAP" and t[1] == "g":
                if src0 is None:
                    src0 = after.get("g")
                elif after.get("g") != src0:
                    return {"reason": "slice changed the source graph", "index": i, "expected": "source unchanged", "observed": il[i][:500]}
            if t[0] != "SLICE":
                continue
            if res != "ok":
                return {"reason": "slice returned %s on a graph whose reachable part is present and has at most 14 vertices" % res,
                        "index": i, "expected": "ok", "observed": res}
            src, ng = before.get(t[1]), after.get(t[3])
            if src is None or ng is None:
                continue
            rej = set()
            for r in t[4:]:
                a, b, l = r.split(":", 2)
                rej.add((int(a), int(b), l))
            rs = reach(src, int(t[2]), lambda a, b, l: (a, b, l) not in rej)
            if set(present(ng)) != rs:
                return {"reason": "slice(%s) holds %s, reachable over accepted edges: %s" % (t[2], present(ng), sorted(rs)),
                        "index": i, "expected": str(sorted(rs)), "observed": str(present(ng))}
            for v in rs:
                want = [(l, w) for l, w in all_edges(src, v) if w in rs]
                got = all_edges(ng, v)
                if got != want:
                    return {"reason": "edges of %d in the slice are %s, source edges between kept vertices are %s" % (v, got, want),
                            "index": i, "expected": str(want), "observed": str(got)}
            if ng["cap"] != src["cap"]:
                return {"reason": "slice has capacity %d, source %d" % (ng["cap"], src["cap"]), "index": i,
                        "expected": str(src["cap"]), "observed": str(ng["cap"])}
            bad = latent_ok(ng)
            if bad:
                return {"reason": "latent state of the slice: " + bad, "index": i, "expected": "", "observed": il[i][:500]}
        return None

    def nontrivial(self, h, il):
        keys = set()
        for op, l in zip(h.ops, il):
            if op.startswith("SLICE") and len(op.split()) > 4:
                keys.add(l)
        return keys


# ------------------------------------------------------------------ C11 / C12

MERGE_DATA = ["V0102030405060708090a", "B0102000000000000:2", "V", "Vaabbccddeeff00112233445566", "B0807060504030201:8"]


def tree_ops(rng, hd, cap, n, size, labels, ids=None, data_p=(1, 2)):
    """ops building a random tree; returns (ops, root, ids, parent map)"""
    if ids is None:
        pool = list(range(cap))
        ids = [pool.pop(rng.below(len(pool))) for _ in range(size)]
    ops = ["ADD %s %d" % (hd, v) for v in ids]
    used = {v: [] for v in ids}
    kept = [ids[0]]
    for v in ids[1:]:
        p = rng.pick(kept)
        free = [l for l in labels if l not in used[p]]
        if len(used[p]) >= n or not free:
            continue          # stays an isolated vertex (callers decide whether that is wanted)
        a = rng.pick(free)
        used[p].append(a)
        kept.append(v)
        ops.append("BIND %s %d %d %s" % (hd, p, v, a))
    for v in ids:
        if rng.chance(*data_p):
            # a small pool of values, so that the two trees often carry identical bytes at corresponding vertices
            ops.append("PUT %s %d %s" % (hd, v, rng.pick(MERGE_DATA) if rng.chance(2, 3) else gen.gen_data(rng)))
    return ops, ids[0], kept, [v for v in ids if v not in kept]


MERGE_LABELS = [gen.lab_alpha(0), gen.lab_alpha(1), gen.lab_greek(0x3c1), gen.lab_str("foo")]


def merge_history(rng, hid, extras):
    N = rng.pick([4, 8, 16])
    cap = rng.pick([16, 24, 40])
    lsize, rsize = 1 + rng.below(5), 1 + rng.below(5)
    big = (not extras) and rng.chance(1, 12)
    if big:
        N, cap = 16, 64
    # half of the left graphs have a past: a group on low ids (with edges under the merge labels and data) that was
    # collected, so that the ids merge() obtains from next_id() are recycled slots with stale content
    stale, stale_ids = [], []
    if rng.chance(1, 2):
        a, b = 0, 1
        stale_ids = [a, b]
        stale = ["ADD g %d" % a, "ADD g %d" % b, "BIND g %d %d %s" % (a, b, rng.pick(MERGE_LABELS)),
                 "BIND g %d %d %s" % (b, a, rng.pick(MERGE_LABELS)), "PUT g %d V0a0b0c" % a, "PUT g %d V0d" % b,
                 "DATA g %d" % a, "DATA g %d" % b]
    pool = [v for v in range(cap) if v not in stale_ids]
    lids = [pool.pop(rng.below(len(pool))) for _ in range(lsize)]
    lops, lroot, lkept, liso = tree_ops(rng, "g", cap, N, lsize, MERGE_LABELS, ids=lids)
    lops = stale + lops
    if big:
        # a left tree with exactly 14 groups alive: 14 pairs bound first, then hung under a root (29 vertices)
        stale, stale_ids, liso = [], [], []
        root = 60
        lops = []
        for j in range(14):
            a, b = 2 * j, 2 * j + 1
            lops += ["ADD g %d" % a, "ADD g %d" % b, "BIND g %d %d %s" % (a, b, MERGE_LABELS[j % 4])]
        lops.append("ADD g %d" % root)
        for j in range(14):
            lops.append("BIND g %d %d %s" % (root, 2 * j, gen.lab_alpha(20 + j)))
        for v in (1, 4, 9):
            lops.append("PUT g %d %s" % (v, rng.pick(MERGE_DATA)))
        lkept = [root] + list(range(28))
    rops, rroot, rkept, riso = tree_ops(rng, "r", cap, N, rsize, MERGE_LABELS)
    ops = ["NEW g %d" % cap] + lops + ["NEW r %d" % cap] + rops
    # isolated left vertices are fine (the left graph need only be a tree below `left`);
    # isolated right vertices make the right graph "tree plus extras"
    if not extras:
        # drop the isolated right vertices by never adding them: rebuild r without them
        rops2 = [o for o in rops if not (o.split()[0] in ("ADD", "PUT") and int(o.split()[2]) in riso)]
        ops = ["NEW g %d" % cap] + lops + ["NEW r %d" % cap] + rops2
        riso = []
    else:
        k = rng.below(4)
        free = [v for v in range(cap) if v not in rkept and v not in riso]
        for j in range(k):
            if len(free) < 2:
                break
            a = free.pop(rng.below(len(free)))
            ops.append("ADD r %d" % a)
            riso.append(a)
            if rng.chance(1, 2):
                b = free.pop(rng.below(len(free)))
                ops += ["ADD r %d" % b, "BIND r %d %d %s" % (a, b, gen.lab_alpha(7))]
                riso.append(b)
            if rng.chance(1, 2):
                ops.append("PUT r %d %s" % (a, gen.gen_data(rng)))
                if rng.chance(1, 2) and not any(o.startswith("BIND r %d " % a) for o in ops):
                    ops.append("DATA r %d" % a)      # an isolated extra whose datum has already been read
    # a datum of the left tree that has been read already while its group lives on (another member still unread)
    with_data = [int(o.split()[2]) for o in lops if o.startswith("PUT")]
    grouped_with_data = [v for v in dict.fromkeys(with_data) if v in lkept]
    if not big and len(lkept) >= 2 and len(grouped_with_data) >= 2 and rng.chance(1, 2):       # (a small tree is one group)
        idx = ops.index("NEW r %d" % cap)
        ops.insert(idx, "DATA g %d" % rng.pick(grouped_with_data))
    # and one of the right tree: merge() must put it onto the left vertex as fresh, unread data all the same
    rwd = list(dict.fromkeys(int(o.split()[2]) for o in rops if o.startswith("PUT") and int(o.split()[2]) in rkept))
    if len(rkept) >= 2 and len(rwd) >= 2 and rng.chance(1, 2) and not os.environ.get("VERIF_NO_W10"):
        ops.append("DATA r %d" % rng.pick(rwd))
    left = rng.pick(lkept)
    right = rroot if (not extras or rng.chance(2, 3)) else rng.pick(rkept)
    twin = []
    if not extras:
        # the twin graph g2: a clone of g that receives the merge as explicit add/bind/put/next_id calls, in the
        # order merge() makes them (put, then per kid in edge order: descend or next_id+add+bind, depth first)
        t = gen.Tracker(N, cap)
        for o in ops:
            if o.startswith("NEW r"):
                break
            if o.split()[1] == "g":
                gen.apply_op(t, o)
        redges, rdata = {}, {}
        for o in rops:
            p = o.split()
            if p[0] == "BIND":
                redges.setdefault(int(p[2]), []).append((p[4], int(p[3])))
            elif p[0] == "PUT":
                rdata[int(p[2])] = p[3]
        calls = []

        def rec(lv, rv):
            if rv in rdata:
                calls.append("PUT g2 %d %s" % (lv, rdata[rv]))
                t.put(lv, rdata[rv])
            for a, to in redges.get(rv, []):
                if a in t.edges.get(lv, {}):
                    m = t.edges[lv][a]
                else:
                    m = t.next_id()
                    calls.append("NEXT g2")
                    calls.append("ADD g2 %d" % m)
                    t.add(m)
                    calls.append("BIND g2 %d %d %s" % (lv, m, a))
                    t.bind(lv, m, a)
                rec(m, to)

        rec(left, right)
        twin = ["CLONE g g2"] + calls + ["SNAP g2"]
    ops += ["SNAP g", "SNAP r"] + twin + ["MERGE g r %d %d" % (left, right), "SNAP r", "KEYS g"]
    # continuation of reads after the merge: every datum of the old left vertices, twice
    if not extras:
        # (only vertices that are still present according to the bookkeeping of the twin: a read may collect others)
        for v in lkept + liso + lkept[:3]:
            if v in t.present:
                ops += ["DATA g %d" % v, "DATA g2 %d" % v]
                t.data(v)
        ops += ["KEYS g", "KEYS g2"]
    meta = {"left": left, "right": right, "extras": bool(riso), "cap": cap, "twin": bool(twin)}
    return History(hid, N, ops, meta)


def add_reads(h, il_probe=None):
    return h


def dag_merge_history(rng, hid):
    """a right graph in which one vertex is reached along two paths (not a tree: outside merge()'s documented contract and
    outside every theorem; when the two paths end on different left vertices merge() calls join(), which the extended
    model XJoin.v covers).  Correspondence only: it executes the `mapped.get(to)` arm of merge_rec(), which no tree reaches."""
    cap = rng.pick([16, 24])
    labs = [gen.lab_alpha(i) for i in range(6)]
    a, b, c, d = rng.pick(labs[:2]), rng.pick(labs[2:4]), labs[4], rng.pick([labs[4], labs[5]])
    ops = ["NEW g %d" % cap, "ADD g 0"]
    if rng.chance(1, 2):
        ops += ["ADD g 7", "BIND g 0 7 %s" % a]
        if rng.chance(1, 3):
            ops += ["ADD g 8", "BIND g 7 8 %s" % c]
            if rng.chance(1, 2):
                # the left graph has both paths, ending on different vertices: merge() unifies them (join(), XJoin.v)
                ops += ["ADD g 9", "BIND g 0 9 %s" % b, "ADD g 10", "BIND g 9 10 %s" % d]
    ops += ["NEW r %d" % cap, "ADD r 0", "ADD r 1", "ADD r 2", "ADD r 3", "BIND r 0 1 %s" % a, "BIND r 0 2 %s" % b,
            "BIND r 1 3 %s" % c, "BIND r 2 3 %s" % d]
    if rng.chance(1, 2):
        ops.append("PUT r 3 %s" % rng.pick(MERGE_DATA))
    if rng.chance(1, 3):
        ops += ["ADD r 4", "BIND r 3 4 %s" % labs[0]]
    ops += ["MERGE g r 0 0", "KEYS g", "KIDS g 0"]
    return History(hid, 16, ops, {"dag": True, "outside_contract": True})


class MergeProp(Prop):
    ops = CORE_OPS | {"MERGE"}

    def walk_merge(self, h, il):
        for i, t, res, before, after in Walk(h, il):
            if t[0] == "MERGE":
                yield i, t, res, before.get(t[1]), after.get(t[1]), before.get(t[2]), after.get(t[2])


class C12(MergeProp):
    pid = "C12"
    shrink_ok = False
    rule = ("right graphs made of a random tree of 1..5 vertices plus 0..3 extras (isolated present vertices with and "
            "without data, detached two-vertex sub-trees), random left trees, every choice of `left`, `right` = the root or an "
            "inner vertex of the tree; oracle: Ok only if every present vertex of the right graph is reachable from `right` and, "
            "after the merge, has a present image along its labelled path from `left`; "
            "otherwise Err whose message names exactly the present vertices that were not reached (ascending).  Non-trivial = "
            "the right graph has at least one unreachable present vertex; distinct = distinct (right graph, result)")

    def generate(self, rng, tier):
        n = 1500 if tier == "quick" else 80000
        hs = [merge_history(rng.fork(), "c12-%d" % i, extras=(i % 4 != 0)) for i in range(n)]
        hs += [dag_merge_history(rng.fork(), "c12-dag%d" % i) for i in range(40 if tier == "quick" else 2000)]
        # merges that call join() (right graph not a tree, the two paths end on different left vertices) and calls on
        # the vacant slot it leaves: correspondence with the extended model (XJoin.v) only, no claim of the property
        jx = gen_join.crafted_histories("c12-jx")
        jx += [gen_join.join_history(rng.fork(), "c12-join%d" % i) for i in range(400 if tier == "quick" else 20000)]
        for h in jx:
            h.meta["outside_contract"] = True
        hs += jx
        return hs

    def oracle(self, h, il):
        if h.meta.get("dag") or h.meta.get("outside_contract"):
            return None       # not a tree: no claim of this property
        for i, t, res, g0, g1, r0, r1 in self.walk_merge(h, il):
            if r0 is None or res == "PANIC":
                continue
            rs = reach(r0, int(t[4]))
            missed = sorted(set(present(r0)) - rs)
            if res == "ok" and missed:
                return {"reason": "merge() returned Ok although present vertices %s of the right graph were never reached" % missed,
                        "index": i, "expected": "err " + ",".join(map(str, missed)), "observed": res}
            closed = g0 is not None and all(slot(g0, w)["branch"] != 0 for u in present(g0) for _, w in slot(g0, u)["edges"])
            if res == "ok" and g1 is not None and closed and slot(g0, int(t[3]))["branch"] != 0:
                # "mapped onto a vertex of the left graph": the image of every right vertex (the end of its labelled
                # path from `left`) is a present vertex afterwards (MergePresent.v; the left graph must not have edges
                # into collected vertices, which a left tree of present vertices never has)
                todo, seen = [(int(t[4]), int(t[3]))], set()
                while todo:
                    rv, gv = todo.pop()
                    if rv in seen:
                        continue
                    seen.add(rv)
                    for lab, w in (r0["V"].get(rv) or BLANK)["edges"]:
                        tg = dict(slot(g1, gv)["edges"]).get(lab)
                        if tg is None or slot(g1, tg)["branch"] == 0:
                            return {"reason": "merge() returned Ok but right vertex %d (under %s of right vertex %d) has no present image "
                                              "in the left graph (image %s)" % (w, lab, rv, tg), "index": i,
                                    "expected": "a present vertex under that label of left vertex %d" % gv, "observed": il[i][:400]}
                        todo.append((w, tg))
            if res.startswith("err"):
                named = res[4:]
                if not missed:
                    return {"reason": "merge() returned Err although every present vertex of the right graph is reachable",
                            "index": i, "expected": "ok", "observed": res}
                if named != ",".join(map(str, missed)):
                    return {"reason": "merge() Err names %s, missed vertices are %s" % (named, missed), "index": i,
                            "expected": ",".join(map(str, missed)), "observed": named}
        return None

    def nontrivial(self, h, il):
        for l in il:
            if l.startswith("MERGE -> err"):
                return (tuple(h.ops), l.split(" | ")[0])
        return None


class C11(MergeProp):
    pid = "C11"
    shrink_ok = False
    rule = ("pairs of random trees (1..5 vertices each, labels from a 4-element pool so that paths overlap, data placed at "
            "random on both sides, arbitrary ids, every choice of `left`), then reads of every datum; oracle on the "
            "implementation's snapshots before/after: Ok; every labelled path of the right tree exists from `left` and ends on "
            "the same data bytes; distinct right vertices land on distinct left vertices; every old vertex and edge is still "
            "there; the number of new vertices equals the number of right paths the left graph lacked, each under an id that "
            "was absent; the right graph is unchanged; the latent GC state (counter == recount) holds after the merge and "
            "after every later read.  Non-trivial = at least one path grafted and one path shared; distinct = distinct result state")

    def generate(self, rng, tier):
        n = 1500 if tier == "quick" else 80000
        hs = []
        for i in range(n):
            hs.append(merge_history(rng.fork(), "c11-%d" % i, extras=False))
        return hs

    def oracle(self, h, il):
        for i, t, res, g0, g1, r0, r1 in self.walk_merge(h, il):
            if g0 is None or r0 is None:
                continue
            if r1 != r0:
                return {"reason": "merge changed the right graph", "index": i, "expected": "right graph unchanged", "observed": il[i][:300]}
            if res != "ok":
                return {"reason": "merge of two trees returned %s" % res, "index": i, "expected": "ok", "observed": res}
            left, right = int(t[3]), int(t[4])
            if slot(g0, left)["branch"] == 0 or slot(r0, right)["branch"] == 0:
                continue       # `left` / `right` must be present vertices of their trees: outside the quantifier, no claim
            # walk the right tree, mapping onto the merged left graph
            phi, new_needed = {right: left}, 0
            todo = [(right, left, left)]     # right vertex, image in g1, image in g0 (or None if the path was lacking)
            while todo:
                rv, gv, gv0 = todo.pop()
                rx = r0["V"][rv]
                if rx["pers"] != "E":
                    gx = g1["V"].get(gv)
                    if gx is None or gx["pers"] == "E" or data_bytes(gx["data"]) != data_bytes(rx["data"]):
                        return {"reason": "right vertex %d carries data %s, its image %d carries %s" % (
                            rv, rx["data"], gv, gx and gx["data"]), "index": i, "expected": rx["data"], "observed": str(gx and gx["data"])}
                for l, w in rx["edges"]:
                    tgt = dict(all_edges(g1, gv)).get(l)
                    if tgt is None or tgt not in g1["V"] or g1["V"][tgt] is None or g1["V"][tgt]["branch"] == 0:
                        return {"reason": "path of the right tree through label %s below %d is missing in the merged graph" % (l, rv),
                                "index": i, "expected": "edge %s from %d" % (l, gv), "observed": str(all_edges(g1, gv))}
                    tgt0 = dict(all_edges(g0, gv0)).get(l) if gv0 is not None and slot(g0, gv0)["branch"] != 0 else None
                    if tgt0 is None:
                        new_needed += 1
                        if slot(g0, tgt)["branch"] != 0:
                            return {"reason": "the vertex created for a lacking path got id %d which was present" % tgt, "index": i,
                                    "expected": "an absent id", "observed": str(tgt)}
                        wx, nx = r0["V"][w], g1["V"][tgt]
                        if [l2 for l2, _ in nx["edges"]] != [l2 for l2, _ in wx["edges"]] or (nx["pers"] == "E") != (wx["pers"] == "E"):
                            return {"reason": "the vertex %d created for right vertex %d carries edges/data the right tree does not demand" % (tgt, w),
                                    "index": i, "expected": "labels %s, data %s" % ([l2 for l2, _ in wx["edges"]], wx["pers"] != "E"),
                                    "observed": "labels %s, data %s" % ([l2 for l2, _ in nx["edges"]], nx["pers"] != "E")}
                    elif tgt0 != tgt:
                        return {"reason": "existing edge %s of %d was redirected from %d to %d" % (l, gv, tgt0, tgt), "index": i,
                                "expected": str(tgt0), "observed": str(tgt)}
                    if w in phi and phi[w] != tgt:
                        return {"reason": "right vertex %d mapped twice" % w, "index": i, "expected": "", "observed": ""}
                    phi[w] = tgt
                    todo.append((w, tgt, tgt0))
            if len(set(phi.values())) != len(phi):
                return {"reason": "distinct right vertices land on the same left vertex: %s" % phi, "index": i,
                        "expected": "injective", "observed": str(phi)}
            p0, p1 = set(present(g0)), set(present(g1))
            if not p0 <= p1:
                return {"reason": "merge removed vertices %s" % sorted(p0 - p1), "index": i, "expected": "", "observed": ""}
            if len(p1 - p0) != new_needed:
                return {"reason": "%d vertices were created, %d right paths were lacking" % (len(p1 - p0), new_needed), "index": i,
                        "expected": str(new_needed), "observed": str(len(p1 - p0))}
            images = set(phi.values())
            for v in p0:
                e0, e1 = all_edges(g0, v), all_edges(g1, v)
                if e1[: len(e0)] != e0:
                    return {"reason": "edges of old vertex %d changed from %s to %s" % (v, e0, e1), "index": i,
                            "expected": str(e0), "observed": str(e1)}
                if v not in images and g0["V"][v] != g1["V"][v] :
                    x0, x1 = dict(g0["V"][v]), dict(g1["V"][v])
                    x0.pop("branch"); x1.pop("branch")
                    if x0 != x1:
                        return {"reason": "vertex %d outside the image of the right tree changed" % v, "index": i,
                                "expected": str(x0), "observed": str(x1)}
            bad = latent_ok(g1)
            if bad:
                return {"reason": "latent state after merge: " + bad, "index": i, "expected": "", "observed": il[i][:400]}
        if h.meta.get("twin"):
            # merge() == the same add/bind/put/next_id calls made explicitly on a clone (state and all later answers)
            last = {}
            for i, t, res, before, after in Walk(h, il):
                if t[0] == "MERGE" and res == "ok":
                    a, b = after.get("g"), after.get("g2")
                    if a is not None and b is not None and engine.abs_state(a) != engine.abs_state(b):
                        return {"reason": "after merge() the graph differs from the graph that received the same additions through "
                                          "add/bind/put/next_id calls", "index": i,
                                "expected": str(b)[:700], "observed": str(a)[:700]}
                if t[0] in ("DATA", "KEYS") and t[1] == "g2" and i > 0:
                    prev = il[i - 1].split(" | ")[0].split(" -> ", 1)[1]
                    if prev != res and not (il[i - 1].endswith("PANIC") and res == "PANIC"):
                        return {"reason": "%s answers %s after merge() and %s on the twin built by explicit calls" % (
                            h.ops[i - 1], prev, res), "index": i - 1, "expected": res, "observed": prev}
        merged = False
        gone_ok = set()
        for i, t, res, before, after in Walk(h, il):
            if t[0] == "MERGE":
                merged = True
                continue
            if not merged or t[0] != "DATA" or t[1] != "g":
                continue
            s0 = before.get("g")
            if s0 is not None and slot(s0, int(t[2]))["branch"] == 0:
                break       # the vertex was collected by an earlier read: reading it again is outside the preconditions
            if res == "PANIC":
                return {"reason": "data(%s) panicked after the merge" % t[2], "index": i, "expected": "no panic", "observed": "PANIC"}
            s1 = after.get("g")
            if s1 is not None:
                bad = latent_ok(s1)
                if bad:
                    return {"reason": "latent state after a read that follows the merge: " + bad, "index": i,
                            "expected": "", "observed": il[i][:400]}
        if len(il) < len(h.ops) and merged and not any(l.startswith("MERGE -> ") and "PANIC" in l for l in il):
            pass
        return None

    def nontrivial(self, h, il):
        for op, l in zip(h.ops, il):
            if op.startswith("MERGE") and l.startswith("MERGE -> ok"):
                return l
        return None


# ------------------------------------------------------------------ C08 / C09

def reachable_graph_history(rng, hid, length=None, **kw):
    return gen.core_history(rng, hid, length=length or rng.pick([10, 25, 50]), observers=False,
                            weights={"put": 20, "data": 12, "bind": 30, "next": 4, "nextadd": 4}, **kw)


class C08(Prop):
    pid = "C08"
    strict_image = True      # the theorems are about this byte format
    shrink_ok = False
    ops = CORE_OPS | {"SAVE", "LOAD"}
    rule = ("graphs reached by random histories (groups with unread data, read and unread vertices, heap and inline data "
            "with non-zero padding, 2/3/4-byte label characters, collected slots) are saved and loaded; (i) the bytes written "
            "equal the model's encode (correspondence), (ii) the loaded graph's complete internal state equals the original's "
            "except the allocator position (0), (iii) the same random continuation (no next_id) is applied to both and must "
            "give identical answers and states call by call, (iv) next_id() on the loaded graph returns the lowest absent id, "
            "(v) in a third of the histories the reloaded graph, after that continuation, is saved and loaded again and the "
            "result once more: every generation must give back the graph that was saved (up to the allocator). "
            "Non-trivial = the continuation contains a collection; distinct = distinct image")

    def generate(self, rng, tier):
        n = 500 if tier == "quick" else 20000
        hs = []
        for i in range(n):
            r = rng.fork()
            if i % 6 == 5:
                h0 = gen.boundary_history(r, "c08-%d" % i)       # exactly 14 groups / 16 members / N labels at save time
            else:
                h0 = reachable_graph_history(r, "c08-%d" % i)
            ops = [o for o in h0.ops if not o.startswith(("KEYS", "KIDS", "KID "))]
            k = len(ops)
            ops += ["SAVE g img", "LOAD img h"]
            cont = gen.core_history(r.fork(), "x", n=h0.n, cap=h0.meta["cap"], length=r.pick([8, 20, 40]), observers=False,
                                    prefix=ops[1:k], weights={"next": 0, "nextadd": 0, "put": 18, "data": 26, "bind": 20})
            pairs = []
            for o in cont.ops[k:]:
                p = o.split()
                if p[0] in ("KEYS", "NEXT"):
                    continue
                ops.append(o)
                ops.append(" ".join([p[0], "h"] + p[2:]))
                pairs.append((len(ops) - 2, len(ops) - 1))
            ops += ["NEXT h", "KEYS g", "KEYS h"]
            if i % 3 == 1 and not os.environ.get("VERIF_NO_W12"):
                # further generations (C08_save_load_save, C08_generations_stable): the reloaded and since mutated
                # graph is itself saved and loaded, and so is the result
                ops += ["SAVE h img2", "LOAD img2 h2", "SAVE h2 img3", "LOAD img3 h3", "KEYS h3", "NEXT h3"]
            hs.append(History("c08-%d" % i, h0.n, ops, {"save_at": k, "pairs": pairs, "cap": h0.meta["cap"]}))
        # data whose length crosses the 2-byte length form of the image (65535 / 65536) and well beyond
        for j, (l1, l2, l3) in enumerate([] if os.environ.get("VERIF_NO_W9") else [(65535, 65536, 70000), (65536, 250, 251), (131072, 65537, 0)]):
            r = rng.fork()
            big = lambda l: "V" + bytes(r.below(256) for _ in range(l)).hex()
            ops = ["NEW g 8", "ADD g 1", "ADD g 2", "ADD g 3", "BIND g 1 2 %s" % gen.lab_alpha(0),
                   "PUT g 1 %s" % big(l1), "PUT g 2 %s" % big(l2), "PUT g 3 %s" % big(l3), "DATA g 3"]
            k = len(ops)
            ops += ["SAVE g img", "LOAD img h"]
            pairs = []
            for o in ["DATA g 3", "DATA g 1", "PUT g 3 %s" % big(l2), "DATA g 3", "DATA g 2"]:
                p = o.split()
                ops += [o, " ".join([p[0], "h"] + p[2:])]
                pairs.append((len(ops) - 2, len(ops) - 1))
            ops += ["NEXT h", "KEYS g", "KEYS h"]
            hs.append(History("c08-huge%d" % j, 4, ops, {"save_at": k, "pairs": pairs, "cap": 8}))
        return hs

    @staticmethod
    def mod_next(snapline):
        return re.sub(r"next=\d+", "next=*", snapline) if snapline else snapline

    def oracle(self, h, il):
        k = h.meta.get("save_at")
        if k is None or k + 1 >= len(il):
            return None
        lines = []
        last_g = None
        for i, (op, line) in enumerate(zip(h.ops, il)):
            try:
                _, res, snap = split_line(line)
            except ValueError:
                return None
            lines.append((res, snap))
            if i < k and snap is not None:
                last_g = snap
        if not lines[k][0].startswith("ok"):
            return {"reason": "save() failed", "index": k, "expected": "ok", "observed": lines[k][0][:100]}
        res, snap = lines[k + 1]
        if res != "ok":
            return {"reason": "load(save(g)) returned %s" % res, "index": k + 1, "expected": "ok", "observed": res}
        if self.mod_next(snap) != self.mod_next(last_g):
            return {"reason": "the loaded graph differs from the saved one (beyond the allocator position)", "index": k + 1,
                    "expected": str(last_g)[:600], "observed": str(snap)[:600]}
        s = parse_snapshot(snap)
        if s["next"] != 0:
            return {"reason": "allocator position after load is %d" % s["next"], "index": k + 1, "expected": "0", "observed": str(s["next"])}
        for a, b in h.meta["pairs"]:
            if b >= len(lines):
                break
            if lines[a][0] != lines[b][0] or self.mod_next(lines[a][1]) != self.mod_next(lines[b][1]):
                return {"reason": "the same call (%s) behaves differently on the original and the reloaded graph" % h.ops[a],
                        "index": b, "expected": il[a][:500], "observed": il[b][:500]}
        last = {}
        for i, (op, (res, snap)) in enumerate(zip(h.ops, lines)):
            p = op.split()
            if p[0] == "LOAD" and i > k + 1 and h.ops[i - 1].startswith("SAVE "):
                src = h.ops[i - 1].split()[1]
                if not lines[i - 1][0].startswith("ok") or res != "ok":
                    return {"reason": "a later generation of save/load failed (%s; %s)" % (h.ops[i - 1], op), "index": i,
                            "expected": "ok", "observed": (lines[i - 1][0][:40] + " ; " + res)[:200]}
                if src in last and self.mod_next(snap) != self.mod_next(last[src]):
                    return {"reason": "a later generation (%s; %s) does not give the saved graph back" % (h.ops[i - 1], op),
                            "index": i, "expected": str(last[src])[:600], "observed": str(snap)[:600]}
            if snap is not None and len(p) > 1:
                last[p[2] if p[0] == "LOAD" else p[1]] = snap
        for i, (op, (res, snap)) in enumerate(zip(h.ops, lines)):
            if op == "NEXT h" and res != "PANIC" and i > 0:
                prev = next((parse_snapshot(lines[j][1]) for j in range(i - 1, -1, -1)
                             if lines[j][1] and h.ops[j].split()[1 if not h.ops[j].startswith("LOAD") else 2] == "h"), None)
                if prev is not None:
                    want = next((v for v in range(prev["cap"]) if slot(prev, v)["branch"] == 0), None)
                    if want is not None and res != str(want):
                        return {"reason": "next_id() on the reloaded graph returned %s, the lowest absent id is %d" % (res, want),
                                "index": i, "expected": str(want), "observed": res}
        return None

    def nontrivial(self, h, il):
        k = h.meta.get("save_at", 0)
        prev = None
        for l in il[k + 2:]:
            if " | " in l:
                s = parse_snapshot(l.split(" | ", 1)[1])
                if s:
                    cur = len(present(s))
                    if prev is not None and cur < prev:
                        return il[k][:200] if k < len(il) else None
                    prev = cur
        return None


class C09(Prop):
    pid = "C09"
    strict_image = True      # the theorems are about this byte format
    ops = CORE_OPS | {"SAVE", "LOADCUTS", "LOADFLIP", "LOAD", "CUTSAMPLE"}
    exhaustive = True
    rule = ("images of graphs reached by random histories (heap-encoded data, multi-edge vertices, 2/3/4-byte label "
            "characters, groups, collected slots; capacities 1..40) are cut at EVERY byte position 0 <= k < size (exhaustive "
            "per image) and loaded by the implementation: every cut must be an Err, never a graph, never a panic; the full "
            "image must load.  A separate bit-flip stream is compared with the model's decoder only (class Ok/Err/panic). "
            "Non-trivial = an image with heap data or a multi-edge vertex; distinct = distinct image")
    assumptions = ["a crash during the non-atomic write leaves a prefix of the image (the property's own reading)"]

    def generate(self, rng, tier):
        n = 60 if tier == "quick" else 1500
        hs = []
        for i in range(n):
            r = rng.fork()
            h0 = reachable_graph_history(r, "c09-%d" % i, cap=r.pick([1, 2, 3, 5, 8, 12, 20, 40]), length=r.pick([6, 15, 30]))
            ops = [o for o in h0.ops if not o.startswith(("KEYS", "KIDS"))]
            ops += ["SAVE g img", "LOADCUTS img", "LOAD img h"]
            for _ in range(20 if tier == "quick" else 60):
                ops.append("LOADFLIP img %d %02x f" % (r.below(100000), 1 << r.below(8)))
            hs.append(History("c09-%d" % i, h0.n, ops))
        # one image of more than 64 KiB (capacity 2048): sampled cut positions, the neighbourhood of every 64 KiB boundary
        # and the last 64 positions (the model is not run on these cuts: C09_cut covers every cut of every image)
        big = ["NEW g 2048", "ADD g 0", "ADD g 2047", "BIND g 0 2047 %s" % gen.lab_str("abcdefgh"), "PUT g 2047 V%s" % ("ab" * 300),
               "ADD g 1024", "BIND g 2047 1024 %s" % gen.lab_greek(0x1d711), "SAVE g img", "CUTSAMPLE img %d" % (1009 if tier == "quick" else 97),
               "LOAD img h"]
        hs.append(History("c09-big", 4, big))
        return hs

    def timeout(self, tier):
        return 1500 if tier == "quick" else 14000

    def oracle(self, h, il):
        for i, (op, line) in enumerate(zip(h.ops, il)):
            if op.startswith("LOADCUTS") or op.startswith("CUTSAMPLE"):
                res = line.split(" -> ", 1)[1]
                m = re.match(r"cuts n=(\d+) ok=\[(.*?)\] panic=\[(.*?)\]", res)
                if not m:
                    return {"reason": "LOADCUTS did not finish", "index": i, "expected": "cuts ...", "observed": res[:200]}
                if m.group(2):
                    return {"reason": "load() of the image cut at byte(s) %s returned a graph" % m.group(2), "index": i,
                            "expected": "Err at every cut", "observed": res[:300]}
                if m.group(3):
                    return {"reason": "load() of the image cut at byte(s) %s panicked" % m.group(3), "index": i,
                            "expected": "Err at every cut", "observed": res[:300]}
            elif op == "LOAD img h":
                res = line.split(" -> ", 1)[1].split(" | ")[0]
                if res != "ok":
                    return {"reason": "the complete image does not load", "index": i, "expected": "ok", "observed": res}
        return None

    def nontrivial(self, h, il):
        for op, l in zip(h.ops, il):
            if op.startswith("SAVE") and l.startswith("SAVE -> ok"):
                return l if any(o.startswith("PUT") and " V" in o and len(o.split()[3]) > 17 for o in h.ops) or \
                    sum(1 for o in h.ops if o.startswith("BIND")) >= 2 else None
        return None

    def extra_coverage(self):
        return {}


# ------------------------------------------------------------------ C14

WS = [" ", "\t", "\n", "\r"]


def rnd_ws(rng, maxlen=2):
    return "".join(rng.pick(WS) for _ in range(rng.below(maxlen + 1)))


def rnd_gap(rng, fancy):
    s = rnd_ws(rng)
    if fancy and rng.chance(1, 12):
        s += rng.pick(["\u00a0", "\u2003", "\u3000", "\u0085"])      # Unicode White_Space is trimmed like the ASCII blanks
    if fancy and rng.chance(1, 6):
        s += "# " + rng.pick(["note", "ADD(9);", "x,y)", "", "two vertices; the edge comes next", "off: PUT(1, 00-00); ADD(7); BIND(",
                             "$x ν3 (", "# nested # marks"]) + "\n" + rnd_ws(rng, 1)
    return s


def script_program(rng, cap, n):
    """a program over literal ids and variables inside the limits, together with
    the direct calls it stands for; returns (cmds, direct_ops)"""
    t = gen.Tracker(n, cap)
    cmds, direct = [], []
    vars_, nvars = {}, 0
    ids = list(range(min(cap, 6)))
    if cap >= 200 and rng.chance(1, 2):
        base = rng.pick([120, 126, 250])
        ids = list(range(base, min(cap, base + 6)))        # literal ids with three digits, across 128, up to the last id
    many = cap >= 64 and rng.chance(1, 12)          # a long script with dozens of distinct variables
    for step in range(45 if many else 2 + rng.below(10)):
        k = "addvar" if many and step < 38 else rng.weighted([("add", 5), ("addvar", 3), ("bind", 6), ("put", 4)])
        pres = sorted(t.present)
        if k == "add":
            v = rng.pick(ids)
            cmds.append(("ADD", [("lit", v)]))
            direct.append("ADD h %d" % v)
            t.add(v)
        elif k == "addvar":
            name = "w%d" % nvars if many else rng.pick(["x", "ν1", "1", "foo", "νfoo", "v%d" % nvars])
            if name in vars_:
                v = vars_[name]
            else:
                v = t.next_id()
                if v is None:
                    break
                vars_[name] = v
                nvars += 1
                direct.append("NEXT h")
            cmds.append(("ADD", [("var", name)]))
            direct.append("ADD h %d" % v)
            t.add(v)
        elif k == "bind":
            if len(pres) < 2:
                continue
            v1 = rng.pick(pres)
            v2 = rng.pick([x for x in pres if x != v1])
            used = t.labels.get(v1, [])
            cands = [l for l in SCRIPT_LABELS if l[1] not in used]
            used_script = [l for l in SCRIPT_LABELS if l[1] in used]
            if used_script and (len(used) >= n or not cands or rng.chance(1, 4)):
                lab = rng.pick(used_script)
            elif cands and len(used) < n:
                lab = rng.pick(cands)
            else:
                continue
            before = t.out_of_limits
            t.bind(v1, v2, lab[1])
            if t.out_of_limits and not before:
                t.out_of_limits = False
                continue
            inv = {v: k2 for k2, v in vars_.items()}
            a1 = ("var", inv[v1]) if v1 in inv and rng.chance(1, 2) else ("lit", v1)
            a2 = ("var", inv[v2]) if v2 in inv and rng.chance(1, 2) else ("lit", v2)
            cmds.append(("BIND", [a1, a2, ("label", lab[0])]))
            direct.append("BIND h %d %d %s" % (v1, v2, lab[1]))
        else:
            if not pres:
                continue
            v = rng.pick(pres)
            bs = bytes(rng.below(256) for _ in range(rng.pick([16, 255, 256, 300]) if rng.chance(1, 12) else 1 + rng.below(11)))
            inv = {v2: k2 for k2, v2 in vars_.items()}
            a = ("var", inv[v]) if v in inv and rng.chance(1, 2) else ("lit", v)
            cmds.append(("PUT", [a, ("data", bs)]))
            direct.append("PUT h %d %s" % (v, ("B%s:%d" % ((bs + bytes(8 - len(bs))).hex(), len(bs))) if len(bs) <= 8 else "V" + bs.hex()))
            t.put(v)
    return cmds, direct


SCRIPT_LABELS = [("foo", gen.lab_str("foo")), ("ρ", gen.lab_greek(0x3c1)), ("α7", gen.lab_alpha(7)),
                 ("x", gen.lab_greek(0x78)), ("héllo", gen.lab_str("héllo")), ("\U0001d711", gen.lab_greek(0x1d711)),
                 ("α0", gen.lab_alpha(0)), ("abcdefgh", gen.lab_str("abcdefgh"))]


def render_script(rng, cmds, fancy=True):
    out = []
    for name, args in cmds:
        parts = []
        for kind, val in args:
            if kind == "lit":
                parts.append(("ν" if rng.chance(1, 3) else "") + str(val))
            elif kind == "var":
                parts.append("$" + val)
            elif kind == "label":
                parts.append(val)
            else:
                sep = rng.pick(["-", "", " ", "-"]) if fancy else "-"
                parts.append(sep.join(("%02X" if rng.chance(1, 2) else "%02x") % b for b in val))
        gap = lambda: rnd_gap(rng, fancy) if fancy else ""
        body = ",".join(gap() + p + gap() for p in parts)
        out.append(gap() + name + (" " * rng.below(3) if fancy else "") + "(" + body + ")" + gap() + ";")
    txt = "".join(out)
    if fancy and rng.chance(1, 3):
        txt += rnd_ws(rng) + "# trailing comment\n"
    return txt


MALFORMED_SHAPES = ["noclose", "noopen", "lower", "twoclose", "brackets", "digitname", "noname", "braces", "mixedcase"]


def malform(shape, name, body):
    """a command that no reading of the grammar NAME '(' args ')' accepts"""
    if shape == "noclose":
        return name + "(" + body
    if shape == "noopen":
        return name + " " + body + ")"
    if shape == "lower":
        return name.lower() + "(" + body + ")"
    if shape == "twoclose":
        return name + "(" + body + "))"
    if shape == "brackets":
        return name + "[" + body + "]"
    if shape == "digitname":
        return name + "2(" + body + ")"
    if shape == "noname":
        return "(" + body + ")"
    if shape == "braces":
        return name + "{" + body + "}"
    return name[0] + name[1:].lower() + "(" + body + ")"


def prefix_fault_history(rng, hid, N, cap, cmds, direct, fancy):
    """a well-formed program whose command no. p is replaced by a syntactically malformed one; the graph after the
    failed deploy_to() is compared with the direct calls of the first p commands"""
    p = rng.below(len(cmds)) if rng.chance(1, 6) else 1 + rng.below(len(cmds) - 1)
    j, cut = 0, 0
    for k in range(p):                       # direct ops of the first p commands (a fresh variable costs a NEXT)
        if direct[j] == "NEXT h":
            j += 1
        j += 1
    cut = j
    pieces = [render_script(rng, [c], fancy) for c in cmds]
    name, args = cmds[p]
    plain = render_script(rng, [(name, args)], fancy=False)          # NAME(a,b,c);
    body = plain[plain.index("(") + 1:plain.rindex(")")]
    shape = rng.pick(MALFORMED_SHAPES)
    pieces[p] = (rnd_ws(rng) if fancy else "") + malform(shape, name, body) + (rnd_ws(rng) if fancy else "") + ";"
    txt = "".join(pieces)
    ops = ["NEW g %d" % cap, "SCRIPT g %s" % text_hex(txt), "NEW h %d" % cap] + direct[:cut] + ["SNAP h"]
    return History(hid, N, ops, {"prefix": p, "shape": shape, "text": txt})


class C14(Prop):
    pid = "C14"
    shrink_ok = False
    ops = CORE_OPS | {"SCRIPT"}
    rule = ("random programs of 2..11 ADD/BIND/PUT commands over literal ids and $variables inside the limits, rendered with "
            "random legal formatting (white-space runs of space/tab/CR/LF, # comments, nu-prefixes, blanks before the "
            "parenthesis, hex case and separators); deploy_to() on g is compared with the corresponding direct add/bind/put/"
            "next_id calls on a second graph h: equal final states (hook snapshot) and count == number of commands.  Every "
            "single-character deletion, substitution and insertion of a sample of these texts is deployed too and compared "
            "with the model (Ok n / Err / panic and the full state).  In a further stream command no. p of a well-formed "
            "program is replaced by a syntactically malformed one (nine shapes: missing or doubled parenthesis, brackets, "
            "lower-case or digit in the name, no name): deploy_to() must return Err and leave exactly the graph the direct "
            "calls of the first p commands produce.  Non-trivial = a program with a variable and a BIND; "
            "distinct = distinct program text")

    def generate(self, rng, tier):
        n = 400 if tier == "quick" else 20000
        nf = 25 if tier == "quick" else 600
        npre = 200 if tier == "quick" else 6000
        hs = []
        for i in range(n):
            r = rng.fork()
            N = r.pick([2, 4, 16])
            cap = r.pick([6, 10, 16, 256])
            cmds, direct = script_program(r, cap, N)
            txt = render_script(r, cmds, fancy=(i % 5 != 0))
            ops = ["NEW g %d" % cap, "SCRIPT g %s" % text_hex(txt), "NEW h %d" % cap] + direct + ["SNAP h"]
            hs.append(History("c14-%d" % i, N, ops, {"count": len(cmds), "text": txt,
                                                       "vars": any(a[0] == "var" for _, args in cmds for a in args)}))
            if i < nf and txt:
                alphabet = FAULT_CHARS
                for pos in range(len(txt)):
                    muts = [txt[:pos] + txt[pos + 1:], txt[:pos] + r.pick(alphabet) + txt[pos + 1:],
                            txt[:pos] + r.pick(alphabet) + txt[pos:]]
                    for j, mt in enumerate(muts):
                        hs.append(History("c14-fault%d-%d-%d" % (i, pos, j), N,
                                          ["NEW f %d" % cap, "SCRIPT f %s" % text_hex(mt), "KEYS f"], {"fault": True}))
            if len(cmds) >= 2 and i < npre and not os.environ.get("VERIF_NO_W12"):
                hs.append(prefix_fault_history(r, "c14-prefix%d" % i, N, cap, cmds, direct, fancy=(i % 5 != 0)))
        return hs

    def oracle(self, h, il):
        if h.meta.get("fault"):
            # C14_step_err / C14_step_malformed: the model answers Err exactly for a syntactically malformed command
            # (unless a $variable before the malformed part exhausts the allocator); a panic of the implementation
            # where the model says Err is the property's "Err rather than a panic" failing
            ml = self.model_lines.get(h.hid)
            if ml and len(ml) > 1 and len(il) > 1 and ml[1].startswith("SCRIPT -> err") and il[1].startswith("SCRIPT -> PANIC"):
                return {"reason": "a syntactically malformed script makes deploy_to() panic instead of returning Err",
                        "index": 1, "expected": "err", "observed": "PANIC   text=" + repr(hex_text(h.ops[1].split()[2]))[:300]}
            return None
        if "prefix" in h.meta:
            # "A syntactically malformed command yields Err rather than a panic, after the commands before it have
            # been applied": g after the failed deploy_to() = h after the direct calls of the commands before the fault
            if len(il) < len(h.ops):
                return {"reason": "a malformed command after %d good ones: history ended early (panic)" % h.meta["prefix"],
                        "index": len(il) - 1, "expected": "err", "observed": (il[-1][:200] if il else "") + " text=" + repr(h.meta["text"])[:300]}
            try:
                _, res, snap_g = split_line(il[1])
                _, _, snap_h = split_line(il[-1])
            except ValueError:
                return None
            if not res.startswith("err"):
                return {"reason": "deploy_to() of a script whose command no. %d is syntactically malformed did not return Err"
                                  % h.meta["prefix"], "index": 1, "expected": "err", "observed": res + " text=" + repr(h.meta["text"])[:300]}
            if snap_g != snap_h:
                return {"reason": "after the Err the graph is not the one the %d commands before the malformed one produce"
                                  % h.meta["prefix"], "index": 1, "expected": str(snap_h)[:600],
                        "observed": str(snap_g)[:500] + " text=" + repr(h.meta["text"])[:200]}
            return None
        if "count" not in h.meta:
            return None
        if len(il) < len(h.ops):
            return {"reason": "history ended early (panic inside the limits)", "index": len(il) - 1,
                    "expected": "no panic", "observed": il[-1][:300] if il else ""}
        try:
            _, res, snap_g = split_line(il[1])
            _, _, snap_h = split_line(il[-1])
        except ValueError:
            return None
        if res != "ok %d" % h.meta["count"]:
            return {"reason": "deploy_to() returned %s for a well-formed script of %d commands" % (res, h.meta["count"]),
                    "index": 1, "expected": "ok %d" % h.meta["count"], "observed": res + " text=" + repr(h.meta["text"])[:300]}
        if snap_g != snap_h:
            return {"reason": "the script's effect differs from the corresponding direct calls", "index": 1,
                    "expected": str(snap_h)[:600], "observed": str(snap_g)[:600]}
        return None

    def nontrivial(self, h, il):
        if h.meta.get("vars") and "BIND" in "".join(h.ops[3:]):
            return h.meta["text"]
        return None


# ------------------------------------------------------------------ C07

FAULT_CHARS = ["(", ")", ";", ",", "#", "$", "-", "g", "G", "A", " ", "\n", "\t", "ν", "1", "0", "f",
               "٣", "३", "３", "߂", "é", "α", "Ω", "+", "\u00a0", "\u2003", "²", "Ⅷ", "\U0001d7d8"]


def script_fault_histories(rng, count, prefix):
    """deploy_to() is a call like any other: a malformed text must come back as Err, never as a panic.  Single-character
    faults (deletion / substitution / insertion) at random positions of well-formed programs, with characters from several
    scripts (decimal digits that are not ASCII, letters, other white space); the model decides Err / Ok / panic."""
    hs = []
    for i in range(count):
        r = rng.fork()
        N = r.pick([2, 4, 16])
        cap = r.pick([6, 10, 16, 64])
        cmds, _ = script_program(r, cap, N)
        txt = render_script(r, cmds, fancy=r.chance(1, 2))
        if not txt:
            continue
        for j in range(24):
            pos = r.below(len(txt))
            ch = r.pick(FAULT_CHARS)
            k = r.below(4)
            mt = txt[:pos] + txt[pos + 1:] if k == 0 else txt[:pos] + ch + txt[pos:] if k == 1 else txt[:pos] + ch + txt[pos + 1:]
            hs.append(History("%sf%d-%d" % (prefix, i, j), N,
                              ["NEW f %d" % cap, "SCRIPT f %s" % text_hex(mt), "KEYS f"], {"fault": True, "cap": cap, "n": N}))
    return hs


def malformed_history(rng, hid):
    """sequences that violate the limits and preconditions"""
    n = rng.pick([1, 2, 4, 16])
    cap = rng.pick([1, 2, 8, 64])
    kind = rng.below(6)
    pre = []
    if kind == 0:        # label overflow
        pre = gen.fill_prefix(rng, "labels", n, max(cap, 2))[1:] + ["BIND g 0 1 %s" % gen.lab_alpha(999)]
        cap = max(cap, 2)
    elif kind == 1:      # 17th member
        cap = 64
        lab = gen.lab_alpha(1 if n > 1 else 0)
        pre = gen.fill_prefix(rng, "members", n, cap)[1:] + ["ADD g 16"] + \
            [rng.pick(["BIND g 15 16 %s" % lab, "BIND g 16 15 %s" % gen.lab_alpha(0), "BIND g 16 %d %s" % (rng.below(16), gen.lab_alpha(0))]),
             "KEYS g", "PUT g 16 V01", "DATA g 16", "KEYS g"]
    elif kind == 2:      # 15th group
        cap = 64
        pre = gen.fill_prefix(rng, "groups", n, cap)[1:] + ["ADD g 28", "ADD g 29", "BIND g 28 29 %s" % gen.lab_alpha(0),
                                                             "PUT g 29 V01", "DATA g 29", "KEYS g"]
    elif kind == 3:      # ids at / beyond the capacity
        v = rng.pick([cap, cap + 1, 2 ** 31, "MAX"])
        op = rng.pick(["ADD g %s", "PUT g %s V01", "DATA g %s", "KIDS g %s", "KID g %s A0", "BIND g 0 %s A0", "BIND g %s 0 A0",
                       "INSPECT g %s", "VPRINT g %s", "SLICE g %s s"])
        pre = ["ADD g 0"] + [op % v]
    elif kind == 4:      # absent endpoints, self binds, reads of absent vertices
        pre = ["ADD g 0"] if cap > 0 else []
        for _ in range(4):
            a, b = rng.below(cap), rng.below(cap)
            pre.append(rng.pick(["BIND g %d %d A0" % (a, b), "PUT g %d V0102" % a, "DATA g %d" % a, "KIDS g %d" % b,
                                 "BIND g %d %d A1" % (a, a)]))
    else:                # allocator exhaustion
        pre = ["ADD g %d" % v for v in range(cap)] + ["NEXT g"]
    w = {"add": 14, "bind": 30, "put": 16, "data": 18, "next": 6, "nextadd": 4, "readd": 4}
    ops = ["NEW g %d" % cap] + pre
    # random tail without the tracker's protection: ids over the whole range incl. beyond
    for _ in range(rng.below(25)):
        a, b = rng.below(cap + 2), rng.below(cap + 2)
        ops.append(rng.pick(["ADD g %d" % a, "BIND g %d %d %s" % (a, b, rng.pick(gen.LABEL_POOL)), "PUT g %d %s" % (a, gen.gen_data(rng)),
                             "DATA g %d" % a, "NEXT g", "KIDS g %d" % b, "KEYS g", "KID g %d %s" % (a, rng.pick(gen.LABEL_POOL))]))
    return History(hid, n, ops, {"cap": cap, "n": n})


class C07(SpecProp):
    pid = "C07"
    stay_in_limits = False
    ops = CORE_OPS | {"INSPECT", "VPRINT", "SLICE", "MERGE", "SAVE", "LOAD", "SCRIPT", "XML", "DOT", "DEBUG"}
    rule = ("malformed stream: histories that overrun each limit (N+1-th label, 17th member, 15th group, ids at and beyond the "
            "capacity incl. usize::MAX, absent endpoints, self binds, allocator exhaustion) followed by unprotected random calls, "
            "for N in {1,2,4,16} and capacities {1,2,8,64}, plus C02's in-limits mix; compared call by call: panic / no panic "
            "and the complete state must equal the model's, inside the limits no call may panic (reference model), and the "
            "harness process must end normally (an abort or a sanitizer report is a violation); single-character faults of "
            "script texts (characters from several scripts) must come back as Err where the model says Err.  In the thorough tier the whole "
            "stream is run a second time on a harness built with AddressSanitizer.  Non-trivial = a history that ends in a "
            "panic; distinct = distinct (last call, state before it)")
    assumptions = ["memory safety of the unsafe code inside emap/micromap/microstack is not modelled; ASan (thorough tier) is supporting evidence only",
                   "claimed for builds with debug assertions (the dev profile the harness is built with)"]

    def generate(self, rng, tier):
        n = 2000 if tier == "quick" else 50000
        hs = [malformed_history(rng.fork(), "c07-m%d" % i) for i in range(n)]
        hs += self.core_mix(rng, tier, 600, 30000, "c07-")
        hs += script_fault_histories(rng.fork(), 60 if tier == "quick" else 1500, "c07-s")
        return hs

    def oracle(self, h, il):
        if h.meta.get("fault"):
            # C14_step_err: the model answers Err for a malformed command; a panic there is a call that does not complete
            ml = self.model_lines.get(h.hid)
            if ml and len(ml) > 1 and len(il) > 1 and ml[1].startswith("SCRIPT -> err") and il[1].startswith("SCRIPT -> PANIC"):
                return {"reason": "deploy_to() of a malformed script panics instead of returning Err (a call that exceeds no limit does not complete)",
                        "index": 1, "expected": "err", "observed": "PANIC   text=" + repr(hex_text(h.ops[1].split()[2]))[:300]}
            return None
        f = self.spec_oracle(h, il)
        if f is not None:
            return f
        # the three overruns the property names must stop with a panic
        sl = self.spec_lines.get(h.hid) or []
        for i, line in enumerate(sl):
            if "pre=0 limit:" in line and i < len(il):
                why = line.split("pre=0 ")[1].strip()
                if why in ("limit:id", "limit:labels", "limit:members") and not il[i].endswith("-> PANIC"):
                    return {"reason": "%s exceeds a limit (%s) but did not stop with a panic" % (h.ops[i], why), "index": i,
                            "expected": "PANIC", "observed": il[i][:300]}
        return None

    def nontrivial(self, h, il):
        if il and il[-1].endswith("-> PANIC"):
            return (il[-1], il[-2].split(" | ")[-1] if len(il) > 1 else "")
        return None

    def extra_coverage(self):
        return getattr(self, "_asan", {"asan": "not run in this tier (thorough only)"})

    def post_run(self, hs, impl, tier):
        if tier != "thorough":
            return None
        b = engine.build_harness_asan()
        sample = hs if len(hs) <= 20000 else hs[:20000]
        traces, problems = engine.run_impl_asan(sample)
        self._asan = {"asan": {"histories": len(sample), "build_wall_s": round(b["wall_s"], 1),
                               "abnormal_process_ends": len(problems),
                               "toolchain": "cargo +nightly, RUSTFLAGS=-Zsanitizer=address, ASAN_OPTIONS=detect_leaks=0"}}
        for p in problems:
            hid = p.get("first_unfinished")
            hh = next((h for h in sample if h.hid == hid), None)
            return (hh, {"reason": "harness under AddressSanitizer ended abnormally (rc=%s): %s" % (p["rc"], p["stderr"][-1500:]),
                         "index": -1})
        for h in sample:
            a, b2 = traces.get(h.hid), impl.get(h.hid)
            if a is not None and b2 is not None and a != b2:
                j = next((i for i, (x, y) in enumerate(zip(a, b2)) if x != y), min(len(a), len(b2)))
                return (h, {"reason": "trace under AddressSanitizer differs from the plain build at call %d" % j, "index": j,
                            "expected": (b2[j] if j < len(b2) else "<end>")[:400], "observed": (a[j] if j < len(a) else "<end>")[:400]})
        return None


# ------------------------------------------------------------------ C19

class C19(SpecProp):
    pid = "C19"
    shrink_ok = False
    rule = ("histories inside the limits of a small configuration (N = the labels actually needed, capacity = the highest id "
            "+ 1) are replayed under 4 configurations (N up to 16, capacity up to 256) and, in the same run, in 3 separate "
            "harness processes (fresh hash seeds); oracle: the result of every call (incl. kids() order, next_id() ids, "
            "merge()-created ids, slice() contents) is identical across all configurations and processes.  Non-trivial = "
            "the history contains a collection, a next_id and a slice or merge; distinct = distinct result trace")
    assumptions = ["run-to-run determinism of the real process is observed on 3 processes per history, not proved (DESIGN.md section 12)"]
    ops = CORE_OPS | {"SLICE", "MERGE", "KEYS"}

    CONFIGS = [(None, None), (16, 256), (4, None), (None, 64), (8, 128)]

    def generate(self, rng, tier):
        n = 300 if tier == "quick" else 5000
        hs = []
        for j, cap0 in enumerate([3, 4, 5, 6]):
            # the allocator has reached the capacity of the small configuration; a merge that overlaps completely needs no id
            ops = ["NEW g %d" % cap0, "ADD g 0"] + ["NEXT g"] * (cap0 - 1) + ["ADD g 1", "BIND g 0 1 %s" % gen.lab_alpha(0),
                   "NEW r %d" % cap0, "ADD r 0", "ADD r 1", "BIND r 0 1 %s" % gen.lab_alpha(0), "PUT r 1 V2a",
                   "MERGE g r 0 0", "KEYS g", "KIDS g 0", "DATA g 1", "KEYS g"]
            for ci, (nn, cc) in enumerate([(1, cap0), (16, 256), (2, 64)]):
                ops2 = [re.sub(r"^NEW (\w+) \d+$", lambda m: "NEW %s %d" % (m.group(1), cc), o) for o in ops]
                hs.append(History("c19-full%d@%d" % (j, ci), nn, ops2, {"base": "c19-full%d" % j, "cfg": ci}))
        for i in range(n):
            r = rng.fork()
            n0 = r.pick([1, 2, 3, 4])
            cap0 = r.pick([4, 6, 8, 12, 16])
            h0 = gen.core_history(r, "c19-%d" % i, n=n0, cap=cap0, length=r.pick([15, 30, 50]),
                                  weights={"next": 8, "nextadd": 6, "data": 20, "put": 16})
            t = h0.meta["tracker"]
            ops = list(h0.ops)
            pres = sorted(t.present)
            if pres:
                ops += ["SLICE g %d s" % r.pick(pres), "KEYS s"] + ["KIDS s %d" % v for v in pres[:4]]
                roomy = [v for v in pres if len(t.labels.get(v, [])) < n0 or gen.lab_alpha(0) in t.labels.get(v, [])]
                if roomy and len(pres) + 2 <= 12:
                    ops += ["NEW r %d" % cap0, "ADD r 0", "ADD r 1", "BIND r 0 1 %s" % gen.lab_alpha(0), "PUT r 1 V0102",
                            "MERGE g r %d 0" % r.pick(roomy), "KEYS g"] + ["KIDS g %d" % v for v in pres[:4]]
            for ci, (nn, cc) in enumerate(self.CONFIGS):
                N = nn if nn and nn >= n0 else n0
                cap = cc if cc and cc >= cap0 else cap0
                if (nn, cc) != (None, None) and N == n0 and cap == cap0:
                    continue
                ops2 = [re.sub(r"^NEW (\w+) \d+$", lambda m: "NEW %s %d" % (m.group(1), cap), o) for o in ops]
                hs.append(History("c19-%d@%d" % (i, ci), N, ops2, {"base": "c19-%d" % i, "cfg": ci, "tracker": t}))
                if ci == 0:      # the same history in two more harness processes (the engine puts neighbours into different shards)
                    for pj in (1, 2):
                        hs.append(History("c19-%d@0p%d" % (i, pj), N, ops2, {"base": "c19-%d" % i, "cfg": 0, "tracker": t}))
        return hs

    @staticmethod
    def results(il):
        out = []
        for l in il:
            r = l.split(" | ")[0]
            out.append(r)
        return out

    def oracle(self, h, il):
        f = self.spec_oracle(h, il)
        if f is not None:
            return f
        base = h.meta.get("base")
        if base is None:
            return None
        seen = self.__dict__.setdefault("_traces", {})
        mine = self.results(il)
        # only compare up to the first call outside the limits of the *small* configuration
        lim = gen.first_outside_limits(h)
        if lim is not None:
            mine = mine[:lim]
        # a panic means the call was outside the limits of that configuration (inside them nothing
        # panics: C02, C11, C13): the comparison covers the calls before the first panic of either trace
        for j, r in enumerate(mine):
            if r.endswith("-> PANIC"):
                mine = mine[:j]
                break
        other = seen.setdefault(base, (h.hid, mine))
        k = min(len(other[1]), len(mine))
        if other[1][:k] != mine[:k]:
            j = next(x for x in range(k) if other[1][x] != mine[x])
            return {"reason": "call %d (%s) answers differently under configuration %s than under %s" % (j, h.ops[j], h.hid, other[0]),
                    "index": j, "expected": other[1][j][:300], "observed": mine[j][:300]}
        return None

    def nontrivial(self, h, il):
        t = h.meta.get("tracker")
        if t is not None and t.collections > 0 and any(o.startswith("NEXT") for o in h.ops):
            return tuple(self.results(il))
        return None


REGISTRY.update({c.pid: c for c in [C07, C08, C09, C11, C12, C13, C14, C18, C19, C20]})
