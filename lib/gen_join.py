"""Histories around Sodg::join(): merge() of right graphs that are NOT trees into left graphs in which the two paths
to one right vertex end on different left vertices, followed by calls that touch the vacant slot join() leaves behind.

Outside merge()'s documented contract and outside every property's quantifier; used for the correspondence between the
extended model (coq/theories/XJoin.v) and the implementation only.  Nothing computed here is an oracle."""

import gen
from engine import History, parse_snapshot, split_line

JOIN_LABELS = [gen.lab_alpha(0), gen.lab_alpha(1), gen.lab_alpha(2), gen.lab_greek(0x3c1), gen.lab_str("foo"),
               gen.lab_alpha(7)]
JOIN_DATA = ["V0102", "B0900000000000000:1", "V", "B0000000000000000:0", "V0102030405060708090a", "Bff00000000000000:2"]


def right_graph(rng, hd, cap, n):
    """a random rooted digraph that is usually not a tree: shared kids, one kid under two names, back edges, now and
    then a self loop or an unreachable vertex; returns (ops, root, edges) with edges[v] = [(label, to)] in bind order"""
    k = 2 + rng.below(6)
    pool = list(range(min(cap, 12)))
    root = 0 if rng.chance(3, 4) else rng.pick(pool)
    pool.remove(root)
    ids = [root] + [pool.pop(rng.below(len(pool))) for _ in range(min(k - 1, len(pool)))]
    nlab = rng.pick([2, 3, 4, 6])
    labels = JOIN_LABELS[:nlab]
    edges = {v: [] for v in ids}
    ops = ["ADD %s %d" % (hd, v) for v in ids]

    def bind(u, w, a):
        for i, (b, _) in enumerate(edges[u]):
            if b == a:
                edges[u][i] = (a, w)
                break
        else:
            if len(edges[u]) >= n:
                return
            edges[u].append((a, w))
        ops.append("BIND %s %d %d %s" % (hd, u, w, a))

    reached = [root]
    for v in ids[1:]:
        if rng.chance(1, 10):
            continue                                   # stays unreachable (merge() answers Err)
        bind(rng.pick(reached), v, rng.pick(labels))
        reached.append(v)
    for j in range(1 + rng.below(2 * len(ids)) if rng.chance(1, 3) else 1 + rng.below(2)):
        kind = rng.below(10) if j else rng.below(8)
        u = rng.pick(reached)
        if kind < 5:
            w = rng.pick(reached)                      # shared kid / back edge / cycle
            if w == u and not rng.chance(1, 6):
                continue
        elif kind < 8 and edges[u]:
            w = rng.pick(edges[u])[1]                  # the same kid under a second name
        else:
            w = rng.pick(ids)
            if w == u:
                continue
        bind(u, w, rng.pick(labels))
    for v in ids:
        if rng.chance(1, 3):
            ops.append("PUT %s %d %s" % (hd, v, rng.pick(JOIN_DATA)))
            if rng.chance(1, 6):
                ops.append("DATA %s %d" % (hd, v))
    return ops, root, edges, ids


def left_graph(rng, hd, cap, n, redges, rroot):
    """a partial tree unfolding of the right graph (every path gets a vertex of its own, so the two paths to a shared
    right vertex end on different left vertices), plus noise: extra kids under the same labels (conflicts in join()),
    cross edges, data (unread, read), a collected group with stale edges"""
    pool = list(range(min(cap, 16)))
    ops = []
    stale = []
    if rng.chance(1, 4):
        a, b = pool.pop(0), pool.pop(0)
        stale = [a, b]
        ops += ["ADD %s %d" % (hd, a), "ADD %s %d" % (hd, b), "BIND %s %d %d %s" % (hd, a, b, rng.pick(JOIN_LABELS)),
                "BIND %s %d %d %s" % (hd, b, a, rng.pick(JOIN_LABELS)), "PUT %s %d V0a0b" % (hd, a), "DATA %s %d" % (hd, a)]
    lroot = pool.pop(rng.below(len(pool))) if rng.chance(1, 3) else pool.pop(0)
    ops.append("ADD %s %d" % (hd, lroot))
    lids = [lroot]
    nedges = {lroot: 0}
    p_keep = rng.pick([(1, 2), (2, 3), (5, 6), (1, 1), (1, 1)])
    depth = rng.pick([1, 2, 2, 3, 4])

    seen = set()
    p_again = rng.pick([(0, 1), (1, 4), (1, 4), (1, 1)])

    def unfold(lv, rv, d):
        if d == 0:
            return
        # below the second copy of a right vertex fewer kids: equal labels below both copies are the conflict
        # that makes join() panic, which should not be the only thing that happens
        p = p_again if rv in seen else p_keep
        seen.add(rv)
        for a, to in redges.get(rv, []):
            if not pool or not rng.chance(*p) or nedges[lv] >= n:
                continue
            lw = pool.pop(rng.below(len(pool)))
            ops.append("ADD %s %d" % (hd, lw))
            ops.append("BIND %s %d %d %s" % (hd, lv, lw, a))
            lids.append(lw)
            nedges[lv] += 1
            nedges[lw] = 0
            unfold(lw, to, d - 1)

    unfold(lroot, rroot, depth)
    for _ in range(rng.below(4)):
        kind = rng.below(4)
        u = rng.pick(lids)
        if nedges[u] >= n:
            continue
        if kind == 0 and pool:
            w = pool.pop(rng.below(len(pool)))          # an extra kid
            ops.append("ADD %s %d" % (hd, w))
            lids.append(w)
            nedges[w] = 0
        elif kind == 1 and stale:
            w = rng.pick(stale)                         # an edge into a collected vertex
        else:
            w = rng.pick(lids)
            if w == u:
                continue
        ops.append("BIND %s %d %d %s" % (hd, u, w, rng.pick(JOIN_LABELS)))
        nedges[u] += 1
    for v in lids:
        if rng.chance(1, 3):
            ops.append("PUT %s %d %s" % (hd, v, rng.pick(JOIN_DATA)))
    return ops, lroot, lids


def touch_ops(rng, hd, cap, n, count, others=()):
    """random calls on a graph that may have vacant slots, ids from the low range where the slots are"""
    ops = []
    hi = min(cap, 14)
    fresh = 0
    for _ in range(count):
        v = rng.below(hi) if rng.chance(9, 10) else rng.pick([cap - 1, cap, cap + 3])
        w = rng.below(hi)
        k = rng.below(100)
        if k < 8:
            ops.append("NEXT %s" % hd)
        elif k < 14:
            ops.append("KEYS %s" % hd)
        elif k < 22:
            ops.append("KID %s %d %s" % (hd, v, rng.pick(JOIN_LABELS)))
        elif k < 30:
            ops.append("KIDS %s %d" % (hd, v))
        elif k < 38:
            ops.append("VPRINT %s %d" % (hd, v))
        elif k < 46:
            ops.append("INSPECT %s %d" % (hd, v))
        elif k < 54:
            fresh += 1
            ops.append("SLICE %s %d %ss%d" % (hd, v, hd, fresh))
        elif k < 58:
            ops.append("DEBUG %s" % hd)
        elif k < 61:
            ops.append("XML %s" % hd)
        elif k < 64:
            ops.append("DOT %s" % hd)
        elif k < 68:
            fresh += 1
            ops += ["SAVE %s %si%d" % (hd, hd, fresh), "LOAD %si%d %sl%d" % (hd, fresh, hd, fresh)]
        elif k < 73:
            ops.append("ADD %s %d" % (hd, v))
        elif k < 79:
            ops.append("PUT %s %d %s" % (hd, v, rng.pick(JOIN_DATA)))
        elif k < 87:
            ops.append("DATA %s %d" % (hd, v))
        elif k < 93:
            ops.append("BIND %s %d %d %s" % (hd, v, w, rng.pick(JOIN_LABELS)))
        elif k < 96:
            txt = rng.pick(["ADD($x); BIND(%d, $x, foo);" % w, "PUT(%d, 01-02);" % v, "ADD(%d); ADD($y); BIND($y, %d, bar);" % (v, w),
                            "BIND(%d, %d, x);" % (v, w)])
            ops.append("SCRIPT %s %s" % (hd, txt.encode().hex()))
        elif k < 98 and others:
            o = rng.pick(others)
            ops.append("MERGE %s %s %d %d" % (hd, o, v, rng.below(hi)))
        else:
            ops.append("SNAP %s" % hd)
    return ops


def join_history(rng, hid):
    n = rng.pick([16, 16, 16, 16, 4, 3, 2, 8])
    cap = rng.pick([8, 12, 16, 16, 24, 40])
    rops, rroot, redges, rids = right_graph(rng, "r", cap, n)
    lops, lroot, lids = left_graph(rng, "g", cap, n, redges, rroot)
    ops = ["NEW g %d" % cap] + lops + ["NEW r %d" % cap] + rops
    left = lroot if rng.chance(7, 8) else rng.pick(lids)
    right = rroot if rng.chance(7, 8) else rng.pick(rids)
    ops += ["MERGE g r %d %d" % (left, right), "KEYS g"]
    shape = rng.below(10)
    if shape < 5:
        ops += touch_ops(rng, "g", cap, n, 3 + rng.below(12), others=("r",))
    elif shape < 7:
        # a clone keeps the vacant slots; calls on both
        ops += ["CLONE g c"] + touch_ops(rng, "c", cap, n, 2 + rng.below(6), others=("r", "g")) \
            + touch_ops(rng, "g", cap, n, 2 + rng.below(6), others=("r", "c"))
    elif shape < 8:
        # the graph with vacant slots as the RIGHT operand of a second merge
        ops += ["NEW f %d" % cap, "ADD f 0"]
        if rng.chance(1, 2):
            ops += ["ADD f 1", "BIND f 0 1 %s" % rng.pick(JOIN_LABELS)]
        ops += ["MERGE f g 0 %d" % (rng.pick(lids) if rng.chance(3, 4) else rng.below(min(cap, 12))), "KEYS f"]
        ops += touch_ops(rng, "f", cap, n, 2 + rng.below(5), others=("g", "r"))
    elif shape < 9:
        # the same right graph merged again, then another one
        r2ops, r2root, r2edges, r2ids = right_graph(rng, "q", cap, n)
        ops += ["MERGE g r %d %d" % (left, right), "NEW q %d" % cap] + r2ops + ["MERGE g q %d %d" % (left, r2root), "KEYS g"]
        ops += touch_ops(rng, "g", cap, n, 2 + rng.below(8), others=("r", "q"))
    else:
        # read-only calls on every low id, then mutating calls
        for v in range(min(cap, 10)):
            ops += [rng.pick(["KIDS g %d", "VPRINT g %d", "INSPECT g %d", "SLICE g %d sx", "KID g %d A0"]) % v]
        ops += touch_ops(rng, "g", cap, n, 4 + rng.below(8), others=("r",))
    return History(hid, n, ops, {"dag": True, "join": True, "cap": cap, "n": n})


def crafted_histories(prefix="jx"):
    """fixed shapes: the crate's own loop test, nested joins, a conflict in join(), a vacant slot hit later in the
    same merge, the last slot vacant (the saved image loads with a smaller capacity)"""
    a, b, c, d, e = (gen.lab_alpha(i) for i in range(5))
    hs = []

    def H(name, n, ops):
        hs.append(History("%s-%s" % (prefix, name), n, ops, {"dag": True, "join": True}))

    # one kid under two names; the removed vertex carried unread data and a kid of its own
    H("two-names", 16, ["NEW g 16", "ADD g 0", "ADD g 1", "ADD g 2", "BIND g 0 1 " + a, "BIND g 0 2 " + b, "ADD g 3",
                        "BIND g 1 3 " + c, "PUT g 1 V0102", "NEW r 16", "ADD r 0", "ADD r 5", "BIND r 0 5 " + a,
                        "BIND r 0 5 " + b, "MERGE g r 0 0", "KEYS g", "NEXT g", "KIDS g 2", "VPRINT g 1", "INSPECT g 1",
                        "INSPECT g 0", "SLICE g 0 s", "SLICE g 1 t", "DEBUG g", "XML g", "DOT g", "SAVE g i", "LOAD i l",
                        "CLONE g k", "ADD k 1", ])
    H("two-names-collect", 16, ["NEW g 16", "ADD g 0", "ADD g 1", "ADD g 2", "BIND g 0 1 " + a, "BIND g 0 2 " + b,
                                "NEW r 16", "ADD r 0", "ADD r 5", "BIND r 0 5 " + a, "BIND r 0 5 " + b, "MERGE g r 0 0",
                                "PUT g 2 V01", "DATA g 2", "KEYS g"])
    # conflict: both copies have a kid under the same label
    H("conflict", 16, ["NEW g 16", "ADD g 0", "ADD g 1", "ADD g 2", "BIND g 0 1 " + a, "BIND g 0 2 " + b, "ADD g 3",
                       "ADD g 4", "BIND g 1 3 " + c, "BIND g 2 4 " + c, "NEW r 16", "ADD r 0", "ADD r 5", "BIND r 0 5 " + a,
                       "BIND r 0 5 " + b, "MERGE g r 0 0", "KEYS g"])
    # three names: the second disagreement meets the slot the first one vacated
    H("three-names", 16, ["NEW g 16", "ADD g 0", "ADD g 1", "ADD g 2", "ADD g 3", "BIND g 0 1 " + a, "BIND g 0 2 " + b,
                          "BIND g 0 3 " + c, "NEW r 16", "ADD r 0", "ADD r 5", "BIND r 0 5 " + a, "BIND r 0 5 " + b,
                          "BIND r 0 5 " + c, "MERGE g r 0 0", "KEYS g"])
    # the last slot becomes vacant: the image has cap-1 entries with keys 0..cap-2 and loads
    H("last-slot", 16, ["NEW g 4", "ADD g 0", "ADD g 3", "ADD g 2", "BIND g 0 3 " + a, "BIND g 0 2 " + b, "NEW r 4",
                        "ADD r 0", "ADD r 1", "BIND r 0 1 " + a, "BIND r 0 1 " + b, "MERGE g r 0 0", "SAVE g i", "LOAD i l",
                        "KEYS l", "NEXT l", "NEXT g", "NEXT g", "NEXT g"])
    # the crate's merges_a_loop shape
    H("loop", 16, ["NEW g 16", "ADD g 1", "ADD g 2", "BIND g 1 2 " + a, "ADD g 3", "BIND g 2 3 " + b, "BIND g 3 1 " + c,
                   "NEW r 16", "ADD r 1", "ADD r 2", "BIND r 1 2 " + a, "ADD r 3", "BIND r 2 3 " + b, "ADD r 4",
                   "BIND r 3 4 " + c, "BIND r 4 1 " + d, "MERGE g r 1 1", "KEYS g", "DEBUG g"])
    # nested: a diamond below a diamond
    H("nested", 16, ["NEW g 24", "ADD g 0", "ADD g 1", "ADD g 2", "BIND g 0 1 " + a, "BIND g 0 2 " + b, "ADD g 3", "ADD g 4",
                     "BIND g 1 3 " + a, "BIND g 1 4 " + b, "NEW r 24", "ADD r 0", "ADD r 1", "BIND r 0 1 " + a,
                     "BIND r 0 1 " + b, "ADD r 2", "BIND r 1 2 " + a, "BIND r 1 2 " + b, "MERGE g r 0 0", "KEYS g", "DEBUG g",
                     "NEXT g", "NEXT g", "SLICE g 0 s"])
    # a collected vertex keeps its stale edge into the slot that join() vacates later (join() redirects the edges of
    # present vertices only): traversals that start at the collected vertex reach the vacant slot
    H("stale-into-hole", 16, ["NEW g 16", "ADD g 0", "ADD g 1", "ADD g 2", "BIND g 0 1 " + a, "BIND g 0 2 " + b, "ADD g 5",
                              "ADD g 6", "BIND g 5 6 " + c, "BIND g 5 1 " + a, "PUT g 6 V01", "DATA g 6", "KEYS g",
                              "NEW r 16", "ADD r 0", "ADD r 5", "BIND r 0 5 " + a, "BIND r 0 5 " + b, "MERGE g r 0 0",
                              "KEYS g", "KIDS g 5", "SLICE g 5 s", "INSPECT g 5", "VPRINT g 5", "INSPECT g 1", "SLICE g 0 t",
                              "NEW f 16", "ADD f 0", "CLONE f f2", "MERGE f g 0 0", "KEYS f", "MERGE f2 g 0 5"])
    # the removed vertex was the only one with unread data: the counter of its group stays at 1 for ever, a later
    # put/data pair on another member does not collect the group
    H("orphan-counter", 16, ["NEW g 16", "ADD g 0", "ADD g 1", "ADD g 2", "BIND g 0 1 " + a, "BIND g 0 2 " + b, "PUT g 1 V0102",
                             "NEW r 16", "ADD r 0", "ADD r 5", "BIND r 0 5 " + a, "BIND r 0 5 " + b, "MERGE g r 0 0",
                             "PUT g 2 V03", "DATA g 2", "KEYS g", "DATA g 2", "PUT g 0 V04", "DATA g 0", "KEYS g", "DEBUG g"])
    # small N: the re-binding of the kids in join() overflows the edge map of the surviving vertex
    H("join-mapfull", 2, ["NEW g 16", "ADD g 0", "ADD g 1", "ADD g 2", "BIND g 0 1 " + a, "BIND g 0 2 " + b, "ADD g 3", "ADD g 4",
                          "BIND g 2 3 " + c, "BIND g 2 4 " + d, "ADD g 6", "BIND g 1 6 " + e, "NEW r 16", "ADD r 0", "ADD r 5",
                          "BIND r 0 5 " + a, "BIND r 0 5 " + b, "MERGE g r 0 0", "KEYS g"])
    return hs


def targeted_suffixes(h, ilines, rng):
    """given the implementation's trace of a history whose merge succeeded and left vacant slots, calls aimed at them:
    every kind of call on a vacant id, next_id() around it, slices from every vertex with an edge into it, and the
    collection of a group whose member list still names it.  Returns a list of op lists (each to be appended to h.ops)"""
    snap = None
    for op, line in zip(h.ops, ilines):
        t = op.split()
        if t[0] in ("MERGE", "SNAP", "NEXT", "ADD", "BIND", "PUT", "DATA") and t[1] == "g":
            try:
                _, res, s = split_line(line)
            except ValueError:
                continue
            if s is not None:
                snap = parse_snapshot(s)
    if snap is None or len(ilines) < len(h.ops):
        return []
    holes = sorted(v for v, x in snap["V"].items() if x is None)
    if not holes:
        return []
    out = []
    lab = rng.pick(JOIN_LABELS)
    pres = sorted(v for v, x in snap["V"].items() if x is not None and x["branch"] != 0)
    for v in holes:
        o = pres[0] if pres else 0
        out += [["ADD g %d" % v], ["PUT g %d V01" % v], ["DATA g %d" % v], ["KID g %d %s" % (v, lab), "KIDS g %d" % v,
                "VPRINT g %d" % v, "INSPECT g %d" % v, "SLICE g %d sq" % v, "BIND g %d %d %s" % (v, o, lab)],
                ["BIND g %d %d %s" % (o, v, lab)], ["SCRIPT g %s" % ("ADD(%d);" % v).encode().hex()],
                ["SCRIPT g %s" % ("PUT($a, 01); BIND($a, %d, foo);" % v).encode().hex()],
                ["NEW f %d" % snap["cap"], "ADD f 0", "MERGE f g 0 %d" % v],
                ["CLONE g c", "KEYS c", "NEXT c", "ADD c %d" % v]]
        # next_id() across the vacant slot
        lo = max(0, v - 2)
        seq = []
        for u in range(lo, min(snap["cap"], v + 3)):
            if u not in holes:
                seq.append("ADD g %d" % u)
        out.append(["NEXT g"] * (v + 3))
        out.append(seq + ["NEXT g", "NEXT g", "NEXT g"])
    # the group that still names a vacant slot: read every unread datum of its members
    for b, m in snap["B"].items():
        if b < 2 or not m or not any(x in holes for x in m):
            continue
        live = [x for x in m if x not in holes]
        seq = []
        unread = [x for x in live if snap["V"].get(x) and snap["V"][x]["pers"] == "S"]
        if not unread and live:
            seq.append("PUT g %d V07" % live[0])
            unread = [live[0]]
        seq += ["DATA g %d" % x for x in unread] + ["KEYS g", "DEBUG g"]
        out.append(seq)
    # slices / inspections from everywhere (a stale edge of an absent vertex may still point to a vacant slot)
    out.append(["SLICE g %d s%d" % (v, v) for v in range(min(snap["cap"], 14))])
    out.append(["INSPECT g %d" % v for v in range(min(snap["cap"], 14))])
    out.append(["DEBUG g", "XML g", "DOT g", "SAVE g i", "LOAD i l", "LOADCUTS i"])     # (the load may panic: no call on l)
    return out
