"""bin/check <ID> quick|thorough [--replay FILE]

Decides one property: (1) re-checks its Coq theorems and audits their
assumptions, (2) runs the correspondence check between the extracted model and
the implementation built from /repo's working tree, (3) runs the property's
oracle on the implementation's own traces, (4) writes evidence/<ID>.json and
prints a VIOLATION line on failure.  See DESIGN.md sections 3, 6, 7."""

import hashlib
import json
import os
import sys
import time

sys.path.insert(0, os.path.dirname(os.path.abspath(__file__)))

import engine
from engine import History, log
import gen
import props


def load_corpus(pid):
    hs = []
    for sub in ("all", pid):
        d = os.path.join(engine.VERIF, "corpus", sub)
        if not os.path.isdir(d):
            continue
        for f in sorted(os.listdir(d)):
            if not f.endswith(".ops"):
                continue
            hs += parse_ops_file(os.path.join(d, f), prefix="corpus/%s/%s:" % (sub, f))
    return hs


def parse_ops_file(path, prefix=""):
    hs, cur, meta = [], None, {}
    for line in open(path):
        line = line.rstrip("\n")
        if line.startswith("#meta "):
            try:
                meta = json.loads(line[6:])
            except ValueError:
                meta = {}
            continue
        if line.startswith("H "):
            p = line.split()
            cur = History(prefix + p[1], int(p[2]), [], dict(meta))
            meta = {}
            hs.append(cur)
        elif cur is not None and line.strip() and not line.startswith("#"):
            cur.ops.append(line)
    return hs


def write_replay(pid, seed, kind, h, detail):
    d = os.path.join(engine.VERIF, "replays")
    os.makedirs(d, exist_ok=True)
    path = os.path.join(d, "%s-%s-%d.ops" % (pid, kind, seed))
    with open(path, "w") as f:
        f.write("# property=%s kind=%s seed=%d\n" % (pid, kind, seed))
        for k, v in detail.items():
            for ln in str(v).split("\n"):
                f.write("# %s: %s\n" % (k, ln))
        if h is not None:
            meta = {}
            for k, v in (h.meta or {}).items():
                try:
                    json.dumps(v)
                    meta[k] = v
                except (TypeError, ValueError):
                    pass
            f.write("#meta %s\n" % json.dumps(meta))
            f.write(h.text())
    return path


def inside_quantifier(h, prop, il, ml):
    """A property whose quantifier is "within the limits and the documented preconditions" makes no claim from the
    first call that leaves them on: neither the comparison with the model nor the oracle looks beyond it (what the code
    does out there may change without the property being touched).  C07 and the Hex/Label properties keep everything."""
    if not prop.stay_in_limits:
        return il, ml, None
    lim = gen.first_outside_limits(h)
    if lim is None:
        return il, ml, None
    return il[:lim], ml[:lim], lim


def well_formed(ops):
    """every handle / image an op uses has been created by an earlier op (shrinking must not invent histories that
    only 'fail' because a handle is missing)"""
    hs, imgs = set(), set()
    for o in ops:
        t = o.split()
        if not t or t[0].startswith("#"):
            continue
        k = t[0]
        if k.startswith(("HEX", "LABEL")):
            continue
        try:
            if k == "NEW":
                hs.add(t[1])
            elif k == "CLONE":
                if t[1] not in hs:
                    return False
                hs.add(t[2])
            elif k == "SLICE":
                if t[1] not in hs:
                    return False
                hs.add(t[3])
            elif k == "MERGE":
                if t[1] not in hs or t[2] not in hs:
                    return False
            elif k == "SAVE":
                if t[1] not in hs:
                    return False
                imgs.add(t[2])
            elif k == "LOADRAW":
                hs.add(t[2])
            elif k in ("LOAD", "LOADCUT", "LOADFLIP", "LOADCUTS", "CUTSAMPLE"):
                if t[1] not in imgs:
                    return False
                tgt = {"LOAD": 2, "LOADCUT": 3, "LOADFLIP": 4}.get(k)
                if tgt is not None:
                    hs.add(t[tgt])
            elif len(t) > 1 and t[1] not in hs:
                return False
        except IndexError:
            return False
    return True


def run_one(h, prop):
    """runs one history on both sides -> (cmp, finding, ilines, mlines)"""
    impl, model, problems, spec = engine.run_histories([h], timeout=120, shards=1, want_spec=prop.needs_spec)
    il, ml = impl.get(h.hid, []), model.get(h.hid, [])
    il_full = il
    il, ml, _ = inside_quantifier(h, prop, il, ml)
    prop.spec_lines.update(spec)
    prop.model_lines.update(model)
    cmp_ = engine.compare_history(h, ml, il, prop.in_projection, strict_image=getattr(prop, 'strict_image', False),
                                   informational=getattr(prop, 'informational_ops', ()), claimed=getattr(prop, 'claimed_line', None))
    problems = [p for p in problems if p["kind"] == "impl"]
    finding = (prop.oracle(h, il_full if prop.oracle_beyond_limits else il) if not problems
               else {"reason": "implementation run did not finish", "index": len(il)})
    return cmp_, finding, il, ml


def linearise(h, index, prop, want):
    """a failure inside a bfs tour is first turned into the linear history that reaches it"""
    if not h.meta.get("bfs") or index is None or index < 0:
        return h
    import props_core
    try:
        cand = props_core.bfs_linear(h, min(index, len(h.ops) - 1))
        cmp_, finding, _, _ = run_one(cand, prop)
        if want(cmp_, finding):
            return cand
    except Exception as e:      # best effort
        log("linearise failed: %r" % e)
    return History(h.hid, h.n, h.ops[: index + 1], {})


def shrink(h, prop, want):
    """delta debugging on the op list; `want(cmp, finding)` says whether a
    candidate still shows the failure"""
    if len(h.ops) > 5000 or not prop.shrink_ok:
        return h
    ops = list(h.ops)
    budget = 400
    was_inside = gen.first_outside_limits(h) is None

    def bad(cand_ops):
        nonlocal budget
        if budget <= 0:
            return False
        budget -= 1
        cand = History(h.hid, h.n, cand_ops)
        if not well_formed(cand_ops):
            return False
        if prop.stay_in_limits and was_inside and gen.first_outside_limits(cand) is not None:
            return False
        cmp_, finding, _, _ = run_one(cand, prop)
        return want(cmp_, finding)

    chunk = max(1, len(ops) // 2)
    while chunk >= 1:
        i = 1 if ops and ops[0].startswith("NEW") else 0
        changed = False
        while i < len(ops):
            cand = ops[:i] + ops[i + chunk:]
            if len(cand) < len(ops) and bad(cand):
                ops = cand
                changed = True
            else:
                i += chunk
        if chunk == 1 and not changed:
            break
        chunk = chunk // 2 if chunk > 1 else (1 if changed else 0)
    return History(h.hid, h.n, ops)


def main():
    args = sys.argv[1:]
    if not args:
        print("usage: check <ID> quick|thorough [--replay FILE]")
        return 2
    pid = args[0]
    tier = os.environ.get("VERIF_TIER") or (args[1] if len(args) > 1 and not args[1].startswith("--") else "quick")
    seed = int(os.environ.get("VERIF_SEED", "1") or "1")
    replay = args[args.index("--replay") + 1] if "--replay" in args else None
    prop = props.get(pid)
    t0 = time.time()
    evidence_path = os.path.join(engine.VERIF, "evidence", "%s.json" % pid)
    violations = []     # list of (kind, path, no_input)
    known_hits = []

    try:
        mb = engine.build_model()
        hb = engine.build_harness()
    except engine.BuildError as e:
        path = write_replay(pid, seed, "build", None, {"error": str(e)})
        engine.write_json(evidence_path, {
            "property_id": pid, "tier": tier, "seed": seed, "level": "proof",
            "coverage": {"evaluations": 0, "distinct_nontrivial": 0, "explanation": "build failed: " + str(e)[:500]},
            "wall_s": time.time() - t0, "violations": 1})
        print("VIOLATION property=%s replay=%s no-failing-input-found" % (pid, path))
        return 1

    if replay:
        hs = parse_ops_file(replay)
        for h in hs:
            cmp_, finding, il, ml = run_one(h, prop)
            print("history %s (%d calls): correspondence=%s oracle=%s" % (h.hid, len(h.ops), cmp_["status"],
                  "ok" if finding is None else "%s (at call %s; expected %s; observed %s)" % (
                      finding.get("reason"), finding.get("index"), str(finding.get("expected"))[:200], str(finding.get("observed"))[:200])))
            for i, (a, b) in enumerate(zip(ml, il)):
                if a != b:
                    print("  first differing line %d:\n   model: %s\n   impl : %s" % (i, a[:400], b[:400]))
                    break
        return 0

    # ---- (1) proof part
    audit = engine.audit_property_file(pid)
    # the driver runs the extended operations of XJoin.v; P_Bridge.v pins that they are the proved ones on states
    # without vacant slots.  It is part of every property's proof obligation.
    bridge = engine.audit_property_file("Bridge")
    audit["errors"] = list(audit["errors"]) + ["P_Bridge.v: " + e for e in bridge["errors"]]
    audit["open_assumptions"] = list(audit["open_assumptions"]) + list(bridge["open_assumptions"])
    audit["bridge"] = {"file": bridge["file"], "obligations": bridge["obligations"], "discharged": bridge["discharged"]}
    bad_src = engine.audit_sources()
    proof_errors = list(audit["errors"]) + ["forbidden: " + b for b in bad_src]
    if audit["open_assumptions"]:
        proof_errors.append("open assumptions: %s" % audit["open_assumptions"])
    chk = None
    if tier == "thorough" and not proof_errors:
        chk = engine.coqchk_property(pid)
        if not chk["ok"]:
            proof_errors.append("coqchk: axioms=%s %s" % (chk["axioms"], chk["tail"]))
        else:
            chkb = engine.coqchk_property("Bridge")
            chk["bridge"] = chkb
            if not chkb["ok"]:
                proof_errors.append("coqchk P_Bridge: axioms=%s %s" % (chkb["axioms"], chkb["tail"]))

    # ---- (2)+(3) tie and oracle
    rng = gen.Rng(seed)
    hs = load_corpus(pid)
    n_corpus = len(hs)
    hs += prop.generate(rng, tier)
    seen = set()
    for h in hs:
        assert h.hid not in seen, h.hid
        seen.add(h.hid)
    log("[%s] %d histories (%d corpus), running ..." % (pid, len(hs), n_corpus))
    impl, model, problems, spec = engine.run_histories(hs, timeout=prop.timeout(tier), want_spec=prop.needs_spec)
    prop.spec_lines = spec
    prop.model_lines = model
    stats = {"agree": 0, "diverge": 0, "unmodelled": 0, "outoffuel": 0, "offproj": 0,
             "compared_calls": 0, "abs_only": 0}
    first_div, first_find = None, None
    opcount = {}
    sigs = set()
    samples = []
    n_panic_lines = 0
    for h in hs:
        il, ml = impl.get(h.hid), model.get(h.hid)
        if il is None or ml is None:
            if first_div is None:
                first_div = (h, {"status": "diverge", "index": 0, "model": "<no output>" if ml is None else "...",
                                 "impl": "<no output: crash or time-out>" if il is None else "..."})
            stats["diverge"] += 1
            continue
        il_full = il
        il, ml, lim = inside_quantifier(h, prop, il, ml)
        if lim is not None:
            stats["cut_at_limit"] = stats.get("cut_at_limit", 0) + 1
        cmp_ = engine.compare_history(h, ml, il, prop.in_projection, strict_image=getattr(prop, 'strict_image', False),
                                   informational=getattr(prop, 'informational_ops', ()), claimed=getattr(prop, 'claimed_line', None))
        stats[cmp_["status"]] += 1
        stats["compared_calls"] += cmp_.get("compared", 0)
        stats["abs_only"] += cmp_.get("abs_only", 0)
        if cmp_.get("informational"):
            stats["informational_disagreements"] = stats.get("informational_disagreements", 0) + cmp_["informational"]
        if cmp_["status"] in ("diverge", "outoffuel") and h.meta.get("outside_contract"):
            # a history that is outside this property's quantifier on purpose (it exercises the model, e.g. merge() of
            # graphs that are not trees): a disagreement is reported in the evidence, it is not this property's alarm
            stats["outside_contract_diverge"] = stats.get("outside_contract_diverge", 0) + 1
            stats.setdefault("outside_contract_first", {"history": h.hid, "index": cmp_.get("index"),
                                                        "model": str(cmp_.get("model"))[:300], "impl": str(cmp_.get("impl"))[:300]})
            stats[cmp_["status"]] -= 1
        elif cmp_["status"] in ("diverge", "outoffuel") and first_div is None:
            first_div = (h, cmp_)
        finding = prop.oracle(h, il_full if prop.oracle_beyond_limits else il)
        if finding is not None:
            kf = prop.known_finding(h, il, finding)
            if kf:
                if kf not in known_hits:
                    known_hits.append(kf)
            elif first_find is None:
                first_find = (h, finding)
        for l in il:
            op = l.split(" ", 1)[0]
            opcount[op] = opcount.get(op, 0) + 1
            if l.endswith("-> PANIC"):
                n_panic_lines += 1
        key = prop.nontrivial(h, il)
        if isinstance(key, (set, list)):
            for k in key:
                sigs.add(hashlib.sha1(repr(k).encode()).hexdigest())
        elif key is not None:
            sigs.add(hashlib.sha1(repr(key).encode()).hexdigest())
        if len(samples) < 3 and not h.hid.startswith("corpus"):
            samples.append({"history": h.hid, "N": h.n, "ops": h.ops[:40], "impl_trace_tail": [x[:200] for x in il[-2:]]})

    if first_find is None:
        try:
            extra = prop.post_run(hs, impl, tier)
        except engine.BuildError as e:
            extra = (None, {"reason": "post-run build failed: %s" % str(e)[:800], "index": -1})
        if extra is not None:
            first_find = extra

    for p in problems:
        if p["kind"] == "impl" and first_find is None:
            # crash / sanitizer abort / time-out of the implementation process
            hid = p.get("first_unfinished")
            hh = next((h for h in hs if h.hid == hid), None)
            first_find = (hh, {"reason": "implementation process ended abnormally (rc=%s): %s" % (p["rc"], p["stderr"][-500:]),
                               "index": -1})

    # ---- (4) decide (DESIGN.md section 7)
    if first_find is not None:
        h, finding = first_find
        if h is not None and len(h.ops) > 3:
            want = lambda c, f: f is not None and prop.known_finding(h, [], f) is None
            try:
                h = linearise(h, finding.get("index"), prop, want)
                h2 = shrink(h, prop, want)
                c2, f2, il2, ml2 = run_one(h2, prop)
                if f2 is not None:
                    h, finding = h2, f2
            except Exception as e:   # shrinking is best effort
                log("shrink failed: %r" % e)
        path = write_replay(pid, seed, "oracle", h, {"oracle": finding.get("reason"), "at_call": finding.get("index"),
                                                      "expected": finding.get("expected", ""), "observed": finding.get("observed", "")})
        violations.append(("oracle", path, False))
    elif first_div is not None or proof_errors:
        # tie or proof broken, no witness yet: search harder before giving up
        found = None
        if first_div is not None:
            extra = prop.search(gen.Rng(seed + 7919), tier, first_div[0])
            if extra:
                i2, m2, p2, sp2 = engine.run_histories(extra, timeout=prop.timeout(tier), want_model=False, want_spec=prop.needs_spec)
                prop.spec_lines.update(sp2)
                for h in extra:
                    il = i2.get(h.hid)
                    if il is None:
                        continue
                    f = prop.oracle(h, il)
                    if f is not None and not prop.known_finding(h, il, f):
                        found = (h, f)
                        break
        if found:
            h, finding = found
            try:
                h2 = shrink(h, prop, lambda c, f: f is not None)
                c2, f2, _, _ = run_one(h2, prop)
                if f2 is not None:
                    h, finding = h2, f2
            except Exception as e:
                log("shrink failed: %r" % e)
            path = write_replay(pid, seed, "oracle", h, {"oracle": finding.get("reason"), "at_call": finding.get("index"),
                                                          "expected": finding.get("expected", ""), "observed": finding.get("observed", "")})
            violations.append(("oracle", path, False))
        else:
            if first_div is not None:
                h, cmp_ = first_div
                try:
                    h = linearise(h, cmp_.get("index"), prop, lambda c, f: c["status"] in ("diverge", "outoffuel"))
                    h = shrink(h, prop, lambda c, f: c["status"] in ("diverge", "outoffuel"))
                    cmp2, _, _, _ = run_one(h, prop)
                    if cmp2["status"] in ("diverge", "outoffuel"):
                        cmp_ = cmp2
                except Exception as e:
                    log("shrink failed: %r" % e)
                path = write_replay(pid, seed, "correspondence", h, {
                    "broken": "correspondence_%s: model and implementation disagree at call %s" % (pid, cmp_.get("index")),
                    "model": cmp_.get("model", "")[:1500], "impl": cmp_.get("impl", "")[:1500],
                    "note": "no history was found on which the implementation itself violates the property"})
            else:
                path = write_replay(pid, seed, "proof", None, {
                    "broken": "theorem file coq/theories/P_%s.v no longer checks" % pid,
                    "errors": "\n".join(proof_errors)})
            violations.append(("tie" if first_div is not None else "proof", path, True))

    # ---- evidence
    cov = {
        "obligations": audit["obligations"],
        "discharged": audit["discharged"] if not proof_errors else 0,
        "checker_cmd": audit.get("checker_cmd", ""),
        "trusted_base": props.TRUSTED_BASE + prop.trusted_extra,
        "theorems": audit["theorems"],
        "bridge": audit.get("bridge"),
        "proof_errors": proof_errors,
        "coqchk": chk if chk is not None else "thorough tier only",
        "model_build": mb,
        "evaluations": len(hs),
        "distinct_nontrivial": len(sigs),
        "rule": prop.rule,
        "traces_validated_against_impl": stats["agree"],
        "correspondence": stats,
        "calls_by_kind": dict(sorted(opcount.items())),
        "panic_lines": n_panic_lines,
        "corpus_histories": n_corpus,
        "known_finding_hits": known_hits,
        "samples": samples or [{"history": h.hid, "ops": h.ops[:20]} for h in hs[:2]],
        "exhaustive": bool(getattr(prop, "exhaustive", False)),
    }
    cov.update(prop.extra_coverage())
    engine.write_json(evidence_path, {
        "property_id": pid, "tier": tier, "seed": seed, "level": "proof", "coverage": cov,
        "assumptions": prop.assumptions, "wall_s": round(time.time() - t0, 2), "violations": len(violations)})

    for kf in known_hits:
        print("KNOWN-FINDING: property=%s %s" % (pid, kf))
    for kind, path, noinput in violations:
        print("VIOLATION property=%s replay=%s%s" % (pid, path, " no-failing-input-found" if noinput else ""))
    if violations:
        return 1
    print("OK property=%s tier=%s theorems=%d/%d histories=%d agree=%d unmodelled=%d calls_compared=%d wall=%.1fs"
          % (pid, tier, cov["discharged"], cov["obligations"], len(hs), stats["agree"], stats["unmodelled"],
             stats["compared_calls"], time.time() - t0))
    return 0


if __name__ == "__main__":
    sys.exit(main())
