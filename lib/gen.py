"""History generators.  Every random choice derives from one xorshift64*
state seeded by VERIF_SEED, so a run replays bit for bit.

The Tracker below follows the *reference* semantics (present set, groups,
unread data, labels) only to steer generation towards calls that are mostly
valid and to know when a history leaves the capacity limits; nothing it
computes is used as an oracle."""

import os

from engine import History


class Rng:
    def __init__(self, seed):
        self.s = (seed * 0x9E3779B97F4A7C15 + 0x1234567) & 0xFFFFFFFFFFFFFFFF or 88172645463325252

    def next(self):
        x = self.s
        x ^= (x >> 12)
        x ^= (x << 25) & 0xFFFFFFFFFFFFFFFF
        x ^= (x >> 27)
        self.s = x
        return (x * 0x2545F4914F6CDD1D) & 0xFFFFFFFFFFFFFFFF

    def below(self, n):
        return self.next() % n if n > 0 else 0

    def chance(self, num, den):
        return self.below(den) < num

    def pick(self, seq):
        return seq[self.below(len(seq))]

    def weighted(self, pairs):
        tot = sum(w for _, w in pairs)
        r = self.below(tot)
        for x, w in pairs:
            if r < w:
                return x
            r -= w
        return pairs[-1][0]

    def fork(self):
        return Rng(self.next())


# ------------------------------------------------------------------ values

def lab_alpha(n):
    return "A%d" % n


def lab_greek(cp):
    return "G%x" % cp


def lab_str(s):
    cps = [ord(c) for c in s][:8]
    cps += [0x20] * (8 - len(cps))
    return "S" + ".".join("%x" % c for c in cps)


LABEL_POOL = [
    lab_alpha(0), lab_alpha(1), lab_alpha(2), lab_alpha(7), lab_alpha(2 ** 64 - 1), lab_alpha(4294967296),
    lab_greek(0x78), lab_greek(0x3c1), lab_greek(0x3c3), lab_greek(0x3c0), lab_greek(0x1d711), lab_greek(0x3c6),
    lab_str("foo"), lab_str("bar"), lab_str("ab"), lab_str("héllo"), lab_str("abcdefgh"), lab_str("\U0001d711x"),
    lab_str("+bar"), lab_str("x1"), lab_alpha(3), lab_alpha(4), lab_alpha(5), lab_alpha(6), lab_alpha(8),
    lab_alpha(9), lab_alpha(10), lab_alpha(11), lab_alpha(12), lab_alpha(13), lab_alpha(14), lab_alpha(15),
    lab_alpha(16), lab_alpha(17),
    # label VALUES that print like another label of the pool (the enum is public, so they can be built directly):
    # they are different labels and must stay different edges
    lab_str("x"), lab_str("α7"), lab_str("a b"),
    # pairs that differ by letter case only (an order or an equality that folds case would merge or swap them)
    lab_str("Foo"), lab_str("X1"), lab_greek(0x58),
]
if os.environ.get("VERIF_NO_W8"):       # measuring only: the pool as it was before wave 8
    LABEL_POOL = LABEL_POOL[:-3]


def gen_data(rng, maxlen=12):
    n = rng.below(maxlen + 1)
    if rng.chance(1, 14):
        n = rng.pick([16, 17, 32, 33, 64, 250, 251, 255, 256, 300])      # long heap data (length fields of more than one byte: 251 is the first)
    bs = bytes(rng.below(256) for _ in range(n))
    kind = rng.below(4)
    if n <= 8 and kind != 0:
        if kind == 1:
            pad = bytes(8 - n)                       # what from_slice builds
        else:
            pad = bytes(rng.below(256) for _ in range(8 - n))   # non-zero padding
        return "B%s:%d" % ((bs + pad).hex(), n)
    return "V" + bs.hex()                            # heap (also for short data)


# ------------------------------------------------------------------ tracker

class Tracker:
    """reference bookkeeping used for steering only"""

    def __init__(self, n, cap):
        self.n, self.cap = n, cap
        self.present = set()
        self.grp = {}        # v -> gid
        self.members = {}    # gid -> set
        self.unread = set()
        self.hasdata = set()
        self.labels = {}     # v -> list of labels
        self.alloc = 0
        self.fresh = 0
        self.out_of_limits = False
        self.collections = 0
        self.max_groups = 0
        self.max_group_size = 0
        self.readds = 0
        self.edges = {}      # v -> {label: target} in first-bind order (since the vertex was created)
        self.datum = {}      # v -> last data repr

    def clone(self):
        t = Tracker(self.n, self.cap)
        t.present = set(self.present)
        t.grp = dict(self.grp)
        t.members = {g: set(m) for g, m in self.members.items()}
        t.unread = set(self.unread)
        t.hasdata = set(self.hasdata)
        t.labels = {v: list(l) for v, l in self.labels.items()}
        t.alloc, t.fresh = self.alloc, self.fresh
        t.out_of_limits = self.out_of_limits
        return t

    def add(self, v):
        if v >= self.cap:
            self.out_of_limits = True
            return
        if v not in self.present:
            if v in self.labels or v in self.hasdata:
                self.readds += 1
            self.present.add(v)
            self.labels[v] = []
            self.edges[v] = {}
            self.datum[v] = None
            self.hasdata.discard(v)
            self.unread.discard(v)

    def bind(self, v1, v2, a):
        if v1 not in self.present or v2 not in self.present or v1 == v2:
            self.out_of_limits = True
            return
        if a not in self.labels[v1]:
            if len(self.labels[v1]) >= self.n:
                self.out_of_limits = True
                return
            self.labels[v1].append(a)
        self.edges.setdefault(v1, {})[a] = v2
        g1, g2 = self.grp.get(v1), self.grp.get(v2)
        if g1 is None and g2 is None:
            if len(self.members) >= 14:
                self.out_of_limits = True
                return
            g = self.fresh
            self.fresh += 1
            self.members[g] = {v1, v2}
            self.grp[v1] = self.grp[v2] = g
        elif g1 is None:
            if len(self.members[g2]) >= 16:
                self.out_of_limits = True
                return
            self.members[g2].add(v1)
            self.grp[v1] = g2
        elif g2 is None:
            if len(self.members[g1]) >= 16:
                self.out_of_limits = True
                return
            self.members[g1].add(v2)
            self.grp[v2] = g1
        self.max_groups = max(self.max_groups, len(self.members))
        self.max_group_size = max([self.max_group_size] + [len(m) for m in self.members.values()])

    def put(self, v, d=None):
        if v not in self.present:
            self.out_of_limits = True
            return
        self.unread.add(v)
        self.hasdata.add(v)
        self.datum[v] = d

    def data(self, v):
        if v not in self.present:
            self.out_of_limits = True
            return
        if v in self.unread:
            self.unread.discard(v)
            g = self.grp.get(v)
            if g is not None and not (self.members[g] & self.unread):
                for w in self.members[g]:
                    self.present.discard(w)
                    self.grp.pop(w, None)
                del self.members[g]
                self.collections += 1

    def next_id(self):
        for v in range(self.alloc, self.cap):
            if v not in self.present:
                self.alloc = v + 1
                return v
        self.out_of_limits = True
        return None

    def free_label(self, rng, v, pool):
        used = self.labels.get(v, [])
        cands = [l for l in pool if l not in used]
        return rng.pick(cands) if cands else None


# ------------------------------------------------------------------ core profile

DEFAULT_WEIGHTS = {"add": 18, "bind": 26, "put": 16, "data": 16, "next": 5, "kid": 4, "kids": 4,
                   "keys": 3, "readd": 4, "nextadd": 4}


def apply_op(t, op):
    """feeds one op line (handle ignored) to a tracker"""
    p = op.split()
    k = p[0]
    if k == "ADD":
        t.add(int(p[2]))
    elif k == "BIND":
        t.bind(int(p[2]), int(p[3]), p[4])
    elif k == "PUT":
        t.put(int(p[2]), p[3] if len(p) > 3 else None)
    elif k == "DATA":
        t.data(int(p[2]))
    elif k == "NEXT":
        t.next_id()


def core_history(rng, hid, n=None, cap=None, length=None, weights=None, idpool=None,
                 observers=True, labels=None, prefix=None, base=None):
    """add/bind/put/data/next_id + observers on one graph, inside the limits
    with high probability (the history is cut at the first call that the
    tracker judges outside the limits)"""
    n = n or rng.pick([1, 2, 3, 4, 8, 16])
    cap = cap or rng.pick([4, 6, 8, 12, 16, 24, 40, 64, 256])
    length = length or rng.pick([10, 20, 30, 40, 60])
    w = dict(DEFAULT_WEIGHTS)
    w.update(weights or {})
    pool_size = idpool or min(cap, rng.pick([3, 4, 5, 6, 8, 12, 20]))
    if base is None:
        base = rng.below(cap - pool_size + 1)
    ids = list(range(base, min(cap, base + pool_size)))
    labels = labels or LABEL_POOL
    t = Tracker(n, cap)
    ops = ["NEW g %d" % cap]
    for op in (prefix or []):
        ops.append(op)
        apply_op(t, op)
    pairs = [(k, v) for k, v in w.items() if v > 0]
    for _ in range(length):
        k = rng.weighted(pairs)
        pres = sorted(t.present)
        if k == "add":
            v = rng.pick(ids)
            ops.append("ADD g %d" % v)
            t.add(v)
        elif k == "readd":
            if not pres:
                continue
            v = rng.pick(pres)
            ops.append("ADD g %d" % v)
            t.add(v)
        elif k == "nextadd":
            v = t.next_id()
            if v is None:
                break
            ops.append("NEXT g")
            ops.append("ADD g %d" % v)
            t.add(v)
        elif k == "bind":
            if len(pres) < 2:
                continue
            v1 = rng.pick(pres)
            v2 = rng.pick([x for x in pres if x != v1])
            used = t.labels.get(v1, [])
            again = [(a0, w0) for a0, w0 in t.edges.get(v1, {}).items() if w0 in t.present and w0 != v1]
            if again and rng.chance(1, 8):
                a, v2 = rng.pick(again)          # the very same edge once more (its target may be a new incarnation)
            elif used and (rng.chance(1, 4) or len(used) >= n):
                a = rng.pick(used)
            else:
                a = t.free_label(rng, v1, labels)
                if a is None:
                    continue
            before = t.out_of_limits
            t.bind(v1, v2, a)
            if t.out_of_limits and not before:
                t.out_of_limits = False    # do not emit the offending call
                continue
            ops.append("BIND g %d %d %s" % (v1, v2, a))
        elif k == "put":
            if not pres:
                continue
            v = rng.pick(pres)
            d = gen_data(rng)
            if t.datum.get(v) and rng.chance(1, 5):
                d = t.datum[v]                       # the very same bytes again (after a read or as an overwrite)
            ops.append("PUT g %d %s" % (v, d))
            t.put(v, d)
        elif k == "data":
            if not pres:
                continue
            # prefer vertices holding unread data half of the time
            unread = sorted(t.unread & t.present)
            v = rng.pick(unread) if unread and rng.chance(1, 2) else rng.pick(pres)
            ops.append("DATA g %d" % v)
            t.data(v)
        elif k == "next":
            v = t.next_id()
            if v is None:
                break
            ops.append("NEXT g")
        elif k == "kid":
            if not pres:
                continue
            v = rng.pick(pres)
            used = t.labels.get(v, [])
            a = rng.pick(used) if used and rng.chance(2, 3) else rng.pick(labels)
            ops.append("KID g %d %s" % (v, a))
        elif k == "kids":
            if not pres:
                continue
            ops.append("KIDS g %d" % rng.pick(pres))
        elif k == "keys":
            ops.append("KEYS g")
        if observers and rng.chance(1, 6):
            ops.append("KEYS g")
    ops.append("KEYS g")
    for v in sorted(t.present)[:6]:
        ops.append("KIDS g %d" % v)
    meta = {"collections": t.collections, "max_groups": t.max_groups,
            "max_group_size": t.max_group_size, "readds": t.readds, "cap": cap, "n": n,
            "tracker": t}
    return History(hid, n, ops, meta)


# ------------------------------------------------------------------ adversarial orders

ADVERSARY_PREFIXES = [
    # put before bind, then read
    ["ADD g 1", "ADD g 2", "PUT g 2 V0a0b", "BIND g 1 2 A0"],
    # overwrite of an unread datum inside a group
    ["ADD g 1", "ADD g 2", "BIND g 1 2 A0", "PUT g 2 V0a", "PUT g 2 B0b00000000000000:1"],
    # re-add of a grouped vertex, then bind it elsewhere
    ["ADD g 1", "ADD g 2", "ADD g 3", "BIND g 1 2 A0", "ADD g 2", "BIND g 3 2 A0"],
    # read of an ungrouped vertex next to vertex 0
    ["ADD g 0", "ADD g 3", "PUT g 3 V01", "DATA g 3"],
    # both endpoints hold unread data when the group is formed
    ["ADD g 1", "ADD g 2", "PUT g 1 V01", "PUT g 2 V02", "BIND g 1 2 A0"],
    # collected id re-added and re-bound
    ["ADD g 1", "ADD g 2", "BIND g 1 2 A0", "PUT g 2 V01", "DATA g 2", "ADD g 2", "ADD g 1"],
    # stored vertex joins an existing group from either side
    ["ADD g 1", "ADD g 2", "ADD g 3", "BIND g 1 2 A0", "PUT g 3 V07", "BIND g 3 1 A1"],
    ["ADD g 1", "ADD g 2", "ADD g 3", "BIND g 1 2 A0", "PUT g 3 V07", "BIND g 2 3 A1"],
    # two groups, bind across them
    ["ADD g 0", "ADD g 1", "ADD g 2", "ADD g 3", "BIND g 0 1 A0", "BIND g 2 3 A0", "BIND g 1 2 A1", "PUT g 3 V05"],
    # read twice, then put again
    ["ADD g 1", "ADD g 2", "BIND g 1 2 A0", "PUT g 1 V01", "PUT g 2 V02", "DATA g 1", "DATA g 1", "PUT g 1 V03"],
    # a datum read while ungrouped, then the vertex is bound and the group's real last datum is read
    ["ADD g 1", "PUT g 1 V01", "DATA g 1", "ADD g 2", "PUT g 2 V02", "BIND g 1 2 A0", "DATA g 2"],
    # an edge across two groups, the target's group dies, the target is added again and the very same edge is bound again
    ["ADD g 0", "ADD g 1", "ADD g 2", "ADD g 3", "BIND g 0 1 A0", "BIND g 2 3 A0", "BIND g 0 2 A1", "PUT g 3 V01", "DATA g 3",
     "ADD g 2", "BIND g 0 2 A1", "PUT g 2 V02", "DATA g 2"],
    # zero-length data, read, collected, the id added again: data() must be None again
    ["ADD g 1", "ADD g 2", "BIND g 1 2 A0", "PUT g 2 V", "DATA g 2", "ADD g 2", "DATA g 2", "ADD g 1", "DATA g 1"],
    # the same long datum put again after it was read, while another member keeps the group alive
    ["ADD g 1", "ADD g 2", "BIND g 1 2 A0", "PUT g 2 V01", "PUT g 1 V0102030405060708090a", "DATA g 1",
     "PUT g 1 V0102030405060708090a", "DATA g 2"],
    # a re-put after a read while another member still holds unread data
    ["ADD g 1", "ADD g 2", "ADD g 3", "BIND g 1 2 A0", "BIND g 1 3 A1", "PUT g 1 V01", "PUT g 2 V02", "DATA g 1", "PUT g 1 V03", "DATA g 2"],
]


def adversary_history(rng, hid):
    n = rng.pick([2, 2, 3, 4, 16])
    cap = rng.pick([4, 5, 6, 8, 16])
    pre = list(rng.pick(ADVERSARY_PREFIXES))
    w = {"add": 10, "readd": 8, "bind": 22, "put": 22, "data": 26, "next": 3, "nextadd": 4,
         "kid": 2, "kids": 2, "keys": 4}
    return core_history(rng, hid, n=n, cap=cap, length=rng.pick([6, 12, 25, 40]), weights=w,
                        idpool=min(cap, rng.pick([3, 4, 5])), base=0, prefix=pre)


def boundary_history(rng, hid):
    kind = rng.pick(["labels", "members", "groups", "lastid"] * 3 + ["crowd"])
    n = rng.pick([1, 2, 3, 4, 8, 16])
    if kind == "crowd" and os.environ.get("VERIF_NO_W9"):
        kind = "groups"
    if kind == "crowd":
        # more than 255 present vertices, ids and an allocator position across 255/256 (a count or an id kept in a byte)
        cap = rng.pick([300, 600])
        k = rng.pick([256, 257, 290])
        pre = ["ADD g %d" % v for v in range(k)]
        for j in range(rng.below(4)):
            a = rng.pick([3, 100, 254, 255])
            pre += ["BIND g %d %d %s" % (a + 2 * j, 255 + j, lab_alpha(j % n))]
        if rng.chance(1, 2):
            pre += ["NEXT g", "NEXT g"]
        w = {"add": 8, "readd": 4, "bind": 30, "put": 18, "data": 22, "next": 6, "nextadd": 6, "kid": 2, "kids": 2, "keys": 3}
        return core_history(rng, hid, n=n, cap=cap, length=rng.pick([8, 16]), weights=w, idpool=8, base=252, prefix=pre)
    if kind == "labels":
        cap = rng.pick([4, 8, 16])
        pre = fill_prefix(rng, "labels", n, cap)[1:]
        pool, base = min(cap, 4), 0
    elif kind == "members":
        cap = rng.pick([17, 20, 32])
        pre = fill_prefix(rng, "members", n, cap)[1:]
        pool, base = min(cap, 18), 0
    elif kind == "groups":
        cap = rng.pick([29, 32, 40])
        pre = fill_prefix(rng, "groups", n, cap)[1:]
        pool, base = min(cap, 30), 0
    else:
        cap = rng.pick([3, 4, 6])
        pre = ["ADD g %d" % v for v in range(cap - 1)]
        pool, base = cap, 0
    w = {"add": 8, "readd": 4, "bind": 30, "put": 18, "data": 22, "next": 6, "nextadd": 6,
         "kid": 2, "kids": 2, "keys": 3}
    return core_history(rng, hid, n=n, cap=cap, length=rng.pick([10, 30, 60]), weights=w,
                        idpool=pool, base=base, prefix=pre)


def _cycle(rng, vs, n):
    """one group over the (absent) ids vs: returns (build ops, read ops); build = adds, binds in random order and
    direction forming one connected group, puts at random moments (before, between and after the binds, overwrites,
    reads of ungrouped vertices); reads = first reads of every unread datum in random order (the last one collects)"""
    build, unread = [], []
    for v in vs:
        build.append("ADD g %d" % v)
    joined = [vs[0]]
    nlab = {v: 0 for v in vs}

    def maybe_put(pool, p=3):
        if rng.chance(1, p):
            v = rng.pick(pool)
            build.append("PUT g %d %s" % (v, gen_data(rng)))
            if v not in unread:
                unread.append(v)
            k = rng.below(8)
            if k == 0:                      # overwrite
                build.append("PUT g %d %s" % (v, gen_data(rng)))
            elif k == 1 and v in joined and len(joined) > 1 and any(u != v and u in joined for u in unread):
                build.append("DATA g %d" % v)   # read it while another member of the group still holds unread data
                unread.remove(v)
            elif k == 2 and v not in joined[1:] and len(joined) == 1:
                build.append("DATA g %d" % v)  # read of a vertex that is still ungrouped
                unread.remove(v)

    maybe_put(vs)
    for v in vs[1:]:
        m = rng.pick(joined)
        a, b = (m, v) if rng.chance(1, 2) else (v, m)
        if nlab[a] >= n:
            a, b = b, a
        if nlab[a] >= n:
            m2 = [x for x in joined if nlab[x] < n]
            if not m2:
                continue
            a, b = m2[0], v
        build.append("BIND g %d %d %s" % (a, b, lab_alpha(nlab[a])))
        nlab[a] += 1
        joined.append(v)
        maybe_put(vs)
    if rng.chance(1, 6):
        build.append("ADD g %d" % rng.pick(joined))        # re-add of a present member
    pool = [v for v in joined if len(joined) > 1]
    if not unread or not any(v in joined for v in unread):
        v = rng.pick(joined)
        build.append("PUT g %d %s" % (v, gen_data(rng)))
        if v not in unread:
            unread.append(v)
    reads = list(unread)
    for k in range(len(reads) - 1, 0, -1):
        kk = rng.below(k + 1)
        reads[k], reads[kk] = reads[kk], reads[k]
    # data held by vertices that never joined the group keeps them alive for ever: read the group's data last
    reads = [v for v in reads if v not in joined] + [v for v in reads if v in joined]
    return build, ["DATA g %d" % v for v in reads], [v for v in vs if v not in joined]


def soak_history(rng, hid, cycles, bystanders=None, witness=False):
    """hundreds of create / fill / read / collect cycles over a rotating id
    pool with 0..13 other groups kept alive meanwhile; one or two cycle groups alive at a time"""
    k = rng.below(14) if bystanders is None else bystanders
    n = rng.pick([1, 2, 4, 16])
    if witness:
        # bystander vertex 0 gets one more edge, into the first cycle group, and is asked about it ever after: the edge
        # dangles once that group is collected and must stay what it is, however many collections follow
        k, n = max(k, 1), max(n, 2)
    pool = rng.pick([4, 6, 8, 10])
    cap = 2 * k + pool + rng.below(3)
    two = (not witness) and k <= 12 and pool >= 6 and rng.chance(1, 2)       # two cycle groups alive at a time
    ops = ["NEW g %d" % cap]
    for b in range(k):
        ops += ["ADD g %d" % (2 * b), "ADD g %d" % (2 * b + 1),
                "BIND g %d %d %s" % (2 * b, 2 * b + 1, lab_alpha(0))]
        if rng.chance(1, 2):
            ops.append("PUT g %d %s" % (2 * b + rng.below(2), gen_data(rng)))
    base = 2 * k
    loose = set()          # ids that stayed ungrouped (never collected): not reused
    c = 0
    while c < cycles:
        free = [base + j for j in range(pool) if base + j not in loose]
        if len(free) < (4 if two else 2):
            break
        start = rng.below(len(free))
        free = free[start:] + free[:start]
        if two and len(free) >= 4:
            sa = 2 + (rng.below(2) if len(free) >= 6 else 0)
            sb = 2 + (rng.below(2) if len(free) >= sa + 3 else 0)
            ba, ra, la = _cycle(rng, free[:sa], n)
            bb, rb, lb = _cycle(rng, free[sa:sa + sb], n)
            order = rng.below(3)
            if order == 0:
                ops += ba + bb + ra + rb            # the older group dies first
            elif order == 1:
                ops += ba + bb + rb + ra
            else:
                ops += ba + ra + bb + rb
            loose.update(la + lb)
            c += 2
        else:
            size = min(len(free), rng.pick([2, 2, 3, 4]))
            b1, r1, l1 = _cycle(rng, free[:size], n)
            if witness and c == 0:
                grouped = [v for v in free[:size] if v not in l1]
                if grouped:
                    b1 = b1 + ["BIND g 0 %d %s" % (grouped[0], lab_alpha(1))]
            ops += b1 + r1
            loose.update(l1)
            c += 1
        if witness and rng.chance(1, 8):
            ops += ["KID g 0 %s" % lab_alpha(1), "KIDS g 0", "KIDS g 1"]
        if rng.chance(1, 6):
            ops.append("KEYS g")
    if witness:
        ops += ["KID g 0 %s" % lab_alpha(1), "KIDS g 0"]
    ops.append("KEYS g")
    return History(hid, n, ops, {"cycles": c, "bystanders": k, "cap": cap, "n": n})


def clone_history(rng, hid):
    """prefix on g; CLONE g h; the same calls on both copies; then calls on
    one copy only while the other is observed"""
    if rng.chance(1, 4):
        # boundary shapes at clone time: exactly 14 groups alive / a group of exactly 16 / a vertex with exactly N labels
        kind = rng.pick(["groups", "groups", "members", "labels"])
        n0 = rng.pick([1, 2, 4, 16])
        cap0 = rng.pick([32, 40]) if kind != "labels" else rng.pick([4, 8])
        pre = fill_prefix(rng, kind, n0, cap0)[1:]
        h0 = core_history(rng, hid, n=n0, cap=cap0, length=rng.pick([0, 3, 8]) or 1, observers=False, prefix=pre,
                          idpool=min(cap0, 30), base=0, weights={"put": 30, "data": 6, "bind": 4, "add": 4, "next": 4})
        h0.meta["boundary"] = True
    else:
        h0 = core_history(rng, hid, length=rng.pick([8, 15, 30]), observers=False,
                          weights={"put": 20, "data": 10, "next": 8, "nextadd": 6})
    t = h0.meta["tracker"]
    ops = [o for o in h0.ops if not o.startswith(("KEYS", "KIDS", "KID"))]
    ops.append("CLONE g h")
    clone_at = len(ops) - 1
    if h0.meta.get("boundary"):
        cont = core_history(rng.fork(), "x", n=h0.n, cap=h0.meta["cap"], length=rng.pick([30, 60, 90]),
                            observers=False, prefix=ops[1:clone_at], idpool=min(h0.meta["cap"], 30), base=0,
                            weights={"put": 30, "data": 34, "next": 3, "nextadd": 2, "add": 2, "bind": 2, "readd": 1})
    else:
        cont = core_history(rng.fork(), "x", n=h0.n, cap=h0.meta["cap"], length=rng.pick([6, 12, 25]),
                            observers=False, prefix=ops[1:clone_at],
                            weights={"put": 18, "data": 22, "next": 8, "nextadd": 6})
    tail = cont.ops[clone_at:]
    pairs = []
    for o in tail:
        p = o.split()
        if p[0] in ("KEYS",):
            continue
        ops.append(o)
        ops.append(" ".join([p[0], "h"] + p[2:]))
        pairs.append((len(ops) - 2, len(ops) - 1))
    # independent mutation: continue on g only, watch h; then on h only, watch g
    watch = []
    more = core_history(rng.fork(), "y", n=h0.n, cap=h0.meta["cap"], length=rng.pick([5, 10]),
                        observers=False, prefix=cont.ops[1:], weights={"put": 20, "data": 25, "add": 20})
    for o in more.ops[len(cont.ops):]:
        p = o.split()
        if p[0] == "KEYS":
            continue
        ops.append(o)
        ops.append("SNAP h")
        watch.append(len(ops) - 1)
    more2 = core_history(rng.fork(), "z", n=h0.n, cap=h0.meta["cap"], length=rng.pick([5, 10]),
                         observers=False, prefix=cont.ops[1:], weights={"put": 20, "data": 25, "add": 20})
    for o in more2.ops[len(cont.ops):]:
        p = o.split()
        if p[0] == "KEYS":
            continue
        ops.append(" ".join([p[0], "h"] + p[2:]))
        ops.append("SNAP g")
        watch.append(len(ops) - 1)
    return History(hid, h0.n, ops, {"clone_at": clone_at, "pairs": pairs, "watch": watch,
                                    "cap": h0.meta["cap"], "n": h0.n})


def fill_prefix(rng, kind, n, cap):
    """boundary prefixes: exactly N labels, exactly 16 members, exactly 14 groups"""
    ops = ["NEW g %d" % cap]
    if kind == "labels":
        ops += ["ADD g 0", "ADD g 1"]
        for i in range(n):
            ops.append("BIND g 0 1 %s" % lab_alpha(100 + i))
    elif kind == "members":
        for v in range(16):
            ops.append("ADD g %d" % v)
        for v in range(1, 16):
            # the newcomer joins as the target or (every label slot of it being free) as the source of the bind
            if rng.chance(1, 2):
                ops.append("BIND g %d %d %s" % (v - 1, v, lab_alpha(0)))
            else:
                ops.append("BIND g %d %d %s" % (v, v - 1, lab_alpha(0)))
    elif kind == "groups":
        for g in range(14):
            ops += ["ADD g %d" % (2 * g), "ADD g %d" % (2 * g + 1),
                    "BIND g %d %d %s" % (2 * g, 2 * g + 1, lab_alpha(0))]
    return ops


def script_calls(text):
    """the add/bind/put calls a script text makes, as far as this (deliberately narrow) reader of src/script.rs's grammar
    understands it: [("ADD", id), ("BIND", id, id, label text), ("PUT", id)] with ids either ints or ("$", name); the list
    ends with None at the first command it does not understand (malformed, or a form this reader does not cover)"""
    import re
    clean = re.sub(r"#.*\n", "", text)
    out = []
    for cmd in [c.strip() for c in clean.split(";")]:
        if not cmd:
            continue
        m = re.fullmatch(r"([A-Z]+) *\(([^)]*)\)", cmd, re.S)
        if not m:
            out.append(None)
            return out
        args = [a.strip() for a in m.group(2).split(",")]
        args = [a for a in args if a]

        def ident(a):
            if a.startswith("$"):
                return ("$", a[1:])
            if a.startswith("ν"):
                a = a[1:]
            return int(a) if re.fullmatch(r"[0-9]{1,9}", a) else None
        k = m.group(1)
        need = {"ADD": 1, "BIND": 3, "PUT": 2}.get(k)
        if need is None or len(args) < need:
            out.append(None)
            return out
        ids = [ident(a) for a in args[: (2 if k == "BIND" else 1)]]
        if any(i is None for i in ids):
            out.append(None)
            return out
        if k == "PUT" and not re.fullmatch(r"([0-9A-Fa-f]{2})+", re.sub(r"[ \t\n\r-]", "", args[1])):
            out.append(None)
            return out
        if k == "BIND" and re.search(r"\s", args[2]):
            out.append(("OUTSIDE",))      # a label text with a blank inside: no property speaks about it (C17: non-space characters)
            return out
        out.append((k,) + tuple(ids) + ((args[2],) if k == "BIND" else ()))
    return out


def _apply_script(tr, text):
    """replays the calls of a script on the tracker; True = understood to the end"""
    vs = {}

    def val(i):
        if isinstance(i, tuple):
            if i[1] not in vs:
                vs[i[1]] = tr.next_id()
            return vs[i[1]]
        return i
    for c in script_calls(text):
        if c is None:
            return False
        if c[0] == "OUTSIDE":
            tr.out_of_limits = True
            return True
        ids = [val(i) for i in c[1:(3 if c[0] == "BIND" else 2)]]
        if tr.out_of_limits or any(i is None for i in ids):
            return True
        if c[0] == "ADD":
            tr.add(ids[0])
        elif c[0] == "BIND":
            tr.bind(ids[0], ids[1], "script:" + c[3])
        else:
            tr.put(ids[0])
        if tr.out_of_limits:
            return True
    return True


def first_outside_limits(h):
    """index of the first call of the history that leaves the property's
    quantifier (capacity limits / documented preconditions) according to the
    reference bookkeeping, or None.  Calls the tracker does not understand
    (merge, slice, load, script ...) make the rest of that handle unknown and
    are accepted."""
    ts = {}
    unknown = set()
    for i, op in enumerate(h.ops):
        t = op.split()
        k = t[0]
        if k == "NEW":
            ts[t[1]] = Tracker(h.n, int(t[2]))
            unknown.discard(t[1])
            continue
        if k == "CLONE":
            if t[1] in ts and t[1] not in unknown:
                ts[t[2]] = ts[t[1]].clone()
            else:
                unknown.add(t[2])
            continue
        if k == "SCRIPT" and t[1] in ts and t[1] not in unknown:
            # a script is the calls it makes: one that puts onto / binds an absent vertex leaves the preconditions like
            # the direct call would; anything this reader does not follow makes the handle unknown (accepted)
            try:
                text = bytes.fromhex(t[2]).decode("utf-8")
                understood = _apply_script(ts[t[1]], text)
            except (ValueError, IndexError):
                understood = False
            if ts[t[1]].out_of_limits:
                return i
            if not understood:
                unknown.add(t[1])
            continue
        if k in ("MERGE", "SCRIPT"):
            unknown.add(t[1])
            continue
        if k in ("SLICE",):
            unknown.add(t[3])
            continue
        if k in ("LOAD", "LOADRAW"):
            unknown.add(t[2])
            continue
        if len(t) < 2 or t[1] in unknown or t[1] not in ts:
            continue
        tr = ts[t[1]]
        if k == "ADD":
            tr.add(int(t[2]) if t[2] != "MAX" else 2 ** 64)
        elif k == "BIND":
            tr.bind(int(t[2]), int(t[3]), t[4])
        elif k == "PUT":
            tr.put(int(t[2]))
        elif k == "DATA":
            tr.data(int(t[2]))
        elif k == "NEXT":
            tr.next_id()
        elif k in ("KID", "KIDS", "INSPECT", "VPRINT"):
            if int(t[2]) not in tr.present:
                tr.out_of_limits = True
        if tr.out_of_limits:
            return i
    return None
