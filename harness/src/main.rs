// Runs op files (see DESIGN.md Appendix B) on the real sodg crate, built from
// /repo's working tree with the `verif` feature, and prints one canonical
// line per call: result, then (for calls that touch a graph) the complete
// internal state of that graph.  The OCaml driver of the extracted Coq model
// prints the same lines for the same file; the comparator diffs them.

use sodg::{Hex, Label, Script, Sodg, VerifSnapshot};
use std::collections::{HashMap, HashSet};
use std::fmt::Write as _;
use std::io::{BufRead, BufWriter, Write};
use std::panic::{catch_unwind, AssertUnwindSafe};
use std::path::PathBuf;
use std::str::FromStr;

fn hexs(b: &[u8]) -> String {
    let mut s = String::with_capacity(b.len() * 2);
    for x in b {
        write!(s, "{x:02x}").unwrap();
    }
    s
}

fn unhex(s: &str) -> Vec<u8> {
    (0..s.len() / 2)
        .map(|i| u8::from_str_radix(&s[2 * i..2 * i + 2], 16).unwrap())
        .collect()
}

fn text_arg(s: &str) -> String {
    // text arguments travel as hex of their UTF-8 bytes; "-" is the empty text
    if s == "-" {
        String::new()
    } else {
        String::from_utf8(unhex(s)).unwrap()
    }
}

fn text_out(s: &str) -> String {
    if s.is_empty() {
        "-".to_string()
    } else {
        hexs(s.as_bytes())
    }
}

fn label_out(l: &Label) -> String {
    match l {
        Label::Greek(c) => format!("G{:x}", *c as u32),
        Label::Alpha(n) => format!("A{n}"),
        Label::Str(a) => format!(
            "S{}",
            a.iter()
                .map(|c| format!("{:x}", *c as u32))
                .collect::<Vec<_>>()
                .join(".")
        ),
    }
}

fn label_in(s: &str) -> Label {
    let (k, rest) = s.split_at(1);
    match k {
        "G" => Label::Greek(char::from_u32(u32::from_str_radix(rest, 16).unwrap()).unwrap()),
        "A" => Label::Alpha(rest.parse::<usize>().unwrap()),
        "S" => {
            let mut a = [' '; 8];
            for (i, p) in rest.split('.').enumerate() {
                a[i] = char::from_u32(u32::from_str_radix(p, 16).unwrap()).unwrap();
            }
            Label::Str(a)
        }
        _ => panic!("bad label {s}"),
    }
}

fn hex_out(h: &Hex) -> String {
    match h {
        Hex::Vector(v) => format!("V{}", hexs(v)),
        Hex::Bytes(a, l) => format!("B{}:{}", hexs(a), l),
    }
}

fn hex_in(s: &str) -> Hex {
    let (k, rest) = s.split_at(1);
    match k {
        "V" => Hex::Vector(unhex(rest)),
        "B" => {
            let (a, l) = rest.split_once(':').unwrap();
            let v = unhex(a);
            let mut arr = [0u8; 8];
            arr.copy_from_slice(&v);
            Hex::Bytes(arr, l.parse().unwrap())
        }
        _ => panic!("bad hex {s}"),
    }
}

fn usize_in(s: &str) -> usize {
    if s == "MAX" {
        usize::MAX
    } else {
        s.parse().unwrap()
    }
}

fn edges_out(e: &[(Label, usize)]) -> String {
    e.iter()
        .map(|(l, v)| format!("{}>{}", label_out(l), v))
        .collect::<Vec<_>>()
        .join(";")
}

fn snap_out(s: &VerifSnapshot) -> String {
    let mut o = String::new();
    write!(
        o,
        "cap={} next={} bc={} sc={} V[",
        s.capacity,
        s.next_v,
        s.branches.len(),
        s.stores.len()
    )
    .unwrap();
    let mut first = true;
    for (i, v) in s.vertices.iter().enumerate() {
        match v {
            None => {
                if !first {
                    o.push(' ');
                }
                first = false;
                write!(o, "{i}:-").unwrap();
            }
            Some(v) => {
                let default = v.branch == 0
                    && v.persistence == 0
                    && !v.vector
                    && v.len == 0
                    && v.raw.iter().all(|b| *b == 0)
                    && v.edges.is_empty();
                if default {
                    continue;
                }
                if !first {
                    o.push(' ');
                }
                first = false;
                let d = if v.vector {
                    format!("V{}", hexs(&v.raw))
                } else {
                    format!("B{}:{}", hexs(&v.raw), v.len)
                };
                write!(
                    o,
                    "{}:{},{},{},[{}]",
                    i,
                    v.branch,
                    ["E", "S", "T"][v.persistence as usize],
                    d,
                    edges_out(&v.edges)
                )
                .unwrap();
            }
        }
    }
    o.push_str("] B[");
    first = true;
    for (i, b) in s.branches.iter().enumerate() {
        match b {
            None => {
                if !first {
                    o.push(' ');
                }
                first = false;
                write!(o, "{i}:-").unwrap();
            }
            Some(m) => {
                if m.is_empty() {
                    continue;
                }
                if !first {
                    o.push(' ');
                }
                first = false;
                write!(
                    o,
                    "{}:{}",
                    i,
                    m.iter().map(ToString::to_string).collect::<Vec<_>>().join(".")
                )
                .unwrap();
            }
        }
    }
    o.push_str("] S[");
    first = true;
    for (i, c) in s.stores.iter().enumerate() {
        match c {
            None => {
                if !first {
                    o.push(' ');
                }
                first = false;
                write!(o, "{i}:-").unwrap();
            }
            Some(0) => {}
            Some(c) => {
                if !first {
                    o.push(' ');
                }
                first = false;
                write!(o, "{i}:{c}").unwrap();
            }
        }
    }
    o.push(']');
    o
}

struct Ctx {
    dir: PathBuf,
    images: HashMap<String, Vec<u8>>,
}

enum Out {
    /// result text, optional handle whose snapshot is appended
    Line(String, Option<String>),
}

fn with_snap(r: impl Into<String>, h: &str) -> Out {
    Out::Line(r.into(), Some(h.to_string()))
}

fn plain(r: impl Into<String>) -> Out {
    Out::Line(r.into(), None)
}

fn load_bytes<const N: usize>(ctx: &Ctx, bytes: &[u8]) -> Result<Sodg<N>, ()> {
    // the (possibly truncated) image is written over the very file save() wrote before: a crash during the
    // non-atomic write leaves its prefix under the same path, next to whatever earlier saves left behind
    let p = ctx.dir.join("save.bin");
    std::fs::write(&p, bytes).unwrap();
    Sodg::<N>::load(&p).map_err(|_| ())
}

fn stateless(t: &[&str]) -> Option<String> {
    Some(match t[0] {
        "HEXALL" => {
            let h = hex_in(t[1]);
            let rt = match Hex::from_str(&h.print()) {
                Ok(x) => hex_out(&x),
                Err(_) => "err".to_string(),
            };
            // from_str(print(h)) == h and h == from_str(print(h)), with the type's own equality
            let rteq = match Hex::from_str(&h.print()) {
                Ok(x) => format!("{}{}", u8::from(x == h), u8::from(h == x)),
                Err(_) => "err".to_string(),
            };
            format!(
                "len={} bytes={} print={} empty={} vec={} i64={} f64={} rt={} rteq={}",
                h.len(),
                hexs(h.bytes()),
                text_out(&h.print()),
                u8::from(h.is_empty()),
                hexs(&h.to_vec()),
                h.to_i64().map_or("err".to_string(), |x| x.to_string()),
                h.to_f64()
                    .map_or("err".to_string(), |x| format!("{:016x}", x.to_bits())),
                rt,
                rteq
            )
        }
        "HEXIDX" => {
            let h = hex_in(t[1]);
            format!("{}", h[usize_in(t[2])])
        }
        "HEXBYTEAT" => {
            let h = hex_in(t[1]);
            format!("{}", h.byte_at(usize_in(t[2])))
        }
        "HEXTAIL" => {
            let h = hex_in(t[1]);
            hex_out(&h.tail(usize_in(t[2])))
        }
        "HEXRANGE" => {
            let h = hex_in(t[1]);
            let s = usize_in(t[3]);
            let e = usize_in(t[4]);
            let r: &[u8] = match t[2] {
                "R" => &h[s..e],
                "RF" => &h[s..],
                "RFULL" => &h[..],
                "RI" => &h[s..=e],
                "RT" => &h[..e],
                "RTI" => &h[..=e],
                k => panic!("bad range kind {k}"),
            };
            format!("[{}]", hexs(r))
        }
        "HEXEQ" => {
            let a = hex_in(t[1]);
            let b = hex_in(t[2]);
            format!("{}", u8::from(a == b))
        }
        "HEXCONCAT" => {
            let a = hex_in(t[1]);
            let b = hex_in(t[2]);
            let c = a.concat(&b);
            format!("{} a={} b={}", hex_out(&c), hex_out(&a), hex_out(&b))
        }
        "HEXFROMI64" => {
            let z: i64 = t[1].parse().unwrap();
            let h = Hex::from(z);
            format!(
                "{} back={}",
                hex_out(&h),
                h.to_i64().map_or("err".to_string(), |x| x.to_string())
            )
        }
        "HEXFROMF64" => {
            let bits = u64::from_str_radix(t[1], 16).unwrap();
            let h = Hex::from(f64::from_bits(bits));
            format!(
                "{} back={}",
                hex_out(&h),
                h.to_f64()
                    .map_or("err".to_string(), |x| format!("{:016x}", x.to_bits()))
            )
        }
        "HEXFROMSTR" => match Hex::from_str(&text_arg(t[1])) {
            Ok(h) => format!("ok {}", hex_out(&h)),
            Err(_) => "err".to_string(),
        },
        "HEXSET" => {
            let mut h = hex_in(t[1]);
            h[usize_in(t[2])] = u8::from_str_radix(t[3], 16).unwrap();
            hex_out(&h)
        }
        "HEXSTRBYTES" => hex_out(&Hex::from_str_bytes(&text_arg(t[1]))),
        "HEXTOBOOL" => format!("{}", u8::from(hex_in(t[1]).to_bool())),
        "HEXTOUTF8" => match hex_in(t[1]).to_utf8() {
            Ok(s) => format!("ok {}", text_out(&s)),
            Err(_) => "err".to_string(),
        },
        "HEXFROMINT" => match t[1] {
            "4" => hex_out(&Hex::from(t[2].parse::<i32>().unwrap())),
            "2" => hex_out(&Hex::from(t[2].parse::<i16>().unwrap())),
            "1" => hex_out(&Hex::from(t[2].parse::<i8>().unwrap())),
            k => panic!("bad width {k}"),
        },
        "HEXFROMF32" => hex_out(&Hex::from(f32::from_bits(u32::from_str_radix(t[1], 16).unwrap()))),
        "HEXFROMBOOL" => hex_out(&Hex::from(t[1] == "1")),
        "HEXFROMVEC" => hex_out(&Hex::from_vec(unhex(if t[1] == "-" { "" } else { t[1] }))),
        "HEXFROMSLICE" => hex_out(&Hex::from_slice(&unhex(if t[1] == "-" { "" } else { t[1] }))),
        "LABELPARSE" => match Label::from_str(&text_arg(t[1])) {
            Ok(l) => format!("ok {}", label_out(&l)),
            Err(_) => "err".to_string(),
        },
        "LABELPRINT" => text_out(&label_in(t[1]).to_string()),
        // parse, then print the parsed label
        "LABELRT" => match Label::from_str(&text_arg(t[1])) {
            Ok(l) => format!("ok {} {}", label_out(&l), text_out(&l.to_string())),
            Err(_) => "err".to_string(),
        },
        // print, then parse the printed text
        "LABELRTL" => {
            let txt = label_in(t[1]).to_string();
            match Label::from_str(&txt) {
                Ok(l) => format!("{} ok {}", text_out(&txt), label_out(&l)),
                Err(_) => format!("{} err", text_out(&txt)),
            }
        }
        _ => return None,
    })
}

fn step<const N: usize>(
    ctx: &mut Ctx,
    gs: &mut HashMap<String, Sodg<N>>,
    t: &[&str],
) -> Out {
    if let Some(r) = stateless(t) {
        return plain(r);
    }
    match t[0] {
        "NEW" => {
            gs.insert(t[1].to_string(), Sodg::<N>::empty(usize_in(t[2])));
            with_snap("ok", t[1])
        }
        "ADD" => {
            gs.get_mut(t[1]).unwrap().add(usize_in(t[2]));
            with_snap("ok", t[1])
        }
        "BIND" => {
            gs.get_mut(t[1])
                .unwrap()
                .bind(usize_in(t[2]), usize_in(t[3]), label_in(t[4]));
            with_snap("ok", t[1])
        }
        "PUT" => {
            gs.get_mut(t[1]).unwrap().put(usize_in(t[2]), &hex_in(t[3]));
            with_snap("ok", t[1])
        }
        "DATA" => {
            let r = gs.get_mut(t[1]).unwrap().data(usize_in(t[2]));
            with_snap(
                r.map_or("none".to_string(), |h| format!("some {}", hex_out(&h))),
                t[1],
            )
        }
        "KID" => {
            let r = gs[t[1]].kid(usize_in(t[2]), label_in(t[3]));
            plain(r.map_or("none".to_string(), |v| format!("some {v}")))
        }
        "KIDS" => {
            let e: Vec<(Label, usize)> = gs[t[1]].kids(usize_in(t[2])).map(|(a, v)| (*a, *v)).collect();
            plain(format!("[{}]", edges_out(&e)))
        }
        "KEYS" => {
            let g = &gs[t[1]];
            let k = g.keys();
            assert_eq!(k.len(), g.len());
            assert_eq!(k.is_empty(), g.is_empty());
            plain(format!(
                "[{}]",
                k.iter().map(ToString::to_string).collect::<Vec<_>>().join(",")
            ))
        }
        "NEXT" => {
            let r = gs.get_mut(t[1]).unwrap().next_id();
            with_snap(format!("{r}"), t[1])
        }
        "SNAP" => with_snap("ok", t[1]),
        "CLONE" => {
            let c = gs[t[1]].clone();
            gs.insert(t[2].to_string(), c);
            with_snap("ok", t[2])
        }
        "SLICE" => {
            let mut rej: HashSet<(usize, usize, Label)> = HashSet::new();
            for r in &t[4..] {
                let p: Vec<&str> = r.splitn(3, ':').collect();
                rej.insert((usize_in(p[0]), usize_in(p[1]), label_in(p[2])));
            }
            let v = usize_in(t[2]);
            let r = if rej.is_empty() && t.len() == 4 {
                gs[t[1]].slice(v)
            } else {
                gs[t[1]].slice_some(v, |a, b, l| !rej.contains(&(a, b, l)))
            };
            match r {
                Ok(ng) => {
                    gs.insert(t[3].to_string(), ng);
                    with_snap("ok", t[3])
                }
                Err(_) => plain("err"),
            }
        }
        "MERGE" => {
            let right = gs[t[2]].clone();
            let before = right.verif_snapshot();
            let r = gs
                .get_mut(t[1])
                .unwrap()
                .merge(&gs_ref(&right), usize_in(t[3]), usize_in(t[4]));
            assert!(before == right.verif_snapshot());
            match r {
                Ok(()) => with_snap("ok", t[1]),
                Err(e) => {
                    let msg = e.to_string();
                    // the vertices the message names: the ν<digits> tokens after the last colon (the wording of the
                    // message is nobody's contract; that it names the missed vertices is)
                    let tail = msg.rsplit(':').next().unwrap_or("");
                    let mut ids = String::new();
                    let cs: Vec<char> = tail.chars().collect();
                    let mut i = 0;
                    while i < cs.len() {
                        if cs[i] == 'ν' && i + 1 < cs.len() && cs[i + 1].is_ascii_digit() {
                            let mut j = i + 1;
                            while j < cs.len() && cs[j].is_ascii_digit() {
                                j += 1;
                            }
                            if !ids.is_empty() {
                                ids.push(',');
                            }
                            ids.extend(&cs[i + 1..j]);
                            i = j;
                        } else {
                            i += 1;
                        }
                    }

                    with_snap(format!("err {ids}"), t[1])
                }
            }
        }
        "SAVE" => {
            let p = ctx.dir.join("save.bin");
            let r = gs[t[1]].save(&p);
            match r {
                Ok(size) => {
                    let bytes = std::fs::read(&p).unwrap();
                    assert_eq!(size, bytes.len());
                    let line = format!("ok {} {}", size, hexs(&bytes));
                    ctx.images.insert(t[2].to_string(), bytes);
                    plain(line)
                }
                Err(_) => plain("err"),
            }
        }
        "LOAD" => {
            let bytes = ctx.images[t[1]].clone();
            match load_bytes::<N>(ctx, &bytes) {
                Ok(g) => {
                    gs.insert(t[2].to_string(), g);
                    with_snap("ok", t[2])
                }
                Err(()) => plain("err"),
            }
        }
        "LOADCUT" => {
            let bytes = ctx.images[t[1]].clone();
            let k = usize_in(t[2]).min(bytes.len());
            match load_bytes::<N>(ctx, &bytes[..k]) {
                Ok(g) => {
                    gs.insert(t[3].to_string(), g);
                    with_snap("ok", t[3])
                }
                Err(()) => plain("err"),
            }
        }
        "LOADFLIP" => {
            let mut bytes = ctx.images[t[1]].clone();
            let i = usize_in(t[2]) % bytes.len().max(1);
            if !bytes.is_empty() {
                bytes[i] ^= u8::from_str_radix(t[3], 16).unwrap();
            }
            match load_bytes::<N>(ctx, &bytes) {
                Ok(g) => {
                    gs.insert(t[4].to_string(), g);
                    with_snap("ok", t[4])
                }
                Err(()) => plain("err"),
            }
        }
        "LOADRAW" => {
            let bytes = unhex(if t[1] == "-" { "" } else { t[1] });
            match load_bytes::<N>(ctx, &bytes) {
                Ok(g) => {
                    gs.insert(t[2].to_string(), g);
                    with_snap("ok", t[2])
                }
                Err(()) => plain("err"),
            }
        }
        "LOADCUTS" => {
            // every strict prefix of the image
            let bytes = ctx.images[t[1]].clone();
            let mut oks = vec![];
            let mut panics = vec![];
            for k in 0..bytes.len() {
                let r = catch_unwind(AssertUnwindSafe(|| load_bytes::<N>(ctx, &bytes[..k]).is_ok()));
                match r {
                    Ok(true) => oks.push(k.to_string()),
                    Ok(false) => {}
                    Err(_) => panics.push(k.to_string()),
                }
            }
            plain(format!(
                "cuts n={} ok=[{}] panic=[{}]",
                bytes.len(),
                oks.join(","),
                panics.join(",")
            ))
        }
        "CUTSAMPLE" => {
            // sampled strict prefixes of a large image: every step-th cut, the neighbourhood of every 64 KiB
            // boundary, the last 64 cuts
            let bytes = ctx.images[t[1]].clone();
            let step = usize_in(t[2]).max(1);
            let n = bytes.len();
            let mut cuts: Vec<usize> = (0..n).step_by(step).collect();
            let mut b = 65536;
            while b < n + 16 {
                for k in b.saturating_sub(8)..(b + 8).min(n) {
                    cuts.push(k);
                }
                b += 65536;
            }
            for k in n.saturating_sub(64)..n {
                cuts.push(k);
            }
            cuts.sort_unstable();
            cuts.dedup();
            let mut oks = vec![];
            let mut panics = vec![];
            for k in &cuts {
                let r = catch_unwind(AssertUnwindSafe(|| load_bytes::<N>(ctx, &bytes[..*k]).is_ok()));
                match r {
                    Ok(true) => oks.push(k.to_string()),
                    Ok(false) => {}
                    Err(_) => panics.push(k.to_string()),
                }
            }
            plain(format!(
                "cuts n={} ok=[{}] panic=[{}]",
                n,
                oks.join(","),
                panics.join(",")
            ))
        }
        "SCRIPT" => {
            let mut s = Script::from_str(&text_arg(t[2]));
            let r = s.deploy_to(gs.get_mut(t[1]).unwrap());
            with_snap(r.map_or("err".to_string(), |n| format!("ok {n}")), t[1])
        }
        "XML" => plain(gs[t[1]].to_xml().map_or("err".to_string(), |s| text_out(&s))),
        "DOT" => plain(text_out(&gs[t[1]].to_dot())),
        "DEBUG" => {
            let a = format!("{:?}", gs[t[1]]);
            let b = format!("{}", gs[t[1]]);
            assert_eq!(a, b);
            plain(text_out(&a))
        }
        "INSPECT" => plain(
            gs[t[1]]
                .inspect(usize_in(t[2]))
                .map_or("err".to_string(), |s| text_out(&s)),
        ),
        "VPRINT" => plain(
            gs[t[1]]
                .v_print(usize_in(t[2]))
                .map_or("err".to_string(), |s| text_out(&s)),
        ),
        op => panic!("unknown op {op}"),
    }
}

fn gs_ref<const N: usize>(g: &Sodg<N>) -> &Sodg<N> {
    g
}

fn run_history<const N: usize>(ctx: &mut Ctx, lines: &[String], out: &mut impl Write) {
    let mut gs: HashMap<String, Sodg<N>> = HashMap::new();
    ctx.images.clear();
    for l in lines {
        let t: Vec<&str> = l.split_whitespace().collect();
        if t.is_empty() || t[0].starts_with('#') {
            continue;
        }
        PROGRESS.fetch_add(1, std::sync::atomic::Ordering::Relaxed);
        let r = catch_unwind(AssertUnwindSafe(|| step::<N>(ctx, &mut gs, &t)));
        match r {
            Ok(Out::Line(res, h)) => match h {
                Some(h) => {
                    writeln!(out, "{} -> {} | {}", t[0], res, snap_out(&gs[&h].verif_snapshot()))
                        .unwrap();
                }
                None => writeln!(out, "{} -> {}", t[0], res).unwrap(),
            },
            Err(_) => {
                writeln!(out, "{} -> PANIC", t[0]).unwrap();
                let stateless_op = t[0].starts_with("HEX")
                    || t[0].starts_with("LABEL")
                    || t[0].starts_with("LOAD")
                    || matches!(t[0], "KID" | "KIDS" | "KEYS" | "XML" | "DOT" | "DEBUG" | "INSPECT" | "VPRINT" | "SLICE" | "SAVE" | "CUTSAMPLE");
                if !stateless_op {
                    // the graph may be half-updated: the history ends here
                    writeln!(out, "END").unwrap();
                    return;
                }
            }
        }
    }
    writeln!(out, "END").unwrap();
    out.flush().unwrap();
}

static PROGRESS: std::sync::atomic::AtomicU64 = std::sync::atomic::AtomicU64::new(0);

fn main() {
    std::panic::set_hook(Box::new(|_| {}));
    // watchdog: a single call that does not return within 30 s is reported as non-termination
    std::thread::spawn(|| {
        let mut last = 0;
        let mut stuck = 0;
        loop {
            std::thread::sleep(std::time::Duration::from_secs(1));
            let now = PROGRESS.load(std::sync::atomic::Ordering::Relaxed);
            if now == last {
                stuck += 1;
            } else {
                stuck = 0;
                last = now;
            }
            if stuck >= 30 && now > 0 {
                eprintln!("WATCHDOG: no progress for 30 s (a call does not terminate)");
                std::process::exit(3);
            }
        }
    });
    let base = if std::path::Path::new("/dev/shm").is_dir() {
        PathBuf::from("/dev/shm")
    } else {
        std::env::temp_dir()
    };
    let dir = base.join(format!("sodg-verif-{}", std::process::id()));
    std::fs::create_dir_all(&dir).unwrap();
    let mut ctx = Ctx {
        dir: dir.clone(),
        images: HashMap::new(),
    };
    let stdin = std::io::stdin();
    let stdout = std::io::stdout();
    let mut out = BufWriter::new(stdout.lock());
    let mut cur: Vec<String> = vec![];
    let mut header: Option<(String, usize)> = None;
    let flush = |header: &Option<(String, usize)>, cur: &mut Vec<String>, ctx: &mut Ctx, out: &mut BufWriter<std::io::StdoutLock>| {
        if let Some((id, n)) = header {
            writeln!(out, "H {id} {n}").unwrap();
            match n {
                1 => run_history::<1>(ctx, cur, out),
                2 => run_history::<2>(ctx, cur, out),
                3 => run_history::<3>(ctx, cur, out),
                4 => run_history::<4>(ctx, cur, out),
                5 => run_history::<5>(ctx, cur, out),
                8 => run_history::<8>(ctx, cur, out),
                16 => run_history::<16>(ctx, cur, out),
                17 => run_history::<17>(ctx, cur, out),
                _ => panic!("unsupported N {n}"),
            }
        }
        cur.clear();
    };
    for line in stdin.lock().lines() {
        let line = line.unwrap();
        if let Some(rest) = line.strip_prefix("H ") {
            flush(&header, &mut cur, &mut ctx, &mut out);
            let mut p = rest.split_whitespace();
            let id = p.next().unwrap().to_string();
            let n: usize = p.next().unwrap().parse().unwrap();
            header = Some((id, n));
        } else {
            cur.push(line);
        }
    }
    flush(&header, &mut cur, &mut ctx, &mut out);
    out.flush().unwrap();
    let _ = std::fs::remove_dir_all(&dir);
}
