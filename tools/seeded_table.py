#!/usr/bin/env python3
"""Rewrites the table of section 0.5 of DESIGN.md from seeded/*/meta.json."""
import json, os, re
rows = []
for name in sorted(os.listdir("/verif/seeded")):
    mp = os.path.join("/verif/seeded", name, "meta.json")
    if not os.path.exists(mp):
        continue
    m = json.load(open(mp))
    notes = open(os.path.join("/verif/seeded", name, "notes.md")).read()
    patch = open(os.path.join("/verif/seeded", name, "patch.diff")).read()
    files = sorted(set(re.findall(r"^\+\+\+ b/(\S+)", patch, re.M)))
    title = next((l.strip("# ").strip() for l in notes.split("\n") if l.strip()), "")[:110]
    for pid, r in sorted(m.get("checks", {}).items()):
        how = "missed"
        if r["caught"]:
            vl = r["violation_line"] or ""
            kind = "oracle" if "-oracle-" in vl else ("correspondence" if "-correspondence-" in vl else ("proof" if "-proof-" in vl else "build"))
            how = "caught: %s%s" % (kind, " (no-failing-input-found)" if "no-failing-input-found" in vl else " with replay")
        rows.append("| %s | %s | %s | %s | %s |" % (name, ",".join(files), title.replace("|", "/"), pid, how))
table = "| change | files | what it does (first line of its notes) | check run | outcome |\n|---|---|---|---|---|\n" + "\n".join(rows)
s = open("/verif/DESIGN.md").read()
if "SEEDED_TABLE_PLACEHOLDER" in s:
    s = s.replace("SEEDED_TABLE_PLACEHOLDER", "<!-- SEEDED:BEGIN -->\n" + table + "\n<!-- SEEDED:END -->")
else:
    s = re.sub(r"<!-- SEEDED:BEGIN -->.*?<!-- SEEDED:END -->", lambda m: "<!-- SEEDED:BEGIN -->\n" + table + "\n<!-- SEEDED:END -->", s, flags=re.S)
open("/verif/DESIGN.md", "w").write(s)
print(len(rows), "rows")
