#!/usr/bin/env python3
"""Regenerates the table of harmless changes in DESIGN.md (between the HARMLESS markers) from /verif/harmless/*/meta.json."""
import glob
import json
import re

rows = []
for d in sorted(glob.glob("/verif/harmless/*/meta.json")):
    m = json.load(open(d))
    ch = m.get("checks", {})
    quiet = sum(1 for v in ch.values() if v["quiet"])
    loud = sorted(k for k, v in ch.items() if not v["quiet"])
    res = "%d of %d quiet" % (quiet, len(ch)) + (" (spoke: %s)" % ", ".join(loud) if loud else "")
    rows.append("| %s | %s | %s | %s |" % (m["name"], ",".join(m["files"]), m["title"].lstrip("# ").split(": ", 1)[-1], res))
tbl = "| change | files | what it rewrites | quick checks (all 20 properties) |\n|---|---|---|---|\n" + "\n".join(rows)
p = "/verif/DESIGN.md"
s = open(p).read()
s = re.sub(r"<!-- HARMLESS:BEGIN -->\n.*?<!-- HARMLESS:END -->", "<!-- HARMLESS:BEGIN -->\n" + tbl + "\n<!-- HARMLESS:END -->", s, flags=re.S)
open(p, "w").write(s)
print(len(rows), "rows")
