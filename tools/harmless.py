#!/usr/bin/env python3
"""Behaviour-preserving rewrites of /repo (written by sub-agents that saw only the property texts): no check may raise
an alarm on them.

  harmless.py ingest <name> <n> <worktree>     copy OUT/<n>/{patch.diff,notes.md} to /verif/harmless/<name>-<n>/ and
                                                confirm in that worktree that the unedited suite passes with the change
  harmless.py run <name-n> [<pid> ...]          apply to /repo, run bin/check <pid> quick for all (or the given)
                                                properties, undo, record which checks stayed quiet
"""
import json
import os
import shutil
import subprocess
import sys
import time

DIR = "/verif/harmless"
ENV = dict(os.environ, CARGO_NET_OFFLINE="true")
ALL = ["C%02d" % i for i in range(1, 21)]


def sh(cmd, cwd=None, timeout=7200):
    r = subprocess.run(cmd, shell=True, cwd=cwd, env=ENV, capture_output=True, text=True, timeout=timeout)
    return r.returncode, r.stdout + r.stderr


def ingest(name, n, wt):
    full = "%s-%s" % (name, n)
    dst = os.path.join(DIR, full)
    os.makedirs(dst, exist_ok=True)
    for f in ("patch.diff", "notes.md"):
        shutil.copy(os.path.join(wt, "OUT", str(n), f), os.path.join(dst, f))
    sh("git checkout -- src", cwd=wt)
    rc, out = sh("git apply %s" % os.path.join(dst, "patch.diff"), cwd=wt)
    applies = rc == 0
    rc, out = sh("cargo test --offline --lib 2>&1 | grep 'test result'; cargo test --offline --doc 2>&1 | grep 'test result'", cwd=wt)
    ok = "94 passed; 0 failed" in out and "42 passed; 0 failed" in out and "FAILED" not in out
    sh("git checkout -- src", cwd=wt)
    title = open(os.path.join(dst, "notes.md")).readline().strip()
    files = sorted({l.split(" b/")[1].strip() for l in open(os.path.join(dst, "patch.diff")) if l.startswith("diff --git")})
    meta = {"name": full, "title": title, "files": files, "patch_applies": applies, "suite_passes_with_change": ok,
            "suite_summary": out.strip().split("\n")}
    json.dump(meta, open(os.path.join(dst, "meta.json"), "w"), indent=1)
    print(full, "suite ok" if ok and applies else "NOT OK", title)


def run(full, pids):
    dst = os.path.join(DIR, full)
    meta = json.load(open(os.path.join(dst, "meta.json")))
    rc, out = sh("git status --short -- src", cwd="/repo")
    if out.strip():
        print("refusing: /repo has local changes:", out)
        return
    rc, out = sh("git apply %s" % os.path.join(dst, "patch.diff"), cwd="/repo")
    if rc != 0:
        print("patch does not apply:", out)
        return
    res = meta.setdefault("checks", {})
    try:
        for pid in pids or ALL:
            t0 = time.time()
            rc, out = sh("bin/check %s quick" % pid, cwd="/verif")
            viol = [l for l in out.split("\n") if l.startswith("VIOLATION")]
            quiet = rc == 0 and not viol
            res[pid] = {"exit": rc, "quiet": quiet, "violation_line": viol[0] if viol else None, "wall_s": round(time.time() - t0, 1)}
            if not quiet:
                print(full, pid, "ALARM", viol[0] if viol else out[-400:].replace("\n", " | "))
                if viol and "replay=" in viol[0]:
                    path = viol[0].split("replay=")[1].split()[0]
                    try:
                        shutil.copy(path, os.path.join(dst, "alarm-%s.ops" % pid))
                    except OSError:
                        pass
    finally:
        sh("git checkout -- .", cwd="/repo")
    json.dump(meta, open(os.path.join(dst, "meta.json"), "w"), indent=1)
    print(full, "quiet on", sum(1 for v in res.values() if v["quiet"]), "of", len(res))


if __name__ == "__main__":
    if sys.argv[1] == "ingest":
        ingest(sys.argv[2], sys.argv[3], sys.argv[4])
    else:
        run(sys.argv[2], sys.argv[3:])
