CLAIMED = {
 "C07": ("PARTIAL. Coq theorems (P_C07.v): calls within the limits complete (no panic, invariant kept); an id at or above the "
         "capacity makes every call stop with the bound-check panic before any slot is read or written; the (N+1)-th label and "
         "the 17th group member stop with the panic of the container whose bound they exceed; bounds discipline: in every "
         "invariant state every index sodg hands to a container lies inside it; the capacity never changes. Not provable "
         "here: memory safety of the unsafe code inside emap/micromap/microstack (the model's containers are lists). Tie: "
         "malformed-stream histories, panic/no-panic and full state compared call by call, abnormal process end = violation; "
         "thorough tier re-runs the stream under AddressSanitizer (supporting evidence only).",
         "Coq proof (bounds discipline + panic-on-overrun on the model) + checked model/implementation correspondence; ASan run as supporting evidence", "section 8, C07; section 12"),
 "C08": ("Coq theorems (P_C08.v): for every state satisfying wf_image_state (what the Rust types and the invariant guarantee) "
         "decode(encode g) returns g with the allocator position 0, for every trailing input and independent of the decoder's "
         "numeric cut-off (bincode layout incl. both Hex encodings with padding, UTF-8 chars, member stacks, counters). "
         "Equal states have equal futures (functional model). Tie: the bytes written by save() equal encode byte for byte; "
         "load(save(g)) snapshot equals g modulo the allocator; identical answers under the same continuation; next_id on "
         "the reloaded graph = lowest absent id. Corollaries (SerialMore.v): the image ignores the allocator, what load() "
         "returns is saved to the same bytes again, any number of save+load generations is stable, and two graphs share an "
         "image iff they differ in the allocator only; a third of the histories run two further generations.",
         "Coq proof (parser-combinator round trip) + checked model/implementation correspondence", "section 8, C08"),
 "C09": ("Coq theorems (P_C09.v): for every well-formed state and EVERY k < |encode g| the decoder returns end-of-input (an "
         "Err: not a graph, not a panic, not a fuel artefact) on the first k bytes; proved compositionally (extension "
         "stability of every parser, fuel adequacy of the counted repetitions), no bound on the image size. Tie: every "
         "prefix of sampled images is loaded by the real load(); bit-flip stream compared with the model's decoder. "
         "Corollary: the set of images is prefix-free (a cut file is not the complete image of another graph).",
         "Coq proof (extension stability / prefix-EOF of parser combinators) + checked model/implementation correspondence", "section 8, C09"),
 "C11": ("Coq theorems (P_C11.v): for trees embedded in invariant states, within a sufficient capacity condition (fits), merge "
         "returns Ok and keeps the invariant; every labelled path of the right tree exists from `left` and ends on the same "
         "datum; the mapping is injective; old vertices, edges and data outside the image are kept; new vertices are exactly "
         "one per lacking path under ids that were absent and at or above the allocator; merge is a sequence of "
         "add/bind/put/next_id calls (so C01-C03 apply afterwards). Restriction: `fits` is sufficient, not necessary (merges of "
         "at most 16 vertices in total). Tie + oracle: random tree pairs, snapshots before/after, reads after the merge.",
         "Coq proof (tree induction over merge_rec with frame conditions) + checked model/implementation correspondence", "section 8, C11"),
 "C12": ("Coq theorems (P_C12.v): the keys of merge's mapping are exactly the vertices reachable from `right`; Ok implies every "
         "present vertex of the right graph was reached and mapped; if some present vertex is unreachable the result is Err "
         "naming exactly the missed vertices in ascending order; never out of fuel. No hypothesis on the left graph for these. "
         "If no present left vertex has an edge into a collected one (true of every left tree), every image in the mapping is a "
         "present vertex of the left graph after the call, and the left graph stays so closed (MergePresent.v; the hypothesis "
         "is necessary: C12_dangling_image_absent). The verdict theorems are also proved for the extended merge the driver runs "
         "(XJoin.v: right operands that are not trees, join(), vacant slots; C12x_*), with the unconditional fuel bound. Tie + "
         "oracle: trees plus isolated vertices / detached sub-trees, roots that are not the graph's root.",
         "Coq proof (DFS invariant of merge_rec, counting argument) + checked model/implementation correspondence", "section 8, C12"),
 "C13": ("Coq theorems (P_C13.v): for every hash-set iteration order, every predicate and every source graph whose edge lists are valid "
         "maps of at most N labels (weaker than the invariant: it covers states beyond the group limit, SliceWeak.v) and whose "
         "accepted-reachable part is closed, has no self loop and at most 14 (indeed 16) vertices, slice_some returns Ok (no "
         "panic, no fuel exhaustion: termination on cycles), the result's present vertices are exactly the reachable ones, "
         "its edges exactly the source edges between kept vertices in source order, no data, invariant kept; for graphs "
         "reached through the API within the limits the closedness and self-loop hypotheses hold automatically. Tie + "
         "oracle: random cyclic digraphs, rejected-edge sets, reachability recomputed from the source snapshot; a slice of "
         "a slice is the slice (SliceTwice.v; half of the plain slices are sliced again).",
         "Coq proof (work-list closure = reachability for any drain order; rebuild loop invariant) + checked model/implementation correspondence", "section 8, C13"),
 "C14": ("41 Coq theorems (P_C14.v): for every well-formed program and every legal formatting (white-space runs, comments in "
         "every gap, nu prefixes, per-digit hex case, separators, optional final semicolon) deploy(render f prog) equals the "
         "direct interpreter exec (one next_id per variable, textual order), count = number of commands; a malformed command "
         "gives Err after the commands before it, panics come only from the API calls / next_id. Tie + oracle: programs x "
         "formats vs direct calls on a second graph; all single-character faults of sampled texts vs the model.",
         "Coq proof (list-of-characters parser lemmas, renderer/interpreter equivalence) + checked model/implementation correspondence", "section 8, C14"),
 "C18": ("18 Coq theorems (P_C18.v): the export document has exactly one node per present vertex in ascending order and none "
         "for absent ids, each node's edges are a label-sorted permutation of the vertex's edges, data iff the vertex has "
         "data; label order is a total order; two graphs with the same content (present set, edge sets, data bytes) give the "
         "same XML and DOT text. Tie + oracle: text parsed back vs snapshot; same content built twice in different orders.",
         "Coq proof (sorting = canonical form under a total order) + checked model/implementation correspondence", "section 8, C18"),
 "C19": ("PARTIAL. Coq theorems (P_C19.v): a call sequence inside the limits of two configurations gives identical answers "
         "(incl. kids() order and next_id()) and the same alive set under both; limits are monotone in N and capacity; the "
         "model is a function; slice's result does not depend on the hash-set order. Run-to-run determinism of the real "
         "process is observed (3 processes x up to 4 configurations per history), not proved.",
         "Coq proof (refinement to a size-independent reference model) + checked model/implementation correspondence (process determinism by observation only)", "section 8, C19; section 12"),
 "C20": ("11 Coq theorems (P_C20.v): inspect terminates on every closed graph (never out of fuel; unconditional: Ok or the "
         "bound-check panic), its lines are a permutation of all edges of all reachable vertices (each exactly once); Debug "
         "lists exactly the present vertices with all edges in order and data iff present; v_print shows the marker iff the "
         "vertex has data and exactly its labels. Tie + oracle: cyclic graphs, parsed listings vs snapshot.",
         "Coq proof (DFS invariant with a seen-set measure) + checked model/implementation correspondence", "section 8, C20"),
}
