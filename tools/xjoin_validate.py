#!/usr/bin/env python3
"""Validation of the extended model (coq/theories/XJoin.v: Sodg::join() and graphs with vacant slots) against the
implementation: not a property check, a soak of the correspondence on histories outside merge()'s contract.

  tools/xjoin_validate.py [seed] [count]

phase 1: the crafted shapes + `count` random join histories (lib/gen_join.py);
phase 2: for every phase-1 history whose graph `g` ended with a vacant slot, the implementation's own snapshot is used to
         aim calls at the slot (every call kind on the vacant id, next_id() across it, the collection of the group that
         still names it, slices/inspections from every vertex, save/load/cuts).
Every line `OP -> result | snapshot` of model and implementation must agree (all ops in the projection).
Exit status 0 = no disagreement, no UNMODELLED, no OUTOFFUEL."""
import collections
import os
import sys
import time

sys.path.insert(0, os.path.join(os.path.dirname(os.path.abspath(__file__)), "..", "lib"))
import engine
import gen
import gen_join
from engine import History


def nholes(line):
    vs = line.split("V[")[1].split("] B[")[0]
    return [int(e[:-2]) for e in vs.split(" ") if e.endswith(":-")]


def run(hs, label):
    t0 = time.time()
    impl, model, problems, _ = engine.run_histories(hs, timeout=1800)
    st, stats, bad = collections.Counter(), collections.Counter(), []
    for h in hs:
        il, ml = impl.get(h.hid), model.get(h.hid)
        if il is None or ml is None:
            st["missing"] += 1
            bad.append((h, {"status": "missing"}, il, ml))
            continue
        c = engine.compare_history(h, ml, il, lambda op: True, strict_image=True)
        st[c["status"]] += 1
        stats["calls_compared"] += c.get("compared", 0)
        if c["status"] != "agree":
            bad.append((h, c, il, ml))
        mh = max([len(nholes(l)) for l in il if "V[" in l] or [0])
        stats["histories with %d vacant slot(s) at some point" % mh] += 1
        cur = {}
        for op, l in zip(h.ops, il):
            t = op.split()
            if l.startswith("MERGE"):
                hd_holes = cur.get(t[1], [])
                res = l.split(" -> ")[1].split(" ")[0]
                now = nholes(l) if " | " in l else None
                kind = "merge:" + res
                if now is not None and len(now) > len(hd_holes):
                    kind += ":joined"
                if cur.get(t[2]):
                    kind += ":right-operand-has-vacant-slot"
                stats[kind] += 1
            elif len(t) > 1 and cur.get(t[1]):
                k = "on a graph with a vacant slot: " + t[0]
                on_hole = len(t) > 2 and t[2].isdigit() and int(t[2]) in cur[t[1]]
                if l.endswith("PANIC"):
                    k += " PANIC" + (" (vacant id named)" if on_hole else " (other id / no id)")
                elif l.endswith("-> err"):
                    k += " err"
                stats[k] += 1
            if " | " in l:
                hd = {"CLONE": 2, "SLICE": 3, "LOAD": 2}.get(t[0], 1)
                cur[t[hd]] = nholes(l)
    print("%s: %d histories %s problems=%s %.1fs" % (label, len(hs), dict(st), problems, time.time() - t0))
    for k in sorted(stats):
        print("    %-70s %d" % (k, stats[k]))
    for h, c, il, ml in bad[:3]:
        print("DISAGREEMENT", h.hid, c)
        print("\n".join(h.ops))
    return bad, impl, st


def main():
    seed = int(sys.argv[1]) if len(sys.argv) > 1 else 1
    count = int(sys.argv[2]) if len(sys.argv) > 2 else 5000
    engine.build_model()
    engine.build_harness()
    rng = gen.Rng(seed)
    hs = gen_join.crafted_histories() + [gen_join.join_history(rng.fork(), "j%d" % i) for i in range(count)]
    bad, impl, st1 = run(hs, "phase 1")
    hs2 = []
    r2 = gen.Rng(seed + 1)
    for h in hs:
        for k, suf in enumerate(gen_join.targeted_suffixes(h, impl.get(h.hid) or [], r2)):
            hs2.append(History("%s.t%d" % (h.hid, k), h.n, h.ops + suf, h.meta))
    bad2, _, st2 = run(hs2, "phase 2")
    total = st1["agree"] + st2["agree"]
    print("TOTAL agree=%d of %d" % (total, len(hs) + len(hs2)))
    return 1 if bad or bad2 else 0


if __name__ == "__main__":
    sys.exit(main())
