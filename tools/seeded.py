#!/usr/bin/env python3
"""Seeded-change bookkeeping.

  seeded.py ingest <pid> <n> <worktree> [<name-prefix>]     copy OUT/<n>/ of a mutation worktree to /verif/seeded/<pid>-<n>/,
                                              confirm it in that worktree (suite passes with the change, demo fails
                                              with it and passes without), write meta.json
  seeded.py run <name> [<pid> ...]            apply the patch to /repo, run bin/check <pid> quick for the given
                                              properties (default: the one it breaks), undo, record the outcome
"""
import json
import os
import shutil
import subprocess
import sys
import time

SEEDED = "/verif/seeded"
ENV = dict(os.environ, CARGO_NET_OFFLINE="true")


def sh(cmd, cwd=None, timeout=3600):
    r = subprocess.run(cmd, shell=True, cwd=cwd, env=ENV, capture_output=True, text=True, timeout=timeout)
    return r.returncode, r.stdout + r.stderr


def ingest(pid, n, wt, prefix=None):
    name = "%s-%s" % (prefix or pid, n)
    dst = os.path.join(SEEDED, name)
    os.makedirs(dst, exist_ok=True)
    src = os.path.join(wt, "OUT", str(n))
    for f in ("patch.diff", "demo.rs", "notes.md"):
        shutil.copy(os.path.join(src, f), os.path.join(dst, f))
    demo = "seeded_demo_%s_%s" % ((prefix or pid).lower(), n)
    os.makedirs(os.path.join(wt, "tests"), exist_ok=True)
    shutil.copy(os.path.join(dst, "demo.rs"), os.path.join(wt, "tests", demo + ".rs"))
    rc, out = sh("git checkout -- src && git status --short -- src", cwd=wt)
    meta = {"property": pid, "name": name, "ran": []}
    # demo without the change
    rc0, out0 = sh("cargo test --offline --test %s 2>&1 | tail -15" % demo, cwd=wt)
    ok0 = "test result: ok" in out0 and "FAILED" not in out0
    meta["ran"].append({"cmd": "cargo test --offline --test %s   (unchanged source)" % demo, "passed": ok0})
    rc, out = sh("git apply %s" % os.path.join(dst, "patch.diff"), cwd=wt)
    meta["patch_applies"] = (rc == 0)
    rc1, out1 = sh("cargo test --offline --test %s 2>&1 | tail -25" % demo, cwd=wt)
    fail1 = "FAILED" in out1 or "panicked" in out1
    meta["ran"].append({"cmd": "cargo test --offline --test %s   (with the change)" % demo, "failed": fail1})
    rc2, out2 = sh("cargo test --offline --lib --doc 2>&1 | grep 'test result' ", cwd=wt)
    rc2b, out2b = sh("cargo test --offline --lib 2>&1 | grep 'test result'; cargo test --offline --doc 2>&1 | grep 'test result'", cwd=wt)
    suite_ok = "94 passed; 0 failed" in out2b and "FAILED" not in out2b and "42 passed; 0 failed" in out2b
    meta["ran"].append({"cmd": "cargo test --offline --lib; cargo test --offline --doc   (with the change)", "passed": suite_ok,
                        "summary": out2b.strip().split("\n")})
    sh("git checkout -- src", cwd=wt)
    os.remove(os.path.join(wt, "tests", demo + ".rs"))
    meta["confirmed"] = bool(ok0 and fail1 and suite_ok and meta["patch_applies"])
    notes = open(os.path.join(dst, "notes.md")).read()
    meta["needs"] = notes[:1500]
    json.dump(meta, open(os.path.join(dst, "meta.json"), "w"), indent=1)
    print(name, "confirmed" if meta["confirmed"] else "NOT CONFIRMED", {"demo_unchanged_ok": ok0, "demo_changed_fails": fail1, "suite_ok": suite_ok})
    if not meta["confirmed"]:
        print(out0[-600:], out1[-600:], out2b[-600:])
    return meta["confirmed"]


def run(name, pids):
    dst = os.path.join(SEEDED, name)
    meta = json.load(open(os.path.join(dst, "meta.json")))
    pids = pids or [meta["property"]]
    rc, out = sh("git status --short -- src", cwd="/repo")
    if out.strip():
        print("refusing: /repo has local changes:", out)
        return
    rc, out = sh("git apply %s" % os.path.join(dst, "patch.diff"), cwd="/repo")
    if rc != 0:
        print("patch does not apply to /repo:", out)
        return
    results = meta.setdefault("checks", {})
    try:
        for pid in pids:
            t0 = time.time()
            rc, out = sh("bin/check %s quick" % pid, cwd="/verif", timeout=7200)
            viol = [l for l in out.split("\n") if l.startswith("VIOLATION")]
            replay_head = ""
            if viol and "replay=" in viol[0]:
                path = viol[0].split("replay=")[1].split()[0]
                try:
                    replay_head = "".join(open(path).readlines()[:8])
                    shutil.copy(path, os.path.join(dst, "replay-%s.ops" % pid))
                except OSError:
                    pass
            results[pid] = {"exit": rc, "violation_line": viol[0] if viol else None, "wall_s": round(time.time() - t0, 1),
                            "replay_head": replay_head, "caught": rc == 1 and bool(viol)}
            print(name, pid, "CAUGHT" if results[pid]["caught"] else "missed", viol[0] if viol else out[-300:].replace("\n", " | "))
    finally:
        sh("git checkout -- .", cwd="/repo")
    json.dump(meta, open(os.path.join(dst, "meta.json"), "w"), indent=1)


if __name__ == "__main__":
    if sys.argv[1] == "ingest":
        ingest(sys.argv[2], sys.argv[3], sys.argv[4], sys.argv[5] if len(sys.argv) > 5 else None)
    elif sys.argv[1] == "run":
        run(sys.argv[2], sys.argv[3:])
