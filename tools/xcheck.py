#!/usr/bin/env python3
"""Cross-check of the extraction: the same histories are evaluated (a) inside
Coq by `Eval vm_compute in xshow_run ...` on op lists written as Coq terms and
(b) by the extracted OCaml model through `modeldrv xshow` on the op files; the
flattened results (every answer, final complete state) must be identical.
Exit status 0 = identical."""
import os, re, subprocess, sys
sys.path.insert(0, os.path.join(os.path.dirname(os.path.abspath(__file__)), "..", "lib"))
import gen
from engine import MODEL_BIN, COQ_DIR, CACHE


def coq_label(l):
    if l[0] == "G":
        return "(Greek %d)" % int(l[1:], 16)
    if l[0] == "A":
        return "(Alpha %d)" % int(l[1:])
    return "(LStr [%s])" % "; ".join(str(int(x, 16)) for x in l[1:].split("."))


def coq_hex(d):
    if d[0] == "V":
        bs = bytes.fromhex(d[1:])
        return "(HVector [%s])" % "; ".join(str(b) for b in bs)
    a, n = d[1:].split(":")
    return "(HBytes [%s] %s)" % ("; ".join(str(b) for b in bytes.fromhex(a)), n)


def coq_op(o):
    t = o.split()
    k = t[0]
    if k == "ADD":
        return "OAdd %s" % t[2]
    if k == "BIND":
        return "OBind %s %s %s" % (t[2], t[3], coq_label(t[4]))
    if k == "PUT":
        return "OPut %s %s" % (t[2], coq_hex(t[3]))
    if k == "DATA":
        return "OData %s" % t[2]
    if k == "NEXT":
        return "ONext"
    if k == "KID":
        return "OKid %s %s" % (t[2], coq_label(t[3]))
    if k == "KIDS":
        return "OKids %s" % t[2]
    if k == "KEYS":
        return "OKeys"
    return None


def main(count=120, seed=20260928):
    rng = gen.Rng(seed)
    hs = []
    for i in range(count):
        r = rng.fork()
        k = i % 4
        if k == 0:
            h = gen.adversary_history(r, "x%d" % i)
        elif k == 1:
            h = gen.boundary_history(r, "x%d" % i)
        else:
            h = gen.core_history(r, "x%d" % i, cap=r.pick([3, 5, 8, 12, 20]), length=r.pick([10, 25, 40]))
        hs.append(h)
    # (b) extracted code
    text = "".join(h.text() for h in hs)
    r = subprocess.run([MODEL_BIN, "xshow"], input=text, capture_output=True, text=True, timeout=600)
    ocaml = {}
    cur = None
    for line in r.stdout.split("\n"):
        if line.startswith("H "):
            cur = line.split()[1]
        elif line == "END":
            cur = None
        elif cur is not None:
            ocaml[cur] = [int(x) for x in line.split()]
    # (a) inside Coq
    d = os.path.join(CACHE, "xcheck")
    os.makedirs(d, exist_ok=True)
    src = ["From Sodg Require Import XShow.", "Open Scope N_scope.", "Set Printing Width 1000000.", "Set Printing Depth 1000000."]
    for h in hs:
        cap = int(h.ops[0].split()[2])
        ops = [coq_op(o) for o in h.ops[1:]]
        ops = [o for o in ops if o]
        # natural numbers (ids, lengths) must be parsed in nat scope, byte/char values in N scope
        body = "; ".join("(%s)%%nat" % o if False else o for o in ops)
        src.append("Eval vm_compute in (xshow_run %d%%nat %d%%nat [%s]%%list)." % (h.n, cap, body))
    path = os.path.join(d, "cases.v")
    open(path, "w").write("\n".join(src) + "\n")
    r = subprocess.run(["coqc", "-Q", os.path.join(COQ_DIR, "theories"), "Sodg", "-o", os.path.join(d, "cases.vo"), path],
                       capture_output=True, text=True, timeout=1800)
    if r.returncode != 0:
        print("xcheck: coqc failed:", (r.stderr or r.stdout)[-2000:])
        return 2
    blocks = re.findall(r"=\s*\[(.*?)\]\s*:\s*list N", r.stdout, re.S)
    if len(blocks) != len(hs):
        print("xcheck: expected %d results from Coq, got %d" % (len(hs), len(blocks)))
        return 2
    bad = 0
    for h, b in zip(hs, blocks):
        coq = [int(x) for x in re.findall(r"\d+", b)]
        if coq != ocaml.get(h.hid):
            bad += 1
            print("xcheck: MISMATCH on history", h.hid)
            print(h.text()[:800])
            print(" coq  :", coq[:60])
            print(" ocaml:", (ocaml.get(h.hid) or [])[:60])
            break
    total = sum(len(h.ops) for h in hs)
    print("xcheck: %d histories (%d calls) evaluated by vm_compute and by the extracted code: %s"
          % (len(hs), total, "identical" if not bad else "DIFFERENT"))
    return 1 if bad else 0


if __name__ == "__main__":
    sys.exit(main())
