#!/usr/bin/env python3
"""Which lines of /repo/src do the correspondence histories execute?

Not a check and not part of any registered command: a measuring stick for the
generators (a line the histories never execute is a line whose seeded change no
history can notice).  Builds the harness a second time on the nightly toolchain
with `-C instrument-coverage`, feeds it the quick-tier histories of every
property (seed 1) and writes /verif/coverage/COVERAGE.md: line coverage per
source file and every line never executed.

usage: tools/coverage.py [quick|thorough]
"""
import glob
import os
import re
import subprocess
import sys

sys.path.insert(0, "/verif/lib")
import engine      # noqa: E402
import gen         # noqa: E402
import props       # noqa: E402
import check       # noqa: E402

TOOLS = "/root/.rustup/toolchains/nightly-x86_64-unknown-linux-gnu/lib/rustlib/x86_64-unknown-linux-gnu/bin"
TARGET = os.path.join(engine.CACHE, "harness-cov-target")
BIN = os.path.join(TARGET, "debug", "sodg-verif-harness")
PROF = os.path.join(engine.CACHE, "cov-prof")
OUT = "/verif/coverage"


def main():
    tier = sys.argv[1] if len(sys.argv) > 1 else "quick"
    env = dict(engine.ENV)
    env.update({"CARGO_TARGET_DIR": TARGET, "RUSTFLAGS": "-C instrument-coverage",
                "LLVM_PROFILE_FILE": os.path.join(TARGET, "build-%p-%m.profraw")})     # build scripts are instrumented too
    r = subprocess.run(["cargo", "+nightly", "build", "--offline", "--quiet"], cwd="/verif/harness", env=env,
                       capture_output=True, text=True)
    if r.returncode != 0:
        print(r.stderr[-3000:])
        return 1
    subprocess.run(["rm", "-rf", PROF])
    os.makedirs(PROF)
    os.makedirs(OUT, exist_ok=True)
    total = 0
    for pid in ["C%02d" % i for i in range(1, 21)]:
        prop = props.get(pid)
        hs = check.load_corpus(pid) + prop.generate(gen.Rng(1), tier)
        total += len(hs)
        chunks = [hs[i::16] for i in range(16)]
        procs = []
        for j, ch in enumerate(chunks):
            if not ch:
                continue
            e = dict(os.environ, LLVM_PROFILE_FILE=os.path.join(PROF, "%s-%d-%%p.profraw" % (pid, j)))
            p = subprocess.Popen([BIN], stdin=subprocess.PIPE, stdout=subprocess.DEVNULL, stderr=subprocess.DEVNULL, env=e, text=True)
            procs.append((p, "".join(h.text() for h in ch)))
        for p, text in procs:
            try:
                p.communicate(text, timeout=1800)
            except subprocess.TimeoutExpired:
                p.kill()
        print(pid, len(hs), "histories", flush=True)
    merged = os.path.join(PROF, "all.profdata")
    subprocess.run([os.path.join(TOOLS, "llvm-profdata"), "merge", "-sparse", "-o", merged] + glob.glob(os.path.join(PROF, "*.profraw")), check=True)
    srcs = sorted(glob.glob("/repo/src/*.rs"))
    rep = subprocess.run([os.path.join(TOOLS, "llvm-cov"), "report", BIN, "-instr-profile=" + merged] + srcs,
                         capture_output=True, text=True).stdout
    show = subprocess.run([os.path.join(TOOLS, "llvm-cov"), "show", BIN, "-instr-profile=" + merged, "-show-line-counts-or-regions"] + srcs,
                          capture_output=True, text=True).stdout
    # uncovered lines outside #[test] functions
    unc = {}
    cur, in_test, depth = None, False, 0
    for line in show.split("\n"):
        m = re.match(r"^(/repo/src/\S+\.rs):$", line)
        if m:
            cur, in_test = m.group(1), False
            continue
        m = re.match(r"^\s*(\d+)\|\s*([0-9.kMG]*)\|(.*)$", line)
        if not m or cur is None:
            continue
        ln, cnt, txt = int(m.group(1)), m.group(2), m.group(3)
        if re.match(r"\s*#\[(test|cfg\(test\))\]", txt):
            in_test = True          # everything from the first test item to the end of the file is test code in this crate
        if in_test:
            continue
        if cnt == "0":
            unc.setdefault(cur, []).append((ln, txt.rstrip()))
    with open(os.path.join(OUT, "COVERAGE.md"), "w") as f:
        f.write("# Source lines executed by the correspondence histories (%s tier, seed 1, %d histories)\n\n" % (tier, total))
        f.write("Produced by tools/coverage.py (nightly `-C instrument-coverage`, llvm-cov).  Test functions inside src/ count as\n"
                "not executed in the table (the harness does not run them); the list below skips them.\n\n```\n" + rep + "```\n\n")
        f.write("## Lines of non-test code never executed\n\n")
        for k in sorted(unc):
            f.write("### %s\n\n```\n" % k)
            for ln, txt in unc[k]:
                f.write("%5d| %s\n" % (ln, txt))
            f.write("```\n\n")
        if not unc:
            f.write("none\n")
    print(rep)
    print("uncovered non-test lines:", sum(len(v) for v in unc.values()))
    subprocess.run(["rm", "-rf", PROF])
    return 0


if __name__ == "__main__":
    sys.exit(main())
