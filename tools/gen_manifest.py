#!/usr/bin/env python3
"""Writes /verif/MANIFEST.json from the table below (kept in one place so
that the claimed list, the not_applicable list and the engines entry never
disagree)."""
import json

NOTE = ("trusted: Coq 8.16.1 kernel (vm_compute in Examples only), no axioms; hand-written Gallina model tied to /repo by "
        "differential testing (extracted model vs real crate on the same op files, complete internal state compared after "
        "every call); ExtrOcamlBasic extraction; unverified glue: OCaml driver, Rust harness, Python comparator/oracles")

CLAIMED = {
 "C01": ("Coq theorems (P_C01.v): for every call sequence within the limits and every last call, a vertex leaves the present "
         "set only at a data() that is the first read since a put, and every removed vertex is linked to the vertex read "
         "through the bind calls of the history, holds no unread datum and was an endpoint of a bind; no other call removes "
         "anything (induction over the whole history through the simulation Refine.v + invariant J). Tie: histories with "
         "adversarial call orders, boundary prefixes, clone/slice/merge/save+load; oracle written from the property text on "
         "the implementation's own trace, plus the extracted reference model.",
         "Coq proof (simulation to a reference model + history invariant) + checked model/implementation correspondence", "section 8, C01"),
 "C02": ("Coq theorems (P_C02.v): every call sequence within the limits runs without panic on the model of the code and yields, "
         "after every call, the results and the alive set of the reference model (forward simulation with the invariant "
         "counter = recount, member lists = tags; pigeonhole argument for the free group slot); the reference model's "
         "grouping rules are restated as theorems. Tie: extracted model vs real crate with full state after every call; "
         "oracle: extracted reference model + latent-state check (counter == recount) on the implementation's snapshot.",
         "Coq proof (refinement to a reference model by forward simulation) + checked model/implementation correspondence", "section 8, C02"),
 "C03": ("Coq theorems (P_C03.v): all answers (kid/kids/data included) of the model of the code equal the reference model's for "
         "every call sequence within the limits; the reference model's last-write laws (what bind/put write, a re-bound label "
         "keeps its position, reads/collections/next_id/add of other ids change no edge and no datum); labels of a vertex are "
         "pairwise distinct in every invariant state. Tie + oracle: last-write bookkeeping from the property text on the "
         "implementation's answers, all label variants, data on both sides of the inline boundary.",
         "Coq proof (refinement to last-write maps) + checked model/implementation correspondence", "section 8, C03"),
 "C04": ("Coq theorems C04_absent / C04_present / C04_after_next_id over every state of the model (no bound on history, capacity or "
         "slot content): add() on an absent id yields exactly the blank present vertex and changes nothing else; add() on a "
         "present id returns the identical state. Tie: full state before/after every ADD.",
         "Coq proof (state equations on the model of add()) + checked model/implementation correspondence", "section 8, C04"),
 "C05": ("Coq theorems (P_C05.v): from any reachable state next_id() returns the least absent id at or above the allocator "
         "position, below the capacity; along every call sequence within the limits the ids handed out are strictly "
         "increasing (never repeated) and below the allocator position reached; a clone is the same state, so its ids "
         "continue that sequence. Tie + oracle: freshness checked on the implementation's trace incl. clones, merge() and "
         "script variables.",
         "Coq proof (monotone allocator invariant over histories) + checked model/implementation correspondence", "section 8, C05"),
 "C06": ("Coq theorems (P_C06.v): after any history within the limits that leaves fewer than 14 groups alive, any number of "
         "create/put/read cycles over currently absent ids stays within the limits, never panics, collects each cycle's group "
         "and restores the alive set (induction on the number of cycles, unbounded); fewer than 14 alive groups implies an "
         "empty slot among 2..15. Tie: soak histories of hundreds of cycles with 0..13 bystander groups; oracle: reference "
         "model + occupied-slot count on the snapshot.",
         "Coq proof (induction on the number of cycles over the simulation) + checked model/implementation correspondence", "section 8, C06"),
 "C10": ("Coq theorems (P_C10.v): clone is the identity on the (immutable) model state, hence every query and every future "
         "(collections, next_id) coincide. Partial: independence of the two Rust values (no aliasing) is not expressible on "
         "immutable values and is covered by the correspondence check only: clone snapshot equality, identical answers under "
         "the same continuation, and mutation of one copy while the other is observed (both directions).",
         "Coq proof (clone = identity on the model) + checked model/implementation correspondence (independence by observation only)", "section 8, C10; section 12"),
 "C15": ("17 Coq theorems (P_C15.v) over every well-formed Hex value, every index and every (start,end) as unbounded N: each "
         "accessor of the per-representation model of hex.rs equals the same accessor on bytes(h) with exact panic "
         "equivalence for the six range kinds; from_str(print h) has the same bytes; i64/f64 round trips for all 2^64 "
         "values; Err iff len<>8. Tie: exhaustive grid of shapes and an independent byte-slice oracle.",
         "Coq proof (case split on representation, slice-index model) + checked model/implementation correspondence", "section 8, C15"),
 "C16": ("Coq theorems (P_C16.v): concat is exact byte concatenation outside the class KnownC16 (inline receiver with l<8 and "
         "l+len(b)>8); inside the class the result is characterised exactly and shown different; the class is inhabited. The "
         "class is a known finding (pinned by an existing test), listed in known-findings.txt; anything else is reported.",
         "Coq proof (case split on representation; known-finding class as a predicate) + checked model/implementation correspondence", "section 8, C16"),
 "C17": ("19 Coq theorems (P_C17.v): parse-then-print is the identity on every valid label text, hence injectivity; "
         "print-then-parse returns the same value for every canonical label; long texts and malformed indices are rejected. "
         "Tie: all strings of length <=3 over a 12-symbol alphabet, random strings, canonical and non-canonical values, "
         "script-bound edges looked up under constructed labels.",
         "Coq proof (decimal round trip, case analysis on from_str) + checked model/implementation correspondence", "section 8, C17"),
}

PENDING_REASON = "check not built yet in this commit (work in progress, see DESIGN.md section 14 for the order of construction)"

ALL = ["C%02d" % i for i in range(1, 21)]


def main():
    import os, sys
    sys.path.insert(0, "/verif/tools")
    try:
        import manifest_extra
        CLAIMED.update(manifest_extra.CLAIMED)
    except ImportError:
        pass
    checks = []
    for pid in ALL:
        if pid not in CLAIMED:
            continue
        text, technique, ref = CLAIMED[pid]
        checks.append({
            "property_id": pid,
            "quick_cmd": "bin/check %s quick" % pid,
            "thorough_cmd": "bin/check %s thorough" % pid,
            "evidence_file": "/verif/evidence/%s.json" % pid,
            "replay_cmd_template": "bin/check %s --replay {path}" % pid,
            "engine": "coq+correspondence",
            "level_claimed": {"category": "proof", "text": text, "design_ref": "DESIGN.md " + ref},
            "level_note": NOTE,
            "technique": technique,
        })
    m = {
        "version": 1,
        "setup_cmd": "bin/setup",
        "hooks": {
            "guard": "verif",
            "enable": "cargo feature `verif` of the sodg crate (harness/Cargo.toml depends on sodg with features = [\"verif\"])",
            "baseline_off_cmd": "cd /repo && cargo test --workspace --no-fail-fast --offline",
            "source_commits": ["a34e9c9"],
            "add_only": True,
        },
        "checks": checks,
        "not_applicable": [{"property_id": p, "reason": PENDING_REASON} for p in ALL if p not in CLAIMED],
        "notes": "see DESIGN.md; fix: commits in /repo are recorded in known-findings.txt",
        "engines": [{
            "name": "coq+correspondence", "path": "/verif/bin/check",
            "serves_properties": [c["property_id"] for c in checks],
            "kind_free_text": "Coq 8.16 proofs about a hand-written Gallina model; extracted OCaml model vs Rust harness on the same op files",
        }],
    }
    json.dump(m, open("/verif/MANIFEST.json", "w"), indent=1)
    print("claimed:", [c["property_id"] for c in checks])


if __name__ == "__main__":
    main()
