#!/bin/bash
# Runs every quick check on the current tree for the given seeds and prints only what is not OK.
# usage: tools/selfcheck.sh [seed ...]      (default: 1 2)
cd /verif
seeds="${@:-1 2}"
for sd in $seeds; do
  for p in C01 C02 C03 C04 C05 C06 C07 C08 C09 C10 C11 C12 C13 C14 C15 C16 C17 C18 C19 C20; do
    out=$(VERIF_SEED=$sd bin/check $p quick 2>&1)
    if ! echo "$out" | grep -q "^OK property=$p"; then echo "seed=$sd $p:"; echo "$out" | tail -5; fi
  done
done
echo "selfcheck done (seeds: $seeds)"
