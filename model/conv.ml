(* Glue between OCaml values / op-file text and the extracted Coq types.
   Hand-written and unverified (part of the trusted base, DESIGN.md 11). *)

open Model

type string = String.t

let rec nat_of_int (i : int) : nat = if i <= 0 then O else S (nat_of_int (i - 1))

let nat_of_int i =
  (* tail-recursive version for large values *)
  let rec go acc i = if i <= 0 then acc else go (S acc) (i - 1) in
  ignore nat_of_int; go O i

let int_of_nat (n : nat) : int =
  let rec go acc = function O -> acc | S m -> go (acc + 1) m in
  go 0 n

let rec pos_of_int (i : int) : positive =
  if i <= 1 then XH
  else if i land 1 = 0 then XO (pos_of_int (i lsr 1))
  else XI (pos_of_int (i lsr 1))

let n_of_int (i : int) : n = if i <= 0 then N0 else Npos (pos_of_int i)

let rec int_of_pos = function
  | XH -> 1
  | XO p -> 2 * int_of_pos p
  | XI p -> 2 * int_of_pos p + 1

let int_of_n = function N0 -> 0 | Npos p -> int_of_pos p

let n10 = n_of_int 10
let n16 = n_of_int 16

(* decimal / hexadecimal strings of arbitrary size *)
let n_of_dec (s : string) : n =
  let acc = ref N0 in
  String.iter
    (fun c ->
      if c < '0' || c > '9' then failwith ("bad decimal " ^ s);
      acc := N.add (N.mul !acc n10) (n_of_int (Char.code c - 48)))
    s;
  !acc

let hexv c =
  match c with
  | '0' .. '9' -> Char.code c - 48
  | 'a' .. 'f' -> Char.code c - 87
  | 'A' .. 'F' -> Char.code c - 55
  | _ -> failwith "bad hex digit"

let n_of_hex (s : string) : n =
  let acc = ref N0 in
  String.iter (fun c -> acc := N.add (N.mul !acc n16) (n_of_int (hexv c))) s;
  !acc

let string_of_text (t : n list) : string =
  (* only for ASCII digit texts produced by print_dec *)
  String.concat "" (List.map (fun c -> String.make 1 (Char.chr (int_of_n c))) t)

let dec_of_n (x : n) : string = string_of_text (print_dec x)

let rec hex_of_n_rev (x : n) (acc : string list) : string list =
  match x with
  | N0 -> acc
  | _ ->
      let d = int_of_n (N.modulo x n16) in
      hex_of_n_rev (N.div x n16) (String.make 1 "0123456789abcdef".[d] :: acc)

let hex_of_n (x : n) : string =
  match x with N0 -> "0" | _ -> String.concat "" (hex_of_n_rev x [])

let z_of_dec (s : string) : z =
  if String.length s > 0 && s.[0] = '-' then
    Z.opp (Z.of_N (n_of_dec (String.sub s 1 (String.length s - 1))))
  else Z.of_N (n_of_dec s)

let dec_of_z (x : z) : string =
  match x with
  | Z0 -> "0"
  | Zpos p -> dec_of_n (Npos p)
  | Zneg p -> "-" ^ dec_of_n (Npos p)

(* ids: anything above this is clamped; every capacity used is far below *)
let id_clamp = 70000

let id_of_string (s : string) : nat =
  if s = "MAX" then nat_of_int id_clamp
  else if String.length s > 6 then nat_of_int id_clamp
  else nat_of_int (min id_clamp (int_of_string s))

(* usize arguments that stay numbers (indices, Alpha) *)
let usize_of_string (s : string) : n =
  if s = "MAX" then usize_max else n_of_dec s

(* bytes <-> lowercase hex *)
let bytes_of_hex (s : string) : n list =
  let s = if s = "-" then "" else s in
  List.init (String.length s / 2) (fun i ->
      n_of_int ((hexv s.[2 * i] * 16) + hexv s.[(2 * i) + 1]))

let hex_of_ints (l : int list) : string =
  String.concat "" (List.map (fun b -> Printf.sprintf "%02x" b) l)

let hex_of_bytes (l : n list) : string = hex_of_ints (List.map int_of_n l)

(* UTF-8 *)
let utf8_decode (b : int list) : int list =
  let rec go acc = function
    | [] -> List.rev acc
    | c :: t when c < 0x80 -> go (c :: acc) t
    | c :: c1 :: t when c land 0xe0 = 0xc0 ->
        go ((((c land 0x1f) lsl 6) lor (c1 land 0x3f)) :: acc) t
    | c :: c1 :: c2 :: t when c land 0xf0 = 0xe0 ->
        go ((((c land 0x0f) lsl 12) lor ((c1 land 0x3f) lsl 6) lor (c2 land 0x3f)) :: acc) t
    | c :: c1 :: c2 :: c3 :: t when c land 0xf8 = 0xf0 ->
        go
          ((((c land 0x07) lsl 18)
           lor ((c1 land 0x3f) lsl 12)
           lor ((c2 land 0x3f) lsl 6)
           lor (c3 land 0x3f))
          :: acc)
          t
    | _ -> failwith "bad utf8"
  in
  go [] b

let utf8_encode (cps : int list) : int list =
  List.concat_map
    (fun c ->
      if c < 0x80 then [ c ]
      else if c < 0x800 then [ 0xc0 lor (c lsr 6); 0x80 lor (c land 0x3f) ]
      else if c < 0x10000 then
        [ 0xe0 lor (c lsr 12); 0x80 lor ((c lsr 6) land 0x3f); 0x80 lor (c land 0x3f) ]
      else
        [ 0xf0 lor (c lsr 18);
          0x80 lor ((c lsr 12) land 0x3f);
          0x80 lor ((c lsr 6) land 0x3f);
          0x80 lor (c land 0x3f) ])
    cps

(* text arguments: hex of the UTF-8 bytes, "-" for the empty text *)
let text_arg (s : string) : n list =
  List.map n_of_int (utf8_decode (List.map int_of_n (bytes_of_hex s)))

let text_out (t : n list) : string =
  match t with [] -> "-" | _ -> hex_of_ints (utf8_encode (List.map int_of_n t))

(* labels *)
let label_out (l : label) : string =
  match l with
  | Greek c -> "G" ^ hex_of_n c
  | Alpha x -> "A" ^ dec_of_n x
  | LStr a -> "S" ^ String.concat "." (List.map hex_of_n a)

let label_in (s : string) : label =
  let rest = String.sub s 1 (String.length s - 1) in
  match s.[0] with
  | 'G' -> Greek (n_of_hex rest)
  | 'A' -> Alpha (n_of_dec rest)
  | 'S' -> LStr (List.map n_of_hex (String.split_on_char '.' rest))
  | _ -> failwith ("bad label " ^ s)

(* hex values *)
let hex_out (h : hex) : string =
  match h with
  | HVector v -> "V" ^ hex_of_bytes v
  | HBytes (a, l) -> Printf.sprintf "B%s:%d" (hex_of_bytes a) (int_of_nat l)

let hex_in (s : string) : hex =
  let rest = String.sub s 1 (String.length s - 1) in
  match s.[0] with
  | 'V' -> HVector (bytes_of_hex rest)
  | 'B' -> (
      match String.split_on_char ':' rest with
      | [ a; l ] -> HBytes (bytes_of_hex a, nat_of_int (int_of_string l))
      | _ -> failwith ("bad hex " ^ s))
  | _ -> failwith ("bad hex " ^ s)

let edges_out (e : (label * nat) list) : string =
  String.concat ";"
    (List.map (fun (l, v) -> Printf.sprintf "%s>%d" (label_out l) (int_of_nat v)) e)

let is_default_vertex (v : vertex) : bool =
  v.v_branch = O && v.v_pers = PEmpty && v.v_edges = []
  && match v.v_data with
     | HBytes (a, O) -> List.for_all (fun b -> b = N0) a
     | _ -> false

(* [holes]: ids of the vacant slots of the vertex store (XJoin.v); the harness prints such a slot as "<id>:-" *)
let snap_out_holes (holes : int list) (g : sodg) : string =
  let b = Buffer.create 256 in
  Buffer.add_string b
    (Printf.sprintf "cap=%d next=%d bc=%d sc=%d V["
       (List.length g.g_vertices) (int_of_nat g.g_next)
       (List.length g.g_branches) (List.length g.g_stores));
  let first = ref true in
  let sep () = if not !first then Buffer.add_char b ' '; first := false in
  List.iteri
    (fun i v ->
      if List.mem i holes then begin
        sep ();
        Buffer.add_string b (Printf.sprintf "%d:-" i)
      end
      else if not (is_default_vertex v) then begin
        sep ();
        Buffer.add_string b
          (Printf.sprintf "%d:%d,%s,%s,[%s]" i (int_of_nat v.v_branch)
             (match v.v_pers with PEmpty -> "E" | PStored -> "S" | PTaken -> "T")
             (hex_out v.v_data) (edges_out v.v_edges))
      end)
    g.g_vertices;
  Buffer.add_string b "] B[";
  first := true;
  List.iteri
    (fun i m ->
      if m <> [] then begin
        sep ();
        Buffer.add_string b
          (Printf.sprintf "%d:%s" i
             (String.concat "." (List.map (fun v -> string_of_int (int_of_nat v)) m)))
      end)
    g.g_branches;
  Buffer.add_string b "] S[";
  first := true;
  List.iteri
    (fun i c ->
      if c <> O then begin
        sep ();
        Buffer.add_string b (Printf.sprintf "%d:%d" i (int_of_nat c))
      end)
    g.g_stores;
  Buffer.add_char b ']';
  Buffer.contents b

let snap_out (g : sodg) : string = snap_out_holes [] g

(* extended states (XJoin.v): the underlying state plus the list of vacant slots *)
let xsnap_out (x : xs) : string = snap_out_holes (List.map int_of_nat x.xh) x.xg
