(* Driver of the extracted Coq model: reads the same op files as the Rust
   harness and prints the same canonical lines (DESIGN.md Appendix B).
   Hand-written and unverified glue; everything that decides a result is a
   call into Model (extracted from coq/theories). *)

open Model
open Conv

type string = String.t

exception History_ends

(* graph handles hold extended states (XJoin.v): the state of the model plus the list of vacant slots that
   Sodg::join() leaves behind; every call goes through the x-operations, which reduce to the plain operations
   as long as no join has happened (XJoinFacts.v) *)
type ctx = {
  gs : (string, xs) Hashtbl.t;
  images : (string, n list) Hashtbl.t;
  n_edges : nat;
}

type out = Plain of string | Snap of string * string  (* result, handle *)

let get ctx h =
  try Hashtbl.find ctx.gs h with Not_found -> failwith ("unknown handle " ^ h)

(* stateless families: None if the op is not one of them.  A panic inside
   one of these does not end the history. *)
let rkind_of = function
  | "R" -> RRange | "RF" -> RFrom | "RFULL" -> RFull
  | "RI" -> RIncl | "RT" -> RTo | "RTI" -> RToIncl
  | k -> failwith ("bad range kind " ^ k)

exception Model_panic

(* extraction renames XJoin.x_data: Export.v has a record field of that name *)
let x_data = x_data0
exception Model_other of string

let unwrap (o : 'a outcome) : 'a =
  match o with
  | Ok a -> a
  | Panic k ->
      (* diagnostics only (stderr): which kind of panic the model predicts; the comparison sees "PANIC" *)
      if Sys.getenv_opt "MODELDRV_PKIND" <> None then
        prerr_endline
          ("pkind " ^ (match k with
                       | PBoundary -> "boundary" | PStackFull -> "stackfull" | PMapFull -> "mapfull"
                       | PUnderflow -> "underflow" | PUnwrapNone -> "unwrapnone" | PIndex -> "index"
                       | PAssert -> "assert"));
      raise Model_panic
  | OutOfFuel -> raise (Model_other "OUTOFFUEL")
  | Unmodelled -> raise (Model_other "UNMODELLED")

let stateless (t : string array) : string option =
  match t.(0) with
  | "HEXALL" ->
      let h = hex_in t.(1) in
      let rt = match hex_from_str (hex_print h) with Some x -> hex_out x | None -> "err" in
      (* from_str(print(h)) == h and h == from_str(print(h)), with the type's own equality *)
      let rteq = match hex_from_str (hex_print h) with
        | Some x -> (if hex_eqb x h then "1" else "0") ^ (if hex_eqb h x then "1" else "0")
        | None -> "err" in
      Some
        (Printf.sprintf "len=%d bytes=%s print=%s empty=%d vec=%s i64=%s f64=%s rt=%s rteq=%s"
           (int_of_nat (hex_len h))
           (hex_of_bytes (bytes h))
           (text_out (hex_print h))
           (if hex_is_empty h then 1 else 0)
           (hex_of_bytes (hex_to_vec h))
           (match hex_to_i64 h with Some z -> dec_of_z z | None -> "err")
           (match hex_to_f64_bits h with
            | Some w -> let s = hex_of_n w in String.make (16 - String.length s) '0' ^ s
            | None -> "err")
           rt rteq)
  | "HEXIDX" ->
      let h = hex_in t.(1) in
      Some (dec_of_n (unwrap (hex_index h (usize_of_string t.(2)))))
  | "HEXBYTEAT" ->
      let h = hex_in t.(1) in
      Some (dec_of_n (unwrap (hex_byte_at h (usize_of_string t.(2)))))
  | "HEXTAIL" ->
      let h = hex_in t.(1) in
      Some (hex_out (unwrap (hex_tail h (usize_of_string t.(2)))))
  | "HEXRANGE" ->
      let h = hex_in t.(1) in
      let r = unwrap (hex_range h (rkind_of t.(2)) (usize_of_string t.(3)) (usize_of_string t.(4))) in
      Some (Printf.sprintf "[%s]" (hex_of_bytes r))
  | "HEXEQ" ->
      Some (if hex_eqb (hex_in t.(1)) (hex_in t.(2)) then "1" else "0")
  | "HEXCONCAT" ->
      let a = hex_in t.(1) and b = hex_in t.(2) in
      Some (Printf.sprintf "%s a=%s b=%s" (hex_out (hex_concat a b)) (hex_out a) (hex_out b))
  | "HEXFROMI64" ->
      let h = hex_from_i64 (z_of_dec t.(1)) in
      Some
        (Printf.sprintf "%s back=%s" (hex_out h)
           (match hex_to_i64 h with Some z -> dec_of_z z | None -> "err"))
  | "HEXFROMF64" ->
      let h = hex_from_f64_bits (n_of_hex t.(1)) in
      Some
        (Printf.sprintf "%s back=%s" (hex_out h)
           (match hex_to_f64_bits h with
            | Some w -> let s = hex_of_n w in String.make (16 - String.length s) '0' ^ s
            | None -> "err"))
  | "HEXFROMSTR" ->
      Some (match hex_from_str (text_arg t.(1)) with
            | Some h -> "ok " ^ hex_out h
            | None -> "err")
  | "HEXSET" ->
      Some (hex_out (unwrap (hex_set (hex_in t.(1)) (usize_of_string t.(2)) (n_of_int (int_of_string ("0x" ^ t.(3)))))))
  | "HEXSTRBYTES" -> Some (hex_out (hex_from_str_bytes (text_arg t.(1))))
  | "HEXTOBOOL" -> Some (if unwrap (hex_to_bool (hex_in t.(1))) then "1" else "0")
  | "HEXTOUTF8" ->
      Some (match hex_to_utf8 (hex_in t.(1)) with Some txt -> "ok " ^ text_out txt | None -> "err")
  | "HEXFROMINT" -> Some (hex_out (hex_from_int (nat_of_int (int_of_string t.(1))) (z_of_dec t.(2))))
  | "HEXFROMF32" -> Some (hex_out (hex_from_f32_bits (n_of_hex t.(1))))
  | "HEXFROMBOOL" -> Some (hex_out (hex_from_bool (t.(1) = "1")))
  | "HEXFROMVEC" -> Some (hex_out (from_vec (bytes_of_hex t.(1))))
  | "HEXFROMSLICE" -> Some (hex_out (from_slice (bytes_of_hex t.(1))))
  | "LABELPARSE" ->
      Some (match label_from_str (text_arg t.(1)) with
            | Some l -> "ok " ^ label_out l
            | None -> "err")
  | "LABELPRINT" -> Some (text_out (label_print (label_in t.(1))))
  | "LABELRT" ->
      Some (match label_from_str (text_arg t.(1)) with
            | Some l -> Printf.sprintf "ok %s %s" (label_out l) (text_out (label_print l))
            | None -> "err")
  | "LABELRTL" ->
      let txt = label_print (label_in t.(1)) in
      Some (match label_from_str txt with
            | Some l -> Printf.sprintf "%s ok %s" (text_out txt) (label_out l)
            | None -> Printf.sprintf "%s err" (text_out txt))
  | _ -> None

let lim = n_of_int 1048576

let load ctx (img : n list) (h : string) : out =
  match decode lim ctx.n_edges img with
  | LOk g ->
      Hashtbl.replace ctx.gs h { xg = g; xh = [] };   (* a loaded map has no vacant slot (emap_build) *)
      Snap ("ok", h)
  | LErr -> Plain "err"
  | LPanic -> raise Model_panic
  | LUnmod -> Plain "UNMODELLED-LOAD"   (* a number beyond the model's cut-off: no claim, the history goes on *)

let step (ctx : ctx) (t : string array) : out =
  match stateless t with
  | Some r -> Plain r
  | None -> (
      match t.(0) with
      | "NEW" ->
          Hashtbl.replace ctx.gs t.(1) (x_empty (id_of_string t.(2)));
          Snap ("ok", t.(1))
      | "ADD" ->
          let g = unwrap (x_add (get ctx t.(1)) (id_of_string t.(2))) in
          Hashtbl.replace ctx.gs t.(1) g;
          Snap ("ok", t.(1))
      | "BIND" ->
          let g =
            unwrap
              (x_bind ctx.n_edges (get ctx t.(1)) (id_of_string t.(2)) (id_of_string t.(3))
                 (label_in t.(4)))
          in
          Hashtbl.replace ctx.gs t.(1) g;
          Snap ("ok", t.(1))
      | "PUT" ->
          let g = unwrap (x_put (get ctx t.(1)) (id_of_string t.(2)) (hex_in t.(3))) in
          Hashtbl.replace ctx.gs t.(1) g;
          Snap ("ok", t.(1))
      | "DATA" ->
          let g, r = unwrap (x_data (get ctx t.(1)) (id_of_string t.(2))) in
          Hashtbl.replace ctx.gs t.(1) g;
          Snap ((match r with None -> "none" | Some h -> "some " ^ hex_out h), t.(1))
      | "KID" ->
          let r = unwrap (x_kid (get ctx t.(1)) (id_of_string t.(2)) (label_in t.(3))) in
          Plain (match r with None -> "none" | Some v -> Printf.sprintf "some %d" (int_of_nat v))
      | "KIDS" ->
          let e = unwrap (x_kids (get ctx t.(1)) (id_of_string t.(2))) in
          Plain (Printf.sprintf "[%s]" (edges_out e))
      | "KEYS" ->
          let k = x_keys (get ctx t.(1)) in
          Plain
            (Printf.sprintf "[%s]"
               (String.concat "," (List.map (fun v -> string_of_int (int_of_nat v)) k)))
      | "NEXT" ->
          let g, r = unwrap (x_next_id (get ctx t.(1))) in
          Hashtbl.replace ctx.gs t.(1) g;
          Snap (string_of_int (int_of_nat r), t.(1))
      | "SNAP" -> Snap ("ok", t.(1))
      | "CLONE" ->
          Hashtbl.replace ctx.gs t.(2) (x_clone (get ctx t.(1)));
          Snap ("ok", t.(2))
      | "SLICE" ->
          let rej =
            List.map
              (fun r ->
                match String.split_on_char ':' r with
                | a :: b :: rest -> (id_of_string a, id_of_string b, label_in (String.concat ":" rest))
                | _ -> failwith "bad reject triple")
              (Array.to_list (Array.sub t 4 (Array.length t - 4)))
          in
          let p a b l = not (List.exists (fun (a', b', l') -> a = a' && b = b' && label_eqb l l') rej) in
          let order x = x in
          let ng = unwrap (x_slice_some ctx.n_edges order (get ctx t.(1)) (id_of_string t.(2)) p) in
          Hashtbl.replace ctx.gs t.(3) ng;
          Snap ("ok", t.(3))
      | "MERGE" ->
          let g, r =
            unwrap
              (x_merge ctx.n_edges (get ctx t.(1)) (get ctx t.(2)) (id_of_string t.(3))
                 (id_of_string t.(4)))
          in
          Hashtbl.replace ctx.gs t.(1) g;
          Snap
            ( (match r with
               | None -> "ok"
               | Some missed ->
                   "err " ^ String.concat "," (List.map (fun v -> string_of_int (int_of_nat v)) missed)),
              t.(1) )
      | "SAVE" ->
          let img = x_encode (get ctx t.(1)) in
          Hashtbl.replace ctx.images t.(2) img;
          Plain (Printf.sprintf "ok %d %s" (List.length img) (hex_of_bytes img))
      | "LOAD" -> load ctx (Hashtbl.find ctx.images t.(1)) t.(2)
      | "LOADCUT" ->
          let img = Hashtbl.find ctx.images t.(1) in
          let k = min (int_of_string t.(2)) (List.length img) in
          load ctx (List.filteri (fun i _ -> i < k) img) t.(3)
      | "LOADFLIP" ->
          let img = Hashtbl.find ctx.images t.(1) in
          let len = List.length img in
          let i = if len = 0 then 0 else int_of_string t.(2) mod len in
          let x = int_of_string ("0x" ^ t.(3)) in
          load ctx (List.mapi (fun j b -> if j = i then n_of_int (int_of_n b lxor x) else b) img) t.(4)
      | "LOADRAW" -> load ctx (bytes_of_hex t.(1)) t.(2)
      | "LOADCUTS" ->
          let img = Array.of_list (Hashtbl.find ctx.images t.(1)) in
          let len = Array.length img in
          let oks = ref [] and panics = ref [] and unmod = ref 0 in
          for k = 0 to len - 1 do
            match decode lim ctx.n_edges (Array.to_list (Array.sub img 0 k)) with
            | LOk _ -> oks := string_of_int k :: !oks
            | LErr -> ()
            | LPanic -> panics := string_of_int k :: !panics
            | LUnmod -> incr unmod
          done;
          if !unmod > 0 then raise (Model_other "UNMODELLED");
          Plain
            (Printf.sprintf "cuts n=%d ok=[%s] panic=[%s]" len
               (String.concat "," (List.rev !oks))
               (String.concat "," (List.rev !panics)))
      | "CUTSAMPLE" -> Plain "UNMODELLED-LOAD"   (* sampled cuts of a large image: implementation + oracle only *)
      | "SCRIPT" ->
          let g, r = unwrap (x_deploy ctx.n_edges (get ctx t.(1)) (text_arg t.(2))) in
          Hashtbl.replace ctx.gs t.(1) g;
          Snap ((match r with Some c -> Printf.sprintf "ok %d" (int_of_nat c) | None -> "err"), t.(1))
      | "XML" -> Plain (text_out (x_to_xml (get ctx t.(1))))
      | "DOT" -> Plain (text_out (x_to_dot (get ctx t.(1))))
      | "DEBUG" -> Plain (text_out (x_debug (get ctx t.(1))))
      (* None: the Err that inspect()/v_print() answer for a vacant slot *)
      | "INSPECT" ->
          Plain (match unwrap (x_inspect (get ctx t.(1)) (id_of_string t.(2))) with Some s -> text_out s | None -> "err")
      | "VPRINT" ->
          Plain (match unwrap (x_vprint (get ctx t.(1)) (id_of_string t.(2))) with Some s -> text_out s | None -> "err")
      | _ -> Plain "UNSUPPORTED")

let ends_history_on_panic (op : string) : bool =
  let pre p = String.length op >= String.length p && String.sub op 0 (String.length p) = p in
  not
    (pre "HEX" || pre "LABEL" || pre "LOAD"
    || List.mem op [ "KID"; "KIDS"; "KEYS"; "XML"; "DOT"; "DEBUG"; "INSPECT"; "VPRINT"; "SLICE"; "SAVE" ])

let run_history (n : int) (lines : string list) : unit =
  let ctx = { gs = Hashtbl.create 8; images = Hashtbl.create 8; n_edges = nat_of_int n } in
  (try
     List.iter
       (fun l ->
         let t =
           Array.of_list (List.filter (fun s -> s <> "") (String.split_on_char ' ' (String.trim l)))
         in
         if Array.length t > 0 && t.(0).[0] <> '#' then
           match step ctx t with
           | Plain r -> Printf.printf "%s -> %s\n" t.(0) r
           | Snap (r, h) -> Printf.printf "%s -> %s | %s\n" t.(0) r (xsnap_out (get ctx h))
           | exception Model_panic ->
               Printf.printf "%s -> PANIC\n" t.(0);
               if ends_history_on_panic t.(0) then raise History_ends
           | exception Model_other s ->
               Printf.printf "%s -> %s\n" t.(0) s;
               raise History_ends)
       lines
   with History_ends -> ());
  print_string "END\n"

(* ---- reference-model mode: the same op files on the extracted Spec.v.
   One line per call: result, whether the call was inside the limits
   (preb), and the present set afterwards.  A handle leaves the game at its
   first call outside the limits or at a call the reference model does not
   cover (merge, slice, load, script ...). *)

let res_out (r : res) : string =
  match r with
  | RUnit -> "ok"
  | RData None -> "none"
  | RData (Some h) -> "some " ^ hex_out h
  | RId v -> string_of_int (int_of_nat v)
  | RKid None -> "none"
  | RKid (Some v) -> Printf.sprintf "some %d" (int_of_nat v)
  | RKids e -> Printf.sprintf "[%s]" (edges_out e)
  | RKeys k -> Printf.sprintf "[%s]" (String.concat "," (List.map (fun v -> string_of_int (int_of_nat v)) k))

(* Representation change only: the reference state keeps its maps as nested
   closures (one layer per call, and the collecting branch of data() calls the
   previous layer several times, which is exponential in the number of
   collections).  After every call the maps are tabulated over the ids below
   s_bound; ids at or above it have never been written inside the limits
   (bounded_run in History.v) and keep the values of sinit. *)
let compact (s : spec) : spec =
  let b = int_of_nat s.s_bound in
  let ids = Array.init b nat_of_int in
  let pres = Array.map s.s_present ids in
  let grp = Array.map s.s_grp ids in
  let unr = Array.map s.s_unread ids in
  let edg = Array.map s.s_edges ids in
  let dat = Array.map s.s_data ids in
  let look a d w = let i = int_of_nat w in if i < b then a.(i) else d in
  { s with s_present = look pres false; s_grp = look grp None; s_unread = look unr false;
           s_edges = look edg []; s_data = look dat None }

let spec_history (n : int) (lines : string list) : unit =
  let ss : (string, spec * nat) Hashtbl.t = Hashtbl.create 8 in
  let n_edges = nat_of_int n in
  List.iter
    (fun l ->
      let t = Array.of_list (List.filter (fun s -> s <> "") (String.split_on_char ' ' (String.trim l))) in
      if Array.length t > 0 && t.(0).[0] <> '#' then begin
        let opname = t.(0) in
        let doit h (o : op) =
          match Hashtbl.find_opt ss h with
          | None -> Printf.printf "%s -> ? | out\n" opname
          | Some (s, cap) ->
              let ok = preb n_edges cap s o in
              if not ok then begin
                Hashtbl.remove ss h;
                (* which clause of the limits fails (hand-written classification, used by the C07 oracle only):
                   the three overruns the property says must stop with a panic, or something else *)
                let capi = int_of_nat cap in
                let big v = int_of_nat v >= capi in
                let why =
                  match o with
                  | OAdd v | OPut (v, _) | OData v | OKid (v, _) | OKids v -> if big v then "limit:id" else "precondition"
                  | OBind (v1, v2, a) ->
                      if big v1 || big v2 then "limit:id"
                      else if not (s.s_present v1 && s.s_present v2) || int_of_nat v1 = int_of_nat v2 then "precondition"
                      else
                        let e = s.s_edges v1 in
                        if (not (List.exists (fun (l, _) -> label_eqb l a) e)) && List.length e >= n then "limit:labels"
                        else (match s.s_grp v1, s.s_grp v2 with
                              | None, None -> "limit:groups"
                              | _ -> "limit:members")
                  | ONext -> "allocator"
                  | OKeys -> "?"
                in
                Printf.printf "%s -> ? | pre=0 %s\n" opname why
              end else begin
                let s1, r = sstep s o in
                let s1 = compact s1 in
                Hashtbl.replace ss h (s1, cap);
                Printf.printf "%s -> %s | pre=1 keys=[%s]\n" opname (res_out r)
                  (String.concat "," (List.map (fun v -> string_of_int (int_of_nat v)) (s_keys s1)))
              end
        in
        match opname with
        | "NEW" ->
            Hashtbl.replace ss t.(1) (sinit, id_of_string t.(2));
            Printf.printf "NEW -> ok | pre=1 keys=[]\n"
        | "ADD" -> doit t.(1) (OAdd (id_of_string t.(2)))
        | "BIND" -> doit t.(1) (OBind (id_of_string t.(2), id_of_string t.(3), label_in t.(4)))
        | "PUT" -> doit t.(1) (OPut (id_of_string t.(2), hex_in t.(3)))
        | "DATA" -> doit t.(1) (OData (id_of_string t.(2)))
        | "NEXT" -> doit t.(1) ONext
        | "KID" -> doit t.(1) (OKid (id_of_string t.(2), label_in t.(3)))
        | "KIDS" -> doit t.(1) (OKids (id_of_string t.(2)))
        | "KEYS" -> doit t.(1) OKeys
        | "CLONE" ->
            (match Hashtbl.find_opt ss t.(1) with
             | Some x -> Hashtbl.replace ss t.(2) x; 
                 Printf.printf "CLONE -> ok | pre=1 keys=[%s]\n"
                   (String.concat "," (List.map (fun v -> string_of_int (int_of_nat v)) (s_keys (fst x))))
             | None -> Hashtbl.remove ss t.(2); Printf.printf "CLONE -> ? | out\n")
        | "MERGE" | "SCRIPT" -> Hashtbl.remove ss t.(1); Printf.printf "%s -> ? | out\n" opname
        | "SLICE" -> Hashtbl.remove ss t.(3); Printf.printf "%s -> ? | out\n" opname
        | "LOAD" | "LOADRAW" -> Hashtbl.remove ss t.(2); Printf.printf "%s -> ? | out\n" opname
        | "LOADCUT" -> Hashtbl.remove ss t.(3); Printf.printf "%s -> ? | out\n" opname
        | "LOADFLIP" -> Hashtbl.remove ss t.(4); Printf.printf "%s -> ? | out\n" opname
        | _ -> Printf.printf "%s -> ? | na\n" opname
      end)
    lines;
  print_string "END\n"

(* ---- bfs mode: breadth-first closure of the model's state space over a tiny
   domain (ids 0..cap-1, a few labels and data values), printed as ONE history
   that tours every (state, call) transition once: the state is cloned, the
   call is made on the clone, and a state seen for the first time keeps a
   handle.  Running this history through the normal correspondence check
   compares every transition of the closed space on model and implementation,
   complete internal state included. *)
let bfs (n : int) (cap : int) (nlab : int) (ndat : int) (maxstates : int) : unit =
  let n_edges = nat_of_int n in
  let labels = List.filteri (fun i _ -> i < nlab) [ "A0"; "G3c1"; "S66.6f.6f.20.20.20.20.20" ] in
  let datas = List.filteri (fun i _ -> i < ndat) [ "V0102"; "B0900000000000000:1"; "V0102030405060708090a" ] in
  let seen : (string, int) Hashtbl.t = Hashtbl.create 100000 in
  let queue : (int * sodg) Queue.t = Queue.create () in
  let buf = Buffer.create (1 lsl 20) in
  let emit s = Buffer.add_string buf s; Buffer.add_char buf '\n' in
  let g0 = op_empty (nat_of_int cap) in
  Hashtbl.replace seen (snap_out g0) 0;
  Queue.add (0, g0) queue;
  emit (Printf.sprintf "NEW s0 %d" cap);
  let nstates = ref 1 and ntrans = ref 0 and closed = ref true in
  let present g v = int_of_nat (tag g (nat_of_int v)) <> 0 in
  let try_op (k : int) (g : sodg) (text : string) (r : sodg outcome) =
    match r with
    | Ok g' ->
        incr ntrans;
        emit (Printf.sprintf "CLONE s%d t" k);
        emit (text);
        let key = snap_out g' in
        if not (Hashtbl.mem seen key) then begin
          if !nstates >= maxstates then closed := false
          else begin
            Hashtbl.replace seen key !nstates;
            emit (Printf.sprintf "CLONE t s%d" !nstates);
            Queue.add (!nstates, g') queue;
            incr nstates
          end
        end
    | _ -> ()   (* a panic: outside the limits, not part of the closed space *)
  in
  while not (Queue.is_empty queue) do
    let k, g = Queue.pop queue in
    for v = 0 to cap - 1 do
      try_op k g (Printf.sprintf "ADD t %d" v) (op_add g (nat_of_int v));
      if present g v then begin
        List.iter (fun d -> try_op k g (Printf.sprintf "PUT t %d %s" v d) (op_put g (nat_of_int v) (hex_in d))) datas;
        try_op k g (Printf.sprintf "DATA t %d" v)
          (match op_data g (nat_of_int v) with Ok (g', _) -> Ok g' | Panic p -> Panic p | OutOfFuel -> OutOfFuel | Unmodelled -> Unmodelled);
        for w = 0 to cap - 1 do
          if w <> v && present g w then
            List.iter
              (fun a ->
                try_op k g (Printf.sprintf "BIND t %d %d %s" v w a)
                  (op_bind n_edges g (nat_of_int v) (nat_of_int w) (label_in a)))
              labels
        done
      end
    done;
    try_op k g "NEXT t"
      (match op_next_id g with Ok (g', _) -> Ok g' | Panic p -> Panic p | OutOfFuel -> OutOfFuel | Unmodelled -> Unmodelled)
  done;
  Printf.printf "# bfs n=%d cap=%d labels=%d data=%d states=%d transitions=%d closed=%b\n" n cap nlab ndat !nstates !ntrans !closed;
  Printf.printf "H bfs-%d-%d-%d-%d %d\n" n cap nlab ndat n;
  print_string (Buffer.contents buf)

(* ---- xshow mode: the ops of each history (one graph, core calls only) are
   turned into the model's [op] values and handed to the extracted
   [xshow_run]; the numbers are printed on one line (extraction cross-check) *)
let xshow_history (n : int) (lines : string list) : unit =
  let cap = ref O and ops = ref [] in
  List.iter
    (fun l ->
      let t = Array.of_list (List.filter (fun s -> s <> "") (String.split_on_char ' ' (String.trim l))) in
      if Array.length t > 0 && t.(0).[0] <> '#' then
        match t.(0) with
        | "NEW" -> cap := id_of_string t.(2)
        | "ADD" -> ops := OAdd (id_of_string t.(2)) :: !ops
        | "BIND" -> ops := OBind (id_of_string t.(2), id_of_string t.(3), label_in t.(4)) :: !ops
        | "PUT" -> ops := OPut (id_of_string t.(2), hex_in t.(3)) :: !ops
        | "DATA" -> ops := OData (id_of_string t.(2)) :: !ops
        | "NEXT" -> ops := ONext :: !ops
        | "KID" -> ops := OKid (id_of_string t.(2), label_in t.(3)) :: !ops
        | "KIDS" -> ops := OKids (id_of_string t.(2)) :: !ops
        | "KEYS" -> ops := OKeys :: !ops
        | _ -> ())
    lines;
  let r = xshow_run (nat_of_int n) !cap (List.rev !ops) in
  print_string (String.concat " " (List.map dec_of_n r));
  print_string "\nEND\n"

let xshow_mode = Array.length Sys.argv > 1 && Sys.argv.(1) = "xshow"

let spec_mode = Array.length Sys.argv > 1 && Sys.argv.(1) = "spec"

let main () =
  let cur = ref [] and header = ref None in
  let flush () =
    (match !header with
     | Some (id, n) ->
         Printf.printf "H %s %d\n" id n;
         if xshow_mode then xshow_history n (List.rev !cur)
         else if spec_mode then spec_history n (List.rev !cur) else run_history n (List.rev !cur)
     | None -> ());
    cur := []
  in
  (try
     while true do
       let line = input_line stdin in
       if String.length line >= 2 && String.sub line 0 2 = "H " then begin
         flush ();
         match List.filter (fun s -> s <> "") (String.split_on_char ' ' line) with
         | _ :: id :: n :: _ -> header := Some (id, int_of_string n)
         | _ -> failwith "bad header"
       end
       else cur := line :: !cur
     done
   with End_of_file -> ());
  flush ()

let () =
  if Array.length Sys.argv > 1 && Sys.argv.(1) = "bfs" then
    bfs (int_of_string Sys.argv.(2)) (int_of_string Sys.argv.(3)) (int_of_string Sys.argv.(4))
      (int_of_string Sys.argv.(5)) (int_of_string Sys.argv.(6))
  else main ()
