(** * HexMoreFacts: a few laws of the remaining [Hex] API (beyond the listed
    properties): text -> bytes -> text, bool -> bytes -> bool. *)

From Sodg Require Import HexMore SerialFacts.

Lemma bytes_from_slice l : bytes (from_slice l) = l.
Proof.
  unfold from_slice. destruct (Nat.leb_spec (length l) HEX_SIZE); cbn [bytes]; [|reflexivity].
  rewrite firstn_app, Nat.sub_diag, firstn_all. cbn. apply app_nil_r.
Qed.

Lemma utf8_decode_enc : forall t fuel,
  forallb is_scalar t = true -> length (concat (map utf8_enc t)) <= fuel ->
  utf8_decode fuel (concat (map utf8_enc t)) = Some t.
Proof.
  induction t as [|c t IH]; intros fuel Hs Hl; cbn [map concat] in *.
  - destruct fuel; reflexivity.
  - apply andb_true_iff in Hs as [Hc Ht].
    assert (Hne : utf8_enc c <> []) by apply utf8_enc_nonempty.
    assert (HL : length (utf8_enc c) + length (concat (map utf8_enc t)) <= fuel) by (rewrite <- app_length; exact Hl).
    destruct (utf8_enc c ++ concat (map utf8_enc t)) as [|b l] eqn:E.
    + apply app_eq_nil in E as [E _]. contradiction.
    + assert (L1 : 1 <= length (utf8_enc c)) by (destruct (utf8_enc c); [contradiction|cbn; lia]).
      destruct fuel as [|f]; [lia|]. cbn [utf8_decode]. rewrite <- E.
      rewrite (pchar_utf8 c _ Hc). rewrite IH; [reflexivity|exact Ht|lia].
Qed.

(** text -> from_str_bytes -> to_utf8 gives the text back, for every text of Unicode scalar values *)
Theorem to_utf8_from_str_bytes t :
  forallb is_scalar t = true -> hex_to_utf8 (hex_from_str_bytes t) = Some t.
Proof.
  intros Hs. unfold hex_to_utf8, hex_from_str_bytes. rewrite bytes_from_slice.
  apply utf8_decode_enc; [exact Hs|lia].
Qed.

Theorem to_bool_from_bool b : hex_to_bool (hex_from_bool b) = Ok b.
Proof. destruct b; reflexivity. Qed.

(** IndexMut writes exactly one byte of the byte string and panics exactly when the slice would *)
Theorem set_then_bytes h i b :
  wf_hex h = true ->
  match hex_set h i b with
  | Ok h' => (i < nlen (bytes h))%N /\ bytes h' = upd (bytes h) (N.to_nat i) b
  | Panic _ => (nlen (bytes h) <= i)%N
  | _ => False
  end.
Proof.
  intros Hw. destruct h as [l|a n]; cbn [hex_set bytes].
  - destruct (N.ltb_spec i (nlen l)); [split; [assumption|reflexivity]|assumption].
  - cbn [wf_hex] in Hw. apply andb_true_iff in Hw as [Hw Hn]. apply andb_true_iff in Hw as [Hl _].
    apply Nat.eqb_eq in Hl. apply Nat.leb_le in Hn.
    assert (Ln : nlen (firstn n a) = N.of_nat n).
    { unfold nlen. rewrite firstn_length. f_equal. lia. }
    rewrite Ln. destruct (N.ltb_spec i (N.of_nat n)) as [L|L]; [|exact L].
    split; [exact L|]. cbn [bytes].
    (* updating position i < n of the array and then taking the first n entries *)
    assert (Hi : N.to_nat i < n) by lia.
    clear -Hi. revert a n Hi. generalize (N.to_nat i) as k.
    induction k as [|k IH]; intros a n Hk; destruct a as [|x a]; destruct n as [|n]; cbn; try lia; try reflexivity.
    f_equal. apply IH. lia.
Qed.

Print Assumptions to_utf8_from_str_bytes.
Print Assumptions to_bool_from_bool.
Print Assumptions set_then_bytes.
