(** * C06  Sustained operation: collection gives group capacity back

    "Collecting a group releases its capacity, so an unbounded number of groups
    can be created, filled, read and collected one after another.  Binding two
    ungrouped vertices forms a collectable group whenever fewer than 14 groups
    are alive, no matter how many groups have lived and died before."

    [cycles cs] is the call sequence  add u; add w; bind u w a; put w d; data w
    repeated for every (u, w, a, d) of the list [cs] -- any number of cycles,
    over any rotating choice of currently absent ids.  [C06_cycles]: after an
    arbitrary history [os] within the limits that leaves fewer than 14 groups
    alive (0 to 13 bystanders), the whole sequence [os ++ cycles cs] is within
    the limits, hence runs without panic on the model of the code (C02), every
    cycle's group is collected, and the alive set afterwards is the one before
    the cycles.  No bound on the number of cycles.
    [C06_slot_available]: in every state reachable within the limits, fewer
    than 14 alive groups means the slot search of bind() finds an empty slot
    among 2..15 (the two reserved slots are never handed out). *)

From Sodg Require Import HistoryThms.

Theorem C06_cycles :
  forall n cap os cs,
  1 <= n -> within_limits n cap sinit os ->
  length (alive_groups (fst (srun sinit os))) < 14 ->
  Forall (fun c => match c with (u, w, _, _) =>
            u <> w /\ u < cap /\ w < cap
            /\ s_present (fst (srun sinit os)) u = false
            /\ s_present (fst (srun sinit os)) w = false end) cs ->
  within_limits n cap sinit (os ++ cycles cs)
  /\ exists g0 g', run n (op_empty cap) os = Ok (g0, snd (srun sinit os))
       /\ run n (op_empty cap) (os ++ cycles cs) = Ok (g', snd (srun sinit (os ++ cycles cs)))
       /\ Inv n g'
       /\ forall x, present g' x = present g0 x.
Proof. exact cycles_model. Qed.

Check C06_cycles :
  forall n cap os cs,
  1 <= n -> within_limits n cap sinit os ->
  length (alive_groups (fst (srun sinit os))) < 14 ->
  Forall (fun c => match c with (u, w, _, _) =>
            u <> w /\ u < cap /\ w < cap
            /\ s_present (fst (srun sinit os)) u = false
            /\ s_present (fst (srun sinit os)) w = false end) cs ->
  within_limits n cap sinit (os ++ cycles cs)
  /\ exists g0 g', run n (op_empty cap) os = Ok (g0, snd (srun sinit os))
       /\ run n (op_empty cap) (os ++ cycles cs) = Ok (g', snd (srun sinit (os ++ cycles cs)))
       /\ Inv n g'
       /\ forall x, present g' x = present g0 x.
Print Assumptions C06_cycles.

Theorem C06_one_cycle :
  forall n cap s u w a d,
  bounded s -> fresh_ok s -> u <> w -> u < cap -> w < cap -> 1 <= n ->
  s_present s u = false -> s_present s w = false -> length (alive_groups s) < 14 ->
  within_limits n cap s (cycle u w a d)
  /\ (let s' := fst (srun s (cycle u w a d)) in
      bounded s' /\ fresh_ok s'
      /\ (forall x, s_present s' x = s_present s x)
      /\ (forall x, s_present s x = true -> s_grp s' x = s_grp s x)
      /\ length (alive_groups s') = length (alive_groups s))
  /\ snd (srun s (cycle u w a d)) = [RUnit; RUnit; RUnit; RUnit; RData (Some d)].
Proof. exact cycle_spec. Qed.

Check C06_one_cycle :
  forall n cap s u w a d,
  bounded s -> fresh_ok s -> u <> w -> u < cap -> w < cap -> 1 <= n ->
  s_present s u = false -> s_present s w = false -> length (alive_groups s) < 14 ->
  within_limits n cap s (cycle u w a d)
  /\ (let s' := fst (srun s (cycle u w a d)) in
      bounded s' /\ fresh_ok s'
      /\ (forall x, s_present s' x = s_present s x)
      /\ (forall x, s_present s x = true -> s_grp s' x = s_grp s x)
      /\ length (alive_groups s') = length (alive_groups s))
  /\ snd (srun s (cycle u w a d)) = [RUnit; RUnit; RUnit; RUnit; RData (Some d)].
Print Assumptions C06_one_cycle.

Theorem C06_slot_available :
  forall n g s,
  Inv n g -> R g s -> length (alive_groups s) < 14 ->
  exists b, first_empty g = Some b /\ 2 <= b /\ b < 16 /\ members g b = [].
Proof. exact slot_available. Qed.

Check C06_slot_available :
  forall n g s,
  Inv n g -> R g s -> length (alive_groups s) < 14 ->
  exists b, first_empty g = Some b /\ 2 <= b /\ b < 16 /\ members g b = [].
Print Assumptions C06_slot_available.

Theorem C06_def_alive_groups :
  forall s k,
  In k (alive_groups s) <-> exists w, w < s_bound s /\ s_present s w = true /\ s_grp s w = Some k.
Proof. exact alive_in. Qed.

Check C06_def_alive_groups :
  forall s k,
  In k (alive_groups s) <-> exists w, w < s_bound s /\ s_present s w = true /\ s_grp s w = Some k.
Print Assumptions C06_def_alive_groups.

Theorem C06_def_cycle :
  forall u w a d, cycle u w a d = [OAdd u; OAdd w; OBind u w a; OPut w d; OData w].
Proof. exact cycle_def. Qed.

Check C06_def_cycle :
  forall u w a d, cycle u w a d = [OAdd u; OAdd w; OBind u w a; OPut w d; OData w].
Print Assumptions C06_def_cycle.


(** non-vacuity: 6 cycles over three rotating ids next to one bystander group *)
Definition ex_bystander : list op := [OAdd 0; OAdd 1; OBind 0 1 (Alpha 0); OPut 0 (HVector [1%N])].
Definition ex_cs : list (nat * nat * label * hex) :=
  concat (repeat [(2, 3, Alpha 0, HVector [7%N]); (3, 4, Alpha 1, hex_empty); (4, 2, Greek 961, HVector [])] 2).

Example C06_example :
  length (alive_groups (fst (srun sinit ex_bystander))) = 1
  /\ length ex_cs = 6
  /\ s_keys (fst (srun sinit (ex_bystander ++ cycles ex_cs))) = [0; 1]
  /\ exists g', run 1 (op_empty 5) (ex_bystander ++ cycles ex_cs)
                = Ok (g', snd (srun sinit (ex_bystander ++ cycles ex_cs))).
Proof.
  split; [vm_compute; reflexivity|]. split; [reflexivity|]. split; [vm_compute; reflexivity|].
  eexists. vm_compute. reflexivity.
Qed.


