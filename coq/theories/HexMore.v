(** * HexMore: the rest of the public API of [sodg::Hex] (src/hex.rs) that the
    listed properties do not mention: [IndexMut], [from_str_bytes], [to_bool],
    [to_utf8], and the [From] impls for i32 / i16 / i8 / f32 / bool.  Modelled
    so that the correspondence check covers the whole type. *)

From Sodg Require Export Hex Serial.

(** [h[i] = b] through [IndexMut<usize>] *)
Definition hex_set (h : hex) (i : N) (b : N) : outcome hex :=
  match h with
  | HVector l => if (i <? nlen l)%N then Ok (HVector (upd l (N.to_nat i) b)) else Panic PIndex
  | HBytes a n => if (i <? N.of_nat n)%N then Ok (HBytes (upd a (N.to_nat i) b) n) else Panic PAssert
  end.

(** [from_str_bytes]: the UTF-8 bytes of the text *)
Definition hex_from_str_bytes (t : text) : hex := from_slice (concat (map utf8_enc t)).

(** [to_bool]: [self.bytes()[0] == 0x01] (panics on the empty byte string) *)
Definition hex_to_bool (h : hex) : outcome bool :=
  r <- idx (bytes h) 0 ;; Ok (r =? 1)%N.

(** [String::from_utf8]: the whole byte string must be well-formed UTF-8 (same
    acceptance rules as the [char] decoder of Serial.v) *)
Fixpoint utf8_decode (fuel : nat) (l : list N) : option text :=
  match l with
  | [] => Some []
  | _ =>
      match fuel with
      | O => None
      | S f =>
          match pchar l with
          | DOk c rest => match utf8_decode f rest with Some t => Some (c :: t) | None => None end
          | _ => None
          end
      end
  end.

Definition hex_to_utf8 (h : hex) : option text := utf8_decode (length (bytes h)) (bytes h).

(** big-endian bytes of a [k]-byte two's complement integer *)
Definition N_to_be (k : nat) (x : N) : list N := rev (le_bytes k x).

Definition hex_from_int (k : nat) (z : Z) : hex :=
  from_slice (N_to_be k (Z.to_N (z mod Z.of_N (2 ^ (8 * N.of_nat k))))).

(** [From<f32>]: the four bytes of the bit pattern *)
Definition hex_from_f32_bits (w : N) : hex := from_slice (N_to_be 4 (w mod 4294967296)%N).

Definition hex_from_bool (b : bool) : hex := from_slice [if b then 1%N else 0%N].
