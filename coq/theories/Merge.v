(** * Merge: model of src/merge.rs ([merge], [merge_rec]).

    [join()] (reached only when the right operand is not a tree: two right
    vertices mapped onto different left vertices under one label) is the one
    code path left out of the model: it yields [Unmodelled]. *)

From Sodg Require Export Sodg Print.

Definition mapping := list (nat * nat).   (* right id -> left id, the [mapped] HashMap *)

Fixpoint map_get (m : mapping) (k : nat) : option nat :=
  match m with
  | [] => None
  | (a, b) :: t => if a =? k then Some b else map_get t k
  end.

(** second loop of [merge_rec]: any disagreement calls [join] *)
Fixpoint check_joins (s : sodg) (left : nat) (m : mapping) (es : edges) : outcome unit :=
  match es with
  | [] => Ok tt
  | (a, to) :: rest =>
      r <- op_kid s left a ;;
      match r, map_get m to with
      | Some first, Some second =>
          if first =? second then check_joins s left m rest else Unmodelled
      | _, _ => check_joins s left m rest
      end
  end.

(** [merge_rec]; [s] is the left graph (mutated), [g] the right graph.  The
    nesting depth is bounded by the number of right vertices (every call that
    gets past the first test adds a key to [mapped]). *)
Fixpoint merge_rec (fuel : nat) (n : nat) (g : sodg) (s : sodg) (left right : nat) (m : mapping)
  : outcome (sodg * mapping) :=
  match fuel with
  | O => OutOfFuel
  | S f =>
      match map_get m right with
      | Some _ => Ok (s, m)
      | None =>
          let m1 := (right, left) :: m in
          _ <- chk_v g right ;;
          s1 <- (if has_data g right then op_put s left (dat g right) else Ok s) ;;
          _ <- chk_v g right ;;
          r <- (fix go (es : edges) (s : sodg) (m : mapping) {struct es} : outcome (sodg * mapping) :=
                  match es with
                  | [] => Ok (s, m)
                  | (a, to) :: rest =>
                      k <- op_kid s left a ;;
                      sm <- match k with
                            | Some t => Ok (s, t)
                            | None =>
                                match map_get m to with
                                | Some t => s' <- op_bind n s left t a ;; Ok (s', t)
                                | None =>
                                    r <- op_next_id s ;;
                                    s' <- op_add (fst r) (snd r) ;;
                                    s'' <- op_bind n s' left (snd r) a ;;
                                    Ok (s'', snd r)
                                end
                            end ;;
                      r <- merge_rec f n g (fst sm) (snd sm) to m ;;
                      go rest (fst r) (snd r)
                  end) (edg g right) s1 m1 ;;
          _ <- check_joins (fst r) left (snd r) (edg g right) ;;
          Ok r
      end
  end.

Fixpoint dedup_keys (m : mapping) : list nat :=
  match m with
  | [] => []
  | (k, _) :: t => let r := dedup_keys t in if mem k r then r else k :: r
  end.

(** [merge(g, left, right)]: [None] is [Ok(())], [Some missed] is the [Err]
    naming the present right vertices that were not mapped (ascending).  The
    left graph is returned in both cases (it has been mutated either way). *)
Definition op_merge (n : nat) (s g : sodg) (left right : nat)
  : outcome (sodg * option (list nat)) :=
  r <- merge_rec (cap_of g + 2) n g s left right [] ;;
  let seen := dedup_keys (snd r) in
  let must := op_keys g in
  if length seen =? length must
  then Ok (fst r, None)
  else Ok (fst r, Some (filter (fun v => negb (mem v seen)) must)).
