(** * C05  next_id() is fresh and never repeats

    "Every id returned by next_id() is below the capacity, is not present at
    that moment, and was not returned by any earlier next_id() on the same
    graph or on the graph it was cloned from, for every interleaving with add,
    bind, put, data-triggered collection and merge.  Vertices created
    internally by merge() and by script variables therefore never coincide with
    a present vertex."

    [C05_fresh]: one call from any reachable pair of related states.
    [C05_never_repeats]: along every call sequence within the limits the ids
    handed out are strictly increasing (so none repeats), below the capacity
    and below the allocator position reached.  A clone is the same state
    ([C05_clone_same_future]), so the ids it hands out afterwards continue the
    increasing sequence of the history it was cloned from: apply
    [C05_never_repeats] to the clone's whole history.  merge() and script
    variables obtain their ids by the same model function [op_next_id] inside a
    sequence of primitive calls (C11_as_calls, C14_deploy), followed by add():
    [C05_fresh] says the id is absent at that moment. *)

From Sodg Require Import HistoryThms.
From Coq Require Import Sorted.

Theorem C05_fresh :
  forall n g s,
  Inv n g -> R g s -> bounded s -> pre n (cap_of g) s ONext ->
  exists g' id, step n g ONext = Ok (g', RId id)
    /\ id < cap_of g /\ present g id = false /\ g_next g <= id /\ g_next g' = S id
    /\ (forall w, g_next g <= w -> w < id -> present g w = true).
Proof. exact next_id_fresh. Qed.

Check C05_fresh :
  forall n g s,
  Inv n g -> R g s -> bounded s -> pre n (cap_of g) s ONext ->
  exists g' id, step n g ONext = Ok (g', RId id)
    /\ id < cap_of g /\ present g id = false /\ g_next g <= id /\ g_next g' = S id
    /\ (forall w, g_next g <= w -> w < id -> present g w = true).
Print Assumptions C05_fresh.

Theorem C05_never_repeats :
  forall n cap os,
  within_limits n cap sinit os ->
  exists g' rs, run n (op_empty cap) os = Ok (g', rs)
    /\ StronglySorted lt (ids_of rs)
    /\ Forall (fun id => id < cap /\ id < g_next g') (ids_of rs).
Proof. exact next_ids_never_repeat. Qed.

Check C05_never_repeats :
  forall n cap os,
  within_limits n cap sinit os ->
  exists g' rs, run n (op_empty cap) os = Ok (g', rs)
    /\ StronglySorted lt (ids_of rs)
    /\ Forall (fun id => id < cap /\ id < g_next g') (ids_of rs).
Print Assumptions C05_never_repeats.

Theorem C05_reference_ids_increasing :
  forall n cap os s,
  bounded s -> within_limits n cap s os ->
  Forall (fun id => s_alloc s <= id /\ id < cap /\ id < s_alloc (fst (srun s os))) (ids_of (snd (srun s os)))
  /\ StronglySorted lt (ids_of (snd (srun s os)))
  /\ s_alloc s <= s_alloc (fst (srun s os)).
Proof. exact spec_ids_increasing. Qed.

Check C05_reference_ids_increasing :
  forall n cap os s,
  bounded s -> within_limits n cap s os ->
  Forall (fun id => s_alloc s <= id /\ id < cap /\ id < s_alloc (fst (srun s os))) (ids_of (snd (srun s os)))
  /\ StronglySorted lt (ids_of (snd (srun s os)))
  /\ s_alloc s <= s_alloc (fst (srun s os)).
Print Assumptions C05_reference_ids_increasing.

Theorem C05_allocator_monotone :
  forall s o, s_alloc s <= s_alloc (fst (sstep s o)).
Proof. exact spec_alloc_mono. Qed.

Check C05_allocator_monotone :
  forall s o, s_alloc s <= s_alloc (fst (sstep s o)).
Print Assumptions C05_allocator_monotone.

Theorem C05_clone_same_future :
  forall n g os, run n (op_clone g) os = run n g os.
Proof. exact clone_same_future. Qed.

Check C05_clone_same_future :
  forall n g os, run n (op_clone g) os = run n g os.
Print Assumptions C05_clone_same_future.

Theorem C05_def_bounded :
  forall os s, bounded s -> bounded (fst (srun s os)).
Proof. exact bounded_run. Qed.

Check C05_def_bounded :
  forall os s, bounded s -> bounded (fst (srun s os)).
Print Assumptions C05_def_bounded.

Theorem C05_ids_of_results :
  forall r rs, ids_of (r :: rs) = ids_of [r] ++ ids_of rs.
Proof. exact ids_of_cons. Qed.

Check C05_ids_of_results :
  forall r rs, ids_of (r :: rs) = ids_of [r] ++ ids_of rs.
Print Assumptions C05_ids_of_results.


Ltac limits_solve :=
  repeat match goal with
         | |- _ /\ _ => split
         | |- True => exact I
         | |- _ = _ => reflexivity
         | |- _ <> _ => discriminate || lia
         | |- _ < _ => vm_compute; lia
         | |- _ \/ _ => (left; reflexivity) || (right; vm_compute; lia)
         | |- match ?x with _ => _ end => let y := eval vm_compute in x in change x with y; cbv iota beta
         | |- exists _ : nat, _ =>
             first [ (exists 0; vm_compute; repeat split; (lia || reflexivity))
                   | (exists 1; vm_compute; repeat split; (lia || reflexivity))
                   | (exists 2; vm_compute; repeat split; (lia || reflexivity))
                   | (exists 3; vm_compute; repeat split; (lia || reflexivity))
                   | (exists 4; vm_compute; repeat split; (lia || reflexivity))
                   | (exists 5; vm_compute; repeat split; (lia || reflexivity)) ]
         end.

(** non-vacuity: add ahead of and behind the allocator, a collection that
    frees lower ids, ids handed out: 0, 2, 4 *)
Definition ex_os : list op :=
  [ONext; OAdd 0; OAdd 1; ONext; OBind 0 1 (Alpha 0); OPut 1 (HVector [5%N]); OData 1; OAdd 3; ONext; OKeys].

Example C05_example : within_limits 1 6 sinit ex_os
  /\ ids_of (snd (srun sinit ex_os)) = [0; 2; 4].
Proof.
  split; [|vm_compute; reflexivity].
  unfold ex_os. cbn [within_limits pre].
  repeat (split; [limits_solve|]); limits_solve.
Qed.


