(** * HistoryThms: the statements of C01, C03, C05, C06 on the model of the
    code, assembled from the simulation (Refine.v, History.v) and the facts
    about the reference model. *)

From Sodg Require Export History.
From Coq Require Import Sorted Permutation.

(** ** C01 *)

Theorem safety_model n cap os o :
  within_limits n cap sinit (os ++ [o]) ->
  exists g g' r,
    run n (op_empty cap) os = Ok (g, snd (srun sinit os))
    /\ step n g o = Ok (g', r)
    /\ forall w, present g w = true -> present g' w = false ->
         exists v, o = OData v /\ is_stored g v = true
                   /\ linked (bind_pairs os) v w /\ endpoint (bind_pairs os) w
                   /\ (w = v \/ is_stored g w = false).
Proof.
  intros HW. pose proof HW as HW0. apply within_limits_app in HW0 as [HW1 HW2].
  destruct (sim_run_empty n cap os HW1) as (g & A & I & HR & C).
  cbn [within_limits] in HW2. destruct HW2 as [Hp _]. rewrite <- C in Hp.
  destruct (sim_step n g _ o I HR Hp) as (g' & A' & I' & HR').
  exists g, g', (snd (sstep (fst (srun sinit os)) o)). split; [exact A|]. split; [exact A'|].
  intros w P0 P1. rewrite <- (r_pres HR) in P0. rewrite <- (r_pres HR') in P1.
  destruct (spec_safety n cap os o HW w P0 P1) as (v & -> & Uv & L & E & Uw).
  exists v. split; [reflexivity|].
  assert (Pv : s_present (fst (srun sinit os)) v = true) by exact Hp.
  split; [rewrite <- (r_unread HR v Pv); exact Uv|]. split; [exact L|]. split; [exact E|].
  destruct (Nat.eq_dec w v) as [->|Hne]; [left; reflexivity|right].
  rewrite <- (r_unread HR w P0).
  (* the unread flag of w <> v is not touched by the read of v *)
  cbn [sstep] in Uw. rewrite Uv in Uw.
  destruct (s_grp (fst (srun sinit os)) v) as [k|]; [destruct (existsb _ _)|];
    cbn [fst s_unread] in Uw; unfold fupd in Uw; apply Nat.eqb_neq in Hne;
    rewrite Nat.eqb_sym, Hne in Uw; exact Uw.
Qed.

Theorem other_calls_remove_nothing n cap os o :
  within_limits n cap sinit (os ++ [o]) -> (forall v, o <> OData v) ->
  exists g g' r,
    run n (op_empty cap) os = Ok (g, snd (srun sinit os))
    /\ step n g o = Ok (g', r)
    /\ forall w, present g w = true -> present g' w = true.
Proof.
  intros HW Hno. destruct (safety_model n cap os o HW) as (g & g' & r & A & B & S).
  exists g, g', r. split; [exact A|]. split; [exact B|].
  intros w P0. destruct (present g' w) eqn:P1; [reflexivity|].
  destruct (S w P0 P1) as (v & -> & _). exfalso. apply (Hno v). reflexivity.
Qed.

(** ** C03 *)

Theorem observations_refine n cap os :
  within_limits n cap sinit os ->
  exists g', run n (op_empty cap) os = Ok (g', snd (srun sinit os)).
Proof. intros HW. destruct (sim_run_empty n cap os HW) as (g' & A & _). eauto. Qed.

Theorem one_entry_per_label n g v : Inv n g -> NoDup (map fst (edg g v)) /\ length (edg g v) <= n.
Proof. intros HI. apply (i_edges HI). Qed.

(** ** C05 *)

Theorem next_id_fresh n g s :
  Inv n g -> R g s -> bounded s -> pre n (cap_of g) s ONext ->
  exists g' id, step n g ONext = Ok (g', RId id)
    /\ id < cap_of g /\ present g id = false /\ g_next g <= id /\ g_next g' = S id
    /\ (forall w, g_next g <= w -> w < id -> present g w = true).
Proof.
  intros HI HR HB Hp.
  destruct (sim_step n g s ONext HI HR Hp) as (g' & A & I' & HR').
  destruct (spec_next_fresh n (cap_of g) s HB Hp) as (id & E & A1 & A2 & A3 & A4).
  rewrite E in *. cbn [fst snd] in *. exists g', id. split; [exact A|].
  split; [exact A2|]. split; [rewrite <- (r_pres HR); exact A3|].
  split; [rewrite <- (r_alloc HR); exact A1|]. split; [rewrite <- (r_alloc HR'); reflexivity|].
  intros w W1 W2. rewrite <- (r_pres HR). apply A4; [rewrite (r_alloc HR); exact W1|exact W2].
Qed.

Theorem next_ids_never_repeat n cap os :
  within_limits n cap sinit os ->
  exists g' rs, run n (op_empty cap) os = Ok (g', rs)
    /\ StronglySorted lt (ids_of rs)
    /\ Forall (fun id => id < cap /\ id < g_next g') (ids_of rs).
Proof.
  intros HW. destruct (sim_run_empty n cap os HW) as (g' & A & I & HR & C).
  destruct (spec_ids_increasing n cap os sinit bounded_init HW) as (F & S & _).
  exists g', (snd (srun sinit os)). split; [exact A|]. split; [exact S|].
  eapply Forall_impl; [|exact F]. cbn beta. intros id (_ & X2 & X3). rewrite <- (r_alloc HR). auto.
Qed.

(** ** C06 *)

Theorem slot_available n g s :
  Inv n g -> R g s -> length (alive_groups s) < 14 ->
  exists b, first_empty g = Some b /\ 2 <= b /\ b < 16 /\ members g b = [].
Proof.
  intros HI HR Hal. destruct (free_slot n g s HI HR Hal) as (b & Hf).
  exists b. split; [exact Hf|]. apply (first_empty_group n g b HI Hf).
Qed.

Lemma J_fresh_ok E s : J E s -> fresh_ok s.
Proof. intros HJ v k. apply (j_fresh _ _ HJ). Qed.

Theorem cycles_model n cap os cs :
  1 <= n -> within_limits n cap sinit os ->
  length (alive_groups (fst (srun sinit os))) < 14 ->
  Forall (fun c => match c with (u, w, _, _) =>
            u <> w /\ u < cap /\ w < cap
            /\ s_present (fst (srun sinit os)) u = false
            /\ s_present (fst (srun sinit os)) w = false end) cs ->
  within_limits n cap sinit (os ++ cycles cs)
  /\ exists g0 g', run n (op_empty cap) os = Ok (g0, snd (srun sinit os))
       /\ run n (op_empty cap) (os ++ cycles cs) = Ok (g', snd (srun sinit (os ++ cycles cs)))
       /\ Inv n g'
       /\ forall x, present g' x = present g0 x.
Proof.
  intros Hn HW Hal HC. set (s := fst (srun sinit os)) in *.
  pose proof (bounded_run os sinit bounded_init) as HB. fold s in HB.
  pose proof (J_fresh_ok _ _ (J_run n cap os HW)) as HF. fold s in HF.
  destruct (cycles_spec n cap cs s HB HF Hn Hal HC) as (W2 & P2 & _).
  assert (HW' : within_limits n cap sinit (os ++ cycles cs)) by (apply within_limits_app; split; assumption).
  split; [exact HW'|].
  destruct (sim_run_empty n cap os HW) as (g0 & A0 & I0 & R0 & C0).
  destruct (sim_run_empty n cap _ HW') as (g' & A' & I' & R' & C').
  exists g0, g'. split; [exact A0|]. split; [exact A'|]. split; [exact I'|].
  intros x. rewrite <- (r_pres R'), <- (r_pres R0). rewrite srun_app. cbn [fst]. apply P2.
Qed.
