(** * Reach: reachability along edges, shared by the proofs about
    [inspect] (C20, PrintFacts.v) and about [slice]/[slice_some] (C13,
    SliceFacts.v), together with the generic list facts both need. *)

From Sodg Require Export Facts Slice.
From Coq Require Export Permutation.

(** ** reachability *)

(** [reach p g v u]: [u] can be reached from [v] along edges of [g] that the
    predicate [p] accepts ([p from to label], as in [slice_some]).  Reflexive:
    [v] reaches itself. *)
Inductive reach (p : pred) (g : sodg) (v : nat) : nat -> Prop :=
| reach_refl : reach p g v v
| reach_step u a w :
    reach p g v u -> In (a, w) (edg g u) -> p u w a = true -> reach p g v w.

(** the predicate of [slice]: every edge is accepted *)
Definition ptrue : pred := fun _ _ _ => true.

(** [pclosed p g v]: following accepted edges from [v] never leaves the slots
    of the graph (no call of [vertices.get] with a key over the boundary) *)
Definition pclosed (p : pred) (g : sodg) (v : nat) : Prop :=
  v < cap_of g /\
  forall u a w, reach p g v u -> In (a, w) (edg g u) -> p u w a = true -> w < cap_of g.

(** the same for all edges: what [inspect] needs *)
Definition closed (g : sodg) (v : nat) : Prop :=
  v < cap_of g /\
  forall u a w, reach ptrue g v u -> In (a, w) (edg g u) -> w < cap_of g.

Lemma closed_pclosed g v : closed g v <-> pclosed ptrue g v.
Proof.
  unfold closed, pclosed. split; intros [H1 H2]; split; auto.
  - intros u a w Hr Hi _. eapply H2; eauto.
  - intros u a w Hr Hi. eapply H2; eauto.
Qed.

Lemma reach_unfold p g v w :
  reach p g v w <->
  w = v \/ exists u a, reach p g v u /\ In (a, w) (edg g u) /\ p u w a = true.
Proof.
  split.
  - intros H. destruct H as [|u a w Hu Hin Hp]; [left; reflexivity|].
    right. exists u, a. auto.
  - intros [->|(u & a & Hu & Hin & Hp)]; [apply reach_refl|].
    apply (reach_step p g v u a w); assumption.
Qed.

Lemma closed_unfold g v :
  closed g v <->
  v < cap_of g /\
  forall u a w, reach ptrue g v u -> In (a, w) (edg g u) -> w < cap_of g.
Proof. unfold closed. tauto. Qed.

Lemma reach_trans p g v u w : reach p g v u -> reach p g u w -> reach p g v w.
Proof.
  intros H1 H2. induction H2 as [|x a y Hux IH Hin Hp]; auto.
  eapply reach_step; eauto.
Qed.

Lemma reach_edge p g v a w : In (a, w) (edg g v) -> p v w a = true -> reach p g v w.
Proof. intros Hi Hp. eapply reach_step; eauto. apply reach_refl. Qed.

Lemma pclosed_reach_lt p g v u : pclosed p g v -> reach p g v u -> u < cap_of g.
Proof.
  intros [Hv Hc] Hr. destruct Hr as [|x a y Hx Hin Hp]; auto. eapply Hc; eauto.
Qed.

Lemma pclosed_reach p g v u : pclosed p g v -> reach p g v u -> pclosed p g u.
Proof.
  intros Hc Hr. split.
  - eapply pclosed_reach_lt; eauto.
  - intros x a w Hx Hin Hp. destruct Hc as [_ Hc]. apply (Hc x a w); auto.
    eapply reach_trans; eauto.
Qed.

Lemma closed_reach_lt g v u : closed g v -> reach ptrue g v u -> u < cap_of g.
Proof. intros Hc. apply pclosed_reach_lt. apply closed_pclosed; auto. Qed.

Lemma closed_reach g v u : closed g v -> reach ptrue g v u -> closed g u.
Proof.
  intros Hc Hr. apply closed_pclosed. eapply pclosed_reach; eauto. apply closed_pclosed; auto.
Qed.

Lemma closed_edge g v a w : closed g v -> In (a, w) (edg g v) -> closed g w.
Proof. intros Hc Hi. eapply closed_reach; eauto. eapply reach_edge; eauto. Qed.

(** a set that contains [v] and is closed under accepted edges contains
    everything reachable from [v] *)
Lemma reach_in_closed_set p g v (S : nat -> Prop) :
  S v ->
  (forall u a w, S u -> In (a, w) (edg g u) -> p u w a = true -> S w) ->
  forall u, reach p g v u -> S u.
Proof.
  intros Hv Hs u Hr. induction Hr as [|x a y Hx IH Hin Hp]; auto. eapply Hs; eauto.
Qed.

(** all out-edges of a vertex as (from, label, to) triples *)
Definition out_edges (g : sodg) (u : nat) : list (nat * label * nat) :=
  map (fun e : label * nat => (u, fst e, snd e)) (edg g u).

(** ** [mem] *)

Lemma mem_In x l : mem x l = true <-> In x l.
Proof.
  unfold mem. rewrite existsb_exists. split.
  - intros (y & Hy & E). apply Nat.eqb_eq in E. subst; auto.
  - intros H. exists x. split; auto. apply Nat.eqb_refl.
Qed.

Lemma mem_false x l : mem x l = false <-> ~ In x l.
Proof.
  rewrite <- mem_In. destruct (mem x l); split; intros H; try discriminate; auto.
  exfalso; apply H; reflexivity.
Qed.

(** ** duplicate-free lists *)

Lemma nodup_app A (l1 l2 : list A) :
  NoDup l1 -> NoDup l2 -> (forall x, In x l1 -> ~ In x l2) -> NoDup (l1 ++ l2).
Proof.
  induction l1 as [|a t IH]; simpl; intros H1 H2 Hd; auto.
  inversion H1 as [|a' t' Ha Ht]; subst. constructor.
  - rewrite in_app_iff. intros [H|H]; [auto|]. eapply Hd; eauto.
  - apply IH; auto.
Qed.

Lemma nodup_lt_length (l : list nat) n :
  NoDup l -> (forall x, In x l -> x < n) -> length l <= n.
Proof.
  intros Hn Hl. rewrite <- (seq_length n 0). apply NoDup_incl_length; auto.
  intros x Hx. apply in_seq. specialize (Hl x Hx). lia.
Qed.

(** ** counting with [filter] *)

Lemma filter_length_le A (f h : A -> bool) l :
  (forall x, In x l -> f x = true -> h x = true) ->
  length (filter f l) <= length (filter h l).
Proof.
  induction l as [|a t IH]; simpl; intros H; auto.
  assert (IH' : length (filter f t) <= length (filter h t)) by (apply IH; intros; apply H; auto).
  destruct (f a) eqn:Fa.
  - rewrite (H a) by auto. simpl. lia.
  - destruct (h a); simpl; lia.
Qed.

Lemma filter_length_lt A (f h : A -> bool) l y :
  (forall x, In x l -> f x = true -> h x = true) ->
  In y l -> f y = false -> h y = true ->
  length (filter f l) < length (filter h l).
Proof.
  induction l as [|a t IH]; simpl; intros H Hy Fy Gy; [contradiction|].
  assert (Hle : length (filter f t) <= length (filter h t))
    by (apply filter_length_le; intros; apply H; auto).
  destruct Hy as [->|Hy].
  - rewrite Fy, Gy. simpl. lia.
  - assert (IH' : length (filter f t) < length (filter h t)) by (apply IH; auto).
    destruct (f a) eqn:Fa.
    + rewrite (H a) by auto. simpl. lia.
    + destruct (h a); simpl; lia.
Qed.

(** [unseen n s]: how many of the ids [0 .. n-1] are not in [s] *)
Definition unseen (n : nat) (s : list nat) : nat :=
  length (filter (fun x => negb (mem x s)) (iota n)).

Lemma unseen_nil n : unseen n [] = n.
Proof.
  unfold unseen, iota. rewrite <- (seq_length n 0) at 2. f_equal.
  induction (seq 0 n) as [|a t IH]; simpl; auto. f_equal. exact IH.
Qed.

Lemma unseen_le n s1 s2 : incl s1 s2 -> unseen n s2 <= unseen n s1.
Proof.
  intros Hi. apply filter_length_le. intros x _ Hx.
  apply negb_true_iff in Hx. apply negb_true_iff. apply mem_false in Hx. apply mem_false.
  intros H. apply Hx. apply Hi. exact H.
Qed.

Lemma unseen_lt n s1 s2 y :
  incl s1 s2 -> y < n -> ~ In y s1 -> In y s2 -> unseen n s2 < unseen n s1.
Proof.
  intros Hi Hy H1 H2. apply filter_length_lt with (y := y).
  - intros x _ Hx.
    apply negb_true_iff in Hx. apply negb_true_iff. apply mem_false in Hx. apply mem_false.
    intros H. apply Hx. apply Hi. exact H.
  - unfold iota. apply in_seq. lia.
  - apply negb_false_iff. apply mem_In. exact H2.
  - apply negb_true_iff. apply mem_false. exact H1.
Qed.

(** ** a sufficient, computable condition for closedness: no edge of any slot
    points beyond the capacity *)

Definition closedb (g : sodg) : bool :=
  forallb (fun u => forallb (fun e : label * nat => snd e <? cap_of g) (edg g u)) (iota (cap_of g)).

Lemma closedb_pclosed p g v : closedb g = true -> v < cap_of g -> pclosed p g v.
Proof.
  intros Hb Hv. split; [exact Hv|].
  intros u a w Hr Hin _.
  assert (Hu : u < cap_of g).
  { apply (reach_in_closed_set p g v (fun x => x < cap_of g)); auto.
    intros x b y Hx Hxy _. unfold closedb in Hb. rewrite forallb_forall in Hb.
    assert (Hx' : In x (iota (cap_of g))) by (unfold iota; apply in_seq; lia).
    specialize (Hb x Hx'). rewrite forallb_forall in Hb. specialize (Hb (b, y) Hxy).
    apply Nat.ltb_lt in Hb. exact Hb. }
  unfold closedb in Hb. rewrite forallb_forall in Hb.
  assert (Hu' : In u (iota (cap_of g))) by (unfold iota; apply in_seq; lia).
  specialize (Hb u Hu'). rewrite forallb_forall in Hb. specialize (Hb (a, w) Hin).
  apply Nat.ltb_lt in Hb. exact Hb.
Qed.

Lemma closedb_closed g v : closedb g = true -> v < cap_of g -> closed g v.
Proof. intros Hb Hv. apply closed_pclosed. apply closedb_pclosed; assumption. Qed.

(** ** the graph of the non-vacuity examples: three present vertices on a
    cycle 0 -> 1 -> 2 -> 0, a second (parallel) edge 0 -> 1 stored out of
    label order, a self loop on 2, data on 1, and an absent slot 3 *)
Definition ex_cyclic : sodg :=
  set_vtx (set_vtx (set_vtx (op_empty 4)
    0 (mkV 1 hex_empty PEmpty [(Alpha 1, 1); (Alpha 0, 1)]))
    1 (mkV 1 (HVector [7%N]) PStored [(Greek 945, 2)]))
    2 (mkV 1 hex_empty PEmpty [(Alpha 0, 0); (Alpha 5, 2)]).

(** a chain 0 -> 1 -> 2 -> 3 that fills all four slots *)
Definition ex_chain : sodg :=
  set_vtx (set_vtx (set_vtx (set_vtx (op_empty 4)
    0 (mkV 1 hex_empty PEmpty [(Alpha 0, 1)]))
    1 (mkV 1 hex_empty PEmpty [(Alpha 0, 2)]))
    2 (mkV 1 hex_empty PEmpty [(Alpha 0, 3)]))
    3 (mkV 1 hex_empty PEmpty []).
