(** * XJoinFacts: the extension of XJoin.v is conservative.

    On a state without holes every x-operation is the existing operation
    (so every theorem about [op_*] transfers to the extension on hole-free
    states), and for merge: whenever the existing model gives an answer
    (anything but [Unmodelled], i.e. no [join] was needed), the extension
    gives the same answer and creates no hole.

    Statements (all closed under the global context):
    - [x_add_nohole] ... [x_deploy_nohole]: one equation per operation;
    - [x_merge_rec_sim], [x_merge_sim]: the simulation of [merge_rec] /
      [op_merge] by [x_merge_rec] / [x_merge] up to [Unmodelled];
    - [x_merge_nohole] (the answer [Ok]), [x_merge_nohole_panic],
      [x_merge_nohole_total] (every answer but [Unmodelled]);
    - [x_merge_fuel_partial]: see the comment there;
    - well-formedness [xwf] (every hole is below the capacity and its slot is
      blank, hence never among the keys: [xwf_hole_not_key]) is preserved by
      every x-operation: [x_add_pres] ... [x_deploy_pres], [x_join_pres]
      (which also says that [join] adds exactly [right] to the holes),
      [x_merge_rec_good], [x_merge_good], [x_merge_wf]. *)

From Sodg Require Export XJoin MergeFacts Facts.

(** ** operations whose extension reduces definitionally *)

Lemma x_empty_nohole cap : x_empty cap = mkX (op_empty cap) [].
Proof. reflexivity. Qed.

Lemma x_add_nohole g v : x_add (mkX g []) v = xlift [] (op_add g v).
Proof. reflexivity. Qed.

Lemma x_bind_nohole n g v1 v2 a : x_bind n (mkX g []) v1 v2 a = xlift [] (op_bind n g v1 v2 a).
Proof. reflexivity. Qed.

Lemma x_put_nohole g v d : x_put (mkX g []) v d = xlift [] (op_put g v d).
Proof. reflexivity. Qed.

Lemma x_kids_nohole g v : x_kids (mkX g []) v = op_kids g v.
Proof. reflexivity. Qed.

Lemma x_kid_nohole g v a : x_kid (mkX g []) v a = op_kid g v a.
Proof. reflexivity. Qed.

Lemma x_keys_nohole g : x_keys (mkX g []) = op_keys g.
Proof. reflexivity. Qed.

Lemma x_len_nohole g : x_len (mkX g []) = op_len g.
Proof. reflexivity. Qed.

Lemma x_next_id_nohole g : x_next_id (mkX g []) = xlift2 [] (op_next_id g).
Proof. reflexivity. Qed.

Lemma x_clone_nohole g : x_clone (mkX g []) = mkX (op_clone g) [].
Proof. reflexivity. Qed.

Lemma x_debug_nohole g : x_debug (mkX g []) = op_debug g.
Proof. reflexivity. Qed.

Lemma x_to_xml_nohole g : x_to_xml (mkX g []) = op_to_xml g.
Proof. reflexivity. Qed.

Lemma x_to_dot_nohole g : x_to_dot (mkX g []) = op_to_dot g.
Proof. reflexivity. Qed.

(** the same three hold with holes: they never look at the hole list *)
Lemma x_keys_any x : x_keys x = op_keys (xg x).
Proof. reflexivity. Qed.

(** ** data *)

Lemma xa_kill_nil g ms : xa_kill [] g ms = kill g ms.
Proof.
  revert g; induction ms as [|m t IH]; intros g; cbn [xa_kill kill]; [reflexivity|].
  cbn [chk_h mem existsb obind].
  destruct (chk_v g m); cbn [obind]; try reflexivity. apply IH.
Qed.

Lemma xa_data_nil g v : xa_data [] g v = op_data g v.
Proof.
  unfold xa_data, op_data. cbn [chk_h mem existsb obind].
  destruct (chk_v g v); cbn [obind]; try reflexivity.
  destruct (v_pers (vtx g v)); try reflexivity.
  destruct (v_branch (vtx g v) =? BRANCH_STATIC); [reflexivity|].
  destruct (chk_b (set_prs g v PTaken) (v_branch (vtx g v))); cbn [obind]; try reflexivity.
  destruct (store (set_prs g v PTaken) (v_branch (vtx g v)) =? 0); [reflexivity|].
  destruct (store (set_prs g v PTaken) (v_branch (vtx g v)) - 1 =? 0); [|reflexivity].
  rewrite xa_kill_nil. reflexivity.
Qed.

Lemma x_data_nohole g v : x_data (mkX g []) v = xlift2 [] (op_data g v).
Proof. unfold x_data. cbn [xg xh]. rewrite xa_data_nil. reflexivity. Qed.

(** ** slice *)

Lemma xa_scan_batch_nil p g before done todo :
  xa_scan_batch [] p g before done todo = scan_batch p g before done todo.
Proof.
  revert done todo; induction before as [|v rest IH]; intros done todo;
    cbn [xa_scan_batch scan_batch]; [reflexivity|].
  cbn [chk_h mem existsb obind].
  destruct (chk_v g v); cbn [obind]; try reflexivity.
  destruct (scan_edges p v (edg g v) (if mem v done then done else v :: done) todo) as [d2 t2].
  apply IH.
Qed.

Lemma xa_closure_nil fuel order p g done todo :
  xa_closure [] fuel order p g done todo = closure fuel order p g done todo.
Proof.
  revert done todo; induction fuel as [|f IH]; intros done todo; cbn [xa_closure closure]; [reflexivity|].
  destruct todo as [|t0 tr]; [reflexivity|].
  rewrite xa_scan_batch_nil.
  destruct (scan_batch p g (order (t0 :: tr)) done []); cbn [obind]; try reflexivity. apply IH.
Qed.

Lemma xa_slice_some_nil n order g v p : xa_slice_some [] n order g v p = op_slice_some n order g v p.
Proof. unfold xa_slice_some, op_slice_some. rewrite xa_closure_nil. reflexivity. Qed.

Lemma x_slice_some_nohole n order g v p :
  x_slice_some n order (mkX g []) v p = xlift [] (op_slice_some n order g v p).
Proof. unfold x_slice_some. cbn [xg xh]. rewrite xa_slice_some_nil. reflexivity. Qed.

Lemma x_slice_nohole n order g v : x_slice n order (mkX g []) v = xlift [] (op_slice n order g v).
Proof. apply x_slice_some_nohole. Qed.

(** the slice of a graph with holes never has holes itself *)
Lemma x_slice_some_no_holes n order x v p x' : x_slice_some n order x v p = Ok x' -> xh x' = [].
Proof.
  unfold x_slice_some, xlift. destruct (xa_slice_some (xh x) n order (xg x) v p); cbn [obind]; try discriminate.
  intros H; injection H as <-. reflexivity.
Qed.

(** ** v_print, inspect: [Some] is the [Ok] of the implementation *)

Lemma x_vprint_nohole g v : x_vprint (mkX g []) v = (t <- op_vprint g v ;; Ok (Some t)).
Proof.
  unfold x_vprint, xa_vprint, op_vprint, vprint_doc. cbn [xg xh mem existsb].
  destruct (chk_v g v); reflexivity.
Qed.

Lemma xa_inspect_v_nil fuel g depth v seen :
  xa_inspect_v [] fuel g depth v seen = inspect_v fuel g depth v seen.
Proof.
  revert depth v seen; induction fuel as [|f IH]; intros depth v seen; cbn [xa_inspect_v inspect_v]; [reflexivity|].
  cbn [chk_h mem existsb obind].
  destruct (chk_v g v); cbn [obind]; try reflexivity.
  match goal with |- ?F _ _ _ = ?G _ _ _ =>
    assert (Hgo : forall es sn acc, F es sn acc = G es sn acc)
  end.
  { induction es as [|[lb to] rest IHes]; intros sn acc; [reflexivity|].
    cbn [mem]. destruct (mem to sn); [apply IHes|].
    rewrite IH. destruct (inspect_v f g (S depth) to (to :: sn)); cbn [obind]; try reflexivity.
    apply IHes. }
  apply Hgo.
Qed.

Lemma x_inspect_nohole g v : x_inspect (mkX g []) v = (t <- op_inspect g v ;; Ok (Some t)).
Proof.
  unfold x_inspect, xa_inspect, op_inspect, inspect_doc. cbn [xg xh mem existsb].
  rewrite xa_inspect_v_nil.
  destruct (chk_v g v) eqn:E; cbn [obind].
  - destruct (inspect_v (cap_of g + 1) g 0 v []); reflexivity.
  - rewrite Nat.add_1_r. cbn [inspect_v]. rewrite E. reflexivity.
  - rewrite Nat.add_1_r. cbn [inspect_v]. rewrite E. reflexivity.
  - rewrite Nat.add_1_r. cbn [inspect_v]. rewrite E. reflexivity.
Qed.

(** ** save *)

Lemma filter_all_true {A} (f : A -> bool) l : (forall a, f a = true) -> filter f l = l.
Proof. intros H. induction l as [|a t IH]; cbn [filter]; [reflexivity|]. rewrite H, IH. reflexivity. Qed.

Lemma xa_enc_vertices_nil l : xa_enc_vertices [] l = enc_emap enc_vertex l.
Proof.
  unfold xa_enc_vertices, enc_emap. cbn [mem existsb negb].
  rewrite (filter_all_true (fun _ : nat * vertex => true)) by reflexivity.
  rewrite combine_length. unfold iota. rewrite seq_length, Nat.min_id. reflexivity.
Qed.

Lemma x_encode_nohole g : x_encode (mkX g []) = encode g.
Proof. unfold x_encode, xa_encode, encode. cbn [xg xh]. rewrite xa_enc_vertices_nil. reflexivity. Qed.

(** ** script *)

Lemma xa_deploy_one_nil n vs g cmd : xa_deploy_one [] n vs g cmd = deploy_one n vs g cmd.
Proof. reflexivity. Qed.

Lemma xa_deploy_cmds_nil n vs g cmds pos : xa_deploy_cmds [] n vs g cmds pos = deploy_cmds n vs g cmds pos.
Proof.
  revert vs g pos; induction cmds as [|c rest IH]; intros vs g pos; cbn [xa_deploy_cmds deploy_cmds]; [reflexivity|].
  rewrite xa_deploy_one_nil.
  destruct (deploy_one n vs g c) as [[[vs1 g1]|g']| | |]; cbn [obind]; try reflexivity. apply IH.
Qed.

Lemma x_deploy_nohole n g script : x_deploy n (mkX g []) script = xlift2 [] (op_deploy n g script).
Proof. unfold x_deploy, xa_deploy, op_deploy. cbn [xg xh]. rewrite xa_deploy_cmds_nil. reflexivity. Qed.

(** ** merge *)

(** [osim R o xo]: [xo] answers like [o], with related results, unless [o]
    is [Unmodelled] (then nothing is claimed) *)
Definition osim {A B} (R : A -> B -> Prop) (o : outcome A) (xo : outcome B) : Prop :=
  match o with
  | Ok a => exists b, xo = Ok b /\ R a b
  | Panic k => xo = Panic k
  | OutOfFuel => xo = OutOfFuel
  | Unmodelled => True
  end.

Lemma osim_bind {A B A' B'} (R : A -> B -> Prop) (R' : A' -> B' -> Prop)
  (o : outcome A) (xo : outcome B) (k : A -> outcome A') (xk : B -> outcome B') :
  osim R o xo -> (forall a b, R a b -> osim R' (k a) (xk b)) -> osim R' (obind o k) (obind xo xk).
Proof.
  intros H Hk. destruct o as [a|pk| |]; cbn [osim obind] in *.
  - destruct H as (b & -> & Hab). cbn [obind]. apply Hk; exact Hab.
  - subst xo. reflexivity.
  - subst xo. reflexivity.
  - exact I.
Qed.

Lemma osim_eq {A} (o : outcome A) : osim eq o o.
Proof. destruct o; cbn [osim]; eauto. Qed.

(** hole-free extended state of a plain state *)
Definition RS (s : sodg) (x : xs) : Prop := x = mkX s [].
Definition RSP {T} (st : sodg * T) (xt : xs * T) : Prop := xt = (mkX (fst st) [], snd st).

Lemma osim_xlift (o : outcome sodg) : osim RS o (xlift [] o).
Proof. destruct o; cbn [osim xlift obind]; unfold RS; eauto. Qed.

Lemma osim_xlift2 {T} (o : outcome (sodg * T)) : osim RSP o (xlift2 [] o).
Proof. destruct o as [[s t]| | |]; cbn [osim xlift2 obind fst snd]; unfold RSP; eauto. Qed.

Lemma attach_sim n s left a k mt :
  osim RSP (attach n s left a k mt) (x_attach n (mkX s []) left a k mt).
Proof.
  unfold attach, x_attach. destruct k as [t|].
  - cbn [osim]. eexists; split; [reflexivity|]. reflexivity.
  - destruct mt as [t|].
    + eapply osim_bind; [apply (osim_xlift (op_bind n s left t a))|].
      intros s' x' Hr; red in Hr; subst x'. cbn [osim]. eexists; split; reflexivity.
    + eapply osim_bind; [apply (osim_xlift2 (op_next_id s))|].
      intros [s1 id] x1 Hr; red in Hr; subst x1; cbn [fst snd].
      eapply osim_bind; [apply (osim_xlift (op_add s1 id))|].
      intros s2 x2 Hr; red in Hr; subst x2.
      eapply osim_bind; [apply (osim_xlift (op_bind n s2 left id a))|].
      intros s3 x3 Hr; red in Hr; subst x3. cbn [osim]. eexists; split; reflexivity.
Qed.

Lemma mgo_sim (rec : sodg -> nat -> nat -> mapping -> outcome (sodg * mapping))
  (xrec : xs -> nat -> nat -> mapping -> outcome (xs * mapping)) n left :
  (forall s l r m, osim RSP (rec s l r m) (xrec (mkX s []) l r m)) ->
  forall es s m, osim RSP (mgo rec n left es s m) (x_mgo xrec n left es (mkX s []) m).
Proof.
  intros Hrec. induction es as [|[a to] rest IH]; intros s m; cbn [mgo x_mgo].
  - cbn [osim]. eexists; split; reflexivity.
  - eapply osim_bind; [apply (osim_eq (op_kid s left a))|].
    intros k k' <-.
    eapply osim_bind; [apply attach_sim|].
    intros [s1 t] xt Hr; red in Hr; subst xt; cbn [fst snd].
    eapply osim_bind; [apply Hrec|].
    intros [s2 m2] xm Hr; red in Hr; subst xm; cbn [fst snd]. apply IH.
Qed.

(** the second loop: where [check_joins] says [Ok] no join is called *)
Lemma check_joins_sim n s left m es :
  osim (fun (_ : unit) x => x = mkX s []) (check_joins s left m es) (x_check_joins n (mkX s []) left m es).
Proof.
  induction es as [|[a to] rest IH]; cbn [check_joins x_check_joins].
  - cbn [osim]. eexists; split; reflexivity.
  - change (x_kid (mkX s []) left a) with (op_kid s left a).
    destruct (op_kid s left a) as [[first|]| | |]; cbn [obind osim]; try reflexivity; try exact I.
    + destruct (map_get m to) as [second|]; [|exact IH].
      destruct (first =? second); [exact IH|exact I].
    + destruct (map_get m to); exact IH.
Qed.

Lemma x_merge_rec_S f n g x left right m :
  x_merge_rec (S f) n g x left right m =
  match map_get m right with
  | Some _ => Ok (x, m)
  | None =>
      _ <- chk_h (xh g) right ;;
      _ <- chk_v (xg g) right ;;
      x1 <- (if has_data (xg g) right then x_put x left (dat (xg g) right) else Ok x) ;;
      es <- x_kids g right ;;
      r <- x_mgo (x_merge_rec f n g) n left es x1 ((right, left) :: m) ;;
      x2 <- x_check_joins n (fst r) left (snd r) es ;;
      Ok (x2, snd r)
  end.
Proof. reflexivity. Qed.

(** [x_merge_rec] on hole-free operands simulates [merge_rec] *)
Theorem x_merge_rec_sim f n g : forall s left right m,
  osim RSP (merge_rec f n g s left right m) (x_merge_rec f n (mkX g []) (mkX s []) left right m).
Proof.
  induction f as [|f IH]; intros s left right m.
  - cbn [merge_rec x_merge_rec osim]. reflexivity.
  - rewrite merge_rec_S, x_merge_rec_S.
    destruct (map_get m right) as [t|].
    + cbn [osim]. eexists; split; reflexivity.
    + cbn [xg xh chk_h mem existsb obind].
      eapply osim_bind; [apply (osim_eq (chk_v g right))|].
      intros u u' <-.
      eapply (osim_bind RS).
      * destruct (has_data g right).
        -- apply (osim_xlift (op_put s left (dat g right))).
        -- cbn [osim]. eexists; split; reflexivity.
      * intros s1 x1 Hr; red in Hr; subst x1.
        unfold x_kids, xa_kids, op_kids. cbn [xg xh chk_h mem existsb obind].
        destruct (chk_v g right); cbn [obind osim]; try reflexivity; try exact I.
        eapply osim_bind; [apply (mgo_sim (merge_rec f n g) (x_merge_rec f n (mkX g [])) n left IH)|].
        intros [s2 m2] xm Hr; red in Hr; subst xm; cbn [fst snd].
        eapply osim_bind; [apply check_joins_sim|].
        intros u2 x2 Hr; cbn beta in Hr; subst x2. cbn [osim]. eexists; split; reflexivity.
Qed.

Theorem x_merge_sim n s h left right :
  osim RSP (op_merge n s h left right) (x_merge n (mkX s []) (mkX h []) left right).
Proof.
  unfold op_merge, x_merge. cbn [xg xh].
  eapply osim_bind; [apply x_merge_rec_sim|].
  intros [s1 m1] xm Hr; red in Hr; subst xm; cbn [fst snd]. rewrite x_keys_nohole.
  destruct (length (dedup_keys m1) =? length (op_keys h)); cbn [osim]; eexists; split; reflexivity.
Qed.

(** whenever the existing model gives an answer, the extension gives the
    same answer and creates no hole *)
Theorem x_merge_nohole n s h left right s' v :
  op_merge n s h left right = Ok (s', v) ->
  x_merge n (mkX s []) (mkX h []) left right = Ok (mkX s' [], v).
Proof.
  intros H. pose proof (x_merge_sim n s h left right) as S. rewrite H in S. cbn [osim] in S.
  destruct S as (b & -> & ->). reflexivity.
Qed.

Theorem x_merge_nohole_panic n s h left right k :
  op_merge n s h left right = Panic k ->
  x_merge n (mkX s []) (mkX h []) left right = Panic k.
Proof.
  intros H. pose proof (x_merge_sim n s h left right) as S. rewrite H in S. exact S.
Qed.

(** every answer but [Unmodelled] in one statement *)
Theorem x_merge_nohole_total n s h left right :
  op_merge n s h left right <> Unmodelled ->
  x_merge n (mkX s []) (mkX h []) left right = xlift2 [] (op_merge n s h left right).
Proof.
  intros H. pose proof (x_merge_sim n s h left right) as S.
  destruct (op_merge n s h left right) as [[s' v]|k| |]; cbn [osim xlift2 obind fst snd] in *.
  - destruct S as (b & -> & ->). reflexivity.
  - exact S.
  - exact S.
  - contradiction.
Qed.

(** the same for the recursion itself *)
Theorem x_merge_rec_nohole f n g s left right m s' m' :
  merge_rec f n g s left right m = Ok (s', m') ->
  x_merge_rec f n (mkX g []) (mkX s []) left right m = Ok (mkX s' [], m').
Proof.
  intros H. pose proof (x_merge_rec_sim f n g s left right m) as S. rewrite H in S. cbn [osim] in S.
  destruct S as (b & -> & ->). reflexivity.
Qed.

(** Fuel.  Full statement wanted:

      forall n s g left right, x_merge n s g left right <> OutOfFuel

    ([cap_of (xg g) + 2] levels are enough: every level that gets past the
    first test adds a key below the capacity of the right graph to the
    mapping, and joins do not touch the mapping).  Proved here: the part
    that follows from [op_merge_fuel] of MergeFacts.v, i.e. for hole-free
    operands whenever the existing model answers.  Missing: the case in which
    a join happens (the key-counting argument of [merge_rec_dfs] would have to
    be redone for [x_merge_rec]; the correspondence check never met
    OUTOFFUEL on the join histories it ran). *)
Theorem x_merge_fuel_partial n s h left right :
  op_merge n s h left right <> Unmodelled ->
  x_merge n (mkX s []) (mkX h []) left right <> OutOfFuel.
Proof.
  intros H. rewrite (x_merge_nohole_total n s h left right H).
  pose proof (op_merge_fuel n s h left right) as F.
  destruct (op_merge n s h left right) as [[s' v]|k| |]; cbn [xlift2 obind]; try discriminate; congruence.
Qed.

(** ** well-formedness of extended states

    The x-operations delegate [keys], [len], the exports and [Debug] to the
    existing functions on [xg]; that is sound because the slot of a hole is
    blank in [xg].  This section proves that invariant ([xwf]) for every
    x-operation: a frame lemma per primitive ([vsame]: the capacity and the
    slots of the holes are untouched), then [x_join] (adds exactly [right],
    whose slot it blanks) and [x_merge]. *)

(** frame: the slots of the holes [hs] and the capacity are untouched *)
Definition vsame (hs : list nat) (g g' : sodg) : Prop :=
  cap_of g' = cap_of g /\ forall w, mem w hs = true -> vtx g' w = vtx g w.

Lemma vsame_refl hs g : vsame hs g g.
Proof. split; auto. Qed.

Lemma vsame_trans hs g1 g2 g3 : vsame hs g1 g2 -> vsame hs g2 g3 -> vsame hs g1 g3.
Proof. intros [C1 V1] [C2 V2]. split; [congruence|]. intros w Hw. rewrite V2, V1; auto. Qed.

Lemma vsame_set_vtx hs g v x : mem v hs = false -> vsame hs g (set_vtx g v x).
Proof.
  intros Hv. split; [apply cap_set_vtx|]. intros w Hw. apply vtx_set_vtx_neq. intros ->. congruence.
Qed.

Lemma vsame_set_members hs g b m : vsame hs g (set_members g b m).
Proof. split; reflexivity. Qed.
Lemma vsame_set_store hs g b n : vsame hs g (set_store g b n).
Proof. split; reflexivity. Qed.
Lemma vsame_set_next hs g n : vsame hs g (set_next g n).
Proof. split; reflexivity. Qed.

Lemma push_member_vsame hs g b v g' : push_member g b v = Ok g' -> vsame hs g g'.
Proof.
  unfold push_member. destruct (chk_b g b); cbn [obind]; try discriminate.
  destruct (length (members g b) <? MAX_BRANCH_SIZE); [|discriminate].
  intros H; injection H as <-. apply vsame_set_members.
Qed.

Lemma add_store_vsame hs g b n g' : add_store g b n = Ok g' -> vsame hs g g'.
Proof.
  unfold add_store. destruct (chk_b g b); cbn [obind]; try discriminate.
  intros H; injection H as <-. apply vsame_set_store.
Qed.

Lemma chk_h_ok hs v u : chk_h hs v = Ok u -> mem v hs = false.
Proof. unfold chk_h. destruct (mem v hs); [discriminate|reflexivity]. Qed.

Ltac vs_step :=
  match goal with
  | |- vsame _ ?g ?g => apply vsame_refl
  | |- vsame _ _ (set_tag ?g ?v ?b) => apply (vsame_trans _ _ g); [|apply vsame_set_vtx; assumption]
  | |- vsame _ _ (set_edges ?g ?v ?b) => apply (vsame_trans _ _ g); [|apply vsame_set_vtx; assumption]
  | |- vsame _ _ (set_prs ?g ?v ?b) => apply (vsame_trans _ _ g); [|apply vsame_set_vtx; assumption]
  | |- vsame _ _ (set_vtx ?g ?v ?b) => apply (vsame_trans _ _ g); [|apply vsame_set_vtx; assumption]
  | |- vsame _ _ (set_members ?g ?v ?b) => apply (vsame_trans _ _ g); [|apply vsame_set_members]
  | |- vsame _ _ (set_store ?g ?v ?b) => apply (vsame_trans _ _ g); [|apply vsame_set_store]
  | |- vsame _ _ (set_next ?g ?v) => apply (vsame_trans _ _ g); [|apply vsame_set_next]
  | H : push_member ?g _ _ = Ok ?g' |- vsame _ _ ?g' => apply (vsame_trans _ _ g); [|exact (push_member_vsame _ _ _ _ _ H)]
  | H : add_store ?g _ _ = Ok ?g' |- vsame _ _ ?g' => apply (vsame_trans _ _ g); [|exact (add_store_vsame _ _ _ _ _ H)]
  end.

Ltac ok_split H :=
  repeat match type of H with
  | obind ?x _ = Ok _ => let E := fresh "E" in destruct x eqn:E; cbn [obind] in H; try discriminate H
  | (if ?c then _ else _) = Ok _ => destruct c
  | (let '(_, _) := match ?q with Some _ => _ | None => _ end in _) = Ok _ => destruct q
  | (let '(_, _) := ?p in _) = Ok _ => destruct p
  | match ?p with Some _ => _ | None => _ end = Ok _ => destruct p
  end.

Lemma op_add_vsame hs g v g' : mem v hs = false -> op_add g v = Ok g' -> vsame hs g g'.
Proof.
  intros Hv H. unfold op_add in H. ok_split H; injection H as <-; repeat vs_step.
Qed.

Lemma op_put_vsame hs g v d g' : mem v hs = false -> op_put g v d = Ok g' -> vsame hs g g'.
Proof.
  intros Hv H. unfold op_put in H. ok_split H; try (injection H as <-); repeat vs_step.
Qed.

Lemma op_bind_vsame hs n g v1 v2 a g' :
  mem v1 hs = false -> mem v2 hs = false -> op_bind n g v1 v2 a = Ok g' -> vsame hs g g'.
Proof.
  intros H1 H2 H. unfold op_bind in H. ok_split H; try (injection H as <-); repeat vs_step.
Qed.

Lemma xa_add_vsame hs g v g' : xa_add hs g v = Ok g' -> vsame hs g g'.
Proof.
  unfold xa_add. destruct (chk_h hs v) eqn:E; cbn [obind]; try discriminate.
  apply op_add_vsame. exact (chk_h_ok _ _ _ E).
Qed.

Lemma xa_put_vsame hs g v d g' : xa_put hs g v d = Ok g' -> vsame hs g g'.
Proof.
  unfold xa_put. destruct (chk_h hs v) eqn:E; cbn [obind]; try discriminate.
  apply op_put_vsame. exact (chk_h_ok _ _ _ E).
Qed.

Lemma xa_bind_vsame hs n g v1 v2 a g' : xa_bind hs n g v1 v2 a = Ok g' -> vsame hs g g'.
Proof.
  unfold xa_bind. destruct (chk_h hs v1) eqn:E1; cbn [obind]; try discriminate.
  destruct (chk_h hs v2) eqn:E2; cbn [obind]; try discriminate.
  apply op_bind_vsame; [exact (chk_h_ok _ _ _ E1)|exact (chk_h_ok _ _ _ E2)].
Qed.

Lemma xa_kill_vsame hs ms : forall g g', xa_kill hs g ms = Ok g' -> vsame hs g g'.
Proof.
  induction ms as [|m t IH]; intros g g' H; cbn [xa_kill] in H.
  - injection H as <-. apply vsame_refl.
  - destruct (chk_h hs m) eqn:E; cbn [obind] in H; try discriminate.
    destruct (chk_v g m); cbn [obind] in H; try discriminate.
    apply (vsame_trans _ _ (set_tag g m BRANCH_NONE)); [|apply IH; exact H].
    apply vsame_set_vtx. exact (chk_h_ok _ _ _ E).
Qed.

Lemma xa_data_vsame hs g v g' r : xa_data hs g v = Ok (g', r) -> vsame hs g g'.
Proof.
  unfold xa_data. destruct (chk_h hs v) eqn:E; cbn [obind]; try discriminate.
  apply chk_h_ok in E. intros H. ok_split H.
  destruct (v_pers (vtx g v)).
  - injection H as <- _. apply vsame_refl.
  - ok_split H; try discriminate H; try (injection H as <- _); repeat vs_step.
    match goal with K : xa_kill _ ?g0 _ = Ok _ |- _ =>
      apply (vsame_trans _ _ g0); [repeat vs_step|exact (xa_kill_vsame _ _ _ _ K)] end.
  - injection H as <- _. apply vsame_refl.
Qed.

Lemma xa_next_id_vsame hs g g' id : xa_next_id hs g = Ok (g', id) -> vsame hs g g'.
Proof.
  unfold xa_next_id. destruct (find _ _); [|discriminate].
  intros H; injection H as <- _. destruct (g_next g <? n + 1); repeat vs_step.
Qed.

(** *** script *)

Definition sres_vsame {T} (hs : list nat) (g : sodg) (proj : T -> sodg) (r : sres T) : Prop :=
  match r with SOk t => vsame hs g (proj t) | SErr g' => vsame hs g g' end.

Lemma xa_parse_arg_vsame hs vs g s r :
  xa_parse_arg hs vs g s = Ok r -> sres_vsame hs g (fun t : vars * sodg * nat => snd (fst t)) r.
Proof.
  unfold xa_parse_arg. destruct s as [|head tail].
  - intros H; injection H as <-. apply vsame_refl.
  - destruct (head =? ch_dollar)%N.
    + destruct (var_get vs tail).
      * intros H; injection H as <-. apply vsame_refl.
      * destruct (xa_next_id hs g) as [[g1 id]| | |] eqn:E; cbn [obind]; try discriminate.
        intros H; injection H as <-. cbn [sres_vsame fst snd]. exact (xa_next_id_vsame _ _ _ _ E).
    + destruct (head =? ch_nu)%N.
      * destruct (parse_usize tail); intros H; injection H as <-; apply vsame_refl.
      * destruct (parse_usize (head :: tail)); intros H; injection H as <-; apply vsame_refl.
Qed.

Lemma xa_deploy_one_vsame hs n vs g cmd r :
  xa_deploy_one hs n vs g cmd = Ok r -> sres_vsame hs g (fun t : vars * sodg => snd t) r.
Proof.
  unfold xa_deploy_one. intros H.
  repeat match type of H with
  | match ?p with Some _ => _ | None => _ end = Ok _ => destruct p
  | (let '(_, _) := ?p in _) = Ok _ => destruct p
  | (if ?c then _ else _) = Ok _ => destruct c
  | match ?l with [] => _ | _ :: _ => _ end = Ok _ => destruct l
  | obind (xa_parse_arg ?hs ?vs ?g ?s) _ = Ok _ =>
      let E := fresh "E" in destruct (xa_parse_arg hs vs g s) as [[[[? ?] ?]|?]| | |] eqn:E;
      cbn [obind] in H; try discriminate H; apply xa_parse_arg_vsame in E; cbn [sres_vsame fst snd] in E
  | obind ?x _ = Ok _ => let E := fresh "E" in destruct x eqn:E; cbn [obind] in H; try discriminate H
  end;
  injection H as <-; cbn [sres_vsame snd];
  repeat match goal with
  | K : xa_add _ _ _ = Ok _ |- _ => apply xa_add_vsame in K
  | K : xa_put _ _ _ _ = Ok _ |- _ => apply xa_put_vsame in K
  | K : xa_bind _ _ _ _ _ _ = Ok _ |- _ => apply xa_bind_vsame in K
  end;
  eauto using vsame_refl, vsame_trans.
Qed.

Lemma xa_deploy_cmds_vsame hs n cmds : forall vs g pos g' r,
  xa_deploy_cmds hs n vs g cmds pos = Ok (g', r) -> vsame hs g g'.
Proof.
  induction cmds as [|c rest IH]; intros vs g pos g' r H; cbn [xa_deploy_cmds] in H.
  - injection H as <- _. apply vsame_refl.
  - destruct (xa_deploy_one hs n vs g c) as [[[vs1 g1]|g1]| | |] eqn:E; cbn [obind] in H; try discriminate.
    + apply xa_deploy_one_vsame in E. cbn [sres_vsame snd] in E.
      eapply vsame_trans; [exact E|]. eapply IH; exact H.
    + apply xa_deploy_one_vsame in E. cbn [sres_vsame] in E. injection H as <- _. exact E.
Qed.

(** ** well-formed extended states: every hole is below the capacity and its slot is blank *)

Definition xwf (x : xs) : Prop :=
  forall v, mem v (xh x) = true -> v < cap_of (xg x) /\ vtx (xg x) v = blank.

Lemma xwf_nohole g : xwf (mkX g []).
Proof. intros v H. discriminate. Qed.

Lemma xwf_vsame hs g g' : xwf (mkX g hs) -> vsame hs g g' -> xwf (mkX g' hs).
Proof.
  intros W [C V] v Hv. cbn [xg xh] in *. destruct (W v Hv) as [L B]. split; [rewrite C; exact L|].
  rewrite V; assumption.
Qed.

(** a hole is never among the keys: this is what makes the delegation of
    [keys], [len], the exports and the printers to the existing functions sound *)
Lemma xwf_hole_not_key x v : xwf x -> mem v (xh x) = true -> ~ In v (x_keys x).
Proof.
  intros W Hv Hin. destruct (W v Hv) as [_ B]. unfold x_keys, op_keys in Hin.
  apply filter_In in Hin as [_ Ht]. unfold tag in Ht. rewrite B in Ht. discriminate.
Qed.

(** [xpres x x']: the capacity is kept and well-formedness is preserved *)
Definition xpres (x x' : xs) : Prop := cap_of (xg x') = cap_of (xg x) /\ (xwf x -> xwf x').

Lemma xpres_refl x : xpres x x.
Proof. split; auto. Qed.

Lemma xpres_trans x1 x2 x3 : xpres x1 x2 -> xpres x2 x3 -> xpres x1 x3.
Proof. intros [C1 W1] [C2 W2]. split; [congruence|auto]. Qed.

Lemma xpres_vsame hs g g' : vsame hs g g' -> xpres (mkX g hs) (mkX g' hs).
Proof. intros V. split; [exact (proj1 V)|]. intros W. exact (xwf_vsame _ _ _ W V). Qed.

Lemma xlift_ok hs o x' : xlift hs o = Ok x' -> exists g', o = Ok g' /\ x' = mkX g' hs.
Proof. unfold xlift. destruct o; cbn [obind]; try discriminate. intros H; injection H as <-. eauto. Qed.

Lemma xlift2_ok {R} hs (o : outcome (sodg * R)) x' r :
  xlift2 hs o = Ok (x', r) -> exists g', o = Ok (g', r) /\ x' = mkX g' hs.
Proof.
  unfold xlift2. destruct o as [[g' r']| | |]; cbn [obind fst snd]; try discriminate.
  intros H; injection H as <- <-. eauto.
Qed.

Lemma x_add_pres x v x' : x_add x v = Ok x' -> xpres x x' /\ xh x' = xh x.
Proof.
  destruct x as [g hs]. unfold x_add. cbn [xg xh]. intros H. apply xlift_ok in H as (g' & H & ->).
  split; [|reflexivity]. apply xpres_vsame. exact (xa_add_vsame _ _ _ _ H).
Qed.

Lemma x_put_pres x v d x' : x_put x v d = Ok x' -> xpres x x' /\ xh x' = xh x.
Proof.
  destruct x as [g hs]. unfold x_put. cbn [xg xh]. intros H. apply xlift_ok in H as (g' & H & ->).
  split; [|reflexivity]. apply xpres_vsame. exact (xa_put_vsame _ _ _ _ _ H).
Qed.

Lemma x_bind_pres n x v1 v2 a x' : x_bind n x v1 v2 a = Ok x' -> xpres x x' /\ xh x' = xh x.
Proof.
  destruct x as [g hs]. unfold x_bind. cbn [xg xh]. intros H. apply xlift_ok in H as (g' & H & ->).
  split; [|reflexivity]. apply xpres_vsame. exact (xa_bind_vsame _ _ _ _ _ _ _ H).
Qed.

Lemma x_data_pres x v x' r : x_data x v = Ok (x', r) -> xpres x x' /\ xh x' = xh x.
Proof.
  destruct x as [g hs]. unfold x_data. cbn [xg xh]. intros H. apply xlift2_ok in H as (g' & H & ->).
  split; [|reflexivity]. apply xpres_vsame. exact (xa_data_vsame _ _ _ _ _ H).
Qed.

Lemma x_next_id_pres x x' id : x_next_id x = Ok (x', id) -> xpres x x' /\ xh x' = xh x.
Proof.
  destruct x as [g hs]. unfold x_next_id. cbn [xg xh]. intros H. apply xlift2_ok in H as (g' & H & ->).
  split; [|reflexivity]. apply xpres_vsame. exact (xa_next_id_vsame _ _ _ _ H).
Qed.

Lemma x_deploy_pres n x script x' r : x_deploy n x script = Ok (x', r) -> xpres x x' /\ xh x' = xh x.
Proof.
  destruct x as [g hs]. unfold x_deploy. cbn [xg xh]. intros H. apply xlift2_ok in H as (g' & H & ->).
  split; [|reflexivity]. apply xpres_vsame. exact (xa_deploy_cmds_vsame _ _ _ _ _ _ _ _ H).
Qed.

Lemma x_slice_some_wf n order x v p x' : x_slice_some n order x v p = Ok x' -> xwf x'.
Proof.
  intros H. pose proof (x_slice_some_no_holes _ _ _ _ _ _ H) as E. destruct x' as [g' hs']. cbn [xh] in E.
  subst hs'. apply xwf_nohole.
Qed.

(** *** join *)

Lemma redirect_all_vsame hs n left right vs : forall g g',
  (forall v, In v vs -> mem v hs = false) ->
  redirect_all n g left right vs = Ok g' -> vsame hs g g'.
Proof.
  induction vs as [|v t IH]; intros g g' Hvs H; cbn [redirect_all] in H.
  - injection H as <-. apply vsame_refl.
  - destruct (redirect n (edg g v) (edg g v) left right); cbn [obind] in H; try discriminate.
    apply (vsame_trans _ _ (set_edges g v a)).
    + apply vsame_set_vtx. apply Hvs. left; reflexivity.
    + apply IH; [|exact H]. intros w Hw. apply Hvs. right; exact Hw.
Qed.

Lemma join_kids_pres n left es : forall x x', join_kids n x left es = Ok x' -> xpres x x' /\ xh x' = xh x.
Proof.
  induction es as [|[a t] rest IH]; intros x x' H; cbn [join_kids] in H.
  - injection H as <-. split; [apply xpres_refl|reflexivity].
  - destruct (x_kid x left a) as [[k|]| | |]; cbn [obind] in H; try discriminate.
    destruct (x_bind n x left t a) as [x1| | |] eqn:E; cbn [obind] in H; try discriminate.
    apply x_bind_pres in E as [P1 H1]. apply IH in H as [P2 H2].
    split; [exact (xpres_trans _ _ _ P1 P2)|congruence].
Qed.

Lemma mem_cons v w hs : mem v (w :: hs) = (v =? w) || mem v hs.
Proof. reflexivity. Qed.

Lemma redirect_all_cap n left right vs : forall g g',
  redirect_all n g left right vs = Ok g' -> cap_of g' = cap_of g.
Proof.
  induction vs as [|v t IH]; intros g g' H; cbn [redirect_all] in H.
  - injection H as <-. reflexivity.
  - destruct (redirect n (edg g v) (edg g v) left right); cbn [obind] in H; try discriminate.
    apply IH in H. rewrite H. apply cap_set_edges.
Qed.

Lemma x_kids_ok_lt x v es : x_kids x v = Ok es -> v < cap_of (xg x).
Proof.
  unfold x_kids, xa_kids, op_kids. destruct (chk_h (xh x) v); cbn [obind]; try discriminate.
  destruct (chk_v (xg x) v) as [u| | |] eqn:Ec; cbn [obind]; try discriminate.
  intros _. destruct u. exact (chk_v_inv _ _ Ec).
Qed.

(** [join] adds exactly [right] to the holes, and the result is well-formed *)
Lemma x_join_pres n x left right x' :
  x_join n x left right = Ok x' -> xpres x x' /\ xh x' = right :: xh x.
Proof.
  destruct x as [g hs]. unfold x_join. cbn [xg xh]. intros H.
  destruct (redirect_all n g left right (x_keys (mkX g hs))) as [g1| | |] eqn:E1; cbn [obind] in H; try discriminate.
  destruct (x_kids (mkX g1 hs) right) as [es| | |] eqn:E2; cbn [obind] in H; try discriminate.
  destruct (join_kids n (mkX g1 hs) left es) as [x2| | |] eqn:E3; cbn [obind] in H; try discriminate.
  injection H as <-. apply join_kids_pres in E3 as [[C3 W3] H3]. cbn [xg xh] in *.
  pose proof (x_kids_ok_lt _ _ _ E2) as Hr. cbn [xg] in Hr.
  pose proof (redirect_all_cap _ _ _ _ _ _ E1) as C1.
  split; [|rewrite H3; reflexivity].
  split.
  - cbn [xg]. rewrite cap_set_vtx, C3. exact C1.
  - intros W.
    assert (V1 : vsame hs g g1).
    { eapply redirect_all_vsame; [|exact E1]. intros v Hv.
      destruct (mem v hs) eqn:Em; [|reflexivity]. exfalso.
      exact (xwf_hole_not_key (mkX g hs) v W Em Hv). }
    pose proof (W3 (xwf_vsame _ _ _ W V1)) as W2.
    intros v Hv. cbn [xg xh] in *. rewrite cap_set_vtx. rewrite H3 in Hv. rewrite mem_cons in Hv.
    destruct (Nat.eqb_spec v right) as [Heq|Hne].
    + rewrite Heq. split; [rewrite C3; exact Hr|]. apply vtx_set_vtx_eq. rewrite C3. exact Hr.
    + cbn [orb] in Hv. rewrite <- H3 in Hv. destruct (W2 v Hv) as [L B]. split; [exact L|].
      rewrite vtx_set_vtx_neq; [exact B|]. intros E; apply Hne; symmetry; exact E.
Qed.

(** *** merge *)

(** holes only grow *)
Definition hsub (x x' : xs) : Prop := forall v, mem v (xh x) = true -> mem v (xh x') = true.

Lemma hsub_refl x : hsub x x.
Proof. intros v H; exact H. Qed.

Lemma hsub_trans x1 x2 x3 : hsub x1 x2 -> hsub x2 x3 -> hsub x1 x3.
Proof. intros A B v H. apply B, A, H. Qed.

Lemma hsub_eq x x' : xh x' = xh x -> hsub x x'.
Proof. intros E v H. rewrite E. exact H. Qed.

Definition xgood (x x' : xs) : Prop := xpres x x' /\ hsub x x'.

Lemma xgood_refl x : xgood x x.
Proof. split; [apply xpres_refl|apply hsub_refl]. Qed.

Lemma xgood_trans x1 x2 x3 : xgood x1 x2 -> xgood x2 x3 -> xgood x1 x3.
Proof. intros [P1 S1] [P2 S2]. split; [exact (xpres_trans _ _ _ P1 P2)|exact (hsub_trans _ _ _ S1 S2)]. Qed.

Lemma xgood_of_pres x x' : xpres x x' /\ xh x' = xh x -> xgood x x'.
Proof. intros [P E]. split; [exact P|exact (hsub_eq _ _ E)]. Qed.

Lemma x_check_joins_good n left m es : forall x x', x_check_joins n x left m es = Ok x' -> xgood x x'.
Proof.
  induction es as [|[a to] rest IH]; intros x x' H; cbn [x_check_joins] in H.
  - injection H as <-. apply xgood_refl.
  - destruct (x_kid x left a) as [[first|]| | |]; cbn [obind] in H; try discriminate.
    + destruct (map_get m to) as [second|]; [|exact (IH _ _ H)].
      destruct (first =? second); [exact (IH _ _ H)|].
      destruct (x_join n x first second) as [x1| | |] eqn:E; cbn [obind] in H; try discriminate.
      apply x_join_pres in E as [P E]. eapply xgood_trans; [|exact (IH _ _ H)].
      split; [exact P|]. intros v Hv. rewrite E, mem_cons, Hv. apply orb_true_r.
    + destruct (map_get m to); exact (IH _ _ H).
Qed.

Lemma x_attach_good n x left a k mt x' t : x_attach n x left a k mt = Ok (x', t) -> xgood x x'.
Proof.
  unfold x_attach. destruct k as [t0|].
  - intros H; injection H as <- _. apply xgood_refl.
  - destruct mt as [t0|].
    + destruct (x_bind n x left t0 a) as [x1| | |] eqn:E; cbn [obind]; try discriminate.
      intros H; injection H as <- _. apply xgood_of_pres. exact (x_bind_pres _ _ _ _ _ _ E).
    + destruct (x_next_id x) as [[x1 id]| | |] eqn:E1; cbn [obind fst snd]; try discriminate.
      destruct (x_add x1 id) as [x2| | |] eqn:E2; cbn [obind]; try discriminate.
      destruct (x_bind n x2 left id a) as [x3| | |] eqn:E3; cbn [obind]; try discriminate.
      intros H; injection H as <- _.
      eapply xgood_trans; [apply xgood_of_pres; exact (x_next_id_pres _ _ _ E1)|].
      eapply xgood_trans; [apply xgood_of_pres; exact (x_add_pres _ _ _ E2)|].
      apply xgood_of_pres; exact (x_bind_pres _ _ _ _ _ _ E3).
Qed.

Lemma x_mgo_good (rec : xs -> nat -> nat -> mapping -> outcome (xs * mapping)) n left :
  (forall x l r m x' m', rec x l r m = Ok (x', m') -> xgood x x') ->
  forall es x m x' m', x_mgo rec n left es x m = Ok (x', m') -> xgood x x'.
Proof.
  intros Hrec. induction es as [|[a to] rest IH]; intros x m x' m' H; cbn [x_mgo] in H.
  - injection H as <- _. apply xgood_refl.
  - destruct (x_kid x left a) as [k| | |]; cbn [obind] in H; try discriminate.
    destruct (x_attach n x left a k (map_get m to)) as [[x1 t]| | |] eqn:E1; cbn [obind fst snd] in H; try discriminate.
    destruct (rec x1 t to m) as [[x2 m2]| | |] eqn:E2; cbn [obind fst snd] in H; try discriminate.
    eapply xgood_trans; [exact (x_attach_good _ _ _ _ _ _ _ _ E1)|].
    eapply xgood_trans; [exact (Hrec _ _ _ _ _ _ E2)|]. exact (IH _ _ _ _ H).
Qed.

Theorem x_merge_rec_good f n g : forall x left right m x' m',
  x_merge_rec f n g x left right m = Ok (x', m') -> xgood x x'.
Proof.
  induction f as [|f IH]; intros x left right m x' m' H; [discriminate|].
  rewrite x_merge_rec_S in H.
  destruct (map_get m right).
  - injection H as <- _. apply xgood_refl.
  - destruct (chk_h (xh g) right); cbn [obind] in H; try discriminate.
    destruct (chk_v (xg g) right); cbn [obind] in H; try discriminate.
    destruct (if has_data (xg g) right then x_put x left (dat (xg g) right) else Ok x) as [x1| | |] eqn:E1;
      cbn [obind] in H; try discriminate.
    destruct (x_kids g right) as [es| | |]; cbn [obind] in H; try discriminate.
    destruct (x_mgo (x_merge_rec f n g) n left es x1 ((right, left) :: m)) as [[x2 m2]| | |] eqn:E2;
      cbn [obind fst snd] in H; try discriminate.
    destruct (x_check_joins n x2 left m2 es) as [x3| | |] eqn:E3; cbn [obind] in H; try discriminate.
    injection H as <- _.
    assert (G1 : xgood x x1).
    { destruct (has_data (xg g) right).
      - apply xgood_of_pres. exact (x_put_pres _ _ _ _ E1).
      - injection E1 as <-. apply xgood_refl. }
    eapply xgood_trans; [exact G1|].
    eapply xgood_trans; [exact (x_mgo_good _ n left (IH) _ _ _ _ _ E2)|].
    exact (x_check_joins_good _ _ _ _ _ _ E3).
Qed.

(** [merge] keeps the capacity, preserves well-formedness and never refills a hole *)
Theorem x_merge_good n s g left right s' r :
  x_merge n s g left right = Ok (s', r) -> xgood s s'.
Proof.
  unfold x_merge. destruct (x_merge_rec (cap_of (xg g) + 2) n g s left right []) as [[x1 m1]| | |] eqn:E;
    cbn [obind fst snd]; try discriminate.
  intros H. apply x_merge_rec_good in E.
  destruct (length (dedup_keys m1) =? length (x_keys g)); injection H as <- _; exact E.
Qed.

Corollary x_merge_wf n s g left right s' r :
  xwf s -> x_merge n s g left right = Ok (s', r) -> xwf s'.
Proof. intros W H. apply x_merge_good in H as [[_ P] _]. exact (P W). Qed.

(** ** non-vacuity and reach of the extension *)

(** a right graph with one kid under two names, a left graph where the two
    names lead to two vertices: the existing model stops ... *)
Definition ex_left : sodg :=
  match (g <- op_add (op_empty 6) 0 ;; g <- op_add g 1 ;; g <- op_add g 2 ;;
         g <- op_bind 16 g 0 1 (Alpha 0) ;; g <- op_bind 16 g 0 2 (Alpha 1) ;;
         g <- op_add g 3 ;; g <- op_bind 16 g 1 3 (Alpha 2) ;; op_put g 1 (HVector [1; 2]%N)) with
  | Ok g => g
  | _ => op_empty 0
  end.

Definition ex_right : sodg :=
  match (g <- op_add (op_empty 6) 0 ;; g <- op_add g 5 ;;
         g <- op_bind 16 g 0 5 (Alpha 0) ;; op_bind 16 g 0 5 (Alpha 1)) with
  | Ok g => g
  | _ => op_empty 0
  end.

Example ex_old_unmodelled : op_merge 16 ex_left ex_right 0 0 = Unmodelled.
Proof. vm_compute. reflexivity. Qed.

(** ... and the extension performs the join: vertex 1 is merged into vertex
    2 (which inherits the kid under [Alpha 2]), slot 1 becomes a hole, its id
    stays in the member list of group 2 and the counter of unread data of
    that group still counts the datum that went away with the slot *)
Example ex_join :
  exists x, x_merge 16 (mkX ex_left []) (mkX ex_right []) 0 0 = Ok (x, None)
    /\ xh x = [1]
    /\ x_keys x = [0; 2; 3]
    /\ edg (xg x) 0 = [(Alpha 0, 2); (Alpha 1, 2)]
    /\ edg (xg x) 2 = [(Alpha 2, 3)]
    /\ members (xg x) 2 = [0; 1; 2; 3]
    /\ store (xg x) 2 = 1
    /\ vtx (xg x) 1 = blank
    /\ is_panic (x_add x 1) = true
    /\ x_vprint x 1 = Ok None
    /\ (exists x', x_next_id x = Ok (x', 4)).
Proof. vm_compute. eexists; repeat split; eexists; reflexivity. Qed.

(** hypotheses of [x_merge_nohole] are satisfiable: a tree merged into a tree *)
Definition ex_tree : sodg :=
  match (g <- op_add (op_empty 6) 0 ;; g <- op_add g 5 ;; op_bind 16 g 0 5 (Alpha 0)) with
  | Ok g => g
  | _ => op_empty 0
  end.

Example ex_nohole : exists s', op_merge 16 ex_left ex_tree 0 0 = Ok (s', None)
  /\ x_merge 16 (mkX ex_left []) (mkX ex_tree []) 0 0 = Ok (mkX s' [], None).
Proof. vm_compute. eexists; split; reflexivity. Qed.

(** a conflict in [join]: both copies have a kid under the same label *)
Definition ex_conflict : sodg :=
  match (g <- op_add ex_left 4 ;; op_bind 16 g 2 4 (Alpha 2)) with
  | Ok g => g
  | _ => op_empty 0
  end.

Example ex_join_conflict : x_merge 16 (mkX ex_conflict []) (mkX ex_right []) 0 0 = Panic PAssert.
Proof. vm_compute. reflexivity. Qed.

Print Assumptions x_data_nohole.
Print Assumptions x_slice_some_nohole.
Print Assumptions x_vprint_nohole.
Print Assumptions x_inspect_nohole.
Print Assumptions x_encode_nohole.
Print Assumptions x_deploy_nohole.
Print Assumptions x_merge_rec_sim.
Print Assumptions x_merge_sim.
Print Assumptions x_merge_nohole.
Print Assumptions x_merge_nohole_panic.
Print Assumptions x_merge_nohole_total.
Print Assumptions x_merge_rec_nohole.
Print Assumptions x_merge_fuel_partial.
Print Assumptions x_deploy_pres.
Print Assumptions x_data_pres.
Print Assumptions x_join_pres.
Print Assumptions x_merge_rec_good.
Print Assumptions x_merge_good.
Print Assumptions x_merge_wf.
