(** * MergeFacts: facts about [merge_rec] / [op_merge] that hold for every
    run, whatever the two graphs are (C12, and the structural part of C11).

    - [merge_rec] is a depth-first search of the right graph whose visited set
      is the key set of the mapping: entries are only ever prepended, keys
      are never repeated, and the keys added by a call are exactly the
      vertices reachable from [right] without passing through a key that was
      already there  ([merge_rec_dfs], [merge_rec_keys_gen], [merge_rec_keys]);
    - the fuel [cap_of h + 2] handed in by [op_merge] is never the reason why
      the call stops  ([op_merge_fuel]);
    - whenever the call returns, the left graph is the result of a sequence
      of [add]/[bind]/[put]/[next_id] calls  ([merge_rec_calls]);
    - the verdict of [op_merge]  ([merge_ok_complete], [merge_err_names_missed],
      [merge_all_reached_ok]).

    The right graph is called [h] throughout, the left graph [s].  [h] is an
    immutable value of the functional model: it is unchanged by construction. *)

From Sodg Require Export Merge Inv Reach PrintFacts Shape.
From Sodg Require ExportFacts.
From Coq Require Export Sorting.Sorted.

(** ** the outcome monad *)

Lemma obind_ok {A B} (x : outcome A) (f : A -> outcome B) (b : B) :
  obind x f = Ok b -> exists a, x = Ok a /\ f a = Ok b.
Proof. destruct x; cbn [obind]; intros H; try discriminate. eauto. Qed.

Lemma obind_fuel {A B} (x : outcome A) (f : A -> outcome B) :
  x <> OutOfFuel -> (forall a, x = Ok a -> f a <> OutOfFuel) -> obind x f <> OutOfFuel.
Proof. destruct x; cbn [obind]; intros H1 H2; try discriminate; auto. Qed.

(** ** the mapping *)

Definition keys (m : mapping) : list nat := map fst m.

Lemma keys_app e m : keys (e ++ m) = keys e ++ keys m.
Proof. apply map_app. Qed.

Lemma map_get_none m k : map_get m k = None <-> ~ In k (keys m).
Proof.
  unfold keys. induction m as [|[a b] t IH]; cbn [map_get map fst In]; [tauto|].
  destruct (Nat.eqb_spec a k) as [->|Hne].
  - split; [discriminate|]. intros H. exfalso. apply H. left; reflexivity.
  - rewrite IH. tauto.
Qed.

Lemma map_get_some_key m k v : map_get m k = Some v -> In k (keys m).
Proof.
  intros H. destruct (in_dec Nat.eq_dec k (keys m)) as [Hi|Hn]; [exact Hi|].
  apply map_get_none in Hn. congruence.
Qed.

Lemma map_get_key_some m k : In k (keys m) -> exists v, map_get m k = Some v.
Proof.
  intros H. destruct (map_get m k) as [v|] eqn:E; [eauto|].
  apply map_get_none in E. contradiction.
Qed.

Lemma map_get_some_in m k v : map_get m k = Some v -> In (k, v) m.
Proof.
  induction m as [|[a b] t IH]; cbn [map_get]; [discriminate|].
  destruct (Nat.eqb_spec a k) as [->|Hne].
  - intros H; injection H as ->. left; reflexivity.
  - intros H. right. apply IH; exact H.
Qed.

Lemma map_get_app e m k :
  map_get (e ++ m) k = match map_get e k with Some x => Some x | None => map_get m k end.
Proof.
  induction e as [|[a b] t IH]; cbn [map_get app]; [reflexivity|].
  destruct (a =? k); [reflexivity|exact IH].
Qed.

Lemma map_get_app_l e m k v : map_get e k = Some v -> map_get (e ++ m) k = Some v.
Proof. intros H. rewrite map_get_app, H. reflexivity. Qed.

Lemma map_get_app_r e m k : ~ In k (keys e) -> map_get (e ++ m) k = map_get m k.
Proof. intros H. apply map_get_none in H. rewrite map_get_app, H. reflexivity. Qed.

(** ** the loop of [merge_rec] as a named function *)

Definition attach (n : nat) (s : sodg) (left : nat) (a : label) (k mt : option nat)
  : outcome (sodg * nat) :=
  match k with
  | Some t => Ok (s, t)
  | None =>
      match mt with
      | Some t => s' <- op_bind n s left t a ;; Ok (s', t)
      | None =>
          r <- op_next_id s ;;
          s' <- op_add (fst r) (snd r) ;;
          s'' <- op_bind n s' left (snd r) a ;;
          Ok (s'', snd r)
      end
  end.

Section Go.
  Variable rec : sodg -> nat -> nat -> mapping -> outcome (sodg * mapping).
  Variable n : nat.
  Variable left : nat.

  Fixpoint mgo (es : edges) (s : sodg) (m : mapping) {struct es} : outcome (sodg * mapping) :=
    match es with
    | [] => Ok (s, m)
    | (a, to) :: rest =>
        k <- op_kid s left a ;;
        sm <- attach n s left a k (map_get m to) ;;
        r <- rec (fst sm) (snd sm) to m ;;
        mgo rest (fst r) (snd r)
    end.
End Go.

Lemma merge_rec_S f n g s left right m :
  merge_rec (S f) n g s left right m =
  match map_get m right with
  | Some _ => Ok (s, m)
  | None =>
      _ <- chk_v g right ;;
      s1 <- (if has_data g right then op_put s left (dat g right) else Ok s) ;;
      _ <- chk_v g right ;;
      r <- mgo (merge_rec f n g) n left (edg g right) s1 ((right, left) :: m) ;;
      _ <- check_joins (fst r) left (snd r) (edg g right) ;;
      Ok r
  end.
Proof. reflexivity. Qed.

Lemma chk_v_inv g v : chk_v g v = Ok tt -> v < cap_of g.
Proof. unfold chk_v. destruct (Nat.ltb_spec v (cap_of g)); [auto|discriminate]. Qed.

Lemma chk_v_ok_inv g v (u : unit) : chk_v g v = Ok u -> v < cap_of g.
Proof. destruct u. apply chk_v_inv. Qed.

(** ** reachability that avoids a set of vertices *)

(** [pav K]: the edges whose target is not in [K] *)
Definition pav (K : list nat) : pred := fun _ w _ => negb (mem w K).

Lemma reach_mono (p q : pred) g v u :
  (forall x y a, p x y a = true -> q x y a = true) -> reach p g v u -> reach q g v u.
Proof.
  intros H Hr. induction Hr as [|x a y Hx IH Hin Hp]; [apply reach_refl|].
  eapply reach_step; eauto.
Qed.

Lemma pav_incl K1 K2 x y a : incl K1 K2 -> pav K2 x y a = true -> pav K1 x y a = true.
Proof.
  unfold pav. intros Hi H. apply negb_true_iff in H. apply negb_true_iff.
  apply Reach.mem_false in H. apply Reach.mem_false. intros Hc. apply H. apply Hi. exact Hc.
Qed.

Lemma pav_true K x y a : pav K x y a = true <-> ~ In y K.
Proof. unfold pav. rewrite negb_true_iff. apply Reach.mem_false. Qed.

Lemma reach_pav_nil g v u : reach (pav []) g v u <-> reach ptrue g v u.
Proof. split; apply reach_mono; intros; reflexivity. Qed.

Lemma reach_pav_ptrue K g v u : reach (pav K) g v u -> reach ptrue g v u.
Proof. apply reach_mono. intros; reflexivity. Qed.

(** ** the depth-first search invariant *)

(** what a call [merge_rec .. right m] that returns [m'] has done to the
    mapping: [ext] are the entries it added *)
Record dfs_post (h : sodg) (right : nat) (m m' ext : mapping) : Prop := {
  dp_eq : m' = ext ++ m;
  dp_nodup : NoDup (keys ext);
  dp_fresh : forall x, In x (keys ext) -> ~ In x (keys m);
  dp_reach : forall x, In x (keys ext) -> ~ In right (keys m) /\ reach (pav (keys m)) h right x;
  dp_closed : forall u a w, In u (keys ext) -> In (a, w) (edg h u) -> In w (keys m');
  dp_root : In right (keys m');
  dp_lt : forall x, In x (keys ext) -> x < cap_of h
}.

Definition dfs_ok (n : nat) (h : sodg) (f : nat) : Prop :=
  forall s left right m s' m',
    merge_rec f n h s left right m = Ok (s', m') -> exists ext, dfs_post h right m m' ext.

Lemma mgo_dfs n h f left :
  dfs_ok n h f ->
  forall es s m s' m',
    mgo (merge_rec f n h) n left es s m = Ok (s', m') ->
    exists ext,
      m' = ext ++ m
      /\ NoDup (keys ext)
      /\ (forall x, In x (keys ext) -> ~ In x (keys m))
      /\ (forall x, In x (keys ext) ->
            exists a to, In (a, to) es /\ ~ In to (keys m) /\ reach (pav (keys m)) h to x)
      /\ (forall u a w, In u (keys ext) -> In (a, w) (edg h u) -> In w (keys m'))
      /\ (forall a to, In (a, to) es -> In to (keys m'))
      /\ (forall x, In x (keys ext) -> x < cap_of h).
Proof.
  intros HP es. induction es as [|[a to] rest IH]; intros s m s' m' H.
  - cbn [mgo] in H. injection H as <- <-. exists []. cbn [app keys map].
    split; [reflexivity|]. split; [constructor|]. split; [intros x []|]. split; [intros x []|].
    split; [intros ? ? ? []|]. split; [intros ? ? []|intros x []].
  - cbn [mgo] in H.
    apply obind_ok in H as (k & _ & H).
    apply obind_ok in H as (sm & _ & H).
    apply obind_ok in H as ([s1 m1] & Hrec & H). cbn [fst snd] in H.
    destruct (HP _ _ _ _ _ _ Hrec) as (ext1 & [E1 N1 F1 R1 C1 T1 L1]).
    destruct (IH _ _ _ _ H) as (ext2 & E2 & N2 & F2 & R2 & C2 & T2 & L2).
    assert (Hinc : incl (keys m) (keys m1)).
    { subst m1. rewrite keys_app. intros x Hx. apply in_app_iff. right. exact Hx. }
    exists (ext2 ++ ext1). split; [|split; [|split; [|split; [|split; [|split]]]]].
    + subst m' m1. rewrite app_assoc. reflexivity.
    + rewrite keys_app. apply nodup_app; auto.
      intros x Hx2 Hx1. apply (F2 x Hx2). subst m1. rewrite keys_app. apply in_app_iff. left. exact Hx1.
    + intros x Hx. rewrite keys_app in Hx. apply in_app_iff in Hx as [Hx|Hx].
      * intros Hm. apply (F2 x Hx). apply Hinc. exact Hm.
      * apply F1. exact Hx.
    + intros x Hx. rewrite keys_app in Hx. apply in_app_iff in Hx as [Hx|Hx].
      * destruct (R2 x Hx) as (a' & to' & Hi & Hn & Hr).
        exists a', to'. split; [right; exact Hi|]. split.
        -- intros Hm. apply Hn. apply Hinc. exact Hm.
        -- eapply reach_mono; [|exact Hr]. intros x0 y b. apply pav_incl. exact Hinc.
      * destruct (R1 x Hx) as (Hn & Hr). exists a, to. split; [left; reflexivity|]. split; assumption.
    + intros u b w Hu Hi. rewrite keys_app in Hu. apply in_app_iff in Hu as [Hu|Hu].
      * eapply C2; eauto.
      * subst m'. rewrite keys_app. apply in_app_iff. right. eapply C1; eauto.
    + intros b w [Hi|Hi].
      * injection Hi as <- <-. subst m'. rewrite keys_app. apply in_app_iff. right. exact T1.
      * eapply T2; eauto.
    + intros x Hx. rewrite keys_app in Hx. apply in_app_iff in Hx as [Hx|Hx]; auto.
Qed.

Lemma merge_rec_dfs n h : forall f, dfs_ok n h f.
Proof.
  induction f as [|f IHf]; intros s left right m s' m' H; [discriminate|].
  rewrite merge_rec_S in H.
  destruct (map_get m right) as [t|] eqn:G.
  - injection H as <- <-. exists []. split; cbn [app keys map].
    + reflexivity.
    + constructor.
    + intros x [].
    + intros x [].
    + intros ? ? ? [].
    + eapply map_get_some_key; eauto.
    + intros x [].
  - apply map_get_none in G.
    apply obind_ok in H as (u1 & Hc1 & H). apply chk_v_ok_inv in Hc1.
    apply obind_ok in H as (s1 & _ & H).
    apply obind_ok in H as (u2 & _ & H).
    apply obind_ok in H as ([s2 m2] & Hgo & H).
    apply obind_ok in H as (u3 & _ & H). injection H as <- <-.
    destruct (mgo_dfs n h f left IHf _ _ _ _ _ Hgo) as (ext & E & N & F & R & C & T & L).
    cbn [keys map fst] in F, R. fold (keys m) in F, R.
    exists (ext ++ [(right, left)]). split.
    + subst m2. rewrite <- app_assoc. reflexivity.
    + rewrite keys_app. apply nodup_app; auto.
      * cbn. constructor; [intros []|constructor].
      * intros x Hx [Ex|[]]. subst x. apply (F right Hx). left; reflexivity.
    + intros x Hx. rewrite keys_app in Hx. apply in_app_iff in Hx as [Hx|[<-|[]]]; [|exact G].
      intros Hm. apply (F x Hx). right. exact Hm.
    + intros x Hx. split; [exact G|].
      rewrite keys_app in Hx. apply in_app_iff in Hx as [Hx|[<-|[]]]; [|apply reach_refl].
      destruct (R x Hx) as (a & to & Hi & Hn & Hr).
      assert (Hinc : incl (keys m) (right :: keys m)) by (intros y Hy; right; exact Hy).
      eapply reach_trans.
      * eapply reach_edge; [exact Hi|]. apply pav_true. intros Hm. apply Hn. right. exact Hm.
      * eapply reach_mono; [|exact Hr]. intros x0 y b. apply pav_incl. exact Hinc.
    + intros u a w Hu Hi. rewrite keys_app in Hu. apply in_app_iff in Hu as [Hu|[<-|[]]].
      * eapply C; eauto.
      * eapply T; eauto.
    + subst m2. rewrite keys_app. apply in_app_iff. right. left. reflexivity.
    + intros x Hx. rewrite keys_app in Hx. apply in_app_iff in Hx as [Hx|[<-|[]]]; auto.
Qed.

(** (a), general form: the key set after the call is the key set before it
    plus what can be reached from [right] without passing through a key that
    was already there *)
Theorem merge_rec_keys_gen f n h s left right m s' m' :
  merge_rec f n h s left right m = Ok (s', m') ->
  forall u, In u (keys m') <->
            In u (keys m) \/ (~ In right (keys m) /\ reach (pav (keys m)) h right u).
Proof.
  intros H u. destruct (merge_rec_dfs n h f _ _ _ _ _ _ H) as (ext & [E N F R C T L]).
  split.
  - intros Hu. subst m'. rewrite keys_app in Hu. apply in_app_iff in Hu as [Hu|Hu]; [right|left; exact Hu].
    apply R. exact Hu.
  - intros [Hu|[Hn Hr]].
    + subst m'. rewrite keys_app. apply in_app_iff. right. exact Hu.
    + assert (Q : In u (keys ext)).
      { apply (reach_in_closed_set (pav (keys m)) h right (fun x => In x (keys ext))); auto.
        - subst m'. rewrite keys_app in T. apply in_app_iff in T as [T|T]; [exact T|contradiction].
        - intros x a w Hx Hi Hp. apply pav_true in Hp.
          pose proof (C x a w Hx Hi) as Hw. subst m'. rewrite keys_app in Hw.
          apply in_app_iff in Hw as [Hw|Hw]; [exact Hw|contradiction]. }
      subst m'. rewrite keys_app. apply in_app_iff. left. exact Q.
Qed.

(** (a), top-level call: the keys are the vertices reachable from [right] *)
Theorem merge_rec_keys f n h s left right s' m' :
  merge_rec f n h s left right [] = Ok (s', m') ->
  forall u, In u (keys m') <-> reach ptrue h right u.
Proof.
  intros H u. rewrite (merge_rec_keys_gen _ _ _ _ _ _ _ _ _ H u). cbn [keys map].
  rewrite reach_pav_nil. split; [intros [[]|[_ Hr]]; exact Hr|]. intros Hr. right. split; [intros []|exact Hr].
Qed.

Lemma merge_rec_keys_nodup f n h s left right s' m' :
  merge_rec f n h s left right [] = Ok (s', m') -> NoDup (keys m').
Proof.
  intros H. destruct (merge_rec_dfs n h f _ _ _ _ _ _ H) as (ext & [E N F R C T L]).
  subst m'. rewrite app_nil_r. exact N.
Qed.

Lemma merge_rec_keys_lt f n h s left right s' m' :
  merge_rec f n h s left right [] = Ok (s', m') -> forall u, In u (keys m') -> u < cap_of h.
Proof.
  intros H. destruct (merge_rec_dfs n h f _ _ _ _ _ _ H) as (ext & [E N F R C T L]).
  subst m'. rewrite app_nil_r. exact L.
Qed.

(** ** (d) the fuel *)

Lemma chk_v_fuel g v : chk_v g v <> OutOfFuel.
Proof. unfold chk_v. destruct (_ <? _); discriminate. Qed.

Lemma chk_b_fuel g b : chk_b g b <> OutOfFuel.
Proof. unfold chk_b. destruct (_ && _); discriminate. Qed.

Lemma push_member_fuel g b v : push_member g b v <> OutOfFuel.
Proof.
  unfold push_member. apply obind_fuel; [apply chk_b_fuel|]. intros _ _. destruct (_ <? _); discriminate.
Qed.

Lemma add_store_fuel g b k : add_store g b k <> OutOfFuel.
Proof. unfold add_store. apply obind_fuel; [apply chk_b_fuel|]. discriminate. Qed.

Lemma op_kid_fuel g v a : op_kid g v a <> OutOfFuel.
Proof. unfold op_kid. apply obind_fuel; [apply chk_v_fuel|]. discriminate. Qed.

Lemma op_add_fuel g v : op_add g v <> OutOfFuel.
Proof. unfold op_add. apply obind_fuel; [apply chk_v_fuel|]. intros _ _. destruct (_ =? _); discriminate. Qed.

Lemma op_put_fuel g v d : op_put g v d <> OutOfFuel.
Proof.
  unfold op_put. apply obind_fuel; [apply chk_v_fuel|]. intros _ _.
  destruct (_ && _); [apply add_store_fuel|discriminate].
Qed.

Lemma op_next_id_fuel g : op_next_id g <> OutOfFuel.
Proof. unfold op_next_id. destruct (find _ _); discriminate. Qed.

Lemma op_bind_fuel n g v1 v2 a : op_bind n g v1 v2 a <> OutOfFuel.
Proof.
  unfold op_bind. apply obind_fuel; [apply chk_v_fuel|]. intros _ _.
  apply obind_fuel; [apply chk_v_fuel|]. intros _ _.
  apply obind_fuel.
  { unfold mm_insert. destruct (mm_replace _ _ _); [discriminate|]. destruct (_ <? _); discriminate. }
  intros e' _.
  destruct (tag g v1 =? BRANCH_STATIC).
  - destruct (tag g v2 =? BRANCH_STATIC).
    + destruct (first_empty _); (apply obind_fuel; [apply push_member_fuel|]; intros; apply add_store_fuel).
    + apply obind_fuel; [apply push_member_fuel|]. intros; apply add_store_fuel.
  - destruct (_ =? _); [|discriminate].
    apply obind_fuel; [apply push_member_fuel|]. intros; apply add_store_fuel.
Qed.

Lemma attach_fuel n s left a k mt : attach n s left a k mt <> OutOfFuel.
Proof.
  unfold attach. destruct k; [discriminate|]. destruct mt.
  - apply obind_fuel; [apply op_bind_fuel|]. discriminate.
  - apply obind_fuel; [apply op_next_id_fuel|]. intros r _.
    apply obind_fuel; [apply op_add_fuel|]. intros s1 _.
    apply obind_fuel; [apply op_bind_fuel|]. discriminate.
Qed.

Lemma check_joins_fuel s left m es : check_joins s left m es <> OutOfFuel.
Proof.
  induction es as [|[a to] rest IH]; cbn [check_joins]; [discriminate|].
  apply obind_fuel; [apply op_kid_fuel|]. intros r _.
  destruct r; [|exact IH]. destruct (map_get _ _); [|exact IH].
  destruct (_ =? _); [exact IH|discriminate].
Qed.

Lemma mgo_fuel n h f left :
  (forall s left right m, unseen (cap_of h) (keys m) < f -> merge_rec f n h s left right m <> OutOfFuel) ->
  forall es s m, unseen (cap_of h) (keys m) < f ->
                 mgo (merge_rec f n h) n left es s m <> OutOfFuel.
Proof.
  intros HP es. induction es as [|[a to] rest IH]; intros s m Hm; cbn [mgo]; [discriminate|].
  apply obind_fuel; [apply op_kid_fuel|].
  intros k _. apply obind_fuel; [apply attach_fuel|].
  intros sm _. apply obind_fuel; [apply HP; exact Hm|].
  intros [s1 m1] Hrec. cbn [fst snd]. apply IH.
  destruct (merge_rec_dfs n h f _ _ _ _ _ _ Hrec) as (ext & [E N F R C T L]).
  eapply Nat.le_lt_trans; [|exact Hm]. apply unseen_le. subst m1. rewrite keys_app.
  intros x Hx. apply in_app_iff. right. exact Hx.
Qed.

Lemma merge_rec_fuel n h : forall f s left right m,
  unseen (cap_of h) (keys m) < f -> merge_rec f n h s left right m <> OutOfFuel.
Proof.
  induction f as [|f IHf]; intros s left right m Hm; [lia|].
  rewrite merge_rec_S. destruct (map_get m right) eqn:G; [discriminate|].
  apply map_get_none in G.
  apply obind_fuel; [apply chk_v_fuel|].
  intros u1 Hc. apply chk_v_ok_inv in Hc.
  apply obind_fuel.
  { destruct (has_data h right); [apply op_put_fuel|discriminate]. }
  intros s1 _. apply obind_fuel; [apply chk_v_fuel|].
  intros u2 _. apply obind_fuel.
  { apply mgo_fuel; [exact IHf|]. cbn [keys map fst]. fold (keys m).
    assert (unseen (cap_of h) (right :: keys m) < unseen (cap_of h) (keys m)).
    { apply unseen_lt with (y := right); auto.
      - intros x Hx; right; exact Hx.
      - left; reflexivity. }
    lia. }
  intros r _. apply obind_fuel; [apply check_joins_fuel|discriminate].
Qed.

(** ** the mapping exposed, and [op_merge] as its projection *)

Definition op_merge_mapped (n : nat) (s g : sodg) (left right : nat) : outcome (sodg * mapping) :=
  merge_rec (cap_of g + 2) n g s left right [].

(** the verdict of [merge] computed from the final mapping *)
Definition verdict (g : sodg) (m : mapping) : option (list nat) :=
  let seen := dedup_keys m in
  if length seen =? length (op_keys g) then None
  else Some (filter (fun v => negb (mem v seen)) (op_keys g)).

Lemma op_merge_projection n s g left right :
  op_merge n s g left right =
  (r <- op_merge_mapped n s g left right ;; Ok (fst r, verdict g (snd r))).
Proof.
  unfold op_merge, op_merge_mapped, verdict.
  destruct (merge_rec _ _ _ _ _ _ _) as [[s' m']| | |]; cbn [obind fst snd]; try reflexivity.
  destruct (_ =? _); reflexivity.
Qed.

Lemma op_merge_inv n s g left right s' r :
  op_merge n s g left right = Ok (s', r) ->
  exists m', op_merge_mapped n s g left right = Ok (s', m') /\ r = verdict g m'.
Proof.
  rewrite op_merge_projection. intros H. apply obind_ok in H as ([s1 m1] & E & H).
  cbn [fst snd] in H. injection H as <- <-. eauto.
Qed.

Theorem op_merge_fuel n s h left right : op_merge n s h left right <> OutOfFuel.
Proof.
  rewrite op_merge_projection. apply obind_fuel; [|discriminate].
  unfold op_merge_mapped. apply merge_rec_fuel. cbn [keys map]. rewrite unseen_nil. lia.
Qed.

Theorem op_merge_mapped_fuel n s h left right : op_merge_mapped n s h left right <> OutOfFuel.
Proof. unfold op_merge_mapped. apply merge_rec_fuel. cbn [keys map]. rewrite unseen_nil. lia. Qed.

(** ** [dedup_keys] *)

Lemma dedup_keys_in m x : In x (dedup_keys m) <-> In x (keys m).
Proof.
  unfold keys. induction m as [|[k v] t IH]; cbn [dedup_keys map fst In]; [tauto|].
  destruct (mem k (dedup_keys t)) eqn:M.
  - apply Reach.mem_In in M. rewrite IH. split; [tauto|]. intros [E|H]; [subst; apply IH; exact M|exact H].
  - cbn [In]. rewrite IH. tauto.
Qed.

Lemma dedup_keys_nodup m : NoDup (dedup_keys m).
Proof.
  induction m as [|[k v] t IH]; cbn [dedup_keys]; [constructor|].
  destruct (mem k (dedup_keys t)) eqn:M; [exact IH|].
  apply Reach.mem_false in M. constructor; assumption.
Qed.

(** ** the verdict of [merge] *)

(** the right graph as [merge] expects to be able to walk it: [right] is a
    slot, everything reachable from it is present and points to slots *)
Definition hclosed (h : sodg) (right : nat) : Prop :=
  right < cap_of h /\
  forall u, reach ptrue h right u ->
            tag h u <> 0 /\ forall a w, In (a, w) (edg h u) -> w < cap_of h.

Lemma hclosed_unfold h right :
  hclosed h right <->
  right < cap_of h /\
  forall u, reach ptrue h right u ->
            tag h u <> 0 /\ forall a w, In (a, w) (edg h u) -> w < cap_of h.
Proof. unfold hclosed. tauto. Qed.

Lemma seen_incl_must h right m :
  hclosed h right -> (forall u, In u (keys m) <-> reach ptrue h right u) ->
  incl (dedup_keys m) (op_keys h).
Proof.
  intros [_ Hc] Hk x Hx. apply dedup_keys_in in Hx. apply Hk in Hx.
  apply in_op_keys. destruct (Hc x Hx) as [Ht _]. split; [apply tag_nonzero_lt; exact Ht|exact Ht].
Qed.

Lemma verdict_none h right m :
  hclosed h right -> (forall u, In u (keys m) <-> reach ptrue h right u) ->
  verdict h m = None ->
  forall v, tag h v <> 0 -> v < cap_of h -> reach ptrue h right v.
Proof.
  intros Hc Hk Hv v Ht Hl. unfold verdict in Hv.
  destruct (Nat.eqb_spec (length (dedup_keys m)) (length (op_keys h))) as [E|E]; [|discriminate].
  assert (Hi : incl (op_keys h) (dedup_keys m)).
  { apply NoDup_length_incl.
    - apply dedup_keys_nodup.
    - lia.
    - eapply seen_incl_must; eauto. }
  apply Hk. apply dedup_keys_in. apply Hi. apply in_op_keys. split; assumption.
Qed.

Lemma verdict_some_spec h m missed :
  verdict h m = Some missed ->
  (forall v, In v missed <-> (v < cap_of h /\ tag h v <> 0 /\ ~ In v (keys m)))
  /\ StronglySorted lt missed.
Proof.
  unfold verdict. destruct (_ =? _); [discriminate|]. intros H; injection H as <-. split.
  - intros v. rewrite filter_In, in_op_keys, negb_true_iff, Reach.mem_false, dedup_keys_in. tauto.
  - apply ExportFacts.filter_ssorted. apply ExportFacts.keys_sorted.
Qed.

Lemma verdict_missed h right m v :
  hclosed h right -> (forall u, In u (keys m) <-> reach ptrue h right u) ->
  v < cap_of h -> tag h v <> 0 -> ~ reach ptrue h right v ->
  exists missed, verdict h m = Some missed.
Proof.
  intros Hc Hk Hl Ht Hn. unfold verdict.
  destruct (Nat.eqb_spec (length (dedup_keys m)) (length (op_keys h))) as [E|E]; [|eauto].
  exfalso. apply Hn. eapply verdict_none; eauto. unfold verdict. rewrite E, Nat.eqb_refl. reflexivity.
Qed.

Lemma verdict_all h right m :
  hclosed h right -> (forall u, In u (keys m) <-> reach ptrue h right u) ->
  (forall v, v < cap_of h -> tag h v <> 0 -> reach ptrue h right v) ->
  verdict h m = None.
Proof.
  intros Hc Hk Ha. unfold verdict.
  assert (E : length (dedup_keys m) = length (op_keys h)).
  { apply Nat.le_antisymm; apply NoDup_incl_length.
    - apply dedup_keys_nodup.
    - eapply seen_incl_must; eauto.
    - apply op_keys_nodup.
    - intros x Hx. apply in_op_keys in Hx as [H1 H2]. apply dedup_keys_in. apply Hk. apply Ha; assumption. }
  rewrite E, Nat.eqb_refl. reflexivity.
Qed.

(** (b) *)
Theorem merge_ok_complete n s h left right s' :
  hclosed h right -> op_merge n s h left right = Ok (s', None) ->
  forall v, tag h v <> 0 -> v < cap_of h -> reach ptrue h right v.
Proof.
  intros Hc H. apply op_merge_inv in H as (m' & Hm & Hv).
  eapply verdict_none; eauto. eapply merge_rec_keys; eauto.
Qed.

Theorem merge_ok_mapped n s h left right s' :
  hclosed h right -> op_merge n s h left right = Ok (s', None) ->
  exists m', op_merge_mapped n s h left right = Ok (s', m')
             /\ forall v, tag h v <> 0 -> map_get m' v <> None.
Proof.
  intros Hc H. pose proof (merge_ok_complete _ _ _ _ _ _ Hc H) as Hall.
  apply op_merge_inv in H as (m' & Hm & Hv). exists m'. split; [exact Hm|].
  intros v Ht Hn. apply map_get_none in Hn. apply Hn.
  apply (merge_rec_keys _ _ _ _ _ _ _ _ Hm). apply Hall; [exact Ht|apply tag_nonzero_lt; exact Ht].
Qed.

(** (c) *)
Theorem merge_err_names_missed n s h left right s' r :
  hclosed h right -> op_merge n s h left right = Ok (s', r) ->
  (exists v, v < cap_of h /\ tag h v <> 0 /\ ~ reach ptrue h right v) ->
  exists missed,
    r = Some missed
    /\ (forall v, In v missed <-> (v < cap_of h /\ tag h v <> 0 /\ ~ reach ptrue h right v))
    /\ StronglySorted lt missed.
Proof.
  intros Hc H (v & Hl & Ht & Hn). apply op_merge_inv in H as (m' & Hm & Hv).
  pose proof (merge_rec_keys _ _ _ _ _ _ _ _ Hm) as Hk.
  destruct (verdict_missed h right m' v Hc Hk Hl Ht Hn) as (missed & E).
  exists missed. split; [congruence|].
  destruct (verdict_some_spec h m' missed E) as [A B]. split; [|exact B].
  intros x. rewrite A, Hk. tauto.
Qed.

Theorem merge_all_reached_ok n s h left right s' r :
  hclosed h right -> op_merge n s h left right = Ok (s', r) ->
  (forall v, v < cap_of h -> tag h v <> 0 -> reach ptrue h right v) ->
  r = None.
Proof.
  intros Hc H Ha. apply op_merge_inv in H as (m' & Hm & Hv). subst r.
  eapply verdict_all; eauto. eapply merge_rec_keys; eauto.
Qed.

(** ** merge is a sequence of primitive calls *)

Definition prim_op (o : op) : Prop :=
  match o with
  | OAdd _ | OBind _ _ _ | OPut _ _ | ONext => True
  | _ => False
  end.

(** [s'] is obtained from [s] by calls of [add]/[bind]/[put]/[next_id] only *)
Definition calls (n : nat) (s s' : sodg) : Prop :=
  exists ops rs, Forall prim_op ops /\ run n s ops = Ok (s', rs).

Lemma run_app n : forall o1 s s1 r1 o2 s2 r2,
  run n s o1 = Ok (s1, r1) -> run n s1 o2 = Ok (s2, r2) -> run n s (o1 ++ o2) = Ok (s2, r1 ++ r2).
Proof.
  induction o1 as [|o t IH]; intros s s1 r1 o2 s2 r2 H1 H2; cbn [run app] in *.
  - injection H1 as <- <-. exact H2.
  - apply obind_ok in H1 as ([sa ra] & Ha & H1). cbn [fst snd] in H1.
    apply obind_ok in H1 as ([sb rb] & Hb & H1). cbn [fst snd] in H1. injection H1 as <- <-.
    rewrite Ha. cbn [obind fst snd]. rewrite (IH _ _ _ _ _ _ Hb H2). reflexivity.
Qed.

Lemma calls_refl n s : calls n s s.
Proof. exists [], []. split; [constructor|reflexivity]. Qed.

Lemma calls_trans n a b c : calls n a b -> calls n b c -> calls n a c.
Proof.
  intros (o1 & r1 & F1 & R1) (o2 & r2 & F2 & R2). exists (o1 ++ o2), (r1 ++ r2). split.
  - apply Forall_app. split; assumption.
  - eapply run_app; eauto.
Qed.

Lemma calls_one n s o s' r : prim_op o -> step n s o = Ok (s', r) -> calls n s s'.
Proof.
  intros P H. exists [o], [r]. split; [constructor; [exact P|constructor]|].
  cbn [run]. rewrite H. reflexivity.
Qed.

Lemma calls_put n s v d s' : op_put s v d = Ok s' -> calls n s s'.
Proof. intros H. apply (calls_one n s (OPut v d) s' RUnit I). cbn [step]. rewrite H. reflexivity. Qed.

Lemma calls_bind n s v1 v2 a s' : op_bind n s v1 v2 a = Ok s' -> calls n s s'.
Proof. intros H. apply (calls_one n s (OBind v1 v2 a) s' RUnit I). cbn [step]. rewrite H. reflexivity. Qed.

Lemma calls_add n s v s' : op_add s v = Ok s' -> calls n s s'.
Proof. intros H. apply (calls_one n s (OAdd v) s' RUnit I). cbn [step]. rewrite H. reflexivity. Qed.

Lemma calls_next n s s' id : op_next_id s = Ok (s', id) -> calls n s s'.
Proof. intros H. apply (calls_one n s ONext s' (RId id) I). cbn [step]. rewrite H. reflexivity. Qed.

Lemma attach_calls n s left a k mt s' t : attach n s left a k mt = Ok (s', t) -> calls n s s'.
Proof.
  unfold attach. destruct k as [x|].
  - intros H; injection H as <- <-. apply calls_refl.
  - destruct mt as [x|].
    + intros H. apply obind_ok in H as (s1 & Hb & H). injection H as <- <-. eapply calls_bind; eauto.
    + intros H. apply obind_ok in H as ([s1 id] & Hn & H). cbn [fst snd] in H.
      apply obind_ok in H as (s2 & Ha & H). apply obind_ok in H as (s3 & Hb & H). injection H as <- <-.
      eapply calls_trans; [eapply calls_next; eauto|].
      eapply calls_trans; [eapply calls_add; eauto|]. eapply calls_bind; eauto.
Qed.

Theorem merge_rec_calls n h : forall f s left right m s' m',
  merge_rec f n h s left right m = Ok (s', m') -> calls n s s'.
Proof.
  induction f as [|f IHf]; intros s left right m s' m' H; [discriminate|].
  rewrite merge_rec_S in H. destruct (map_get m right).
  - injection H as <- <-. apply calls_refl.
  - apply obind_ok in H as (u1 & _ & H).
    apply obind_ok in H as (s1 & Hput & H).
    apply obind_ok in H as (u2 & _ & H).
    apply obind_ok in H as ([s2 m2] & Hgo & H).
    apply obind_ok in H as (u3 & _ & H). injection H as <- <-.
    eapply calls_trans.
    + destruct (has_data h right); [eapply calls_put; eauto|]. injection Hput as <-. apply calls_refl.
    + clear Hput. revert s1 s2 m2 Hgo. generalize ((right, left) :: m). generalize (edg h right).
      intros es. induction es as [|[a to] rest IH]; intros m0 s1 s2 m2 Hgo; cbn [mgo] in Hgo.
      * injection Hgo as <- <-. apply calls_refl.
      * apply obind_ok in Hgo as (k & _ & Hgo).
        apply obind_ok in Hgo as ([sa t] & Hat & Hgo). cbn [fst snd] in Hgo.
        apply obind_ok in Hgo as ([sb mb] & Hrec & Hgo). cbn [fst snd] in Hgo.
        eapply calls_trans; [eapply attach_calls; eauto|].
        eapply calls_trans; [eapply IHf; eauto|]. eapply IH; eauto.
Qed.

Theorem op_merge_calls n s h left right s' r :
  op_merge n s h left right = Ok (s', r) -> calls n s s'.
Proof.
  intros H. apply op_merge_inv in H as (m' & Hm & _). eapply merge_rec_calls; eauto.
Qed.

(** ** a computable sufficient condition for [hclosed]: [right] is present and
    every edge of a present vertex points to a present vertex *)

Definition hclosedb (h : sodg) (right : nat) : bool :=
  negb (tag h right =? 0)
  && forallb (fun u => (tag h u =? 0)
                       || forallb (fun e : label * nat => negb (tag h (snd e) =? 0)) (edg h u))
             (iota (cap_of h)).

Lemma hclosedb_hclosed h right : hclosedb h right = true -> hclosed h right.
Proof.
  unfold hclosedb. intros H. apply andb_true_iff in H as [H1 H2].
  apply negb_true_iff, Nat.eqb_neq in H1. rewrite forallb_forall in H2.
  assert (P : forall u, reach ptrue h right u -> tag h u <> 0).
  { apply (reach_in_closed_set ptrue h right (fun u => tag h u <> 0)); [exact H1|].
    intros u a w Hu Hi _.
    assert (Hin : In u (iota (cap_of h))).
    { unfold iota. apply in_seq. pose proof (tag_nonzero_lt h u Hu). lia. }
    specialize (H2 u Hin). apply orb_true_iff in H2 as [H2|H2].
    - apply Nat.eqb_eq in H2. contradiction.
    - rewrite forallb_forall in H2. specialize (H2 (a, w) Hi). cbn [snd] in H2.
      apply negb_true_iff, Nat.eqb_neq in H2. exact H2. }
  split; [apply tag_nonzero_lt; exact H1|].
  intros u Hu. split; [apply P; exact Hu|].
  intros a w Hi. apply tag_nonzero_lt. apply P. eapply reach_step; eauto.
Qed.

(** build a graph by a list of calls (for the examples) *)
Definition build (n cap : nat) (ops : list op) : sodg :=
  match run n (op_empty cap) ops with Ok (g, _) => g | _ => op_empty 0 end.
