(** * ExportFacts: lemmas behind property C18 ([to_xml] / [to_dot]).

    Contents
    - [label_compare] is a total order, [label_leb] a total preorder that is
      antisymmetric;
    - [sort_edges] (Esort.v) returns a sorted permutation of its argument; a
      sorted list whose keys are pairwise distinct is determined by its set
      of elements;
    - [op_keys] is the ascending list of the present ids below the capacity;
    - [export_doc] has one node per key, with the sorted edges and the data;
    - the renderers look at the data only through [hex_print], which looks
      at a [hex] only through [bytes]; hence the canonical-form theorem. *)

From Sodg Require Import Base Text Hex Label Sodg Esort Print Export Facts.
From Coq Require Import Permutation Sorting.

Arguments N.add : simpl never.
Arguments N.mul : simpl never.
Arguments N.sub : simpl never.
Arguments N.div : simpl never.
Arguments N.modulo : simpl never.

(** ** [label_compare] is a total order *)

Lemma lex_compare_refl a : lex_compare a a = Eq.
Proof.
  induction a as [|x s IH]; simpl; auto.
  rewrite N.compare_refl. exact IH.
Qed.

Lemma lex_compare_eq a : forall b, lex_compare a b = Eq -> a = b.
Proof.
  induction a as [|x s IH]; intros [|y t]; simpl; intros H; try discriminate; auto.
  destruct (N.compare_spec x y) as [E|L|G]; try discriminate.
  subst y. f_equal. apply IH. exact H.
Qed.

Lemma lex_compare_antisym a : forall b, lex_compare a b = CompOpp (lex_compare b a).
Proof.
  induction a as [|x s IH]; intros [|y t]; simpl; auto.
  rewrite (N.compare_antisym y x). destruct (y ?= x)%N; simpl; auto.
Qed.

Lemma lex_compare_lt_trans a :
  forall b d, lex_compare a b = Lt -> lex_compare b d = Lt -> lex_compare a d = Lt.
Proof.
  induction a as [|x s IH]; intros [|y t] [|z u]; simpl; intros H1 H2; try discriminate; auto.
  destruct (N.compare_spec x y) as [Exy|Lxy|Gxy]; try discriminate.
  - subst y. destruct (x ?= z)%N; try discriminate; auto. eapply IH; eauto.
  - destruct (N.compare_spec y z) as [Eyz|Lyz|Gyz]; try discriminate.
    + subst z. assert (Hxy : (x ?= y)%N = Lt) by (apply N.compare_lt_iff; exact Lxy).
      rewrite Hxy. reflexivity.
    + assert (Hxz : (x ?= z)%N = Lt) by (apply N.compare_lt_iff; lia).
      rewrite Hxz. reflexivity.
Qed.

Lemma label_compare_refl a : label_compare a a = Eq.
Proof.
  destruct a as [c|n|cs]; simpl;
    [apply N.compare_refl | apply N.compare_refl | apply lex_compare_refl].
Qed.

Lemma label_compare_eq a b : label_compare a b = Eq -> a = b.
Proof.
  destruct a as [x|x|x], b as [y|y|y]; simpl; intros H; try discriminate; f_equal.
  - apply N.compare_eq; exact H.
  - apply N.compare_eq; exact H.
  - apply lex_compare_eq; exact H.
Qed.

Lemma label_compare_eq_iff a b : label_compare a b = Eq <-> a = b.
Proof.
  split; [apply label_compare_eq|]. intros ->. apply label_compare_refl.
Qed.

Lemma label_compare_antisym a b : label_compare a b = CompOpp (label_compare b a).
Proof.
  destruct a as [x|x|x], b as [y|y|y]; simpl; auto.
  - apply N.compare_antisym.
  - apply N.compare_antisym.
  - apply lex_compare_antisym.
Qed.

Lemma label_compare_lt_trans a b c :
  label_compare a b = Lt -> label_compare b c = Lt -> label_compare a c = Lt.
Proof.
  destruct a as [x|x|x], b as [y|y|y], c as [z|z|z]; simpl; intros H1 H2;
    try discriminate; auto.
  - exact (N.lt_trans _ _ _ H1 H2).
  - exact (N.lt_trans _ _ _ H1 H2).
  - eapply lex_compare_lt_trans; eauto.
Qed.

Lemma label_compare_gt_lt a b : label_compare a b = Gt <-> label_compare b a = Lt.
Proof.
  rewrite (label_compare_antisym a b).
  destruct (label_compare b a); simpl; split; intros H; try discriminate; reflexivity.
Qed.

Lemma label_compare_trans c a b d :
  label_compare a b = c -> label_compare b d = c -> label_compare a d = c.
Proof.
  destruct c; intros H1 H2.
  - apply label_compare_eq in H1, H2. subst. apply label_compare_refl.
  - eapply label_compare_lt_trans; eauto.
  - apply label_compare_gt_lt in H1, H2. apply label_compare_gt_lt.
    eapply label_compare_lt_trans; eauto.
Qed.

(** [label_eqb] (derived [Eq]) and [label_compare] (derived [Ord]) agree *)
Lemma label_compare_eqb a b : label_eqb a b = true <-> label_compare a b = Eq.
Proof. rewrite label_eqb_spec, label_compare_eq_iff. tauto. Qed.

Lemma label_leb_refl a : label_leb a a = true.
Proof. unfold label_leb. rewrite label_compare_refl. reflexivity. Qed.

Lemma label_leb_total a b : label_leb a b = false -> label_leb b a = true.
Proof.
  unfold label_leb. rewrite (label_compare_antisym b a).
  destruct (label_compare a b); simpl; intros H; try discriminate H; reflexivity.
Qed.

Lemma label_leb_antisym a b : label_leb a b = true -> label_leb b a = true -> a = b.
Proof.
  unfold label_leb. rewrite (label_compare_antisym b a).
  destruct (label_compare a b) eqn:E; simpl; intros H1 H2; try discriminate.
  apply label_compare_eq. exact E.
Qed.

Lemma label_leb_trans a b c :
  label_leb a b = true -> label_leb b c = true -> label_leb a c = true.
Proof.
  unfold label_leb.
  destruct (label_compare a b) eqn:E1; intros H1; try discriminate H1;
    destruct (label_compare b c) eqn:E2; intros H2; try discriminate H2.
  - apply label_compare_eq in E1, E2. subst. rewrite label_compare_refl. reflexivity.
  - apply label_compare_eq in E1. subst. rewrite E2. reflexivity.
  - apply label_compare_eq in E2. subst. rewrite E1. reflexivity.
  - rewrite (label_compare_lt_trans _ _ _ E1 E2). reflexivity.
Qed.

(** ** insertion sort: a sorted permutation; sorted lists with distinct keys
    are canonical *)

(** the order of edge entries: by label *)
Definition eleb (a b : label * nat) : Prop := label_leb (fst a) (fst b) = true.

Lemma Forall_perm {A} (P : A -> Prop) l l' :
  Permutation l l' -> Forall P l -> Forall P l'.
Proof.
  intros Hp HF. apply Forall_forall. intros x Hx. rewrite Forall_forall in HF.
  apply HF. eapply Permutation_in; [apply Permutation_sym; exact Hp | exact Hx].
Qed.

Lemma ins_edge_perm x l : Permutation (ins_edge x l) (x :: l).
Proof.
  induction l as [|y t IH]; simpl; auto.
  destruct (label_leb (fst y) (fst x)).
  - eapply perm_trans; [apply perm_skip; exact IH | apply perm_swap].
  - apply Permutation_refl.
Qed.

Lemma sort_edges_perm l : Permutation (sort_edges l) l.
Proof.
  induction l as [|x t IH]; simpl; auto.
  eapply perm_trans; [apply ins_edge_perm | apply perm_skip; exact IH].
Qed.

Lemma ins_edge_sorted x l : StronglySorted eleb l -> StronglySorted eleb (ins_edge x l).
Proof.
  induction l as [|y t IH]; simpl; intros Hs.
  - constructor; constructor.
  - apply StronglySorted_inv in Hs as [Hs Hf].
    destruct (label_leb (fst y) (fst x)) eqn:E.
    + constructor; [apply IH; exact Hs|].
      eapply Forall_perm; [apply Permutation_sym, ins_edge_perm|].
      constructor; [exact E | exact Hf].
    + assert (Hxy : eleb x y) by (apply label_leb_total; exact E).
      constructor; [constructor; assumption|].
      constructor; [exact Hxy|].
      eapply Forall_impl; [|exact Hf]. intros z Hz. unfold eleb in *.
      eapply label_leb_trans; eauto.
Qed.

Lemma sort_edges_sorted l : StronglySorted eleb (sort_edges l).
Proof.
  induction l as [|x t IH]; simpl; [constructor|]. apply ins_edge_sorted. exact IH.
Qed.

Lemma sorted_perm_unique l1 :
  forall l2,
    StronglySorted eleb l1 -> StronglySorted eleb l2 ->
    NoDup (map fst l1) -> Permutation l1 l2 -> l1 = l2.
Proof.
  induction l1 as [|a t1 IH]; intros l2 S1 S2 ND P.
  - symmetry. apply Permutation_nil. exact P.
  - destruct l2 as [|b t2]; [apply Permutation_sym, Permutation_nil in P; discriminate|].
    apply StronglySorted_inv in S1 as [S1 F1]. apply StronglySorted_inv in S2 as [S2 F2].
    simpl in ND. inversion ND as [|k ks Hnin ND']; subst.
    assert (Hab : a = b).
    { assert (Ha : In a (b :: t2)) by (eapply Permutation_in; [exact P | left; reflexivity]).
      destruct Ha as [Ha|Ha]; [symmetry; exact Ha|].
      assert (Hb : In b (a :: t1))
        by (eapply Permutation_in; [apply Permutation_sym; exact P | left; reflexivity]).
      destruct Hb as [Hb|Hb]; [exact Hb|].
      exfalso. apply Hnin.
      rewrite Forall_forall in F1, F2.
      assert (Hk : fst a = fst b)
        by (apply label_leb_antisym; [apply F1; exact Hb | apply F2; exact Ha]).
      rewrite Hk. apply in_map. exact Hb. }
    subst b. f_equal. apply IH; auto. eapply Permutation_cons_inv. exact P.
Qed.

Lemma sort_edges_canonical e1 e2 :
  NoDup (map fst e1) -> Permutation e1 e2 -> sort_edges e1 = sort_edges e2.
Proof.
  intros ND P. apply sorted_perm_unique; try apply sort_edges_sorted.
  - eapply Permutation_NoDup; [|exact ND].
    apply Permutation_map, Permutation_sym, sort_edges_perm.
  - eapply perm_trans; [apply sort_edges_perm|].
    eapply perm_trans; [exact P|]. apply Permutation_sym, sort_edges_perm.
Qed.

(** sorting a list that is sorted already, keys distinct, changes nothing *)
Lemma sort_edges_id e :
  StronglySorted eleb e -> NoDup (map fst e) -> sort_edges e = e.
Proof.
  intros S ND. symmetry. apply sorted_perm_unique; auto.
  - apply sort_edges_sorted.
  - apply Permutation_sym, sort_edges_perm.
Qed.

(** ** [op_keys] *)

Lemma keys_spec g v : In v (op_keys g) <-> v < cap_of g /\ tag g v <> 0.
Proof.
  unfold op_keys, iota. rewrite filter_In, in_seq, negb_true_iff, Nat.eqb_neq.
  split; intros [H1 H2]; split; auto; lia.
Qed.

Lemma seq_ssorted n : forall a, StronglySorted lt (seq a n).
Proof.
  induction n as [|n IH]; intros a; simpl; constructor; auto.
  apply Forall_forall. intros x Hx. apply in_seq in Hx. lia.
Qed.

Lemma filter_ssorted {A} (R : A -> A -> Prop) f l :
  StronglySorted R l -> StronglySorted R (filter f l).
Proof.
  induction l as [|a t IH]; intros Hs; simpl; [constructor|].
  apply StronglySorted_inv in Hs as [Hs Hf].
  destruct (f a); auto. constructor; auto.
  apply Forall_forall. intros x Hx. apply filter_In in Hx as [Hx _].
  rewrite Forall_forall in Hf. apply Hf. exact Hx.
Qed.

Lemma keys_sorted g : StronglySorted lt (op_keys g).
Proof. unfold op_keys, iota. apply filter_ssorted, seq_ssorted. Qed.

Lemma ssorted_lt_nodup l : StronglySorted lt l -> NoDup l.
Proof.
  induction l as [|a t IH]; intros Hs; constructor;
    apply StronglySorted_inv in Hs as [Hs Hf]; auto.
  intros Hin. rewrite Forall_forall in Hf. specialize (Hf _ Hin). lia.
Qed.

Lemma keys_nodup g : NoDup (op_keys g).
Proof. apply ssorted_lt_nodup, keys_sorted. Qed.

(** ** the document *)

(** the node of vertex [v] *)
Definition node_of (g : sodg) (v : nat) : xnode :=
  mkX v (sort_edges (edg g v)) (if has_data g v then Some (dat g v) else None).

Lemma export_doc_nodes g : export_doc g = map (node_of g) (op_keys g).
Proof. reflexivity. Qed.

Lemma export_ids g : map x_id (export_doc g) = op_keys g.
Proof. unfold export_doc. rewrite map_map. cbn [x_id]. apply map_id. Qed.

Lemma export_node_of_key g v : In v (op_keys g) -> In (node_of g v) (export_doc g).
Proof. intros H. rewrite export_doc_nodes. apply in_map. exact H. Qed.

Lemma export_node_content g x :
  In x (export_doc g) ->
  Permutation (x_edges x) (edg g (x_id x)) /\
  StronglySorted (fun a b => label_leb (fst a) (fst b) = true) (x_edges x) /\
  x_data x = (if has_data g (x_id x) then Some (dat g (x_id x)) else None).
Proof.
  unfold export_doc. intros H. apply in_map_iff in H as (v & <- & Hv).
  cbn [x_id x_edges x_data]. repeat split.
  - apply sort_edges_perm.
  - apply sort_edges_sorted.
Qed.

Lemma export_node_is_node_of g x : In x (export_doc g) -> x = node_of g (x_id x).
Proof.
  unfold export_doc. intros H. apply in_map_iff in H as (v & <- & Hv). reflexivity.
Qed.

Lemma export_absent g v : tag g v = 0 -> ~ In v (map x_id (export_doc g)).
Proof. rewrite export_ids, keys_spec. intros H [_ H']. contradiction. Qed.

Lemma export_out_of_range g v : cap_of g <= v -> ~ In v (map x_id (export_doc g)).
Proof. rewrite export_ids, keys_spec. intros H [H' _]. lia. Qed.

(** the edge entries of a node carry exactly the edges of the vertex *)
Lemma export_edge_entries g x a w :
  In x (export_doc g) -> (In (a, w) (x_edges x) <-> In (a, w) (edg g (x_id x))).
Proof.
  intros H. destruct (export_node_content g x H) as (P & _ & _).
  split; intros Hin.
  - eapply Permutation_in; [exact P | exact Hin].
  - eapply Permutation_in; [apply Permutation_sym; exact P | exact Hin].
Qed.

Lemma export_edge_count g x :
  In x (export_doc g) -> length (x_edges x) = length (edg g (x_id x)).
Proof.
  intros H. destruct (export_node_content g x H) as (P & _ & _).
  apply Permutation_length. exact P.
Qed.

(** ** the renderers *)

Lemma hex_print_bytes h1 h2 : bytes h1 = bytes h2 -> hex_print h1 = hex_print h2.
Proof. unfold hex_print. intros ->. reflexivity. Qed.

Lemma render_xml_node_cong x y :
  x_id x = x_id y -> x_edges x = x_edges y ->
  option_map hex_print (x_data x) = option_map hex_print (x_data y) ->
  render_xml_node x = render_xml_node y.
Proof.
  destruct x as [i e d], y as [j f c]; cbn [x_id x_edges x_data]. intros Hi He H.
  subst j f. unfold render_xml_node; cbn [x_id x_edges x_data].
  destruct d as [h|], c as [k|]; cbn [option_map] in H; try discriminate H; auto.
  injection H as H. rewrite H. reflexivity.
Qed.

Lemma render_dot_node_cong x y :
  x_id x = x_id y -> x_edges x = x_edges y ->
  option_map hex_print (x_data x) = option_map hex_print (x_data y) ->
  render_dot_node x = render_dot_node y.
Proof.
  destruct x as [i e d], y as [j f c]; cbn [x_id x_edges x_data]. intros Hi He H.
  subst j f. unfold render_dot_node; cbn [x_id x_edges x_data].
  destruct d as [h|], c as [k|]; cbn [option_map] in H; try discriminate H; auto.
  injection H as H. rewrite H. reflexivity.
Qed.

Lemma render_xml_map d1 d2 :
  map render_xml_node d1 = map render_xml_node d2 -> render_xml d1 = render_xml d2.
Proof.
  intros H. unfold render_xml. destruct d1 as [|a r1], d2 as [|b r2].
  - reflexivity.
  - cbn [map] in H. discriminate H.
  - cbn [map] in H. discriminate H.
  - cbv beta iota. rewrite H. reflexivity.
Qed.

Lemma render_dot_map d1 d2 :
  map render_dot_node d1 = map render_dot_node d2 -> render_dot d1 = render_dot d2.
Proof. intros H. unfold render_dot. rewrite H. reflexivity. Qed.

(** ** canonical form *)

Definition same_content (g1 g2 : sodg) : Prop :=
  op_keys g1 = op_keys g2 /\
  forall v, In v (op_keys g1) ->
    Permutation (edg g1 v) (edg g2 v) /\
    has_data g1 v = has_data g2 v /\
    (has_data g1 v = true -> bytes (dat g1 v) = bytes (dat g2 v)).

Lemma same_content_def g1 g2 :
  same_content g1 g2 <->
  op_keys g1 = op_keys g2 /\
  forall v, In v (op_keys g1) ->
    Permutation (edg g1 v) (edg g2 v) /\
    has_data g1 v = has_data g2 v /\
    (has_data g1 v = true -> bytes (dat g1 v) = bytes (dat g2 v)).
Proof. reflexivity. Qed.

Lemma same_content_refl g : same_content g g.
Proof. split; auto. Qed.

Lemma same_content_sym g1 g2 : same_content g1 g2 -> same_content g2 g1.
Proof.
  intros [K C]. split; [auto|]. intros v Hv. rewrite <- K in Hv.
  destruct (C v Hv) as (P & HD & B). repeat split.
  - apply Permutation_sym; exact P.
  - auto.
  - intros H. symmetry. apply B. rewrite HD. exact H.
Qed.

Lemma same_content_trans g1 g2 g3 :
  same_content g1 g2 -> same_content g2 g3 -> same_content g1 g3.
Proof.
  intros [K1 C1] [K2 C2]. split; [congruence|]. intros v Hv.
  destruct (C1 v Hv) as (P1 & HD1 & B1). rewrite K1 in Hv.
  destruct (C2 v Hv) as (P2 & HD2 & B2). repeat split.
  - eapply perm_trans; eauto.
  - congruence.
  - intros H. rewrite B1 by exact H. apply B2. rewrite <- HD1. exact H.
Qed.

(** the content of a node with the representation of the data forgotten *)
Definition xnode_abs (x : xnode) : nat * edges * option (list N) :=
  (x_id x, x_edges x, option_map bytes (x_data x)).

Lemma node_of_same g1 g2 v :
  NoDup (map fst (edg g1 v)) ->
  Permutation (edg g1 v) (edg g2 v) ->
  has_data g1 v = has_data g2 v ->
  (has_data g1 v = true -> bytes (dat g1 v) = bytes (dat g2 v)) ->
  x_edges (node_of g1 v) = x_edges (node_of g2 v) /\
  option_map bytes (x_data (node_of g1 v)) = option_map bytes (x_data (node_of g2 v)) /\
  option_map hex_print (x_data (node_of g1 v)) = option_map hex_print (x_data (node_of g2 v)).
Proof.
  intros ND P HD B. unfold node_of; cbn [x_edges x_data]. split.
  - apply sort_edges_canonical; assumption.
  - rewrite <- HD. destruct (has_data g1 v); cbn [option_map]; auto.
    specialize (B eq_refl). split; [rewrite B; reflexivity|].
    rewrite (hex_print_bytes _ _ B). reflexivity.
Qed.

Theorem export_canonical_doc g1 g2 :
  (forall v, In v (op_keys g1) -> NoDup (map fst (edg g1 v))) ->
  same_content g1 g2 ->
  map xnode_abs (export_doc g1) = map xnode_abs (export_doc g2).
Proof.
  intros ND [K C]. rewrite !export_doc_nodes, <- K, !map_map.
  apply map_ext_in. intros v Hv. destruct (C v Hv) as (P & HD & B).
  destruct (node_of_same g1 g2 v (ND v Hv) P HD B) as (He & Hb & _).
  unfold xnode_abs. rewrite He, Hb. reflexivity.
Qed.

Theorem export_canonical g1 g2 :
  (forall v, In v (op_keys g1) -> NoDup (map fst (edg g1 v))) ->
  same_content g1 g2 ->
  op_to_xml g1 = op_to_xml g2 /\ op_to_dot g1 = op_to_dot g2.
Proof.
  intros ND [K C]. unfold op_to_xml, op_to_dot.
  split; [apply render_xml_map | apply render_dot_map];
    rewrite !export_doc_nodes, <- K, !map_map; apply map_ext_in; intros v Hv;
    destruct (C v Hv) as (P & HD & B);
    destruct (node_of_same g1 g2 v (ND v Hv) P HD B) as (He & _ & Hp).
  - apply render_xml_node_cong; auto.
  - apply render_dot_node_cong; auto.
Qed.

(** conversely the document, data taken up to representation, determines
    the content *)
Lemma map_eq_in {A B} (f g : A -> B) l :
  map f l = map g l -> forall x, In x l -> f x = g x.
Proof.
  induction l as [|a t IH]; simpl; intros H x Hx; [contradiction|].
  injection H as H1 H2. destruct Hx as [<-|Hx]; auto.
Qed.

Theorem export_doc_determines_content g1 g2 :
  map xnode_abs (export_doc g1) = map xnode_abs (export_doc g2) ->
  same_content g1 g2.
Proof.
  intros H.
  assert (K : op_keys g1 = op_keys g2).
  { rewrite <- (export_ids g1), <- (export_ids g2).
    apply (f_equal (map (fun t : nat * edges * option (list N) => fst (fst t)))) in H.
    rewrite !map_map in H. exact H. }
  split; [exact K|]. intros v Hv.
  rewrite !export_doc_nodes, <- K, !map_map in H.
  pose proof (map_eq_in _ _ _ H v Hv) as E. unfold xnode_abs, node_of in E.
  cbn [x_id x_edges x_data] in E. injection E as E1 E2.
  split; [|split].
  - eapply perm_trans; [apply Permutation_sym, sort_edges_perm|].
    rewrite E1. apply sort_edges_perm.
  - destruct (has_data g1 v), (has_data g2 v); cbn [option_map] in E2;
      try discriminate E2; reflexivity.
  - intros T. rewrite T in E2.
    destruct (has_data g2 v); cbn [option_map] in E2; try discriminate E2.
    injection E2 as E2. exact E2.
Qed.

(** ** witnesses for the examples of P_C18.v *)

Definition run (o : outcome sodg) (d : sodg) : sodg :=
  match o with Ok g => g | _ => d end.

Definition lbl_foo : label := LStr [102; 111; 111; 32; 32; 32; 32; 32]%N.

(** capacity 4; vertices added 0, 1, 2; edges of 0 bound alpha1 first, then
    rho; data of 0 in the heap representation *)
Definition ex_a : sodg :=
  let g0 := op_empty 4 in
  let g := run (op_add g0 0) g0 in
  let g := run (op_add g 1) g0 in
  let g := run (op_add g 2) g0 in
  let g := run (op_bind 16 g 0 1 (Alpha 1)) g0 in
  let g := run (op_bind 16 g 0 2 (Greek 961)) g0 in
  let g := run (op_bind 16 g 2 1 lbl_foo) g0 in
  run (op_put g 0 (HVector [202; 254]%N)) g0.

(** capacity 6; vertices added 2, 0, 1; edges of 0 bound rho first, then
    alpha1; data of 0 in the inline representation with non-zero padding *)
Definition ex_b : sodg :=
  let g0 := op_empty 6 in
  let g := run (op_add g0 2) g0 in
  let g := run (op_add g 0) g0 in
  let g := run (op_add g 1) g0 in
  let g := run (op_bind 16 g 2 1 lbl_foo) g0 in
  let g := run (op_put g 0 (HBytes [202; 254; 7; 7; 7; 7; 7; 7]%N 2)) g0 in
  let g := run (op_bind 16 g 0 2 (Greek 961)) g0 in
  run (op_bind 16 g 0 1 (Alpha 1)) g0.

(** vertices 0 and 1 form a group; taking the only datum of the group
    destroys both (their slots keep edges and data, tag 0), vertex 2 stays *)
Definition ex_stale : sodg :=
  let g0 := op_empty 4 in
  let g := run (op_add g0 0) g0 in
  let g := run (op_add g 1) g0 in
  let g := run (op_add g 2) g0 in
  let g := run (op_bind 16 g 0 1 (Alpha 0)) g0 in
  let g := run (op_put g 1 (HVector [222; 173]%N)) g0 in
  match op_data g 1 with Ok (g', _) => g' | _ => g0 end.

(** the same graph without the leftovers *)
Definition ex_fresh : sodg := run (op_add (op_empty 4) 2) (op_empty 4).
