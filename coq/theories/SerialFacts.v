(** * SerialFacts: facts about the byte image of [save()] and the decoder of
    [load()] (Serial.v).

    Part 1: round trip ([psodg] after [encode]) for every state the Rust
            types and the crate's invariants allow ([wf_image_state]): C08.
    Part 2: extension stability of every parser of Serial.v (a run that does
            not end in [DEof] is not changed by appending bytes), from which
            "every proper prefix of a complete image is [DEof]": C09. *)

From Sodg Require Import Serial.
Require Import Lia ZifyBool.

Arguments N.add : simpl never.
Arguments N.mul : simpl never.
Arguments N.sub : simpl never.
Arguments N.div : simpl never.
Arguments N.modulo : simpl never.
Arguments N.pow : simpl never.
Arguments N.of_nat : simpl never.
Arguments N.ltb : simpl never.
Arguments N.leb : simpl never.
Arguments N.eqb : simpl never.
Arguments N.min : simpl never.

(** ** the well-formedness predicate *)

(** a number that the decoder turns into a [nat] *)
Definition wf_num (lim : N) (x : nat) : Prop := (N.of_nat x < lim)%N.

Definition wf_hex_img (lim : N) (h : hex) : Prop :=
  wf_hex h = true /\
  match h with
  | HVector l => (N.of_nat (length l) < two64)%N
  | HBytes _ n => wf_num lim n
  end.

Definition wf_edge_img (lim : N) (e : label * nat) : Prop :=
  wf_label (fst e) = true /\ wf_num lim (snd e).

Definition wf_vertex_img (lim : N) (n_edges : nat) (x : vertex) : Prop :=
  wf_num lim (v_branch x) /\
  wf_hex_img lim (v_data x) /\
  NoDup (map fst (v_edges x)) /\
  length (v_edges x) <= n_edges /\
  Forall (wf_edge_img lim) (v_edges x).

Definition wf_stack_img (lim : N) (m : list nat) : Prop :=
  length m <= 16 /\ Forall (wf_num lim) m.

Definition wf_image_state (lim : N) (n_edges : nat) (g : sodg) : Prop :=
  (lim <= two64)%N /\
  (N.of_nat n_edges < two64)%N /\
  wf_num lim (length (g_stores g)) /\
  wf_num lim (length (g_branches g)) /\
  wf_num lim (length (g_vertices g)) /\
  Forall (wf_num lim) (g_stores g) /\
  Forall (wf_stack_img lim) (g_branches g) /\
  Forall (wf_vertex_img lim n_edges) (g_vertices g).

(** *** boolean version *)

Definition wf_numb (lim : N) (x : nat) : bool := (N.of_nat x <? lim)%N.

Fixpoint nodup_labels (l : list label) : bool :=
  match l with
  | [] => true
  | a :: t => negb (existsb (label_eqb a) t) && nodup_labels t
  end.

Definition wf_hex_imgb (lim : N) (h : hex) : bool :=
  wf_hex h &&
  match h with
  | HVector l => (N.of_nat (length l) <? two64)%N
  | HBytes _ n => wf_numb lim n
  end.

Definition wf_edge_imgb (lim : N) (e : label * nat) : bool :=
  wf_label (fst e) && wf_numb lim (snd e).

Definition wf_vertex_imgb (lim : N) (n_edges : nat) (x : vertex) : bool :=
  wf_numb lim (v_branch x) && wf_hex_imgb lim (v_data x)
  && nodup_labels (map fst (v_edges x))
  && (length (v_edges x) <=? n_edges)
  && forallb (wf_edge_imgb lim) (v_edges x).

Definition wf_stack_imgb (lim : N) (m : list nat) : bool :=
  (length m <=? 16) && forallb (wf_numb lim) m.

Definition wf_image_stateb (lim : N) (n_edges : nat) (g : sodg) : bool :=
  (lim <=? two64)%N && (N.of_nat n_edges <? two64)%N
  && wf_numb lim (length (g_stores g))
  && wf_numb lim (length (g_branches g))
  && wf_numb lim (length (g_vertices g))
  && forallb (wf_numb lim) (g_stores g)
  && forallb (wf_stack_imgb lim) (g_branches g)
  && forallb (wf_vertex_imgb lim n_edges) (g_vertices g).

Lemma wf_numb_spec lim x : wf_numb lim x = true <-> wf_num lim x.
Proof. unfold wf_numb, wf_num. apply N.ltb_lt. Qed.

Lemma forallb_Forall_iff {A} (f : A -> bool) (P : A -> Prop) (l : list A) :
  (forall x, f x = true <-> P x) -> (forallb f l = true <-> Forall P l).
Proof.
  intros H. rewrite forallb_forall, Forall_forall.
  split; intros H1 x Hx; apply H; auto.
Qed.

Lemma nodup_labels_spec l : nodup_labels l = true <-> NoDup l.
Proof.
  induction l as [|a t IH]; simpl.
  - split; auto using NoDup_nil.
  - rewrite andb_true_iff, negb_true_iff, IH. split.
    + intros [H1 H2]. constructor; auto. intros Hin.
      assert (existsb (label_eqb a) t = true) as E; [|congruence].
      apply existsb_exists. exists a. split; auto. apply label_eqb_refl.
    + intros H. inversion H as [|x l' H1 H2]; subst. split; auto.
      destruct (existsb (label_eqb a) t) eqn:E; auto.
      apply existsb_exists in E as (y & Hy & Hay).
      apply label_eqb_spec in Hay; subst. contradiction.
Qed.

Lemma wf_hex_imgb_spec lim h : wf_hex_imgb lim h = true <-> wf_hex_img lim h.
Proof.
  unfold wf_hex_imgb, wf_hex_img. rewrite andb_true_iff.
  destruct h as [l|a n]; [rewrite N.ltb_lt | rewrite wf_numb_spec]; tauto.
Qed.

Lemma wf_edge_imgb_spec lim e : wf_edge_imgb lim e = true <-> wf_edge_img lim e.
Proof.
  unfold wf_edge_imgb, wf_edge_img. rewrite andb_true_iff, wf_numb_spec. tauto.
Qed.

Lemma wf_vertex_imgb_spec lim n x :
  wf_vertex_imgb lim n x = true <-> wf_vertex_img lim n x.
Proof.
  unfold wf_vertex_imgb, wf_vertex_img.
  rewrite !andb_true_iff, wf_numb_spec, wf_hex_imgb_spec, nodup_labels_spec,
    Nat.leb_le, (forallb_Forall_iff _ _ _ (wf_edge_imgb_spec lim)).
  tauto.
Qed.

Lemma wf_stack_imgb_spec lim m : wf_stack_imgb lim m = true <-> wf_stack_img lim m.
Proof.
  unfold wf_stack_imgb, wf_stack_img.
  rewrite andb_true_iff, Nat.leb_le, (forallb_Forall_iff _ _ _ (wf_numb_spec lim)).
  tauto.
Qed.

Lemma wf_image_stateb_spec lim n g :
  wf_image_stateb lim n g = true <-> wf_image_state lim n g.
Proof.
  unfold wf_image_stateb, wf_image_state.
  rewrite !andb_true_iff, N.leb_le, N.ltb_lt, !wf_numb_spec,
    (forallb_Forall_iff _ _ _ (wf_numb_spec lim)),
    (forallb_Forall_iff _ _ _ (wf_stack_imgb_spec lim)),
    (forallb_Forall_iff _ _ _ (wf_vertex_imgb_spec lim n)).
  tauto.
Qed.

(** *** monotonicity in [lim] *)

Lemma wf_num_mono lim lim' x : (lim <= lim')%N -> wf_num lim x -> wf_num lim' x.
Proof. unfold wf_num; lia. Qed.

Lemma wf_image_state_mono lim lim' n g :
  (lim <= lim')%N -> (lim' <= two64)%N ->
  wf_image_state lim n g -> wf_image_state lim' n g.
Proof.
  intros Hl Hl' (H0 & Hn & H1 & H2 & H3 & H4 & H5 & H6).
  pose proof (wf_num_mono lim lim') as M.
  repeat split; eauto.
  - eapply Forall_impl; [|exact H4]. intros a; apply M; auto.
  - eapply Forall_impl; [|exact H5]. intros m [Ha Hb]. split; auto.
    eapply Forall_impl; [|exact Hb]. intros a; apply M; auto.
  - eapply Forall_impl; [|exact H6].
    intros x (Ha & (Hb1 & Hb2) & Hc & Hd & He).
    repeat split; eauto.
    + destruct (v_data x); eauto.
    + eapply Forall_impl; [|exact He]. intros e [He1 He2]. split; eauto.
Qed.

(** ** Part 1: round trip *)

(** *** little-endian integers *)

Lemma le_bytes_S k x :
  le_bytes (S k) x = (x mod 256)%N :: le_bytes k (x / 256)%N.
Proof. reflexivity. Qed.

Lemma le_bytes_length k : forall x, length (le_bytes k x) = k.
Proof.
  induction k as [|k IH]; intros x; [reflexivity|].
  rewrite le_bytes_S. simpl. f_equal. apply IH.
Qed.

Lemma ple_le_bytes k : forall x r,
  (x < 256 ^ N.of_nat k)%N -> ple k (le_bytes k x ++ r) = DOk x r.
Proof.
  induction k as [|k IH]; intros x r H.
  - change (256 ^ N.of_nat 0)%N with 1%N in H.
    cbn [ple le_bytes app]. unfold pret. f_equal. lia.
  - rewrite le_bytes_S. cbn [ple app]. unfold pbind at 1. cbn [pbyte].
    unfold pbind. rewrite IH.
    + unfold pret. f_equal.
      pose proof (N.div_mod x 256). lia.
    + rewrite Nat2N.inj_succ, N.pow_succ_r' in H.
      apply N.div_lt_upper_bound; lia.
Qed.

Lemma pow256_8 : (256 ^ N.of_nat 8)%N = two64.
Proof. reflexivity. Qed.

Lemma pu64_rt x r : (x < two64)%N -> pu64 (enc_u64 x ++ r) = DOk x r.
Proof. intros H. apply ple_le_bytes. rewrite pow256_8. exact H. Qed.

Lemma pu32_rt x r : (x < 4294967296)%N -> pu32 (enc_u32 x ++ r) = DOk x r.
Proof. intros H. apply ple_le_bytes. exact H. Qed.

Lemma psmall_rt lim x r :
  (lim <= two64)%N -> wf_num lim x -> psmall lim (enc_nat x ++ r) = DOk x r.
Proof.
  unfold wf_num. intros Hl Hx. unfold psmall, pbind, enc_nat.
  rewrite pu64_rt by lia.
  destruct (N.ltb_spec (N.of_nat x) lim) as [_|Hge]; [|lia].
  unfold pret. rewrite Nat2N.id. reflexivity.
Qed.

Lemma enc_u64_nonempty x : enc_u64 x <> [].
Proof. unfold enc_u64. rewrite le_bytes_S. discriminate. Qed.

Lemma enc_u32_nonempty x : enc_u32 x <> [].
Proof. unfold enc_u32. rewrite le_bytes_S. discriminate. Qed.

Lemma enc_nat_nonempty x : enc_nat x <> [].
Proof. apply enc_u64_nonempty. Qed.

Lemma app_nonempty_l {A} (a b : list A) : a <> [] -> a ++ b <> [].
Proof. destruct a; simpl; congruence. Qed.

(** *** UTF-8 *)

Local Ltac Zify.zify_post_hook ::= Z.to_euclidean_division_equations.

Ltac char_step :=
  match goal with
  | |- context [if ?b then _ else _] =>
      let E := fresh "E" in destruct b eqn:E; try (exfalso; lia)
  | |- context [pbind pbyte _ (_ :: _)] => unfold pbind at 1; cbn [pbyte]
  end.

(** every scalar value: the four length classes, with the restricted
    second byte after E0, ED (surrogates), F0 and F4 *)
Lemma pchar_utf8 c r : is_scalar c = true -> pchar (utf8_enc c ++ r) = DOk c r.
Proof.
  unfold is_scalar. intros Hs.
  unfold utf8_enc.
  destruct (N.ltb_spec c 128) as [H1|H1];
  [|destruct (N.ltb_spec c 2048) as [H2|H2];
  [|destruct (N.ltb_spec c 65536) as [H3|H3]]];
  cbn [app]; unfold pchar, is_cont; unfold pbind at 1; cbn [pbyte].
  - destruct (N.ltb_spec c 128); [reflexivity|lia].
  - repeat char_step.
    all: unfold pret; f_equal; lia.
  - repeat char_step.
    all: unfold pret; f_equal; lia.
  - repeat char_step.
    all: unfold pret; f_equal; lia.
Qed.

Lemma utf8_enc_nonempty c : utf8_enc c <> [].
Proof.
  unfold utf8_enc.
  destruct (c <? 128)%N; [discriminate|].
  destruct (c <? 2048)%N; [discriminate|].
  destruct (c <? 65536)%N; discriminate.
Qed.

(** *** repetition *)

Lemma concat_cons_app {A B} (enc : A -> list B) x xs r :
  concat (map enc (x :: xs)) ++ r = enc x ++ (concat (map enc xs) ++ r).
Proof. cbn [map concat]. rewrite app_assoc. reflexivity. Qed.

Lemma ptimes_rt {A} (p : parser A) (enc : A -> list N) xs : forall r,
  (forall x, In x xs -> forall r, p (enc x ++ r) = DOk x r) ->
  ptimes (length xs) p (concat (map enc xs) ++ r) = DOk xs r.
Proof.
  induction xs as [|x xs IH]; intros r H; [reflexivity|].
  rewrite concat_cons_app. cbn [length ptimes]. unfold pbind at 1.
  rewrite H by (left; reflexivity).
  unfold pbind. rewrite IH by (intros y Hy; apply H; right; exact Hy).
  reflexivity.
Qed.

Lemma prepeat_zero {A} (p : parser A) fuel l : prepeat fuel 0 p l = DOk [] l.
Proof. destruct fuel; reflexivity. Qed.

Lemma prepeat_succ {A} (p : parser A) fuel k l :
  prepeat (S fuel) (N.of_nat (S k)) p l =
  (x <~ p ;; xs <~ prepeat fuel (N.of_nat k) p ;; pret (x :: xs)) l.
Proof.
  cbn [prepeat].
  destruct (N.eqb_spec (N.of_nat (S k)) 0) as [E|_]; [lia|].
  replace (N.of_nat (S k) - 1)%N with (N.of_nat k) by lia. reflexivity.
Qed.

Lemma prepeat_rt {A} (p : parser A) (enc : A -> list N) xs : forall fuel r,
  (forall x, In x xs -> forall r, p (enc x ++ r) = DOk x r) ->
  length xs <= fuel ->
  prepeat fuel (N.of_nat (length xs)) p (concat (map enc xs) ++ r) = DOk xs r.
Proof.
  induction xs as [|x xs IH]; intros fuel r H Hf.
  - apply prepeat_zero.
  - destruct fuel as [|fuel]; [simpl in Hf; lia|].
    cbn [length] in *. rewrite prepeat_succ, concat_cons_app.
    unfold pbind at 1. rewrite H by (left; reflexivity).
    unfold pbind. rewrite IH; [reflexivity| |lia].
    intros y Hy; apply H; right; exact Hy.
Qed.

(** every element takes at least one byte, so there are at most as many
    elements as bytes: the fuel [S (length input)] never runs out *)
Lemma length_concat_ge {A} (enc : A -> list N) xs :
  (forall x, In x xs -> enc x <> []) ->
  length xs <= length (concat (map enc xs)).
Proof.
  induction xs as [|x xs IH]; intros H; [simpl; lia|].
  cbn [map concat length]. rewrite app_length.
  assert (enc x <> []) as Hx by (apply H; left; reflexivity).
  assert (length xs <= length (concat (map enc xs))) as Hxs
    by (apply IH; intros y Hy; apply H; right; exact Hy).
  destruct (enc x); [congruence|]. simpl. lia.
Qed.

Lemma pseq_rt {A} (p : parser A) (enc : A -> list N) xs r :
  (N.of_nat (length xs) < two64)%N ->
  (forall x, In x xs -> enc x <> []) ->
  (forall x, In x xs -> forall r, p (enc x ++ r) = DOk x r) ->
  pseq p (enc_nat (length xs) ++ concat (map enc xs) ++ r) = DOk xs r.
Proof.
  intros Hlen Hne H. unfold pseq, pbind, enc_nat. rewrite pu64_rt by exact Hlen.
  apply prepeat_rt; [exact H|].
  rewrite app_length. pose proof (length_concat_ge enc xs Hne). lia.
Qed.

Lemma concat_singletons (l : list N) : concat (map (fun b => [b]) l) = l.
Proof. induction l as [|b l IH]; [reflexivity|]. cbn [map concat app]. f_equal. exact IH. Qed.

Lemma pbyte_rt b r : pbyte ([b] ++ r) = DOk b r.
Proof. reflexivity. Qed.

(** *** labels, data, persistence *)

Lemma plabel_rt l r : wf_label l = true -> plabel (enc_label l ++ r) = DOk l r.
Proof.
  intros H. unfold plabel, enc_label.
  destruct l as [c|n|cs]; rewrite <- app_assoc; unfold pbind at 1;
    rewrite pu32_rt by reflexivity; cbn [N.eqb wf_label] in *.
  - change (0 =? 0)%N with true. cbv iota. unfold pbind.
    rewrite pchar_utf8 by exact H. reflexivity.
  - change (1 =? 0)%N with false. change (1 =? 1)%N with true. cbv iota.
    unfold pbind. apply N.leb_le in H. unfold usize_max in H.
    rewrite pu64_rt by (unfold two64; lia). reflexivity.
  - change (2 =? 0)%N with false. change (2 =? 1)%N with false.
    change (2 =? 2)%N with true. cbv iota.
    apply andb_true_iff in H as [H8 Hs]. apply Nat.eqb_eq in H8.
    unfold pbind. rewrite <- H8.
    rewrite ptimes_rt; [reflexivity|].
    intros x Hx r0. apply pchar_utf8.
    rewrite forallb_forall in Hs. apply Hs. exact Hx.
Qed.

Lemma enc_label_nonempty l : enc_label l <> [].
Proof. destruct l; apply app_nonempty_l, enc_u32_nonempty. Qed.

Lemma pseq_pbyte_rt l r :
  (N.of_nat (length l) < two64)%N ->
  pseq pbyte (enc_nat (length l) ++ l ++ r) = DOk l r.
Proof.
  intros H. pose proof (pseq_rt pbyte (fun b => [b]) l r H) as P.
  rewrite concat_singletons in P. apply P.
  - intros; discriminate.
  - intros; reflexivity.
Qed.

Lemma ptimes_pbyte_rt l r : ptimes (length l) pbyte (l ++ r) = DOk l r.
Proof.
  pose proof (ptimes_rt pbyte (fun b => [b]) l r) as P.
  rewrite concat_singletons in P. apply P. intros; reflexivity.
Qed.

Lemma phex_rt lim h r :
  (lim <= two64)%N -> wf_hex_img lim h -> phex lim (enc_hex h ++ r) = DOk h r.
Proof.
  intros Hl [Hw Hn]. unfold phex, enc_hex.
  destruct h as [l|a n]; rewrite <- app_assoc; unfold pbind at 1;
    rewrite pu32_rt by reflexivity.
  - change (0 =? 0)%N with true. cbv iota. unfold pbind.
    rewrite <- app_assoc. rewrite pseq_pbyte_rt by exact Hn. reflexivity.
  - change (1 =? 0)%N with false. change (1 =? 1)%N with true. cbv iota.
    cbn [wf_hex] in Hw. apply andb_true_iff in Hw as [Hw _].
    apply andb_true_iff in Hw as [H8 _]. apply Nat.eqb_eq in H8.
    rewrite <- app_assoc. unfold pbind at 1.
    rewrite <- H8. rewrite ptimes_pbyte_rt.
    unfold pbind. rewrite psmall_rt by assumption. reflexivity.
Qed.

Lemma ppers_rt p r : ppers (enc_pers p ++ r) = DOk p r.
Proof. destruct p; reflexivity. Qed.

(** *** edges *)

Lemma pedge_rt lim e r :
  (lim <= two64)%N -> wf_edge_img lim e -> pedge lim (enc_edge e ++ r) = DOk e r.
Proof.
  intros Hl [Ha Hv]. destruct e as [a v]. unfold pedge, enc_edge. cbn [fst snd] in *.
  rewrite <- app_assoc. unfold pbind at 1. rewrite plabel_rt by exact Ha.
  unfold pbind. rewrite psmall_rt by assumption. reflexivity.
Qed.

Lemma enc_edge_nonempty e : enc_edge e <> [].
Proof. apply app_nonempty_l, enc_label_nonempty. Qed.

Lemma mm_replace_fresh e : forall a v, ~ In a (map fst e) -> mm_replace e a v = None.
Proof.
  induction e as [|[k w] t IH]; intros a v H; [reflexivity|].
  cbn [mm_replace]. cbn [map fst In] in H.
  destruct (label_eqb k a) eqn:E.
  - apply label_eqb_spec in E. tauto.
  - rewrite IH by tauto. reflexivity.
Qed.

Lemma mm_insert_fresh n e a v :
  ~ In a (map fst e) -> length e < n -> mm_insert n e a v = Ok (e ++ [(a, v)]).
Proof.
  intros H Hn. unfold mm_insert. rewrite mm_replace_fresh by exact H.
  destruct (Nat.ltb_spec (length e) n); [reflexivity|lia].
Qed.

Lemma pedges_loop_succ fuel k lim n acc l :
  pedges_loop (S fuel) (N.of_nat (S k)) lim n acc l =
  (e <~ pedge lim ;;
   match mm_insert n acc (fst e) (snd e) with
   | Ok acc' => pedges_loop fuel (N.of_nat k) lim n acc'
   | _ => pfail DPanic
   end) l.
Proof.
  cbn [pedges_loop].
  destruct (N.eqb_spec (N.of_nat (S k)) 0) as [E|_]; [lia|].
  replace (N.of_nat (S k) - 1)%N with (N.of_nat k) by lia. reflexivity.
Qed.

Lemma pedges_loop_zero fuel lim n acc l : pedges_loop fuel 0 lim n acc l = DOk acc l.
Proof. destruct fuel; reflexivity. Qed.

Lemma pedges_loop_rt lim n es : forall fuel acc r,
  (lim <= two64)%N ->
  Forall (wf_edge_img lim) es ->
  NoDup (map fst (acc ++ es)) ->
  length (acc ++ es) <= n ->
  length es <= fuel ->
  pedges_loop fuel (N.of_nat (length es)) lim n acc (concat (map enc_edge es) ++ r)
  = DOk (acc ++ es) r.
Proof.
  induction es as [|e es IH]; intros fuel acc r Hl Hwf Hnd Hn Hf.
  - rewrite app_nil_r. apply pedges_loop_zero.
  - destruct fuel as [|fuel]; [simpl in Hf; lia|].
    cbn [length] in Hf. cbn [length]. rewrite pedges_loop_succ, concat_cons_app.
    inversion Hwf as [|e' es' He Hes]; subst.
    unfold pbind. rewrite pedge_rt by assumption.
    destruct e as [a v]. cbn [fst snd].
    rewrite mm_insert_fresh.
    + replace (acc ++ (a, v) :: es) with ((acc ++ [(a, v)]) ++ es)
        by (rewrite <- app_assoc; reflexivity).
      apply IH; auto; try lia.
      * rewrite <- app_assoc. exact Hnd.
      * rewrite <- app_assoc. exact Hn.
    + rewrite map_app in Hnd. cbn [map fst] in Hnd.
      apply NoDup_remove_2 in Hnd. intros Hin. apply Hnd.
      apply in_or_app. left. exact Hin.
    + rewrite app_length in Hn. cbn [length] in Hn. lia.
Qed.

Lemma pedges_rt lim n es r :
  (lim <= two64)%N -> (N.of_nat n < two64)%N ->
  Forall (wf_edge_img lim) es -> NoDup (map fst es) -> length es <= n ->
  pedges lim n (enc_nat (length es) ++ concat (map enc_edge es) ++ r) = DOk es r.
Proof.
  intros Hl Hn Hwf Hnd Hlen. unfold pedges, pbind, enc_nat.
  rewrite pu64_rt by lia.
  apply (pedges_loop_rt lim n es _ []); auto.
  rewrite app_length.
  pose proof (length_concat_ge enc_edge es (fun x _ => enc_edge_nonempty x)). lia.
Qed.

Lemma pvertex_rt lim n x r :
  (lim <= two64)%N -> (N.of_nat n < two64)%N -> wf_vertex_img lim n x ->
  pvertex lim n (enc_vertex x ++ r) = DOk x r.
Proof.
  intros Hl Hn (Hb & Hd & Hnd & Hlen & He).
  destruct x as [b d p e]. cbn [v_branch v_data v_pers v_edges] in *.
  unfold pvertex, enc_vertex. cbn [v_branch v_data v_pers v_edges].
  rewrite <- !app_assoc.
  unfold pbind at 1. rewrite psmall_rt by assumption.
  unfold pbind at 1. rewrite phex_rt by assumption.
  unfold pbind at 1. rewrite ppers_rt.
  unfold pbind. rewrite pedges_rt by assumption. reflexivity.
Qed.

Lemma enc_vertex_nonempty x : enc_vertex x <> [].
Proof. apply app_nonempty_l, enc_nat_nonempty. Qed.

(** *** member lists *)

Lemma pstack_rt lim m r :
  (lim <= two64)%N -> wf_stack_img lim m -> pstack lim (enc_stack m ++ r) = DOk m r.
Proof.
  intros Hl [H16 Hm]. unfold pstack, enc_stack. unfold enc_nat at 1.
  rewrite <- app_assoc. unfold pbind at 1. rewrite pu64_rt by (unfold two64; lia).
  rewrite N.min_l by lia. unfold pbind at 1.
  rewrite prepeat_rt.
  - destruct (N.leb_spec (N.of_nat (length m)) 16); [reflexivity|lia].
  - intros x Hx r0. apply psmall_rt; [exact Hl|].
    rewrite Forall_forall in Hm. apply Hm. exact Hx.
  - rewrite app_length.
    pose proof (length_concat_ge enc_nat m (fun x _ => enc_nat_nonempty x)). lia.
Qed.

Lemma enc_stack_nonempty m : enc_stack m <> [].
Proof. apply app_nonempty_l, enc_nat_nonempty. Qed.

(** *** the emap visitor on the entries (0, x0), (1, x1), ... *)

Lemma mem_seq_below k s n : k < s -> mem k (seq s n) = false.
Proof.
  revert s. induction n as [|n IH]; intros s H; [reflexivity|].
  cbn [seq mem existsb]. fold (mem k (seq (S s) n)).
  rewrite IH by lia. destruct (Nat.eqb_spec k s); [lia|reflexivity].
Qed.

Lemma distinct_keys_combine {A} (l : list A) : forall s,
  distinct_keys (combine (seq s (length l)) l) = seq s (length l).
Proof.
  induction l as [|x l IH]; intros s; [reflexivity|].
  cbn [length seq combine distinct_keys]. rewrite IH.
  rewrite mem_seq_below by lia. reflexivity.
Qed.

Lemma assoc_last_outside {A} (l : list A) : forall s k,
  k < s \/ s + length l <= k ->
  assoc_last (combine (seq s (length l)) l) k = None.
Proof.
  induction l as [|x l IH]; intros s k H; [reflexivity|].
  cbn [length seq combine assoc_last] in *.
  rewrite IH by lia. destruct (Nat.eqb_spec s k); [lia|reflexivity].
Qed.

Lemma assoc_last_combine {A} (l : list A) : forall s i x,
  nth_error l i = Some x ->
  assoc_last (combine (seq s (length l)) l) (s + i) = Some x.
Proof.
  induction l as [|y l IH]; intros s i x H; [destruct i; discriminate|].
  cbn [length seq combine assoc_last].
  destruct i as [|i]; cbn [nth_error] in H.
  - rewrite assoc_last_outside by lia.
    rewrite Nat.add_0_r, Nat.eqb_refl. exact H.
  - rewrite Nat.add_succ_r, <- Nat.add_succ_l.
    rewrite (IH (S s) i x H). reflexivity.
Qed.

Lemma collect_slots_combine {A} (suf : list A) : forall pre,
  collect_slots (combine (seq 0 (length (pre ++ suf))) (pre ++ suf))
                (seq (length pre) (length suf)) = Some suf.
Proof.
  induction suf as [|x suf IH]; intros pre; [reflexivity|].
  cbn [length seq collect_slots].
  pose proof (assoc_last_combine (pre ++ x :: suf) 0 (length pre) x) as P.
  cbn [Nat.add] in P. rewrite P.
  - replace (pre ++ x :: suf) with ((pre ++ [x]) ++ suf)
      by (rewrite <- app_assoc; reflexivity).
    replace (S (length pre)) with (length (pre ++ [x]))
      by (rewrite app_length; simpl; lia).
    rewrite IH. reflexivity.
  - rewrite nth_error_app2 by lia. rewrite Nat.sub_diag. reflexivity.
Qed.

Lemma emap_build_combine {A} (l : list A) :
  emap_build (combine (iota (length l)) l) = Some l.
Proof.
  unfold emap_build, iota. rewrite distinct_keys_combine, seq_length.
  replace (forallb (fun kv : nat * A => fst kv <? length l)
                   (combine (seq 0 (length l)) l)) with true.
  - exact (collect_slots_combine l []).
  - symmetry. apply forallb_forall. intros [k v] Hin. cbn [fst].
    apply in_combine_l in Hin. apply in_seq in Hin.
    apply Nat.ltb_lt. lia.
Qed.

Definition enc_entry {A} (enc : A -> list N) (kv : nat * A) : list N :=
  enc_nat (fst kv) ++ enc (snd kv).

Lemma enc_emap_unfold {A} (enc : A -> list N) (l : list A) :
  enc_emap enc l =
  enc_nat (length l) ++ concat (map (enc_entry enc) (combine (iota (length l)) l)).
Proof. reflexivity. Qed.

Lemma pemap_rt {A} lim (p : parser A) (enc : A -> list N) l r :
  (lim <= two64)%N -> wf_num lim (length l) ->
  (forall x, In x l -> forall r, p (enc x ++ r) = DOk x r) ->
  pemap lim p (enc_emap enc l ++ r) = DOk l r.
Proof.
  unfold wf_num. intros Hl Hlen H.
  rewrite enc_emap_unfold, <- app_assoc. unfold pemap. unfold pbind at 1.
  assert (length (combine (iota (length l)) l) = length l) as Hc
    by (rewrite combine_length; unfold iota; rewrite seq_length; lia).
  rewrite <- Hc at 1.
  rewrite pseq_rt.
  - rewrite emap_build_combine. reflexivity.
  - rewrite Hc. lia.
  - intros kv _. apply app_nonempty_l, enc_nat_nonempty.
  - intros [k v] Hin r0. unfold enc_entry. cbn [fst snd]. rewrite <- app_assoc.
    unfold pbind at 1. rewrite psmall_rt; [|exact Hl|].
    + unfold pbind. rewrite H; [reflexivity|].
      apply in_combine_r in Hin. exact Hin.
    + apply in_combine_l in Hin. apply in_seq in Hin. unfold wf_num. lia.
Qed.

(** *** the whole image *)

Lemma psodg_rt lim n g rest :
  wf_image_state lim n g ->
  psodg lim n (encode g ++ rest)
  = DOk (mkG (g_stores g) (g_branches g) (g_vertices g) 0) rest.
Proof.
  intros (Hl & Hn & H1 & H2 & H3 & H4 & H5 & H6).
  unfold psodg, encode. rewrite <- !app_assoc.
  unfold pbind at 1. rewrite pemap_rt; [|exact Hl|exact H1|].
  - unfold pbind at 1. rewrite pemap_rt; [|exact Hl|exact H2|].
    + unfold pbind. rewrite pemap_rt; [reflexivity|exact Hl|exact H3|].
      intros x Hx r0. apply pvertex_rt; auto.
      rewrite Forall_forall in H6. apply H6. exact Hx.
    + intros m Hm r0. apply pstack_rt; auto.
      rewrite Forall_forall in H5. apply H5. exact Hm.
  - intros c Hc r0. apply psmall_rt; auto.
    rewrite Forall_forall in H4. apply H4. exact Hc.
Qed.

Lemma load_save lim n g :
  wf_image_state lim n g ->
  decode lim n (encode g) = LOk (mkG (g_stores g) (g_branches g) (g_vertices g) 0).
Proof.
  intros H. unfold decode. rewrite <- (app_nil_r (encode g)).
  rewrite (psodg_rt lim n g [] H). reflexivity.
Qed.

Lemma lim_irrelevant lim lim' n g rest :
  wf_image_state lim n g -> (lim <= lim')%N -> (lim' <= two64)%N ->
  psodg lim' n (encode g ++ rest) = psodg lim n (encode g ++ rest).
Proof.
  intros H Hl Hl'. rewrite (psodg_rt lim n g rest H).
  apply psodg_rt. eapply wf_image_state_mono; eauto.
Qed.

Lemma lim_irrelevant_load lim lim' n g :
  wf_image_state lim n g -> (lim <= lim')%N -> (lim' <= two64)%N ->
  decode lim' n (encode g) = decode lim n (encode g).
Proof.
  intros H Hl Hl'. rewrite (load_save lim n g H).
  apply load_save. eapply wf_image_state_mono; eauto.
Qed.

(** ** Part 2: appending bytes, cutting bytes *)

(** the result [d] of a run, had [e] been appended to the input *)
Definition dapp {A} (d : dres A) (e : list N) : dres A :=
  match d with
  | DOk a r => DOk a (r ++ e)
  | DEof => DEof
  | DInvalid => DInvalid
  | DPanic => DPanic
  | DUnmod => DUnmod
  end.

(** a run that ends in anything but [DEof] has seen all the bytes it will
    ever look at: more input changes nothing but the remainder *)
Definition ext_stable {A} (p : parser A) : Prop :=
  forall l e, p l <> DEof -> p (l ++ e) = dapp (p l) e.

Lemma dapp_not_eof {A} (d : dres A) e : d <> DEof -> dapp d e <> DEof.
Proof. destruct d; simpl; congruence. Qed.

(** read backwards: if the longer input is accepted, the shorter one is
    accepted with the same value or runs out of input *)
Lemma ext_stable_prefix {A} (p : parser A) l e a r :
  ext_stable p -> p (l ++ e) = DOk a r ->
  p l = DEof \/ exists r', p l = DOk a r' /\ r = r' ++ e.
Proof.
  intros H E. specialize (H l e).
  destruct (p l) as [a' r'| | | |] eqn:El; auto; right;
    rewrite H in E by discriminate; simpl in E; try discriminate.
  inversion E; subst. eauto.
Qed.

Lemma ext_ret {A} (a : A) : ext_stable (pret a).
Proof. intros l e _. reflexivity. Qed.

Lemma ext_fail {A} (d : dres A) : (forall a r, d <> DOk a r) -> ext_stable (pfail d).
Proof.
  intros Hd l e H. unfold pfail in *. destruct d; try reflexivity.
  exfalso. eapply Hd. reflexivity.
Qed.

Lemma ext_fail_invalid {A} : ext_stable (@pfail A DInvalid).
Proof. apply ext_fail. discriminate. Qed.
Lemma ext_fail_panic {A} : ext_stable (@pfail A DPanic).
Proof. apply ext_fail. discriminate. Qed.
Lemma ext_fail_unmod {A} : ext_stable (@pfail A DUnmod).
Proof. apply ext_fail. discriminate. Qed.

Lemma ext_byte : ext_stable pbyte.
Proof. intros [|b t] e H; [simpl in H; congruence|reflexivity]. Qed.

Lemma ext_bind {A B} (p : parser A) (f : A -> parser B) :
  ext_stable p -> (forall a, ext_stable (f a)) -> ext_stable (pbind p f).
Proof.
  intros Hp Hf l e H. unfold pbind in *. specialize (Hp l e).
  destruct (p l) as [a r| | | |] eqn:E.
  - rewrite Hp by discriminate. simpl. apply Hf. exact H.
  - congruence.
  - rewrite Hp by discriminate. reflexivity.
  - rewrite Hp by discriminate. reflexivity.
  - rewrite Hp by discriminate. reflexivity.
Qed.

Lemma ext_if {A} (b : bool) (p q : parser A) :
  ext_stable p -> ext_stable q -> ext_stable (if b then p else q).
Proof. destruct b; auto. Qed.

Ltac ext_tac :=
  repeat first
    [ assumption
    | apply ext_ret | apply ext_byte
    | apply ext_fail_invalid | apply ext_fail_panic | apply ext_fail_unmod
    | apply ext_bind; [|intro]
    | apply ext_if ].

Lemma ext_ple k : ext_stable (ple k).
Proof. induction k as [|k IH]; cbn [ple]; ext_tac. Qed.

Lemma ext_pu64 : ext_stable pu64.
Proof. apply ext_ple. Qed.
Lemma ext_pu32 : ext_stable pu32.
Proof. apply ext_ple. Qed.

Lemma ext_psmall lim : ext_stable (psmall lim).
Proof. unfold psmall. pose proof ext_pu64. ext_tac. Qed.

Lemma ext_ptimes {A} (p : parser A) k : ext_stable p -> ext_stable (ptimes k p).
Proof. intros H. induction k as [|k IH]; cbn [ptimes]; ext_tac. Qed.

Lemma ext_pchar : ext_stable pchar.
Proof. unfold pchar. ext_tac. Qed.

(** *** fuelled loops: the fuel is taken from the length of the input, so
    a shorter input also means less fuel; running out of fuel is [DEof] *)

Definition fuel_mono {A} (F : nat -> parser A) : Prop :=
  forall f f' l, f <= f' -> F f l <> DEof -> F f' l = F f l.

Lemma ext_fuel {A} (F : nat -> parser A) :
  (forall f, ext_stable (F f)) -> fuel_mono F ->
  ext_stable (fun l => F (S (length l)) l).
Proof.
  intros He Hm l e H. cbv beta in *.
  rewrite (Hm (S (length l)) (S (length (l ++ e))) (l ++ e)).
  - apply He. exact H.
  - rewrite app_length. lia.
  - rewrite He by exact H. apply dapp_not_eof. exact H.
Qed.

Lemma fuel_mono_bind {A B} (F : nat -> parser A) (g : A -> parser B) :
  fuel_mono F -> fuel_mono (fun f => pbind (F f) g).
Proof.
  intros Hm f f' l Hle H. cbv beta in *. unfold pbind in *.
  rewrite (Hm f f' l Hle); [reflexivity|].
  intros E. rewrite E in H. congruence.
Qed.

Lemma ext_prepeat {A} (p : parser A) :
  ext_stable p -> forall fuel count, ext_stable (prepeat fuel count p).
Proof.
  intros Hp. induction fuel as [|fuel IH]; intros count l e H.
  - cbn [prepeat] in *. destruct (count =? 0)%N; [reflexivity|congruence].
  - cbn [prepeat] in *. destruct (count =? 0)%N; [reflexivity|].
    revert H. generalize l e.
    change (ext_stable (x <~ p ;; xs <~ prepeat fuel (count - 1) p ;; pret (x :: xs))).
    ext_tac. apply IH.
Qed.

Lemma fuel_mono_prepeat {A} (p : parser A) count :
  fuel_mono (fun f => prepeat f count p).
Proof.
  intros f. revert count.
  induction f as [|f IH]; intros count f' l Hle H; cbv beta in *.
  - cbn [prepeat] in H. destruct (count =? 0)%N eqn:E; [|congruence].
    destruct f'; cbn [prepeat]; rewrite E; reflexivity.
  - destruct f' as [|f']; [lia|]. cbn [prepeat] in *.
    destruct (count =? 0)%N; [reflexivity|].
    unfold pbind in *. destruct (p l) as [x r| | | |]; try reflexivity.
    rewrite (IH (count - 1)%N f' r); [reflexivity|lia|].
    intros E. rewrite E in H. congruence.
Qed.

Lemma ext_pseq {A} (p : parser A) : ext_stable p -> ext_stable (pseq p).
Proof.
  intros Hp. unfold pseq.
  change (ext_stable (n <~ pu64 ;; fun l' => prepeat (S (length l')) n p l')).
  apply ext_bind; [apply ext_pu64|]. intros n.
  apply (ext_fuel (fun f => prepeat f n p)).
  - intros f. apply ext_prepeat. exact Hp.
  - apply fuel_mono_prepeat.
Qed.

Lemma ext_plabel : ext_stable plabel.
Proof.
  unfold plabel. pose proof ext_pu32. pose proof ext_pu64. pose proof ext_pchar.
  pose proof (ext_ptimes pchar 8 ext_pchar). ext_tac.
Qed.

Lemma ext_phex lim : ext_stable (phex lim).
Proof.
  unfold phex. pose proof ext_pu32. pose proof (ext_psmall lim).
  pose proof (ext_pseq pbyte ext_byte). pose proof (ext_ptimes pbyte 8 ext_byte).
  ext_tac.
Qed.

Lemma ext_ppers : ext_stable ppers.
Proof. unfold ppers. pose proof ext_pu32. ext_tac. Qed.

Lemma ext_pedge lim : ext_stable (pedge lim).
Proof. unfold pedge. pose proof ext_plabel. pose proof (ext_psmall lim). ext_tac. Qed.

Lemma ext_pedges_loop lim n : forall fuel count acc,
  ext_stable (pedges_loop fuel count lim n acc).
Proof.
  induction fuel as [|fuel IH]; intros count acc l e H.
  - cbn [pedges_loop] in *. destruct (count =? 0)%N; [reflexivity|congruence].
  - cbn [pedges_loop] in *. destruct (count =? 0)%N; [reflexivity|].
    revert H. generalize l e.
    change (ext_stable
              (e <~ pedge lim ;;
               match mm_insert n acc (fst e) (snd e) with
               | Ok acc' => pedges_loop fuel (count - 1) lim n acc'
               | _ => pfail DPanic
               end)).
    apply ext_bind; [apply ext_pedge|]. intros x.
    destruct (mm_insert n acc (fst x) (snd x)); try apply ext_fail_panic.
    apply IH.
Qed.

Lemma fuel_mono_pedges_loop lim n count acc :
  fuel_mono (fun f => pedges_loop f count lim n acc).
Proof.
  intros f. revert count acc.
  induction f as [|f IH]; intros count acc f' l Hle H; cbv beta in *.
  - cbn [pedges_loop] in H. destruct (count =? 0)%N eqn:E; [|congruence].
    destruct f'; cbn [pedges_loop]; rewrite E; reflexivity.
  - destruct f' as [|f']; [lia|]. cbn [pedges_loop] in *.
    destruct (count =? 0)%N; [reflexivity|].
    unfold pbind in *. destruct (pedge lim l) as [x r| | | |]; try reflexivity.
    destruct (mm_insert n acc (fst x) (snd x)); try reflexivity.
    apply IH; [lia|exact H].
Qed.

Lemma ext_pedges lim n : ext_stable (pedges lim n).
Proof.
  unfold pedges.
  change (ext_stable
            (k <~ pu64 ;; fun l' => pedges_loop (S (length l')) k lim n [] l')).
  apply ext_bind; [apply ext_pu64|]. intros k.
  apply (ext_fuel (fun f => pedges_loop f k lim n [])).
  - intros f. apply ext_pedges_loop.
  - apply fuel_mono_pedges_loop.
Qed.

Lemma ext_pvertex lim n : ext_stable (pvertex lim n).
Proof.
  unfold pvertex. pose proof (ext_psmall lim). pose proof (ext_phex lim).
  pose proof ext_ppers. pose proof (ext_pedges lim n). ext_tac.
Qed.

Lemma ext_pstack lim : ext_stable (pstack lim).
Proof.
  unfold pstack.
  change (ext_stable
            (n <~ pu64 ;;
             fun l' =>
               (fun f => m <~ prepeat f (N.min n 16) (psmall lim) ;;
                         if (n <=? 16)%N then pret m
                         else _ <~ psmall lim ;; pfail DPanic) (S (length l')) l')).
  apply ext_bind; [apply ext_pu64|]. intros n.
  pose proof (ext_psmall lim) as Hs.
  apply (ext_fuel (fun f => m <~ prepeat f (N.min n 16) (psmall lim) ;;
                            if (n <=? 16)%N then pret m
                            else _ <~ psmall lim ;; pfail DPanic)).
  - intros f. apply ext_bind; [apply ext_prepeat; exact Hs|]. intros m. ext_tac.
  - apply (fuel_mono_bind (fun f => prepeat f (N.min n 16) (psmall lim))).
    apply fuel_mono_prepeat.
Qed.

Lemma ext_pemap {A} lim (p : parser A) : ext_stable p -> ext_stable (pemap lim p).
Proof.
  intros Hp. unfold pemap. apply ext_bind.
  - apply ext_pseq. pose proof (ext_psmall lim). ext_tac.
  - intros kvs. destruct (emap_build kvs); ext_tac.
Qed.

Lemma ext_psodg lim n : ext_stable (psodg lim n).
Proof.
  unfold psodg.
  pose proof (ext_pemap lim (psmall lim) (ext_psmall lim)).
  pose proof (ext_pemap lim (pstack lim) (ext_pstack lim)).
  pose proof (ext_pemap lim (pvertex lim n) (ext_pvertex lim n)).
  ext_tac.
Qed.

(** *** a complete parse that uses up its input: every proper prefix is [DEof] *)

Lemma cut_is_eof {A} (p : parser A) img a :
  ext_stable p -> p img = DOk a [] ->
  forall k, k < length img -> p (firstn k img) = DEof.
Proof.
  intros He Hp k Hk.
  rewrite <- (firstn_skipn k img) in Hp.
  destruct (ext_stable_prefix p _ _ _ _ He Hp) as [E|(r' & _ & E)]; [exact E|].
  exfalso. symmetry in E. apply app_eq_nil in E as [_ E].
  apply (f_equal (@length N)) in E. rewrite skipn_length in E. simpl in E. lia.
Qed.

Lemma psodg_cut lim n g k :
  wf_image_state lim n g -> k < length (encode g) ->
  psodg lim n (firstn k (encode g)) = DEof.
Proof.
  intros H Hk.
  apply (cut_is_eof (psodg lim n) (encode g)
           (mkG (g_stores g) (g_branches g) (g_vertices g) 0)).
  - apply ext_psodg.
  - rewrite <- (app_nil_r (encode g)) at 1. apply psodg_rt. exact H.
  - exact Hk.
Qed.

Lemma load_cut lim n g k :
  wf_image_state lim n g -> k < length (encode g) ->
  decode lim n (firstn k (encode g)) = LErr.
Proof.
  intros H Hk. unfold decode. rewrite (psodg_cut lim n g k H Hk). reflexivity.
Qed.

(** also: bytes after a complete image are ignored by [load()] *)
Lemma load_trailing lim n g rest :
  wf_image_state lim n g ->
  decode lim n (encode g ++ rest) = decode lim n (encode g).
Proof.
  intros H. rewrite (load_save lim n g H). unfold decode.
  rewrite (psodg_rt lim n g rest H). reflexivity.
Qed.

Lemma psodg_prefix lim n l e g r :
  psodg lim n (l ++ e) = DOk g r ->
  psodg lim n l = DEof \/ exists r', psodg lim n l = DOk g r' /\ r = r' ++ e.
Proof. apply ext_stable_prefix, ext_psodg. Qed.

(** ** Part 3: the fuel is adequate

    [prepeat] and [pedges_loop] answer [DEof] when the fuel is used up, so
    a [DEof] could in principle be an artefact of the fuel [S (length
    input)] that [pseq], [pedges], [pstack] pass.  It is not: every element
    parser used in Serial.v takes at least one byte when it succeeds, and
    for such a parser any two fuels above the input length give the same
    result. *)

Definition no_grow {A} (p : parser A) : Prop :=
  forall l a r, p l = DOk a r -> length r <= length l.

Definition consumes {A} (p : parser A) : Prop :=
  forall l a r, p l = DOk a r -> length r < length l.

Lemma consumes_no_grow {A} (p : parser A) : consumes p -> no_grow p.
Proof. intros H l a r E. apply H in E. lia. Qed.

Lemma no_grow_ret {A} (a : A) : no_grow (pret a).
Proof. intros l a' r E. inversion E; subst. lia. Qed.

Lemma no_grow_fail_invalid {A} : no_grow (@pfail A DInvalid).
Proof. intros l a r E. discriminate. Qed.
Lemma no_grow_fail_panic {A} : no_grow (@pfail A DPanic).
Proof. intros l a r E. discriminate. Qed.
Lemma no_grow_fail_unmod {A} : no_grow (@pfail A DUnmod).
Proof. intros l a r E. discriminate. Qed.

Lemma consumes_byte : consumes pbyte.
Proof. intros [|b t] a r E; inversion E; subst. simpl. lia. Qed.

Lemma no_grow_bind {A B} (p : parser A) (f : A -> parser B) :
  no_grow p -> (forall a, no_grow (f a)) -> no_grow (pbind p f).
Proof.
  intros Hp Hf l b r E. unfold pbind in E.
  destruct (p l) as [a r1| | | |] eqn:E1; try discriminate.
  apply Hp in E1. apply Hf in E. lia.
Qed.

Lemma consumes_bind {A B} (p : parser A) (f : A -> parser B) :
  consumes p -> (forall a, no_grow (f a)) -> consumes (pbind p f).
Proof.
  intros Hp Hf l b r E. unfold pbind in E.
  destruct (p l) as [a r1| | | |] eqn:E1; try discriminate.
  apply Hp in E1. apply Hf in E. lia.
Qed.

Lemma no_grow_if {A} (b : bool) (p q : parser A) :
  no_grow p -> no_grow q -> no_grow (if b then p else q).
Proof. destruct b; auto. Qed.

Ltac ng_tac :=
  repeat first
    [ assumption
    | apply no_grow_ret
    | apply no_grow_fail_invalid | apply no_grow_fail_panic | apply no_grow_fail_unmod
    | apply consumes_no_grow; assumption
    | apply no_grow_bind; [|intro]
    | apply no_grow_if ].

Lemma no_grow_ple k : no_grow (ple k).
Proof.
  pose proof consumes_byte.
  induction k as [|k IH]; cbn [ple]; ng_tac.
Qed.

Lemma consumes_ple k : consumes (ple (S k)).
Proof.
  cbn [ple]. apply consumes_bind; [apply consumes_byte|]. intros b.
  pose proof (no_grow_ple k). ng_tac.
Qed.

Lemma consumes_pu64 : consumes pu64.
Proof. apply consumes_ple. Qed.
Lemma consumes_pu32 : consumes pu32.
Proof. apply consumes_ple. Qed.

Lemma consumes_psmall lim : consumes (psmall lim).
Proof. unfold psmall. apply consumes_bind; [apply consumes_pu64|]. intros x. ng_tac. Qed.

Lemma no_grow_ptimes {A} (p : parser A) k : no_grow p -> no_grow (ptimes k p).
Proof. intros H. induction k as [|k IH]; cbn [ptimes]; ng_tac. Qed.

Lemma no_grow_pchar : no_grow pchar.
Proof. unfold pchar. pose proof consumes_byte. ng_tac. Qed.

Lemma no_grow_prepeat {A} (p : parser A) :
  no_grow p -> forall fuel count, no_grow (prepeat fuel count p).
Proof.
  intros Hp. induction fuel as [|fuel IH]; intros count l a r E.
  - cbn [prepeat] in E. destruct (count =? 0)%N; inversion E; subst. lia.
  - cbn [prepeat] in E. destruct (count =? 0)%N; [inversion E; subst; lia|].
    revert E. generalize l a r.
    change (no_grow (x <~ p ;; xs <~ prepeat fuel (count - 1) p ;; pret (x :: xs))).
    ng_tac. apply IH.
Qed.

Lemma no_grow_pseq {A} (p : parser A) : no_grow p -> no_grow (pseq p).
Proof.
  intros Hp. unfold pseq.
  change (no_grow (n <~ pu64 ;; fun l' => prepeat (S (length l')) n p l')).
  apply no_grow_bind; [apply consumes_no_grow, consumes_pu64|].
  intros n l a r E. exact (no_grow_prepeat p Hp _ _ _ _ _ E).
Qed.

Lemma consumes_plabel : consumes plabel.
Proof.
  unfold plabel. apply consumes_bind; [apply consumes_pu32|]. intros v.
  pose proof consumes_pu64. pose proof no_grow_pchar.
  pose proof (no_grow_ptimes pchar 8 no_grow_pchar). ng_tac.
Qed.

Lemma consumes_phex lim : consumes (phex lim).
Proof.
  unfold phex. apply consumes_bind; [apply consumes_pu32|]. intros v.
  pose proof (consumes_psmall lim).
  pose proof (no_grow_pseq pbyte (consumes_no_grow _ consumes_byte)).
  pose proof (no_grow_ptimes pbyte 8 (consumes_no_grow _ consumes_byte)). ng_tac.
Qed.

Lemma consumes_ppers : consumes ppers.
Proof. unfold ppers. apply consumes_bind; [apply consumes_pu32|]. intros v. ng_tac. Qed.

Lemma consumes_pedge lim : consumes (pedge lim).
Proof.
  unfold pedge. apply consumes_bind; [apply consumes_plabel|]. intros a.
  pose proof (consumes_psmall lim). ng_tac.
Qed.

Lemma no_grow_pedges_loop lim n : forall fuel count acc,
  no_grow (pedges_loop fuel count lim n acc).
Proof.
  induction fuel as [|fuel IH]; intros count acc l a r E.
  - cbn [pedges_loop] in E. destruct (count =? 0)%N; inversion E; subst. lia.
  - cbn [pedges_loop] in E. destruct (count =? 0)%N; [inversion E; subst; lia|].
    revert E. generalize l a r.
    change (no_grow
              (e <~ pedge lim ;;
               match mm_insert n acc (fst e) (snd e) with
               | Ok acc' => pedges_loop fuel (count - 1) lim n acc'
               | _ => pfail DPanic
               end)).
    apply no_grow_bind; [apply consumes_no_grow, consumes_pedge|]. intros x.
    destruct (mm_insert n acc (fst x) (snd x)); try apply no_grow_fail_panic.
    apply IH.
Qed.

Lemma consumes_pedges lim n : consumes (pedges lim n).
Proof.
  unfold pedges.
  change (consumes
            (k <~ pu64 ;; fun l' => pedges_loop (S (length l')) k lim n [] l')).
  apply consumes_bind; [apply consumes_pu64|].
  intros k l a r E. exact (no_grow_pedges_loop lim n _ _ _ _ _ _ E).
Qed.

Lemma consumes_pvertex lim n : consumes (pvertex lim n).
Proof.
  unfold pvertex. apply consumes_bind; [apply consumes_psmall|]. intros b.
  pose proof (consumes_phex lim). pose proof consumes_ppers.
  pose proof (consumes_pedges lim n). ng_tac.
Qed.

Lemma consumes_pstack lim : consumes (pstack lim).
Proof.
  unfold pstack.
  change (consumes
            (n <~ pu64 ;;
             fun l' =>
               (m <~ prepeat (S (length l')) (N.min n 16) (psmall lim) ;;
                if (n <=? 16)%N then pret m
                else _ <~ psmall lim ;; pfail DPanic) l')).
  apply consumes_bind; [apply consumes_pu64|].
  intros n l a r E. revert E.
  pose proof (consumes_psmall lim) as Hs.
  assert (no_grow (m <~ prepeat (S (length l)) (N.min n 16) (psmall lim) ;;
                   if (n <=? 16)%N then pret m
                   else _ <~ psmall lim ;; pfail DPanic)) as Hng.
  { apply no_grow_bind.
    - apply no_grow_prepeat, consumes_no_grow, Hs.
    - intros m. ng_tac. }
  apply Hng.
Qed.

(** the (key, value) entry parser of [pemap] *)
Definition pentry {A} (lim : N) (p : parser A) : parser (nat * A) :=
  k <~ psmall lim ;; v <~ p ;; pret (k, v).

Lemma pemap_pentry {A} lim (p : parser A) :
  pemap lim p =
  (kvs <~ pseq (pentry lim p) ;;
   match emap_build kvs with Some l => pret l | None => pfail DPanic end).
Proof. reflexivity. Qed.

Lemma consumes_pentry {A} lim (p : parser A) : no_grow p -> consumes (pentry lim p).
Proof.
  intros Hp. unfold pentry. apply consumes_bind; [apply consumes_psmall|].
  intros k. ng_tac.
Qed.

Lemma prepeat_fuel_any {A} (p : parser A) :
  consumes p ->
  forall f f' count l, length l < f -> length l < f' ->
  prepeat f count p l = prepeat f' count p l.
Proof.
  intros Hp. induction f as [|f IH]; intros f' count l H H'; [lia|].
  destruct f' as [|f']; [lia|]. cbn [prepeat].
  destruct (count =? 0)%N; [reflexivity|].
  unfold pbind. destruct (p l) as [x r| | | |] eqn:E; try reflexivity.
  apply Hp in E. rewrite (IH f' (count - 1)%N r) by lia. reflexivity.
Qed.

Lemma pedges_loop_fuel_any lim n :
  forall f f' count acc l, length l < f -> length l < f' ->
  pedges_loop f count lim n acc l = pedges_loop f' count lim n acc l.
Proof.
  induction f as [|f IH]; intros f' count acc l H H'; [lia|].
  destruct f' as [|f']; [lia|]. cbn [pedges_loop].
  destruct (count =? 0)%N; [reflexivity|].
  unfold pbind. destruct (pedge lim l) as [x r| | | |] eqn:E; try reflexivity.
  apply consumes_pedge in E.
  destruct (mm_insert n acc (fst x) (snd x)); try reflexivity.
  apply IH; lia.
Qed.

Lemma element_parsers_consume lim n :
  consumes pbyte /\ consumes (psmall lim) /\ consumes (pedge lim) /\
  consumes (pentry lim (psmall lim)) /\
  consumes (pentry lim (pstack lim)) /\
  consumes (pentry lim (pvertex lim n)).
Proof.
  repeat split.
  - apply consumes_byte.
  - apply consumes_psmall.
  - apply consumes_pedge.
  - apply consumes_pentry, consumes_no_grow, consumes_psmall.
  - apply consumes_pentry, consumes_no_grow, consumes_pstack.
  - apply consumes_pentry, consumes_no_grow, consumes_pvertex.
Qed.

Lemma consumes_def A (p : parser A) :
  consumes p <-> forall l a r, p l = DOk a r -> length r < length l.
Proof. reflexivity. Qed.

Lemma pentry_def A lim (p : parser A) :
  pentry lim p = (k <~ psmall lim ;; v <~ p ;; pret (k, v)) /\
  pemap lim p =
  (kvs <~ pseq (pentry lim p) ;;
   match emap_build kvs with Some l => pret l | None => pfail DPanic end).
Proof. split; reflexivity. Qed.

(** ** the predicate, written out *)

Lemma wf_image_state_def lim n_edges g :
  wf_image_state lim n_edges g <->
  (lim <= 18446744073709551616)%N /\
  (N.of_nat n_edges < 18446744073709551616)%N /\
  (N.of_nat (length (g_stores g)) < lim)%N /\
  (N.of_nat (length (g_branches g)) < lim)%N /\
  (N.of_nat (length (g_vertices g)) < lim)%N /\
  Forall (fun c => (N.of_nat c < lim)%N) (g_stores g) /\
  Forall (fun m => length m <= 16 /\ Forall (fun v => (N.of_nat v < lim)%N) m)
         (g_branches g) /\
  Forall (fun x =>
            (N.of_nat (v_branch x) < lim)%N /\
            (wf_hex (v_data x) = true /\
             match v_data x with
             | HVector l => (N.of_nat (length l) < 18446744073709551616)%N
             | HBytes _ k => (N.of_nat k < lim)%N
             end) /\
            NoDup (map fst (v_edges x)) /\
            length (v_edges x) <= n_edges /\
            Forall (fun e => wf_label (fst e) = true /\ (N.of_nat (snd e) < lim)%N)
                   (v_edges x))
         (g_vertices g).
Proof. reflexivity. Qed.

(** ** a concrete state for the non-vacuity examples: a heap datum of ten
    bytes, an inline datum with two used bytes, a vertex with a Greek (two
    UTF-8 bytes) and a string label, a group with two members and two
    unread data, allocator position 3 *)

Definition example_graph : sodg :=
  mkG [0; 0; 2]
      [[0]; [0]; [0; 1]]
      [ mkV 2 (HVector [1; 2; 3; 4; 5; 6; 7; 8; 9; 10]%N) PStored
            [(Greek 961, 1); (LStr [104; 101; 108; 108; 111; 32; 32; 32]%N, 2)];
        mkV 2 (HBytes [202; 254; 0; 0; 0; 0; 0; 0]%N 2) PStored
            [(Alpha 7, 2); (Greek 128512, 0); (Greek 8364, 1)];
        mkV 1 hex_empty PEmpty [] ]
      3.

Definition is_lerr (r : load_result) : bool :=
  match r with LErr => true | _ => false end.
