(** * Effects: what each primitive operation does, stated point-wise on the
    accessors ([tag], [prs], [dat], [edg], [members], [store], [g_next],
    [cap_of]).  No invariant is needed here, only the concrete
    preconditions under which the operation does not panic. *)

From Sodg Require Export Facts Spec.

(** decide the boolean tests on naturals that the setter lemmas introduce *)
Ltac nat_tests :=
  repeat match goal with
         | |- context [Nat.eqb ?a ?b] => destruct (Nat.eqb_spec a b); try subst; try lia
         | |- context [Nat.ltb ?a ?b] => destruct (Nat.ltb_spec a b); try lia
         | H : context [Nat.eqb ?a ?b] |- _ => destruct (Nat.eqb_spec a b); try subst; try lia
         | H : context [Nat.ltb ?a ?b] |- _ => destruct (Nat.ltb_spec a b); try lia
         end; cbn [andb orb negb] in *.

Ltac sodg_rw := autorewrite with sodg in *.

(** the state agrees with [g] on everything but what is listed *)
Record same_except_vertices (g g' : sodg) : Prop := {
  se_cap : cap_of g' = cap_of g;
  se_nb : nb g' = nb g;
  se_ns : ns g' = ns g;
  se_next : g_next g' = g_next g
}.

(** ** kill: the destruction loop *)

Lemma kill_ok : forall ms g,
  (forall m, In m ms -> m < cap_of g) ->
  exists g', kill g ms = Ok g'
    /\ (forall w, tag g' w = if mem w ms then 0 else tag g w)
    /\ (forall w, prs g' w = prs g w) /\ (forall w, dat g' w = dat g w)
    /\ (forall w, edg g' w = edg g w)
    /\ (forall b, members g' b = members g b) /\ (forall b, store g' b = store g b)
    /\ same_except_vertices g g'.
Proof.
  induction ms as [|m t IH]; intros g Hms.
  - exists g. simpl. repeat split; auto.
  - assert (Hm : m < cap_of g) by (apply Hms; left; reflexivity).
    cbn [kill]. rewrite chk_v_ok by exact Hm. cbn [obind].
    destruct (IH (set_tag g m BRANCH_NONE)) as (g' & K & T & P & D & E & M & S & X).
    { intros x Hx. rewrite cap_set_tag. apply Hms. right; exact Hx. }
    exists g'. split; [exact K|]. repeat split.
    + intros w. rewrite T. unfold mem; cbn [existsb]. rewrite tag_set_tag.
      unfold BRANCH_NONE. fold (mem w t).
      destruct (Nat.eqb_spec w m) as [->|Hne].
      * rewrite Nat.eqb_refl. apply Nat.ltb_lt in Hm. rewrite Hm. cbn. destruct (mem m t); reflexivity.
      * apply Nat.eqb_neq in Hne. rewrite Nat.eqb_sym in Hne. rewrite Hne. reflexivity.
    + intros w. rewrite P. apply prs_set_tag.
    + intros w. rewrite D. apply dat_set_tag.
    + intros w. rewrite E. apply edg_set_tag.
    + intros b. rewrite M. reflexivity.
    + intros b. rewrite S. reflexivity.
    + destruct X as [X1 X2 X3 X4]. rewrite X1. apply cap_set_tag.
    + destruct X as [X1 X2 X3 X4]. rewrite X2. reflexivity.
    + destruct X as [X1 X2 X3 X4]. rewrite X3. reflexivity.
    + destruct X as [X1 X2 X3 X4]. rewrite X4. reflexivity.
Qed.

(** ** push_member, add_store *)

Lemma push_member_ok g b v :
  b < nb g -> b < ns g -> length (members g b) < 16 ->
  push_member g b v = Ok (set_members g b (members g b ++ [v])).
Proof.
  intros H1 H2 H3. unfold push_member. rewrite chk_b_ok by assumption. cbn [obind].
  unfold MAX_BRANCH_SIZE. apply Nat.ltb_lt in H3. rewrite H3. reflexivity.
Qed.

Lemma add_store_ok g b n :
  b < nb g -> b < ns g -> add_store g b n = Ok (set_store g b (store g b + n)).
Proof. intros H1 H2. unfold add_store. rewrite chk_b_ok by assumption. reflexivity. Qed.

(** ** mm_insert *)

Lemma mm_insert_ok n e a v :
  mm_get e a <> None \/ length e < n ->
  exists e', mm_insert n e a v = Ok e'
    /\ (forall b, mm_get e' b = if label_eqb a b then Some v else mm_get e b)
    /\ e' = spec_insert e a v.
Proof.
  intros H. unfold mm_insert, spec_insert.
  destruct (mm_replace e a v) as [e'|] eqn:R.
  - exists e'. repeat split; auto. intros b. eapply mm_get_replace; eauto.
  - apply mm_replace_none in R. destruct H as [H|H]; [congruence|].
    apply Nat.ltb_lt in H. rewrite H. eexists. repeat split; auto.
    intros b. apply mm_get_app_fresh; exact R.
Qed.

(** ** find_index / first_empty *)

Lemma first_empty_spec g b :
  first_empty g = Some b ->
  b < nb g /\ members g b = [] /\ forall c, c < b -> members g c <> [].
Proof.
  unfold first_empty, nb, members. intros H.
  destruct (find_index_some isnil (g_branches g) (@nil nat) H) as (H1 & H2 & H3).
  repeat split; auto.
  - destruct (nth b (g_branches g) []); [reflexivity|discriminate].
  - intros c Hc E. specialize (H3 c Hc). rewrite E in H3. discriminate.
Qed.

(** ** bind *)

Lemma bind_uu n g v1 v2 a b :
  v1 < cap_of g -> v2 < cap_of g -> nb g = 16 -> ns g = 16 ->
  tag g v1 = 1 -> tag g v2 = 1 ->
  (mm_get (edg g v1) a <> None \/ length (edg g v1) < n) ->
  first_empty g = Some b ->
  exists g', op_bind n g v1 v2 a = Ok g'
    /\ (forall w, tag g' w = if (w =? v1) || (w =? v2) then b else tag g w)
    /\ (forall w, prs g' w = prs g w) /\ (forall w, dat g' w = dat g w)
    /\ (forall w, edg g' w = if w =? v1 then spec_insert (edg g v1) a v2 else edg g w)
    /\ (forall c, members g' c = if c =? b then [v1; v2] else members g c)
    /\ (forall c, store g' c =
                  if c =? b then store g b + (b2n (is_stored g v1) + b2n (is_stored g v2))
                  else store g c)
    /\ same_except_vertices g g'.
Proof.
  intros H1 H2 Hnb Hns T1 T2 He Hf.
  destruct (first_empty_spec g b Hf) as (Hb & Hmb & _).
  destruct (mm_insert_ok n (edg g v1) a v2 He) as (e' & Hi & _ & He').
  unfold op_bind. rewrite !chk_v_ok by assumption. cbn [obind]. rewrite Hi. cbn [obind].
  rewrite T1, T2. unfold BRANCH_STATIC. cbn [Nat.eqb].
  assert (Hf1 : first_empty (set_edges g v1 e') = Some b) by exact Hf. rewrite Hf1.
  set (g3 := set_tag (set_tag (set_members (set_edges g v1 e') b [v1]) v1 b) v2 b).
  assert (Hm3 : members g3 b = [v1]).
  { unfold g3. sodg_rw. rewrite Nat.eqb_refl. apply Nat.ltb_lt in Hb. rewrite Hb. reflexivity. }
  rewrite (push_member_ok g3 b v2).
  2:{ unfold g3. sodg_rw. exact Hb. }
  2:{ unfold g3. sodg_rw. lia. }
  2:{ rewrite Hm3. simpl; lia. }
  cbn [obind]. rewrite Hm3. rewrite add_store_ok.
  2:{ unfold g3. sodg_rw. exact Hb. }
  2:{ unfold g3. sodg_rw. lia. }
  eexists. split; [reflexivity|]. subst e'. unfold g3.
  repeat split; intros; sodg_rw; nat_tests; try reflexivity; try lia.
Qed.

Lemma bind_ug n g v1 v2 a :
  v1 < cap_of g -> v2 < cap_of g -> nb g = 16 -> ns g = 16 ->
  tag g v1 = 1 -> tag g v2 <> 1 -> tag g v2 < 16 ->
  (mm_get (edg g v1) a <> None \/ length (edg g v1) < n) ->
  length (members g (tag g v2)) < 16 ->
  exists g', op_bind n g v1 v2 a = Ok g'
    /\ (forall w, tag g' w = if w =? v1 then tag g v2 else tag g w)
    /\ (forall w, prs g' w = prs g w) /\ (forall w, dat g' w = dat g w)
    /\ (forall w, edg g' w = if w =? v1 then spec_insert (edg g v1) a v2 else edg g w)
    /\ (forall c, members g' c = if c =? tag g v2 then members g c ++ [v1] else members g c)
    /\ (forall c, store g' c = if c =? tag g v2 then store g c + b2n (is_stored g v1) else store g c)
    /\ same_except_vertices g g'.
Proof.
  intros H1 H2 Hnb Hns T1 T2 T2b He Hlen.
  destruct (mm_insert_ok n (edg g v1) a v2 He) as (e' & Hi & _ & He').
  unfold op_bind. rewrite !chk_v_ok by assumption. cbn [obind]. rewrite Hi. cbn [obind].
  rewrite T1. unfold BRANCH_STATIC. cbn [Nat.eqb].
  apply Nat.eqb_neq in T2. rewrite T2.
  set (t := tag g v2) in *.
  set (g2 := set_tag (set_edges g v1 e') v1 t).
  assert (Hm2 : members g2 t = members g t) by (unfold g2; sodg_rw; reflexivity).
  rewrite (push_member_ok g2 t v1).
  2:{ unfold g2. sodg_rw. lia. }
  2:{ unfold g2. sodg_rw. lia. }
  2:{ rewrite Hm2. exact Hlen. }
  cbn [obind]. rewrite add_store_ok.
  2:{ unfold g2. sodg_rw. lia. }
  2:{ unfold g2. sodg_rw. lia. }
  eexists. split; [reflexivity|]. subst e'. unfold g2.
  repeat split; intros; sodg_rw; nat_tests; try reflexivity; try lia.
Qed.

Lemma bind_gu n g v1 v2 a :
  v1 < cap_of g -> v2 < cap_of g -> nb g = 16 -> ns g = 16 ->
  tag g v1 <> 1 -> tag g v2 = 1 -> tag g v1 < 16 ->
  (mm_get (edg g v1) a <> None \/ length (edg g v1) < n) ->
  length (members g (tag g v1)) < 16 ->
  exists g', op_bind n g v1 v2 a = Ok g'
    /\ (forall w, tag g' w = if w =? v2 then tag g v1 else tag g w)
    /\ (forall w, prs g' w = prs g w) /\ (forall w, dat g' w = dat g w)
    /\ (forall w, edg g' w = if w =? v1 then spec_insert (edg g v1) a v2 else edg g w)
    /\ (forall c, members g' c = if c =? tag g v1 then members g c ++ [v2] else members g c)
    /\ (forall c, store g' c = if c =? tag g v1 then store g c + b2n (is_stored g v2) else store g c)
    /\ same_except_vertices g g'.
Proof.
  intros H1 H2 Hnb Hns T1 T2 T1b He Hlen.
  destruct (mm_insert_ok n (edg g v1) a v2 He) as (e' & Hi & _ & He').
  unfold op_bind. rewrite !chk_v_ok by assumption. cbn [obind]. rewrite Hi. cbn [obind].
  apply Nat.eqb_neq in T1. unfold BRANCH_STATIC. rewrite T1.
  rewrite tag_set_edges. rewrite T2. cbn [Nat.eqb].
  set (t := tag g v1) in *.
  set (g2 := set_tag (set_edges g v1 e') v2 t).
  assert (Hm2 : members g2 t = members g t) by (unfold g2; sodg_rw; reflexivity).
  rewrite (push_member_ok g2 t v2).
  2:{ unfold g2. sodg_rw. lia. }
  2:{ unfold g2. sodg_rw. lia. }
  2:{ rewrite Hm2. exact Hlen. }
  cbn [obind]. rewrite add_store_ok.
  2:{ unfold g2. sodg_rw. lia. }
  2:{ unfold g2. sodg_rw. lia. }
  eexists. split; [reflexivity|]. subst e'. unfold g2.
  repeat split; intros; sodg_rw; nat_tests; try reflexivity; try lia.
Qed.

Lemma bind_gg n g v1 v2 a :
  v1 < cap_of g -> v2 < cap_of g ->
  tag g v1 <> 1 -> tag g v2 <> 1 ->
  (mm_get (edg g v1) a <> None \/ length (edg g v1) < n) ->
  exists g', op_bind n g v1 v2 a = Ok g'
    /\ (forall w, tag g' w = tag g w)
    /\ (forall w, prs g' w = prs g w) /\ (forall w, dat g' w = dat g w)
    /\ (forall w, edg g' w = if w =? v1 then spec_insert (edg g v1) a v2 else edg g w)
    /\ (forall c, members g' c = members g c)
    /\ (forall c, store g' c = store g c)
    /\ same_except_vertices g g'.
Proof.
  intros H1 H2 T1 T2 He.
  destruct (mm_insert_ok n (edg g v1) a v2 He) as (e' & Hi & _ & He').
  unfold op_bind. rewrite !chk_v_ok by assumption. cbn [obind]. rewrite Hi. cbn [obind].
  apply Nat.eqb_neq in T1, T2. unfold BRANCH_STATIC. rewrite T1.
  rewrite tag_set_edges. rewrite T2.
  eexists. split; [reflexivity|]. subst e'.
  repeat split; intros; sodg_rw; nat_tests; try reflexivity; try lia.
Qed.

(** ** put *)

Lemma put_effect g v d :
  v < cap_of g -> tag g v < nb g -> tag g v < ns g ->
  exists g', op_put g v d = Ok g'
    /\ (forall w, tag g' w = tag g w)
    /\ (forall w, prs g' w = if w =? v then PStored else prs g w)
    /\ (forall w, dat g' w = if w =? v then d else dat g w)
    /\ (forall w, edg g' w = edg g w)
    /\ (forall c, members g' c = members g c)
    /\ (forall c, store g' c =
                  if (c =? tag g v) && (negb (is_stored g v) && negb (tag g v =? 1))
                  then store g c + 1 else store g c)
    /\ same_except_vertices g g'.
Proof.
  intros Hv Hb Hs. unfold op_put. rewrite chk_v_ok by exact Hv. cbn [obind].
  change (v_branch (vtx g v)) with (tag g v). change (v_pers (vtx g v)) with (prs g v).
  change (v_edges (vtx g v)) with (edg g v). change (pers_eqb (prs g v) PStored) with (is_stored g v).
  unfold BRANCH_STATIC.
  set (g1 := set_vtx g v (mkV (tag g v) d PStored (edg g v))).
  assert (A : forall w, vtx g1 w = if w =? v then mkV (tag g v) d PStored (edg g v) else vtx g w).
  { intros w. unfold g1. rewrite vtx_set_vtx. apply Nat.ltb_lt in Hv. rewrite Hv.
    rewrite Nat.eqb_sym. destruct (w =? v); reflexivity. }
  assert (At : forall w, tag g1 w = tag g w).
  { intros w. unfold tag. rewrite A. destruct (Nat.eqb_spec w v) as [->|]; reflexivity. }
  assert (Ap : forall w, prs g1 w = if w =? v then PStored else prs g w).
  { intros w. unfold prs. rewrite A. destruct (Nat.eqb_spec w v) as [->|]; reflexivity. }
  assert (Ad : forall w, dat g1 w = if w =? v then d else dat g w).
  { intros w. unfold dat. rewrite A. destruct (Nat.eqb_spec w v) as [->|]; reflexivity. }
  assert (Ae : forall w, edg g1 w = edg g w).
  { intros w. unfold edg. rewrite A. destruct (Nat.eqb_spec w v) as [->|]; reflexivity. }
  assert (X1 : same_except_vertices g g1).
  { split; try reflexivity. unfold g1. apply cap_set_vtx. }
  destruct (negb (is_stored g v) && negb (tag g v =? 1)) eqn:C.
  - rewrite add_store_ok by (unfold g1; sodg_rw; assumption).
    eexists. split; [reflexivity|].
    repeat split; intros; sodg_rw; auto.
    + change (ns g1) with (ns g). change (store g1 (tag g v)) with (store g (tag g v)).
      change (store g1 c) with (store g c).
      destruct (Nat.eqb_spec (tag g v) c) as [<-|Hne].
      * rewrite Nat.eqb_refl. apply Nat.ltb_lt in Hs. rewrite Hs. reflexivity.
      * apply Nat.eqb_neq in Hne. rewrite Nat.eqb_sym in Hne. rewrite Hne. reflexivity.
    + apply X1.
  - exists g1. split; [reflexivity|].
    repeat split; intros; auto; try apply X1.
    rewrite andb_false_r. reflexivity.
Qed.

(** ** data *)

Lemma data_empty g v : v < cap_of g -> prs g v = PEmpty -> op_data g v = Ok (g, None).
Proof.
  intros Hv Hp. unfold op_data. rewrite chk_v_ok by exact Hv. cbn [obind].
  fold (prs g v). rewrite Hp. reflexivity.
Qed.

Lemma data_taken g v : v < cap_of g -> prs g v = PTaken -> op_data g v = Ok (g, Some (dat g v)).
Proof.
  intros Hv Hp. unfold op_data. rewrite chk_v_ok by exact Hv. cbn [obind].
  fold (prs g v). rewrite Hp. reflexivity.
Qed.

Lemma data_stored_static g v :
  v < cap_of g -> prs g v = PStored -> tag g v = 1 ->
  op_data g v = Ok (set_prs g v PTaken, Some (dat g v)).
Proof.
  intros Hv Hp Ht. unfold op_data. rewrite chk_v_ok by exact Hv. cbn [obind].
  fold (prs g v). rewrite Hp. fold (tag g v). rewrite Ht. reflexivity.
Qed.

Lemma data_stored_keep g v :
  v < cap_of g -> prs g v = PStored -> tag g v <> 1 -> tag g v < nb g -> tag g v < ns g ->
  2 <= store g (tag g v) ->
  op_data g v = Ok (set_store (set_prs g v PTaken) (tag g v) (store g (tag g v) - 1), Some (dat g v)).
Proof.
  intros Hv Hp Ht Hb Hs Hc. unfold op_data. rewrite chk_v_ok by exact Hv. cbn [obind].
  fold (prs g v). rewrite Hp. fold (tag g v). fold (dat g v).
  apply Nat.eqb_neq in Ht. unfold BRANCH_STATIC. rewrite Ht.
  rewrite chk_b_ok by (sodg_rw; assumption). cbn [obind]. rewrite store_set_prs.
  destruct (Nat.eqb_spec (store g (tag g v)) 0); [lia|].
  destruct (Nat.eqb_spec (store g (tag g v) - 1) 0); [lia|]. reflexivity.
Qed.

Lemma data_stored_last g v :
  v < cap_of g -> prs g v = PStored -> tag g v <> 1 -> tag g v < nb g -> tag g v < ns g ->
  store g (tag g v) = 1 ->
  (forall m, In m (members g (tag g v)) -> m < cap_of g) ->
  exists g', op_data g v = Ok (g', Some (dat g v))
    /\ (forall w, tag g' w = if mem w (members g (tag g v)) then 0 else tag g w)
    /\ (forall w, prs g' w = if w =? v then PTaken else prs g w)
    /\ (forall w, dat g' w = dat g w) /\ (forall w, edg g' w = edg g w)
    /\ (forall c, members g' c = if c =? tag g v then [] else members g c)
    /\ (forall c, store g' c = if c =? tag g v then 0 else store g c)
    /\ same_except_vertices g g'.
Proof.
  intros Hv Hp Ht Hb Hs Hc Hms. unfold op_data. rewrite chk_v_ok by exact Hv. cbn [obind].
  fold (prs g v). rewrite Hp. fold (tag g v). fold (dat g v).
  apply Nat.eqb_neq in Ht. unfold BRANCH_STATIC. rewrite Ht.
  rewrite chk_b_ok by (sodg_rw; assumption). cbn [obind]. rewrite store_set_prs, Hc. cbn [Nat.eqb Nat.sub].
  set (b := tag g v) in *.
  set (g2 := set_store (set_prs g v PTaken) b 0).
  assert (M2 : members g2 b = members g b) by reflexivity. rewrite M2.
  destruct (kill_ok (members g b) g2) as (g3 & K & T & P & D & E & M & S & X).
  { intros m Hm. unfold g2. sodg_rw. apply Hms; exact Hm. }
  rewrite K. cbn [obind]. eexists. split; [reflexivity|].
  destruct X as [X1 X2 X3 X4].
  repeat split; intros; sodg_rw.
  - rewrite T. unfold g2. sodg_rw. reflexivity.
  - rewrite P. unfold g2. sodg_rw. rewrite Nat.eqb_sym. apply Nat.ltb_lt in Hv. rewrite Hv.
    rewrite andb_true_r. reflexivity.
  - rewrite D. unfold g2. sodg_rw. reflexivity.
  - rewrite E. unfold g2. sodg_rw. reflexivity.
  - rewrite X2. unfold g2. sodg_rw. rewrite M. unfold g2. sodg_rw. rewrite Nat.eqb_sym.
    apply Nat.ltb_lt in Hb. rewrite Hb. rewrite andb_true_r. reflexivity.
  - rewrite S. unfold g2. sodg_rw. rewrite Nat.eqb_sym. apply Nat.ltb_lt in Hs. rewrite Hs.
    rewrite andb_true_r. reflexivity.
  - rewrite X1. unfold g2. sodg_rw. reflexivity.
  - rewrite X2. unfold g2. sodg_rw. reflexivity.
  - rewrite X3. unfold g2. sodg_rw. reflexivity.
  - rewrite X4. unfold g2. sodg_rw. reflexivity.
Qed.

(** ** next_id *)

Lemma find_seq_least (p : nat -> bool) : forall len s id,
  find p (seq s len) = Some id -> forall w, s <= w -> w < id -> p w = false.
Proof.
  induction len as [|len IH]; intros s id F w Hw1 Hw2; simpl in F; [discriminate|].
  destruct (p s) eqn:C.
  - inversion F; subst. lia.
  - destruct (Nat.eq_dec w s) as [->|Hne]; [exact C|].
    apply (IH (S s) id F); lia.
Qed.

Lemma next_id_effect g :
  (exists id, g_next g <= id /\ id < cap_of g /\ tag g id = 0) ->
  exists id, op_next_id g = Ok (set_next g (S id), id)
    /\ g_next g <= id /\ id < cap_of g /\ tag g id = 0
    /\ (forall w, g_next g <= w -> w < id -> tag g w <> 0).
Proof.
  intros (x & Hx1 & Hx2 & Hx3). unfold op_next_id.
  destruct (find _ _) as [id|] eqn:F.
  - exists id. pose proof (find_some _ _ F) as [Hin Hp].
    unfold iota in Hin. apply in_seq in Hin. apply andb_true_iff in Hp as [Hp1 Hp2].
    apply Nat.eqb_eq in Hp1. apply Nat.leb_le in Hp2.
    split.
    + replace (id + 1) with (S id) by lia.
      destruct (Nat.ltb_spec (g_next g) (S id)); [reflexivity|lia].
    + repeat split; try lia; try assumption.
      intros w Hw1 Hw2 Hw3.
      unfold iota in F. pose proof (find_seq_least _ _ _ _ F w (Nat.le_0_l w) Hw2) as Q.
      cbn beta in Q. apply Nat.eqb_eq in Hw3. apply Nat.leb_le in Hw1. rewrite Hw3, Hw1 in Q. discriminate.
  - exfalso. eapply find_none in F.
    2:{ unfold iota. apply in_seq. split; [lia|]. simpl. exact Hx2. }
    cbn beta in F. apply Nat.eqb_eq in Hx3. apply Nat.leb_le in Hx1. rewrite Hx3, Hx1 in F. discriminate.
Qed.
