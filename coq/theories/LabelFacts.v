(** * LabelFacts: lemmas about [label_print] / [label_from_str] (property C17).

    Contents
    - decimal round trip: [parse_digits 0 (print_dec n) = Some n] and
      [parse_usize (print_dec n) = Some n] for [n <= usize_max];
    - shape of [print_dec n]: non-empty, all ASCII digits, no sign, no
      leading zero (unless it is "0"), and the converse ([canon_dec_iff]);
    - the predicates [no_space], [canon_dec], [valid_text], [canonical];
    - the two round trips, injectivity, the rejection lemmas, a complete
      characterisation of the texts [parse_usize] rejects;
    - look-up of an edge under a parsed name ([mm_get], [mm_insert]).

    Stdlib only, no axioms. *)

From Sodg Require Import Base Text Label Sodg.
From Coq Require Import DecimalN DecimalPos DecimalFacts.

Set Implicit Arguments.

(* ------------------------------------------------------------------ *)
(** ** 1. Decimal digits *)

(** Horner evaluation of a [Decimal.uint], most significant digit first,
    exactly as [parse_digits] accumulates. *)
Fixpoint uval (acc : N) (u : Decimal.uint) : N :=
  match u with
  | Decimal.Nil => acc
  | Decimal.D0 u => uval (acc * 10 + 0) u
  | Decimal.D1 u => uval (acc * 10 + 1) u
  | Decimal.D2 u => uval (acc * 10 + 2) u
  | Decimal.D3 u => uval (acc * 10 + 3) u
  | Decimal.D4 u => uval (acc * 10 + 4) u
  | Decimal.D5 u => uval (acc * 10 + 5) u
  | Decimal.D6 u => uval (acc * 10 + 6) u
  | Decimal.D7 u => uval (acc * 10 + 7) u
  | Decimal.D8 u => uval (acc * 10 + 8) u
  | Decimal.D9 u => uval (acc * 10 + 9) u
  end%N.

Lemma parse_digits_uint u : forall acc,
  parse_digits acc (uint_digits u) = Some (uval acc u).
Proof.
  induction u as [|u IH|u IH|u IH|u IH|u IH|u IH|u IH|u IH|u IH|u IH];
    intros acc; cbn [uint_digits parse_digits uval]; [reflexivity|..];
    match goal with |- context [is_digit ?c] => change (is_digit c) with true end;
    cbv iota; rewrite IH; reflexivity.
Qed.

Lemma uval_of_uint_acc u : forall p,
  uval (Npos p) u = Npos (Pos.of_uint_acc u p).
Proof.
  induction u as [|u IH|u IH|u IH|u IH|u IH|u IH|u IH|u IH|u IH|u IH];
    intros p; cbn [uval Pos.of_uint_acc]; [reflexivity|..];
    rewrite <- IH; f_equal; lia.
Qed.

Lemma uval_of_uint u : uval 0 u = N.of_uint u.
Proof.
  unfold N.of_uint.
  induction u as [|u IH|u IH|u IH|u IH|u IH|u IH|u IH|u IH|u IH|u IH];
    cbn [uval Pos.of_uint]; [reflexivity | exact IH |..];
    rewrite <- uval_of_uint_acc; reflexivity.
Qed.

(** the key fact: reading back the printed decimal gives the number *)
Lemma parse_digits_print_dec n : parse_digits 0 (print_dec n) = Some n.
Proof.
  unfold print_dec.
  rewrite parse_digits_uint, uval_of_uint, DecimalN.Unsigned.of_to.
  reflexivity.
Qed.

Lemma uint_digits_all_digits u : forallb is_digit (uint_digits u) = true.
Proof.
  induction u as [|u IH|u IH|u IH|u IH|u IH|u IH|u IH|u IH|u IH|u IH];
    cbn [uint_digits forallb]; [reflexivity|..]; rewrite IH; reflexivity.
Qed.

Lemma print_dec_all_digits n : forallb is_digit (print_dec n) = true.
Proof. apply uint_digits_all_digits. Qed.

Lemma uint_digits_nil u : uint_digits u = [] -> u = Decimal.Nil.
Proof. destruct u; cbn [uint_digits]; intros H; [reflexivity | discriminate H ..]. Qed.

Lemma to_uint_nonnil n : N.to_uint n <> Decimal.Nil.
Proof.
  destruct n as [|p]; cbn [N.to_uint].
  - discriminate.
  - apply DecimalPos.Unsigned.to_uint_nonnil.
Qed.

Lemma print_dec_nonempty n : print_dec n <> [].
Proof.
  unfold print_dec. intros H. apply uint_digits_nil in H.
  exact (to_uint_nonnil n H).
Qed.

Lemma is_digit_bounds c : is_digit c = true <-> (48 <= c <= 57)%N.
Proof.
  unfold is_digit. rewrite andb_true_iff, !N.leb_le. reflexivity.
Qed.

Lemma is_digit_not_plus c : is_digit c = true -> (c =? ch_plus)%N = false.
Proof.
  intros H. apply is_digit_bounds in H. apply N.eqb_neq. unfold ch_plus. lia.
Qed.

Lemma is_digit_not_space c : is_digit c = true -> c <> ch_space.
Proof. intros H. apply is_digit_bounds in H. unfold ch_space. lia. Qed.

Lemma is_digit_not_alpha c : is_digit c = true -> c <> ch_alpha.
Proof. intros H. apply is_digit_bounds in H. unfold ch_alpha. lia. Qed.

(** [print_dec n] is a digit followed by digits *)
Lemma print_dec_cons n :
  exists c r, print_dec n = c :: r /\ is_digit c = true /\ forallb is_digit r = true.
Proof.
  pose proof (print_dec_nonempty n) as Hne.
  pose proof (print_dec_all_digits n) as Hd.
  destruct (print_dec n) as [|c r]; [congruence|].
  cbn [forallb] in Hd. apply andb_true_iff in Hd as [Hc Hr].
  exists c, r; auto.
Qed.

(** no sign *)
Lemma print_dec_no_plus n : hd 0%N (print_dec n) <> ch_plus.
Proof.
  destruct (print_dec_cons n) as (c & r & E & Hc & _). rewrite E. cbn [hd].
  apply N.eqb_neq, is_digit_not_plus, Hc.
Qed.

(** ** 2. [parse_usize] *)

(** the text after the optional sign *)
Definition strip_plus (l : text) : text :=
  match l with
  | c :: t => if (c =? ch_plus)%N then t else l
  | [] => []
  end.

Lemma parse_usize_unfold l :
  parse_usize l =
  match strip_plus l with
  | [] => None
  | _ :: _ => match parse_digits 0 (strip_plus l) with
              | Some n => if (n <=? usize_max)%N then Some n else None
              | None => None
              end
  end.
Proof. reflexivity. Qed.

Lemma strip_plus_digit c r : is_digit c = true -> strip_plus (c :: r) = c :: r.
Proof. intros H. cbn [strip_plus]. rewrite (is_digit_not_plus _ H). reflexivity. Qed.

Lemma strip_plus_plus r : strip_plus (ch_plus :: r) = r.
Proof. reflexivity. Qed.

Lemma strip_plus_print_dec n : strip_plus (print_dec n) = print_dec n.
Proof.
  destruct (print_dec_cons n) as (c & r & E & Hc & _). rewrite E.
  apply strip_plus_digit, Hc.
Qed.

(** exact specification of success *)
Lemma parse_usize_some_iff l n :
  parse_usize l = Some n <->
  strip_plus l <> [] /\ parse_digits 0 (strip_plus l) = Some n /\ (n <= usize_max)%N.
Proof.
  rewrite parse_usize_unfold.
  destruct (strip_plus l) as [|c r] eqn:E.
  - split; [discriminate | intros (H & _); congruence].
  - destruct (parse_digits 0 (c :: r)) as [m|].
    + destruct (N.leb_spec m usize_max) as [Hle|Hgt]; split.
      * intros H; inversion H; subst. repeat split; auto; discriminate.
      * intros (_ & H & _); exact H.
      * discriminate.
      * intros (_ & H & Hle). inversion H; subst. lia.
    + split; [discriminate | intros (_ & H & _); discriminate H].
Qed.

(** the decimal round trip through [usize::from_str] *)
Lemma parse_usize_print_dec n :
  (n <= usize_max)%N -> parse_usize (print_dec n) = Some n.
Proof.
  intros Hn. apply parse_usize_some_iff. rewrite strip_plus_print_dec.
  repeat split; auto using print_dec_nonempty, parse_digits_print_dec.
Qed.

(** an explicit sign is accepted too (but is never printed) *)
Lemma parse_usize_plus_print_dec n :
  (n <= usize_max)%N -> parse_usize (ch_plus :: print_dec n) = Some n.
Proof.
  intros Hn. apply parse_usize_some_iff. rewrite strip_plus_plus.
  repeat split; auto using print_dec_nonempty, parse_digits_print_dec.
Qed.

(** *** malformed indices *)

Lemma parse_usize_empty : parse_usize [] = None.
Proof. reflexivity. Qed.

Lemma parse_usize_plus_only : parse_usize [ch_plus] = None.
Proof. reflexivity. Qed.

Lemma parse_digits_nondigit l : forall acc c,
  In c l -> is_digit c = false -> parse_digits acc l = None.
Proof.
  induction l as [|x t IH]; intros acc c Hin Hc; [destruct Hin|].
  cbn [parse_digits]. destruct (is_digit x) eqn:Hx; [|reflexivity].
  destruct Hin as [->|Hin]; [congruence|]. eapply IH; eauto.
Qed.

Lemma parse_digits_all_digits l : forall acc,
  forallb is_digit l = true -> exists n, parse_digits acc l = Some n.
Proof.
  induction l as [|x t IH]; intros acc H; cbn [parse_digits].
  - eauto.
  - cbn [forallb] in H. apply andb_true_iff in H as [Hx Ht]. rewrite Hx. apply IH, Ht.
Qed.

Lemma parse_digits_none_iff l acc :
  parse_digits acc l = None <-> exists c, In c l /\ is_digit c = false.
Proof.
  split.
  - intros H. destruct (forallb is_digit l) eqn:E.
    + destruct (parse_digits_all_digits l acc E) as (n & Hn). congruence.
    + assert (Hex : existsb (fun c => negb (is_digit c)) l = true).
      { clear H. induction l as [|x t IH]; [discriminate|].
        cbn [forallb existsb] in *. destruct (is_digit x); cbn [negb andb orb] in *; auto. }
      apply existsb_exists in Hex as (c & Hin & Hc).
      exists c; split; auto. now apply negb_true_iff.
  - intros (c & Hin & Hc). eapply parse_digits_nondigit; eauto.
Qed.

(** some character after the optional sign is not an ASCII digit *)
Lemma parse_usize_nondigit l c :
  In c (strip_plus l) -> is_digit c = false -> parse_usize l = None.
Proof.
  intros Hin Hc. rewrite parse_usize_unfold.
  destruct (strip_plus l) as [|x t] eqn:E; [reflexivity|].
  rewrite (parse_digits_nondigit (x :: t) 0%N c Hin Hc). reflexivity.
Qed.

(** the two concrete shapes of the above *)
Lemma parse_usize_nondigit_unsigned l c :
  hd 0%N l <> ch_plus -> In c l -> is_digit c = false -> parse_usize l = None.
Proof.
  intros Hhd Hin Hc. apply parse_usize_nondigit with c; auto.
  destruct l as [|x t]; [destruct Hin|]. cbn [hd] in Hhd. cbn [strip_plus].
  apply N.eqb_neq in Hhd. rewrite Hhd. exact Hin.
Qed.

Lemma parse_usize_nondigit_signed l c :
  In c l -> is_digit c = false -> parse_usize (ch_plus :: l) = None.
Proof. intros Hin Hc. apply parse_usize_nondigit with c; auto. Qed.

(** all digits, but the value does not fit a [usize] *)
Lemma parse_usize_overflow l n :
  parse_digits 0 (strip_plus l) = Some n -> (usize_max < n)%N -> parse_usize l = None.
Proof.
  intros Hp Hn. rewrite parse_usize_unfold, Hp.
  destruct (strip_plus l); [reflexivity|].
  destruct (N.leb_spec n usize_max); [lia | reflexivity].
Qed.

Lemma parse_usize_overflow_print_dec n :
  (usize_max < n)%N -> parse_usize (print_dec n) = None.
Proof.
  intros Hn. apply parse_usize_overflow with n; auto.
  rewrite strip_plus_print_dec. apply parse_digits_print_dec.
Qed.

Lemma parse_usize_overflow_plus_print_dec n :
  (usize_max < n)%N -> parse_usize (ch_plus :: print_dec n) = None.
Proof.
  intros Hn. apply parse_usize_overflow with n; auto.
  rewrite strip_plus_plus. apply parse_digits_print_dec.
Qed.

(** the four cases are exhaustive *)
Lemma parse_usize_none_iff l :
  parse_usize l = None <->
  l = [] \/ l = [ch_plus] \/
  (exists c, In c (strip_plus l) /\ is_digit c = false) \/
  (exists n, parse_digits 0 (strip_plus l) = Some n /\ (usize_max < n)%N).
Proof.
  split.
  - intros H. destruct l as [|x t]; [auto|].
    destruct (strip_plus (x :: t)) as [|y s] eqn:E.
    + right; left. cbn [strip_plus] in E.
      destruct (N.eqb_spec x ch_plus) as [->|Hne]; [subst; reflexivity | discriminate E].
    + right; right. rewrite parse_usize_unfold, E in H. cbv iota in H.
      destruct (parse_digits 0 (y :: s)) as [n|] eqn:P.
      * right. exists n; split; auto.
        destruct (N.leb_spec n usize_max); [discriminate H | lia].
      * left. apply parse_digits_none_iff in P. exact P.
  - intros [->|[->|[(c & Hin & Hc)|(n & Hp & Hn)]]].
    + reflexivity.
    + reflexivity.
    + eapply parse_usize_nondigit; eauto.
    + eapply parse_usize_overflow; eauto.
Qed.

(* ------------------------------------------------------------------ *)
(** ** 3. Canonical decimal texts: no sign, no leading zero *)

Definition canon_dec (d : text) (n : N) : Prop := d = print_dec n.

(** inverse of [uint_digits] on all-digit texts *)
Fixpoint text_uint (l : text) : Decimal.uint :=
  match l with
  | [] => Decimal.Nil
  | c :: t =>
      let u := text_uint t in
      if (c =? 48)%N then Decimal.D0 u else if (c =? 49)%N then Decimal.D1 u
      else if (c =? 50)%N then Decimal.D2 u else if (c =? 51)%N then Decimal.D3 u
      else if (c =? 52)%N then Decimal.D4 u else if (c =? 53)%N then Decimal.D5 u
      else if (c =? 54)%N then Decimal.D6 u else if (c =? 55)%N then Decimal.D7 u
      else if (c =? 56)%N then Decimal.D8 u else Decimal.D9 u
  end.

Lemma uint_digits_text_uint l :
  forallb is_digit l = true -> uint_digits (text_uint l) = l.
Proof.
  induction l as [|c t IH]; [reflexivity|].
  cbn [forallb text_uint]. intros H. apply andb_true_iff in H as [Hc Ht].
  apply is_digit_bounds in Hc.
  repeat (match goal with
          | |- context [(c =? ?k)%N] => destruct (N.eqb_spec c k) as [->|?]
          end; [cbn [uint_digits]; rewrite (IH Ht); reflexivity|]).
  cbn [uint_digits]. rewrite (IH Ht). f_equal. lia.
Qed.

(** [N.to_uint n] is in normal form *)
Lemma to_uint_unorm n : Decimal.unorm (N.to_uint n) = N.to_uint n.
Proof.
  rewrite <- (DecimalN.Unsigned.to_of (N.to_uint n)).
  rewrite DecimalN.Unsigned.of_to. reflexivity.
Qed.

Lemma nzhead_shape u :
  match Decimal.nzhead u with Decimal.D0 _ => False | _ => True end.
Proof. induction u; cbn [Decimal.nzhead]; auto. Qed.

Lemma unorm_shape u :
  Decimal.unorm u = Decimal.zero \/
  match Decimal.unorm u with Decimal.Nil | Decimal.D0 _ => False | _ => True end.
Proof.
  unfold Decimal.unorm. pose proof (nzhead_shape u) as H.
  destruct (Decimal.nzhead u); auto; contradiction.
Qed.

(** no leading zero, except for the text "0" itself *)
Lemma print_dec_no_leading_zero n :
  print_dec n = [48%N] \/ hd 0%N (print_dec n) <> 48%N.
Proof.
  unfold print_dec. rewrite <- to_uint_unorm.
  destruct (unorm_shape (N.to_uint n)) as [E|H].
  - left. rewrite E. reflexivity.
  - right. destruct (Decimal.unorm (N.to_uint n)); try contradiction;
      cbn [uint_digits hd]; discriminate.
Qed.

Lemma unorm_id_text l :
  forallb is_digit l = true -> l <> [] ->
  (l = [48%N] \/ hd 0%N l <> 48%N) ->
  Decimal.unorm (text_uint l) = text_uint l.
Proof.
  intros Hd Hne [->|Hhd]; [reflexivity|].
  destruct l as [|c t]; [congruence|]. cbn [hd] in Hhd.
  cbn [text_uint]. apply N.eqb_neq in Hhd. rewrite Hhd.
  repeat (match goal with
          | |- context [(c =? ?k)%N] => destruct (c =? k)%N
          end; [reflexivity|]).
  reflexivity.
Qed.

(** Characterisation: [d] is the canonical decimal text of [n] exactly when
    it is a non-empty all-digit text (hence has no sign), has no leading
    zero unless it is "0", and its value is [n]. *)
Lemma canon_dec_iff d n :
  canon_dec d n <->
  d <> [] /\ forallb is_digit d = true /\
  (d = [48%N] \/ hd 0%N d <> 48%N) /\ parse_digits 0 d = Some n.
Proof.
  unfold canon_dec. split.
  - intros ->. repeat split.
    + apply print_dec_nonempty.
    + apply print_dec_all_digits.
    + apply print_dec_no_leading_zero.
    + apply parse_digits_print_dec.
  - intros (Hne & Hd & Hz & Hp).
    rewrite <- (uint_digits_text_uint d Hd) in Hp.
    rewrite parse_digits_uint, uval_of_uint in Hp. inversion Hp as [Hn].
    unfold print_dec. rewrite DecimalN.Unsigned.to_of.
    rewrite (unorm_id_text Hd Hne Hz). symmetry. apply uint_digits_text_uint, Hd.
Qed.

Lemma canon_dec_inj d n m : canon_dec d n -> canon_dec d m -> n = m.
Proof.
  unfold canon_dec. intros -> E.
  pose proof (parse_digits_print_dec n) as H. rewrite E, parse_digits_print_dec in H.
  congruence.
Qed.

(* ------------------------------------------------------------------ *)
(** ** 4. Texts without spaces *)

Definition no_space (t : text) : Prop := Forall (fun c => c <> ch_space) t.

Definition no_spaceb (t : text) : bool :=
  forallb (fun c => negb (c =? ch_space)%N) t.

Lemma no_spaceb_spec t : no_spaceb t = true <-> no_space t.
Proof.
  unfold no_spaceb, no_space. rewrite forallb_forall, Forall_forall.
  split; intros H c Hin.
  - apply N.eqb_neq. apply negb_true_iff. auto.
  - apply negb_true_iff. apply N.eqb_neq. auto.
Qed.

Notation keep_nonspace := (fun c : N => negb (c =? ch_space)%N).

Lemma filter_no_space t : no_space t -> filter keep_nonspace t = t.
Proof.
  induction 1 as [|c t Hc _ IH]; [reflexivity|].
  cbn [filter]. apply N.eqb_neq in Hc. rewrite Hc. cbn [negb]. f_equal. exact IH.
Qed.

Lemma filter_repeat_space k : filter keep_nonspace (repeat ch_space k) = [].
Proof. induction k as [|k IH]; [reflexivity|]. cbn [repeat filter]. exact IH. Qed.

Lemma filter_padded t k :
  no_space t -> filter keep_nonspace (t ++ repeat ch_space k) = t.
Proof.
  intros H. rewrite filter_app, filter_repeat_space, List.app_nil_r.
  apply filter_no_space, H.
Qed.

Lemma all_digits_no_space l : forallb is_digit l = true -> no_space l.
Proof.
  intros H. apply Forall_forall. intros c Hin.
  apply is_digit_not_space. rewrite forallb_forall in H. auto.
Qed.

Lemma print_dec_no_space n : no_space (print_dec n).
Proof. apply all_digits_no_space, print_dec_all_digits. Qed.

(* ------------------------------------------------------------------ *)
(** ** 5. The predicates of C17 *)

(** label texts covered by the property: no spaces, and either the alpha
    sign followed by the canonical decimal text of a [usize], or one to
    eight characters not starting with the alpha sign *)
Definition valid_text (t : text) : Prop :=
  no_space t /\
  ((exists n, (n <= usize_max)%N /\ t = ch_alpha :: print_dec n) \/
   (exists c r, t = c :: r /\ c <> ch_alpha /\ length t <= 8)).

(** label values in canonical form *)
Definition canonical (l : label) : Prop :=
  match l with
  | Greek c => c <> ch_alpha
  | Alpha n => (n <= usize_max)%N
  | LStr cs =>
      exists body, 2 <= length body <= 8 /\ no_space body /\
                   hd 0%N body <> ch_alpha /\
                   cs = body ++ repeat ch_space (8 - length body)
  end.

Lemma valid_text_alpha n : (n <= usize_max)%N -> valid_text (ch_alpha :: print_dec n).
Proof.
  intros Hn. split.
  - constructor; [discriminate | apply print_dec_no_space].
  - left. eauto.
Qed.

Lemma valid_text_alpha_canon d n :
  canon_dec d n -> (n <= usize_max)%N -> valid_text (ch_alpha :: d).
Proof. intros ->. apply valid_text_alpha. Qed.

Lemma valid_text_plain t :
  no_space t -> hd ch_alpha t <> ch_alpha -> length t <= 8 -> valid_text t.
Proof.
  intros Hs Hhd Hlen. split; [exact Hs|]. right.
  destruct t as [|c r]; [cbn [hd] in Hhd; congruence|].
  exists c, r. auto.
Qed.

(** boolean test for the second alternative, for the examples *)
Definition plain_textb (t : text) : bool :=
  no_spaceb t && negb (hd ch_alpha t =? ch_alpha)%N && (length t <=? 8).

Lemma plain_textb_valid t : plain_textb t = true -> valid_text t.
Proof.
  unfold plain_textb. rewrite !andb_true_iff. intros [[Hs Hh] Hl].
  apply valid_text_plain.
  - now apply no_spaceb_spec.
  - apply N.eqb_neq. now apply negb_true_iff.
  - now apply Nat.leb_le.
Qed.

(* ------------------------------------------------------------------ *)
(** ** 6. Round trips *)

Lemma label_from_str_alpha tail :
  label_from_str (ch_alpha :: tail) =
  match parse_usize tail with Some n => Some (Alpha n) | None => None end.
Proof. reflexivity. Qed.

Lemma label_from_str_single c : c <> ch_alpha -> label_from_str [c] = Some (Greek c).
Proof.
  intros H. cbn [label_from_str]. apply N.eqb_neq in H. rewrite H. reflexivity.
Qed.

Lemma label_from_str_multi c c' r :
  c <> ch_alpha -> length (c :: c' :: r) <= 8 ->
  label_from_str (c :: c' :: r) =
  Some (LStr ((c :: c' :: r) ++ repeat ch_space (8 - length (c :: c' :: r)))).
Proof.
  intros H Hlen. unfold label_from_str. apply N.eqb_neq in H. rewrite H.
  apply Nat.leb_le in Hlen. rewrite Hlen. reflexivity.
Qed.

(** text -> label -> text *)
Lemma text_roundtrip t :
  valid_text t -> exists l, label_from_str t = Some l /\ label_print l = t.
Proof.
  intros [Hs [(n & Hn & ->)|(c & r & -> & Hc & Hlen)]].
  - exists (Alpha n). rewrite label_from_str_alpha, (parse_usize_print_dec Hn).
    split; reflexivity.
  - destruct r as [|c' r].
    + exists (Greek c). rewrite (label_from_str_single Hc). split; reflexivity.
    + rewrite (label_from_str_multi Hc Hlen).
      eexists; split; [reflexivity|]. cbn [label_print]. apply filter_padded, Hs.
Qed.

Lemma text_injective t1 t2 :
  valid_text t1 -> valid_text t2 ->
  label_from_str t1 = label_from_str t2 -> t1 = t2.
Proof.
  intros H1 H2 E.
  destruct (text_roundtrip H1) as (l1 & P1 & Q1).
  destruct (text_roundtrip H2) as (l2 & P2 & Q2).
  rewrite P1, P2 in E. inversion E; subst l2. congruence.
Qed.

(** distinct valid texts give distinct labels *)
Lemma text_distinct t1 t2 l1 l2 :
  valid_text t1 -> valid_text t2 -> t1 <> t2 ->
  label_from_str t1 = Some l1 -> label_from_str t2 = Some l2 -> l1 <> l2.
Proof.
  intros H1 H2 Hne P1 P2 E. apply Hne, text_injective; auto. congruence.
Qed.

(** label -> text -> label *)
Lemma label_roundtrip l :
  canonical l -> label_from_str (label_print l) = Some l.
Proof.
  destruct l as [c|n|cs]; cbn [canonical label_print].
  - apply label_from_str_single.
  - intros Hn. rewrite label_from_str_alpha, (parse_usize_print_dec Hn). reflexivity.
  - intros (body & Hlen & Hs & Hhd & ->).
    rewrite (filter_padded _ Hs).
    destruct body as [|c [|c' r]]; cbn [length] in Hlen; try lia.
    cbn [hd] in Hhd. apply label_from_str_multi; [exact Hhd | cbn [length]; lia].
Qed.

(** what a valid text parses to is canonical *)
Lemma valid_text_canonical t l :
  valid_text t -> label_from_str t = Some l -> canonical l.
Proof.
  intros [Hs [(n & Hn & ->)|(c & r & -> & Hc & Hlen)]] P.
  - rewrite label_from_str_alpha, (parse_usize_print_dec Hn) in P.
    inversion P; subst. exact Hn.
  - destruct r as [|c' r].
    + rewrite (label_from_str_single Hc) in P. inversion P; subst. exact Hc.
    + rewrite (label_from_str_multi Hc Hlen) in P. inversion P; subst.
      exists (c :: c' :: r). cbn [length hd] in *. repeat split; auto; lia.
Qed.

(* ------------------------------------------------------------------ *)
(** ** 7. Rejections *)

Lemma reject_long c r :
  c <> ch_alpha -> 8 < length (c :: r) -> label_from_str (c :: r) = None.
Proof.
  intros Hc Hlen. unfold label_from_str. apply N.eqb_neq in Hc. rewrite Hc.
  destruct r as [|c' r]; [cbn [length] in Hlen; lia|].
  destruct (Nat.leb_spec (length (c :: c' :: r)) 8); [lia | reflexivity].
Qed.

Lemma reject_index tail :
  parse_usize tail = None -> label_from_str (ch_alpha :: tail) = None.
Proof. intros H. rewrite label_from_str_alpha, H. reflexivity. Qed.

(** conversely an alpha text is accepted only with a well-formed index *)
Lemma accept_index tail l :
  label_from_str (ch_alpha :: tail) = Some l ->
  exists n, l = Alpha n /\ parse_usize tail = Some n /\ (n <= usize_max)%N.
Proof.
  rewrite label_from_str_alpha. destruct (parse_usize tail) as [n|] eqn:P; [|discriminate].
  intros H; inversion H; subst. exists n. repeat split.
  apply parse_usize_some_iff in P. tauto.
Qed.

(* ------------------------------------------------------------------ *)
(** ** 8. Edges: a name parsed from text finds the edge bound under the
       label built directly *)

Lemma mm_get_head l v e : mm_get ((l, v) :: e) l = Some v.
Proof. cbn [mm_get]. rewrite label_eqb_refl. reflexivity. Qed.

Lemma kid_lookup l :
  canonical l -> forall (e : edges) (v : nat),
  exists l', label_from_str (label_print l) = Some l' /\
             mm_get ((l, v) :: e) l' = Some v.
Proof.
  intros H e v. exists l. split; [apply label_roundtrip, H | apply mm_get_head].
Qed.

Lemma mm_get_replace e : forall a v e',
  mm_replace e a v = Some e' -> mm_get e' a = Some v.
Proof.
  induction e as [|[k w] t IH]; intros a v e' H; cbn [mm_replace] in H; [discriminate|].
  destruct (label_eqb k a) eqn:E.
  - inversion H; subst. cbn [mm_get]. rewrite E. reflexivity.
  - destruct (mm_replace t a v) as [t'|] eqn:R; [|discriminate].
    inversion H; subst. cbn [mm_get]. rewrite E. eapply IH; eauto.
Qed.

Lemma mm_get_append e : forall a v,
  mm_replace e a v = None -> mm_get (e ++ [(a, v)]) a = Some v.
Proof.
  induction e as [|[k w] t IH]; intros a v H; cbn [mm_replace] in H.
  - apply mm_get_head.
  - destruct (label_eqb k a) eqn:E; [discriminate|].
    destruct (mm_replace t a v) eqn:R; [discriminate|].
    cbn [app mm_get]. rewrite E. apply IH, R.
Qed.

Lemma mm_get_insert cap e a v e' :
  mm_insert cap e a v = Ok e' -> mm_get e' a = Some v.
Proof.
  unfold mm_insert. destruct (mm_replace e a v) as [e1|] eqn:R.
  - intros H; inversion H; subst. eapply mm_get_replace; eauto.
  - destruct (length e <? cap); intros H; inversion H; subst.
    apply mm_get_append, R.
Qed.

(** the same through [micromap::Map::insert] (what [bind] does) *)
Lemma kid_lookup_insert l :
  canonical l -> forall cap (e e' : edges) (v : nat),
  mm_insert cap e l v = Ok e' ->
  exists l', label_from_str (label_print l) = Some l' /\ mm_get e' l' = Some v.
Proof.
  intros H cap e e' v Hi. exists l.
  split; [apply label_roundtrip, H | eapply mm_get_insert; eauto].
Qed.
