(** * NextIrrelevant: no call except next_id() ever reads the allocator
    position.  Two graphs that differ only in [g_next] give the same answers to
    every call sequence without next_id() and stay equal up to [g_next]
    (this is the "behaves identically under any subsequent sequence of calls"
    half of C08: load(save g) is g with the allocator position reset). *)

From Sodg Require Export Effects Spec.

Definition omap {A B} (f : A -> B) (x : outcome A) : outcome B :=
  match x with Ok a => Ok (f a) | Panic k => Panic k | OutOfFuel => OutOfFuel | Unmodelled => Unmodelled end.

Definition renext (k : nat) (g : sodg) : sodg := set_next g k.

Ltac crunch :=
  repeat (cbn [obind omap renext set_next g_stores g_branches g_vertices g_next fst snd];
          match goal with
          | |- context [match ?x with _ => _ end] => destruct x eqn:?
          | |- context [if ?x then _ else _] => destruct x eqn:?
          end);
  cbn [obind omap renext set_next g_stores g_branches g_vertices g_next fst snd]; try reflexivity; try congruence.

Lemma add_next g k v : op_add (renext k g) v = omap (renext k) (op_add g v).
Proof. destruct g as [st br vs nx]. unfold op_add, chk_v, cap_of, tag, vtx, set_vtx, renext, set_next. crunch. Qed.

Lemma put_next g k v d : op_put (renext k g) v d = omap (renext k) (op_put g v d).
Proof.
  destruct g as [st br vs nx].
  unfold op_put, add_store, chk_b, chk_v, cap_of, vtx, set_vtx, set_store, store, renext, set_next. crunch.
Qed.

Lemma renext_set_tag g k v b : set_tag (renext k g) v b = renext k (set_tag g v b).
Proof. destruct g; reflexivity. Qed.
Lemma renext_set_edges g k v e : set_edges (renext k g) v e = renext k (set_edges g v e).
Proof. destruct g; reflexivity. Qed.
Lemma renext_set_members g k b m : set_members (renext k g) b m = renext k (set_members g b m).
Proof. destruct g; reflexivity. Qed.
Lemma chk_v_next g k v : chk_v (renext k g) v = chk_v g v.
Proof. destruct g; reflexivity. Qed.

Lemma kill_next : forall ms g k, kill (renext k g) ms = omap (renext k) (kill g ms).
Proof.
  induction ms as [|m t IH]; intros g k; cbn [kill]; [reflexivity|].
  rewrite chk_v_next. destruct (chk_v g m); cbn [obind omap]; try reflexivity.
  rewrite renext_set_tag. apply IH.
Qed.

Lemma vtx_next g k v : vtx (renext k g) v = vtx g v.
Proof. destruct g; reflexivity. Qed.
Lemma renext_set_prs g k v p : set_prs (renext k g) v p = renext k (set_prs g v p).
Proof. destruct g; reflexivity. Qed.
Lemma renext_set_store g k b x : set_store (renext k g) b x = renext k (set_store g b x).
Proof. destruct g; reflexivity. Qed.
Lemma chk_b_next g k b : chk_b (renext k g) b = chk_b g b.
Proof. destruct g; reflexivity. Qed.
Lemma store_next g k b : store (renext k g) b = store g b.
Proof. destruct g; reflexivity. Qed.
Lemma members_next g k b : members (renext k g) b = members g b.
Proof. destruct g; reflexivity. Qed.

Lemma data_next g k v :
  op_data (renext k g) v = omap (fun r : sodg * option hex => (renext k (fst r), snd r)) (op_data g v).
Proof.
  unfold op_data. rewrite chk_v_next, vtx_next.
  destruct (chk_v g v); cbn [obind omap]; try reflexivity.
  destruct (v_pers (vtx g v)); cbn [obind omap fst snd]; try reflexivity.
  rewrite renext_set_prs.
  destruct (v_branch (vtx g v) =? BRANCH_STATIC); [reflexivity|].
  rewrite chk_b_next. destruct (chk_b (set_prs g v PTaken) (v_branch (vtx g v))); cbn [obind omap]; try reflexivity.
  rewrite store_next.
  destruct (store (set_prs g v PTaken) (v_branch (vtx g v)) =? 0); [reflexivity|].
  rewrite renext_set_store.
  destruct (store (set_prs g v PTaken) (v_branch (vtx g v)) - 1 =? 0); [|reflexivity].
  rewrite members_next, kill_next.
  destruct (kill _ _) as [g3| | |]; cbn [obind omap fst snd]; reflexivity.
Qed.

Lemma push_member_next g k b v : push_member (renext k g) b v = omap (renext k) (push_member g b v).
Proof.
  destruct g as [st br vs nx]. unfold push_member, chk_b, members, set_members, renext, set_next. crunch.
Qed.

Lemma add_store_next g k b x : add_store (renext k g) b x = omap (renext k) (add_store g b x).
Proof.
  destruct g as [st br vs nx]. unfold add_store, chk_b, store, set_store, renext, set_next. crunch.
Qed.

Lemma bind_next n g k v1 v2 a : op_bind n (renext k g) v1 v2 a = omap (renext k) (op_bind n g v1 v2 a).
Proof.
  unfold op_bind.
  assert (C : forall w, chk_v (renext k g) w = chk_v g w) by (intros; destruct g; reflexivity).
  assert (T : forall w, tag (renext k g) w = tag g w) by (intros; destruct g; reflexivity).
  assert (E : forall w, edg (renext k g) w = edg g w) by (intros; destruct g; reflexivity).
  assert (S : forall w, is_stored (renext k g) w = is_stored g w) by (intros; destruct g; reflexivity).
  rewrite !C, !T, !E, !S.
  destruct (chk_v g v1); cbn [obind omap]; try reflexivity.
  destruct (chk_v g v2); cbn [obind omap]; try reflexivity.
  destruct (mm_insert n (edg g v1) a v2) as [e'| | |]; cbn [obind omap]; try reflexivity.
  rewrite renext_set_edges.
  assert (F : first_empty (renext k (set_edges g v1 e')) = first_empty (set_edges g v1 e')) by (destruct g; reflexivity).
  assert (T2 : forall h w, tag (renext k h) w = tag h w) by (intros h w; destruct h; reflexivity).
  rewrite F, T2.
  destruct (tag g v1 =? BRANCH_STATIC).
  - destruct (tag g v2 =? BRANCH_STATIC).
    + destruct (first_empty (set_edges g v1 e')) as [b|].
      * rewrite renext_set_members, !renext_set_tag, push_member_next.
        destruct (push_member _ b v2) as [g4| | |]; cbn [obind omap]; try reflexivity. apply add_store_next.
      * rewrite !renext_set_tag, push_member_next.
        destruct (push_member _ (tag g v1) v2) as [g4| | |]; cbn [obind omap]; try reflexivity. apply add_store_next.
    + rewrite renext_set_tag, push_member_next.
      destruct (push_member _ (tag g v2) v1) as [g4| | |]; cbn [obind omap]; try reflexivity. apply add_store_next.
  - destruct (tag (set_edges g v1 e') v2 =? BRANCH_STATIC).
    + rewrite renext_set_tag, push_member_next.
      destruct (push_member _ (tag g v1) v2) as [g4| | |]; cbn [obind omap]; try reflexivity. apply add_store_next.
    + reflexivity.
Qed.

Lemma kid_next g k v a : op_kid (renext k g) v a = op_kid g v a.
Proof. destruct g; reflexivity. Qed.
Lemma kids_next g k v : op_kids (renext k g) v = op_kids g v.
Proof. destruct g; reflexivity. Qed.
Lemma keys_next g k : op_keys (renext k g) = op_keys g.
Proof. destruct g; reflexivity. Qed.

Definition lift (k : nat) (x : outcome (sodg * res)) : outcome (sodg * res) :=
  omap (fun r : sodg * res => (renext k (fst r), snd r)) x.

(** one call *)
Theorem step_next n g k o :
  o <> ONext -> step n (renext k g) o = lift k (step n g o).
Proof.
  intros Hn. destruct o as [v|v1 v2 a|v d|v| |v a|v|]; cbn [step]; unfold lift.
  - rewrite add_next. destruct (op_add g v); reflexivity.
  - rewrite bind_next. destruct (op_bind n g v1 v2 a); reflexivity.
  - rewrite put_next. destruct (op_put g v d); reflexivity.
  - rewrite data_next. destruct (op_data g v) as [[h r]| | |]; reflexivity.
  - congruence.
  - rewrite kid_next. destruct (op_kid g v a); reflexivity.
  - rewrite kids_next. destruct (op_kids g v); reflexivity.
  - rewrite keys_next. reflexivity.
Qed.

Definition no_next (os : list op) : Prop := Forall (fun o => o <> ONext) os.

(** any call sequence without next_id(): same answers, same states up to the allocator position *)
Theorem run_next n : forall os g k,
  no_next os ->
  run n (renext k g) os = omap (fun r : sodg * list res => (renext k (fst r), snd r)) (run n g os).
Proof.
  induction os as [|o t IH]; intros g k Hn; cbn [run].
  - reflexivity.
  - inversion Hn as [|? ? Ho Ht]; subst. rewrite (step_next n g k o Ho). unfold lift.
    destruct (step n g o) as [[h r]| | |]; cbn [obind omap fst snd]; try reflexivity.
    rewrite (IH h k Ht). destruct (run n h t) as [[h2 rs]| | |]; reflexivity.
Qed.

(** the reloaded graph: [decode (encode g)] is [g] with the allocator position 0 *)
Lemma reload_is_renext g : mkG (g_stores g) (g_branches g) (g_vertices g) 0 = renext 0 g.
Proof. reflexivity. Qed.

(** next_id() on a graph whose allocator position is 0 returns the lowest absent id *)
Lemma next_id_from_zero g :
  g_next g = 0 -> (exists id, id < cap_of g /\ tag g id = 0) ->
  exists id, op_next_id g = Ok (set_next g (S id), id) /\ id < cap_of g /\ tag g id = 0
             /\ forall w, w < id -> tag g w <> 0.
Proof.
  intros Hz (x & X1 & X2).
  destruct (next_id_effect g) as (id & A & _ & B & C & D).
  { exists x. rewrite Hz. repeat split; auto. lia. }
  exists id. repeat split; auto. intros w Hw. apply D; [rewrite Hz; lia|exact Hw].
Qed.
