(** * Facts: characterising lemmas of the point-wise accessors and setters of
    Sodg.v.  Later proofs depend on these, not on the list representation. *)

From Sodg Require Export Sodg.

Lemma cap_set_vtx g v x : cap_of (set_vtx g v x) = cap_of g.
Proof. unfold cap_of, set_vtx; simpl; apply upd_length. Qed.

Lemma vtx_set_vtx g v x w :
  vtx (set_vtx g v x) w = if (v =? w) && (v <? cap_of g) then x else vtx g w.
Proof. unfold vtx, set_vtx, cap_of; simpl. apply nth_upd. Qed.

Lemma vtx_set_vtx_eq g v x : v < cap_of g -> vtx (set_vtx g v x) v = x.
Proof.
  intros H. rewrite vtx_set_vtx, Nat.eqb_refl. apply Nat.ltb_lt in H. rewrite H. reflexivity.
Qed.

Lemma vtx_set_vtx_neq g v x w : v <> w -> vtx (set_vtx g v x) w = vtx g w.
Proof. intros H. rewrite vtx_set_vtx. apply Nat.eqb_neq in H. rewrite H. reflexivity. Qed.

Lemma members_set_vtx g v x b : members (set_vtx g v x) b = members g b.
Proof. reflexivity. Qed.

Lemma store_set_vtx g v x b : store (set_vtx g v x) b = store g b.
Proof. reflexivity. Qed.

Lemma next_set_vtx g v x : g_next (set_vtx g v x) = g_next g.
Proof. reflexivity. Qed.

Lemma chk_v_ok g v : v < cap_of g -> chk_v g v = Ok tt.
Proof. intros H; unfold chk_v. apply Nat.ltb_lt in H. rewrite H. reflexivity. Qed.

Lemma chk_v_panic g v : cap_of g <= v -> chk_v g v = Panic PBoundary.
Proof. intros H; unfold chk_v. apply Nat.ltb_ge in H. rewrite H. reflexivity. Qed.

Lemma mm_get_nil a : mm_get [] a = None.
Proof. reflexivity. Qed.
