(** * Facts: characterising lemmas of the point-wise accessors and setters of
    Sodg.v.  Later proofs depend on these, not on the list representation. *)

From Sodg Require Export Sodg.

(** ** capacity and container sizes *)

Definition nb (g : sodg) : nat := length (g_branches g).
Definition ns (g : sodg) : nat := length (g_stores g).

Lemma cap_set_vtx g v x : cap_of (set_vtx g v x) = cap_of g.
Proof. unfold cap_of, set_vtx; simpl; apply upd_length. Qed.
Lemma cap_set_tag g v b : cap_of (set_tag g v b) = cap_of g.
Proof. apply cap_set_vtx. Qed.
Lemma cap_set_edges g v e : cap_of (set_edges g v e) = cap_of g.
Proof. apply cap_set_vtx. Qed.
Lemma cap_set_prs g v p : cap_of (set_prs g v p) = cap_of g.
Proof. apply cap_set_vtx. Qed.
Lemma cap_set_members g b m : cap_of (set_members g b m) = cap_of g.
Proof. reflexivity. Qed.
Lemma cap_set_store g b n : cap_of (set_store g b n) = cap_of g.
Proof. reflexivity. Qed.
Lemma cap_set_next g n : cap_of (set_next g n) = cap_of g.
Proof. reflexivity. Qed.

Lemma nb_set_vtx g v x : nb (set_vtx g v x) = nb g. Proof. reflexivity. Qed.
Lemma nb_set_tag g v b : nb (set_tag g v b) = nb g. Proof. reflexivity. Qed.
Lemma nb_set_edges g v e : nb (set_edges g v e) = nb g. Proof. reflexivity. Qed.
Lemma nb_set_prs g v p : nb (set_prs g v p) = nb g. Proof. reflexivity. Qed.
Lemma nb_set_members g b m : nb (set_members g b m) = nb g.
Proof. unfold nb, set_members; simpl; apply upd_length. Qed.
Lemma nb_set_store g b n : nb (set_store g b n) = nb g. Proof. reflexivity. Qed.
Lemma nb_set_next g n : nb (set_next g n) = nb g. Proof. reflexivity. Qed.

Lemma ns_set_vtx g v x : ns (set_vtx g v x) = ns g. Proof. reflexivity. Qed.
Lemma ns_set_tag g v b : ns (set_tag g v b) = ns g. Proof. reflexivity. Qed.
Lemma ns_set_edges g v e : ns (set_edges g v e) = ns g. Proof. reflexivity. Qed.
Lemma ns_set_prs g v p : ns (set_prs g v p) = ns g. Proof. reflexivity. Qed.
Lemma ns_set_members g b m : ns (set_members g b m) = ns g. Proof. reflexivity. Qed.
Lemma ns_set_store g b n : ns (set_store g b n) = ns g.
Proof. unfold ns, set_store; simpl; apply upd_length. Qed.
Lemma ns_set_next g n : ns (set_next g n) = ns g. Proof. reflexivity. Qed.

(** ** vertices *)

Lemma vtx_set_vtx g v x w :
  vtx (set_vtx g v x) w = if (v =? w) && (v <? cap_of g) then x else vtx g w.
Proof. unfold vtx, set_vtx, cap_of; simpl. apply nth_upd. Qed.

Lemma vtx_set_vtx_eq g v x : v < cap_of g -> vtx (set_vtx g v x) v = x.
Proof.
  intros H. rewrite vtx_set_vtx, Nat.eqb_refl. apply Nat.ltb_lt in H. rewrite H. reflexivity.
Qed.

Lemma vtx_set_vtx_neq g v x w : v <> w -> vtx (set_vtx g v x) w = vtx g w.
Proof. intros H. rewrite vtx_set_vtx. apply Nat.eqb_neq in H. rewrite H. reflexivity. Qed.

(** out-of-range reads give the blank default *)
Lemma vtx_overflow g v : cap_of g <= v -> vtx g v = blank.
Proof. intros H. unfold vtx. apply nth_overflow. exact H. Qed.

(** a setter that rewrites one field of slot [v] from its current content *)
Lemma set_vtx_same g v : set_vtx g v (vtx g v) = g.
Proof.
  unfold set_vtx, vtx. destruct g as [st br vs nx]; simpl. f_equal.
  revert v; induction vs as [|h t IH]; intros [|v]; simpl; auto. f_equal. apply IH.
Qed.

Section FieldLemmas.
  Variable g : sodg.
  Variables v w : nat.

  Lemma tag_set_tag b : tag (set_tag g v b) w = if (v =? w) && (v <? cap_of g) then b else tag g w.
  Proof. unfold tag, set_tag. rewrite vtx_set_vtx. destruct ((v =? w) && (v <? cap_of g)); reflexivity. Qed.
  Lemma prs_set_tag b : prs (set_tag g v b) w = prs g w.
  Proof.
    unfold prs, set_tag. rewrite vtx_set_vtx. destruct (Nat.eqb_spec v w) as [->|]; simpl; auto.
    destruct (w <? cap_of g); reflexivity.
  Qed.
  Lemma dat_set_tag b : dat (set_tag g v b) w = dat g w.
  Proof.
    unfold dat, set_tag. rewrite vtx_set_vtx. destruct (Nat.eqb_spec v w) as [->|]; simpl; auto.
    destruct (w <? cap_of g); reflexivity.
  Qed.
  Lemma edg_set_tag b : edg (set_tag g v b) w = edg g w.
  Proof.
    unfold edg, set_tag. rewrite vtx_set_vtx. destruct (Nat.eqb_spec v w) as [->|]; simpl; auto.
    destruct (w <? cap_of g); reflexivity.
  Qed.

  Lemma tag_set_edges e : tag (set_edges g v e) w = tag g w.
  Proof.
    unfold tag, set_edges. rewrite vtx_set_vtx. destruct (Nat.eqb_spec v w) as [->|]; simpl; auto.
    destruct (w <? cap_of g); reflexivity.
  Qed.
  Lemma prs_set_edges e : prs (set_edges g v e) w = prs g w.
  Proof.
    unfold prs, set_edges. rewrite vtx_set_vtx. destruct (Nat.eqb_spec v w) as [->|]; simpl; auto.
    destruct (w <? cap_of g); reflexivity.
  Qed.
  Lemma dat_set_edges e : dat (set_edges g v e) w = dat g w.
  Proof.
    unfold dat, set_edges. rewrite vtx_set_vtx. destruct (Nat.eqb_spec v w) as [->|]; simpl; auto.
    destruct (w <? cap_of g); reflexivity.
  Qed.
  Lemma edg_set_edges e : edg (set_edges g v e) w = if (v =? w) && (v <? cap_of g) then e else edg g w.
  Proof. unfold edg, set_edges. rewrite vtx_set_vtx. destruct ((v =? w) && (v <? cap_of g)); reflexivity. Qed.

  Lemma tag_set_prs p : tag (set_prs g v p) w = tag g w.
  Proof.
    unfold tag, set_prs. rewrite vtx_set_vtx. destruct (Nat.eqb_spec v w) as [->|]; simpl; auto.
    destruct (w <? cap_of g); reflexivity.
  Qed.
  Lemma prs_set_prs p : prs (set_prs g v p) w = if (v =? w) && (v <? cap_of g) then p else prs g w.
  Proof. unfold prs, set_prs. rewrite vtx_set_vtx. destruct ((v =? w) && (v <? cap_of g)); reflexivity. Qed.
  Lemma dat_set_prs p : dat (set_prs g v p) w = dat g w.
  Proof.
    unfold dat, set_prs. rewrite vtx_set_vtx. destruct (Nat.eqb_spec v w) as [->|]; simpl; auto.
    destruct (w <? cap_of g); reflexivity.
  Qed.
  Lemma edg_set_prs p : edg (set_prs g v p) w = edg g w.
  Proof.
    unfold edg, set_prs. rewrite vtx_set_vtx. destruct (Nat.eqb_spec v w) as [->|]; simpl; auto.
    destruct (w <? cap_of g); reflexivity.
  Qed.
End FieldLemmas.

(** setters of the other containers do not touch vertices *)
Lemma vtx_set_members g b m w : vtx (set_members g b m) w = vtx g w. Proof. reflexivity. Qed.
Lemma vtx_set_store g b n w : vtx (set_store g b n) w = vtx g w. Proof. reflexivity. Qed.
Lemma vtx_set_next g n w : vtx (set_next g n) w = vtx g w. Proof. reflexivity. Qed.
Lemma tag_set_members g b m w : tag (set_members g b m) w = tag g w. Proof. reflexivity. Qed.
Lemma tag_set_store g b n w : tag (set_store g b n) w = tag g w. Proof. reflexivity. Qed.
Lemma tag_set_next g n w : tag (set_next g n) w = tag g w. Proof. reflexivity. Qed.
Lemma prs_set_members g b m w : prs (set_members g b m) w = prs g w. Proof. reflexivity. Qed.
Lemma prs_set_store g b n w : prs (set_store g b n) w = prs g w. Proof. reflexivity. Qed.
Lemma prs_set_next g n w : prs (set_next g n) w = prs g w. Proof. reflexivity. Qed.
Lemma dat_set_members g b m w : dat (set_members g b m) w = dat g w. Proof. reflexivity. Qed.
Lemma dat_set_store g b n w : dat (set_store g b n) w = dat g w. Proof. reflexivity. Qed.
Lemma dat_set_next g n w : dat (set_next g n) w = dat g w. Proof. reflexivity. Qed.
Lemma edg_set_members g b m w : edg (set_members g b m) w = edg g w. Proof. reflexivity. Qed.
Lemma edg_set_store g b n w : edg (set_store g b n) w = edg g w. Proof. reflexivity. Qed.
Lemma edg_set_next g n w : edg (set_next g n) w = edg g w. Proof. reflexivity. Qed.

(** ** member lists and counters *)

Lemma members_set_members g b m c :
  members (set_members g b m) c = if (b =? c) && (b <? nb g) then m else members g c.
Proof. unfold members, set_members, nb; simpl. apply nth_upd. Qed.
Lemma members_set_vtx g v x b : members (set_vtx g v x) b = members g b. Proof. reflexivity. Qed.
Lemma members_set_tag g v t b : members (set_tag g v t) b = members g b. Proof. reflexivity. Qed.
Lemma members_set_edges g v e b : members (set_edges g v e) b = members g b. Proof. reflexivity. Qed.
Lemma members_set_prs g v p b : members (set_prs g v p) b = members g b. Proof. reflexivity. Qed.
Lemma members_set_store g b n c : members (set_store g b n) c = members g c. Proof. reflexivity. Qed.
Lemma members_set_next g n c : members (set_next g n) c = members g c. Proof. reflexivity. Qed.

Lemma store_set_store g b n c :
  store (set_store g b n) c = if (b =? c) && (b <? ns g) then n else store g c.
Proof. unfold store, set_store, ns; simpl. apply nth_upd. Qed.
Lemma store_set_vtx g v x b : store (set_vtx g v x) b = store g b. Proof. reflexivity. Qed.
Lemma store_set_tag g v t b : store (set_tag g v t) b = store g b. Proof. reflexivity. Qed.
Lemma store_set_edges g v e b : store (set_edges g v e) b = store g b. Proof. reflexivity. Qed.
Lemma store_set_prs g v p b : store (set_prs g v p) b = store g b. Proof. reflexivity. Qed.
Lemma store_set_members g b m c : store (set_members g b m) c = store g c. Proof. reflexivity. Qed.
Lemma store_set_next g n c : store (set_next g n) c = store g c. Proof. reflexivity. Qed.

Lemma next_set_vtx g v x : g_next (set_vtx g v x) = g_next g. Proof. reflexivity. Qed.
Lemma next_set_tag g v t : g_next (set_tag g v t) = g_next g. Proof. reflexivity. Qed.
Lemma next_set_edges g v e : g_next (set_edges g v e) = g_next g. Proof. reflexivity. Qed.
Lemma next_set_prs g v p : g_next (set_prs g v p) = g_next g. Proof. reflexivity. Qed.
Lemma next_set_members g b m : g_next (set_members g b m) = g_next g. Proof. reflexivity. Qed.
Lemma next_set_store g b n : g_next (set_store g b n) = g_next g. Proof. reflexivity. Qed.
Lemma next_set_next g n : g_next (set_next g n) = n. Proof. reflexivity. Qed.

Create HintDb sodg.
#[export] Hint Rewrite
  cap_set_vtx cap_set_tag cap_set_edges cap_set_prs cap_set_members cap_set_store cap_set_next
  nb_set_vtx nb_set_tag nb_set_edges nb_set_prs nb_set_members nb_set_store nb_set_next
  ns_set_vtx ns_set_tag ns_set_edges ns_set_prs ns_set_members ns_set_store ns_set_next
  tag_set_tag prs_set_tag dat_set_tag edg_set_tag
  tag_set_edges prs_set_edges dat_set_edges edg_set_edges
  tag_set_prs prs_set_prs dat_set_prs edg_set_prs
  tag_set_members tag_set_store tag_set_next prs_set_members prs_set_store prs_set_next
  dat_set_members dat_set_store dat_set_next edg_set_members edg_set_store edg_set_next
  members_set_members members_set_vtx members_set_tag members_set_edges members_set_prs
  members_set_store members_set_next
  store_set_store store_set_vtx store_set_tag store_set_edges store_set_prs store_set_members
  store_set_next
  next_set_vtx next_set_tag next_set_edges next_set_prs next_set_members next_set_store next_set_next
  : sodg.

(** ** checks *)

Lemma chk_v_ok g v : v < cap_of g -> chk_v g v = Ok tt.
Proof. intros H; unfold chk_v. apply Nat.ltb_lt in H. rewrite H. reflexivity. Qed.

Lemma chk_v_panic g v : cap_of g <= v -> chk_v g v = Panic PBoundary.
Proof. intros H; unfold chk_v. apply Nat.ltb_ge in H. rewrite H. reflexivity. Qed.

Lemma chk_b_ok g b : b < nb g -> b < ns g -> chk_b g b = Ok tt.
Proof.
  intros H1 H2; unfold chk_b. apply Nat.ltb_lt in H1, H2. unfold nb, ns in *. rewrite H1, H2. reflexivity.
Qed.

Lemma chk_b_panic g b : nb g <= b \/ ns g <= b -> chk_b g b = Panic PBoundary.
Proof.
  intros H; unfold chk_b, nb, ns in *.
  destruct (Nat.ltb_spec b (length (g_branches g))); destruct (Nat.ltb_spec b (length (g_stores g)));
    simpl; auto; lia.
Qed.

(** ** the edge map *)

Lemma mm_get_nil a : mm_get [] a = None.
Proof. reflexivity. Qed.

Lemma mm_replace_none e a v : mm_replace e a v = None <-> mm_get e a = None.
Proof.
  induction e as [|[k w] t IH]; simpl; [tauto|].
  destruct (label_eqb k a); [split; discriminate|].
  destruct (mm_replace t a v) eqn:E.
  - split; [discriminate|]. intros H. apply IH in H. discriminate.
  - split; [|reflexivity]. intros _. apply IH. reflexivity.
Qed.

Lemma mm_replace_length e a v e' : mm_replace e a v = Some e' -> length e' = length e.
Proof.
  revert e'; induction e as [|[k w] t IH]; simpl; intros e' H; [discriminate|].
  destruct (label_eqb k a).
  - inversion H; reflexivity.
  - destruct (mm_replace t a v) as [t'|]; [|discriminate]. inversion H; simpl. f_equal. apply IH; reflexivity.
Qed.

Lemma mm_replace_keys e a v e' : mm_replace e a v = Some e' -> map fst e' = map fst e.
Proof.
  revert e'; induction e as [|[k w] t IH]; simpl; intros e' H; [discriminate|].
  destruct (label_eqb k a).
  - inversion H; reflexivity.
  - destruct (mm_replace t a v) as [t'|]; [|discriminate]. inversion H; simpl. f_equal. apply IH; reflexivity.
Qed.

Lemma mm_get_replace e a v e' b :
  mm_replace e a v = Some e' -> mm_get e' b = if label_eqb a b then Some v else mm_get e b.
Proof.
  revert e'; induction e as [|[k w] t IH]; simpl; intros e' H; [discriminate|].
  destruct (label_eqb k a) eqn:Eka.
  - inversion H; subst; simpl. apply label_eqb_spec in Eka; subst k.
    destruct (label_eqb a b); reflexivity.
  - destruct (mm_replace t a v) as [t'|]; [|discriminate]. inversion H; subst; simpl.
    destruct (label_eqb k b) eqn:Ekb.
    + apply label_eqb_spec in Ekb; subst k.
      destruct (label_eqb a b) eqn:Eab; auto. apply label_eqb_spec in Eab; subst a.
      rewrite label_eqb_refl in Eka; discriminate.
    + apply IH; reflexivity.
Qed.

Lemma mm_get_app_fresh e a v b :
  mm_get e a = None -> mm_get (e ++ [(a, v)]) b = if label_eqb a b then Some v else mm_get e b.
Proof.
  induction e as [|[k w] t IH]; simpl; intros H.
  - destruct (label_eqb a b); reflexivity.
  - destruct (label_eqb k a) eqn:Eka; [discriminate|].
    destruct (label_eqb k b) eqn:Ekb.
    + destruct (label_eqb a b) eqn:Eab; auto. apply label_eqb_spec in Eab, Ekb; subst.
      rewrite label_eqb_refl in Eka; discriminate.
    + apply IH; exact H.
Qed.
