(** * C20  inspect / Debug / Display / v_print show what is in the graph

    Property text: inspect(v) terminates on every graph, cyclic or not, and
    lists every edge of every vertex reachable from v exactly once.
    Debug/Display list exactly the present vertices with all their edges and
    data, and v_print(v) shows the data marker exactly when v has data and
    lists exactly v's labels.

    Reading guide.  The printers are modelled as a *document* plus a renderer
    (Print.v); the theorems speak about the documents:
    - [inspect_doc g v] is the list of printed lines, each an [iline]
      (depth, source vertex, label, target, and the flag "printed with an
      ellipsis and not expanded");
    - [debug_doc g] has one [dbg_vertex] (id, edges, optional data) per
      printed vertex line;
    - [vprint_doc g v] is the pair (data marker shown?, labels listed).
    [reach p g v u] (Reach.v) is reachability along edges accepted by [p];
    [ptrue] accepts every edge.  [closed g v] says that following edges from
    [v] never leaves the slots [0 .. cap-1] of the graph, i.e. that inspect
    does not hit the boundary assertion of [emap]; see [C20_def_closed].
    The proofs are in PrintFacts.v. *)

From Sodg Require Import PrintFacts.

(** ** the definitions the statements use, unfolded *)

Theorem C20_def_reach : forall p g v w,
  reach p g v w <->
  w = v \/ exists u a, reach p g v u /\ In (a, w) (edg g u) /\ p u w a = true.
Proof. exact reach_unfold. Qed.
Check C20_def_reach : forall p g v w,
  reach p g v w <->
  w = v \/ exists u a, reach p g v u /\ In (a, w) (edg g u) /\ p u w a = true.
Print Assumptions C20_def_reach.

Theorem C20_def_closed : forall g v,
  closed g v <->
  v < cap_of g /\
  forall u a w, reach ptrue g v u -> In (a, w) (edg g u) -> w < cap_of g.
Proof. exact closed_unfold. Qed.
Check C20_def_closed : forall g v,
  closed g v <->
  v < cap_of g /\
  forall u a w, reach ptrue g v u -> In (a, w) (edg g u) -> w < cap_of g.
Print Assumptions C20_def_closed.

(** ** inspect *)

(** (a) termination: the result is a listing, in particular neither a panic
    nor [OutOfFuel] *)
Theorem C20_inspect_terminates : forall g v,
  closed g v -> exists ls, inspect_doc g v = Ok ls.
Proof. exact inspect_terminates. Qed.
Check C20_inspect_terminates : forall g v,
  closed g v -> exists ls, inspect_doc g v = Ok ls.
Print Assumptions C20_inspect_terminates.

(** whatever the graph, the fuel of the model is never the reason why
    [inspect_doc] stops: the outcome is a listing or the boundary panic *)
Theorem C20_inspect_never_out_of_fuel : forall g v,
  (exists ls, inspect_doc g v = Ok ls) \/ inspect_doc g v = Panic PBoundary.
Proof. exact inspect_total. Qed.
Check C20_inspect_never_out_of_fuel : forall g v,
  (exists ls, inspect_doc g v = Ok ls) \/ inspect_doc g v = Panic PBoundary.
Print Assumptions C20_inspect_never_out_of_fuel.

(** (b) exactly once: the reachable vertices can be enumerated without
    repetition, and for every such enumeration [rs] the edges shown by the
    lines are, up to order, the out-edges of the vertices of [rs] -- as
    lists, so nothing is listed twice, nothing is missing, nothing else is
    listed *)
Theorem C20_inspect_exactly_once : forall g v ls,
  closed g v -> inspect_doc g v = Ok ls ->
  (exists rs, NoDup rs /\ forall u, In u rs <-> reach ptrue g v u)
  /\ forall rs, NoDup rs -> (forall u, In u rs <-> reach ptrue g v u) ->
       Permutation
         (map (fun l => (il_from l, il_label l, il_to l)) ls)
         (flat_map (fun u => map (fun e : label * nat => (u, fst e, snd e)) (edg g u)) rs).
Proof. exact inspect_exactly_once. Qed.
Check C20_inspect_exactly_once : forall g v ls,
  closed g v -> inspect_doc g v = Ok ls ->
  (exists rs, NoDup rs /\ forall u, In u rs <-> reach ptrue g v u)
  /\ forall rs, NoDup rs -> (forall u, In u rs <-> reach ptrue g v u) ->
       Permutation
         (map (fun l => (il_from l, il_label l, il_to l)) ls)
         (flat_map (fun u => map (fun e : label * nat => (u, fst e, snd e)) (edg g u)) rs).
Print Assumptions C20_inspect_exactly_once.

(** (c) the ellipsis: [v] followed by the targets of the lines printed without
    ellipsis is, up to order, an enumeration without repetition of the
    reachable vertices: every reachable vertex other than the root is expanded
    under exactly one line, all other lines that point to it carry the
    ellipsis, and no line without ellipsis points back to the root *)
Theorem C20_inspect_skip_flag : forall g v ls,
  closed g v -> inspect_doc g v = Ok ls ->
  forall rs, NoDup rs -> (forall u, In u rs <-> reach ptrue g v u) ->
    Permutation (v :: map il_to (filter (fun l => negb (il_skip l)) ls)) rs.
Proof. exact inspect_skip_flag. Qed.
Check C20_inspect_skip_flag : forall g v ls,
  closed g v -> inspect_doc g v = Ok ls ->
  forall rs, NoDup rs -> (forall u, In u rs <-> reach ptrue g v u) ->
    Permutation (v :: map il_to (filter (fun l => negb (il_skip l)) ls)) rs.
Print Assumptions C20_inspect_skip_flag.

(** ** Debug / Display *)

Theorem C20_debug : forall g,
  map dv_id (dd_vertices (debug_doc g)) = op_keys g
  /\ forall d, In d (dd_vertices (debug_doc g)) ->
       dv_edges d = edg g (dv_id d)
       /\ dv_data d = if has_data g (dv_id d) then Some (dat g (dv_id d)) else None.
Proof. exact debug_doc_vertices. Qed.
Check C20_debug : forall g,
  map dv_id (dd_vertices (debug_doc g)) = op_keys g
  /\ forall d, In d (dd_vertices (debug_doc g)) ->
       dv_edges d = edg g (dv_id d)
       /\ dv_data d = if has_data g (dv_id d) then Some (dat g (dv_id d)) else None.
Print Assumptions C20_debug.

Theorem C20_keys_present : forall g v,
  In v (op_keys g) <-> v < cap_of g /\ tag g v <> 0.
Proof. exact in_op_keys. Qed.
Check C20_keys_present : forall g v,
  In v (op_keys g) <-> v < cap_of g /\ tag g v <> 0.
Print Assumptions C20_keys_present.

(** each present vertex has exactly one line *)
Theorem C20_keys_nodup : forall g, NoDup (op_keys g).
Proof. exact op_keys_nodup. Qed.
Check C20_keys_nodup : forall g, NoDup (op_keys g).
Print Assumptions C20_keys_nodup.

Theorem C20_def_has_data : forall g v, has_data g v = true <-> prs g v <> PEmpty.
Proof. exact has_data_spec. Qed.
Check C20_def_has_data : forall g v, has_data g v = true <-> prs g v <> PEmpty.
Print Assumptions C20_def_has_data.

(** ** v_print *)

Theorem C20_vprint : forall g v,
  v < cap_of g -> vprint_doc g v = Ok (has_data g v, map fst (edg g v)).
Proof. exact vprint_doc_ok. Qed.
Check C20_vprint : forall g v,
  v < cap_of g -> vprint_doc g v = Ok (has_data g v, map fst (edg g v)).
Print Assumptions C20_vprint.

(** ** non-vacuity *)

(** the cyclic example graph (cycle 0 -> 1 -> 2 -> 0, a parallel edge 0 -> 1,
    a self loop on 2; Reach.v) is closed, inspect stops on it, lists its five
    edges once each, and expands 1 and 2 once each *)
Example C20_cyclic_inspect :
  closed ex_cyclic 0
  /\ inspect_doc ex_cyclic 0 =
       Ok [ mkIL 0 0 (Alpha 0) 1 false;
            mkIL 1 1 (Greek 945) 2 false;
            mkIL 2 2 (Alpha 0) 0 true;
            mkIL 2 2 (Alpha 5) 2 true;
            mkIL 0 0 (Alpha 1) 1 true ]
  /\ NoDup [0; 1; 2] /\ (forall u, In u [0; 1; 2] <-> reach ptrue ex_cyclic 0 u).
Proof.
  assert (Hc : closed ex_cyclic 0) by (apply closedb_closed; [vm_compute; reflexivity | vm_compute; lia]).
  split; [exact Hc|]. split; [vm_compute; reflexivity|].
  split; [repeat constructor; simpl; intuition discriminate|].
  destruct (inspect_exactly_once ex_cyclic 0 _ Hc eq_refl) as [(rs & N & Hr) _].
  intros u. split.
  - intros [<-|[<-|[<-|[]]]].
    + apply reach_refl.
    + apply (reach_step ptrue ex_cyclic 0 0 (Alpha 0) 1); [apply reach_refl | vm_compute; auto | reflexivity].
    + apply (reach_step ptrue ex_cyclic 0 1 (Greek 945) 2); [|vm_compute; auto | reflexivity].
      apply (reach_step ptrue ex_cyclic 0 0 (Alpha 0) 1); [apply reach_refl | vm_compute; auto | reflexivity].
  - apply (reach_in_closed_set ptrue ex_cyclic 0 (fun u => In u [0; 1; 2])); [left; reflexivity|].
    intros x a w Hx Hin _. simpl in Hx. destruct Hx as [<-|[<-|[<-|[]]]]; vm_compute in Hin.
    + destruct Hin as [E|[E|[]]]; inversion E; simpl; auto.
    + destruct Hin as [E|[]]; inversion E; simpl; auto.
    + destruct Hin as [E|[E|[]]]; inversion E; simpl; auto.
Qed.

(** a graph with an edge to an id beyond the capacity is not closed, and
    inspect panics on it (it does not run out of fuel) *)
Example C20_dangling_inspect :
  let g := set_vtx (op_empty 2) 0 (mkV 1 hex_empty PEmpty [(Alpha 0, 7)]) in
  ~ closed g 0 /\ inspect_doc g 0 = Panic PBoundary.
Proof.
  cbv zeta. split; [|vm_compute; reflexivity].
  intros [_ H]. specialize (H 0 (Alpha 0) 7 (reach_refl _ _ _)).
  assert (H7 : 7 < 2) by (apply H; vm_compute; auto). lia.
Qed.

Example C20_cyclic_debug_vprint :
  map dv_id (dd_vertices (debug_doc ex_cyclic)) = [0; 1; 2]
  /\ map dv_data (dd_vertices (debug_doc ex_cyclic)) = [None; Some (HVector [7%N]); None]
  /\ vprint_doc ex_cyclic 1 = Ok (true, [Greek 945])
  /\ vprint_doc ex_cyclic 0 = Ok (false, [Alpha 1; Alpha 0])
  /\ vprint_doc ex_cyclic 3 = Ok (false, []).
Proof. repeat split; vm_compute; reflexivity. Qed.

(** ** on every graph reached through the interface *)

From Sodg Require Import Wf.

Theorem C20_reachable_inspect_terminates :
  forall n cap os v,
  within_limits n cap sinit os -> Forall wf_op os -> v < cap ->
  exists g ls, Spec.run n (op_empty cap) os = Ok (g, snd (srun sinit os)) /\ inspect_doc g v = Ok ls.
Proof. exact reachable_inspect_terminates. Qed.

Check C20_reachable_inspect_terminates :
  forall n cap os v,
  within_limits n cap sinit os -> Forall wf_op os -> v < cap ->
  exists g ls, Spec.run n (op_empty cap) os = Ok (g, snd (srun sinit os)) /\ inspect_doc g v = Ok ls.
Print Assumptions C20_reachable_inspect_terminates.
