(** * Export: model of src/xml.rs ([to_xml]) and src/dot.rs ([to_dot]),
    after the repair that makes both skip absent vertices.

    Document (content, what the theorems are about) and renderer (exact
    text, compared with the implementation) are separate. *)

From Sodg Require Export Sodg Esort Print.
From Coq Require Import String.

Record xnode := mkX { x_id : nat; x_edges : edges; x_data : option hex }.

(** one node per present vertex in ascending id order (the iteration order
    of the vertex store, which [sorted_by_key(id)] leaves as it is), edges
    sorted by label, data iff the vertex has data *)
Definition export_doc (g : sodg) : list xnode :=
  map (fun v => mkX v (sort_edges (edg g v)) (if has_data g v then Some (dat g v) else None))
      (op_keys g).

Definition ch_quote : N := 34.

Definition replace_dash_space (t : text) : text :=
  map (fun c => if (c =? ch_dash)%N then ch_space else c) t.

Definition render_xml_node (x : xnode) : text :=
  let kids_ :=
    map (fun e : label * nat =>
           [ch_tab; ch_tab] ++ s2t "<e a=" ++ [ch_quote] ++ label_print (fst e) ++ [ch_quote]
           ++ s2t " to=" ++ [ch_quote] ++ print_nat (snd e) ++ [ch_quote] ++ s2t " />" ++ [ch_nl])
        (x_edges x)
    ++ match x_data x with
       | Some h => [[ch_tab; ch_tab] ++ s2t "<data>" ++ replace_dash_space (hex_print h)
                    ++ s2t "</data>" ++ [ch_nl]]
       | None => []
       end in
  match kids_ with
  | [] => [ch_tab] ++ s2t "<v id=" ++ [ch_quote] ++ print_nat (x_id x) ++ [ch_quote] ++ s2t " />" ++ [ch_nl]
  | _ => [ch_tab] ++ s2t "<v id=" ++ [ch_quote] ++ print_nat (x_id x) ++ [ch_quote] ++ s2t ">" ++ [ch_nl]
         ++ List.concat kids_ ++ [ch_tab] ++ s2t "</v>" ++ [ch_nl]
  end.

Definition render_xml (d : list xnode) : text :=
  s2t "<?xml version=" ++ [ch_quote] ++ s2t "1.1" ++ [ch_quote] ++ s2t " encoding=" ++ [ch_quote]
  ++ s2t "UTF-8" ++ [ch_quote] ++ s2t "?>" ++ [ch_nl]
  ++ match d with
     | [] => s2t "<sodg />" ++ [ch_nl]
     | _ => s2t "<sodg>" ++ [ch_nl] ++ List.concat (map render_xml_node d) ++ s2t "</sodg>" ++ [ch_nl]
     end.

Definition op_to_xml (g : sodg) : text := render_xml (export_doc g).

Definition ch_rho : N := 961.    (* ρ *)
Definition ch_sigma : N := 963.  (* σ *)
Definition ch_pi : N := 960.     (* π *)

Definition render_dot_node (x : xnode) : list text :=
  (s2t "  v" ++ print_nat (x_id x) ++ s2t "[shape=circle,label=" ++ [ch_quote] ++ nu (x_id x) ++ [ch_quote]
   ++ match x_data x with
      | Some h => s2t ",color=" ++ [ch_quote] ++ s2t "#f96900" ++ [ch_quote] ++ s2t "]; /* " ++ hex_print h ++ s2t " */"
      | None => s2t "]; "
      end)
  :: map (fun e : label * nat =>
            s2t "  v" ++ print_nat (x_id x) ++ s2t " -> v" ++ print_nat (snd e)
            ++ s2t " [label=" ++ [ch_quote] ++ label_print (fst e) ++ [ch_quote]
            ++ match fst e with
               | Greek c => if ((c =? ch_rho) || (c =? ch_sigma))%N then s2t ",color=gray,fontcolor=gray" else []
               | _ => []
               end
            ++ match fst e with
               | Greek c => if (c =? ch_pi)%N then s2t ",style=dashed" else []
               | _ => []
               end
            ++ s2t "];")
         (x_edges x).

Definition dot_header : text :=
  s2t "/* Render it at https://dreampuf.github.io/GraphvizOnline/ */" ++ [ch_nl]
  ++ s2t "digraph {" ++ [ch_nl]
  ++ s2t "  node [fixedsize=true,width=1,fontname=" ++ [ch_quote] ++ s2t "Arial" ++ [ch_quote] ++ s2t "];" ++ [ch_nl]
  ++ s2t "  edge [fontname=" ++ [ch_quote] ++ s2t "Arial" ++ [ch_quote] ++ s2t "];".

Definition render_dot (d : list xnode) : text :=
  join [ch_nl] ([dot_header] ++ List.concat (map render_dot_node d) ++ [s2t "}" ++ [ch_nl]]).

Definition op_to_dot (g : sodg) : text := render_dot (export_doc g).
