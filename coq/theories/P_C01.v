(** * C01  GC safety: nothing is collected early, collaterally, or by a non-reading call

    "The set of present vertices shrinks only as the immediate effect of a
    data() call that reads a vertex's datum for the first time since it was
    put.  Every vertex that call removes is linked to the vertex read through
    the history of bind calls and none of them holds a datum that was put and
    not yet read; a vertex that was never an endpoint of a bind is never
    removed.  No other call removes any vertex."

    Quantifier: every call sequence [os ++ [o]] within the capacity limits
    ([within_limits], judged on the reference model), every N >= 1 and vertex
    capacity; the statement is about the last call [o] after an arbitrary
    history [os], i.e. about every single call of every sequence.

    [present g w] is "w is in keys()"; [is_stored g v] is "v holds a datum put
    and not yet read"; [linked E v w] is connectedness in the undirected graph
    whose edges are the bind(v1,v2) calls of the history; [endpoint E w] says w
    occurs in one of them.  clone() is the identity on the model (C10), slice()
    and save() do not touch their receiver (functional model), load() is C08,
    merge() is a sequence of add/bind/put/next_id calls (C11_as_calls), so that
    [C01_other_calls_remove_nothing] covers them. *)

From Sodg Require Import HistoryThms.

Theorem C01_safety :
  forall n cap os o,
  within_limits n cap sinit (os ++ [o]) ->
  exists g g' r,
    run n (op_empty cap) os = Ok (g, snd (srun sinit os))
    /\ step n g o = Ok (g', r)
    /\ forall w, present g w = true -> present g' w = false ->
         exists v, o = OData v /\ is_stored g v = true
                   /\ linked (bind_pairs os) v w /\ endpoint (bind_pairs os) w
                   /\ (w = v \/ is_stored g w = false).
Proof. exact safety_model. Qed.

Check C01_safety :
  forall n cap os o,
  within_limits n cap sinit (os ++ [o]) ->
  exists g g' r,
    run n (op_empty cap) os = Ok (g, snd (srun sinit os))
    /\ step n g o = Ok (g', r)
    /\ forall w, present g w = true -> present g' w = false ->
         exists v, o = OData v /\ is_stored g v = true
                   /\ linked (bind_pairs os) v w /\ endpoint (bind_pairs os) w
                   /\ (w = v \/ is_stored g w = false).
Print Assumptions C01_safety.

Theorem C01_other_calls_remove_nothing :
  forall n cap os o,
  within_limits n cap sinit (os ++ [o]) -> (forall v, o <> OData v) ->
  exists g g' r,
    run n (op_empty cap) os = Ok (g, snd (srun sinit os))
    /\ step n g o = Ok (g', r)
    /\ forall w, present g w = true -> present g' w = true.
Proof. exact other_calls_remove_nothing. Qed.

Check C01_other_calls_remove_nothing :
  forall n cap os o,
  within_limits n cap sinit (os ++ [o]) -> (forall v, o <> OData v) ->
  exists g g' r,
    run n (op_empty cap) os = Ok (g, snd (srun sinit os))
    /\ step n g o = Ok (g', r)
    /\ forall w, present g w = true -> present g' w = true.
Print Assumptions C01_other_calls_remove_nothing.

Theorem C01_reference_safety :
  forall n cap os o,
  within_limits n cap sinit (os ++ [o]) ->
  let s := fst (srun sinit os) in
  let s' := fst (sstep s o) in
  forall w, s_present s w = true -> s_present s' w = false ->
  exists v, o = OData v /\ s_unread s v = true
            /\ linked (bind_pairs os) v w /\ endpoint (bind_pairs os) w
            /\ s_unread s' w = false.
Proof. exact spec_safety. Qed.

Check C01_reference_safety :
  forall n cap os o,
  within_limits n cap sinit (os ++ [o]) ->
  let s := fst (srun sinit os) in
  let s' := fst (sstep s o) in
  forall w, s_present s w = true -> s_present s' w = false ->
  exists v, o = OData v /\ s_unread s v = true
            /\ linked (bind_pairs os) v w /\ endpoint (bind_pairs os) w
            /\ s_unread s' w = false.
Print Assumptions C01_reference_safety.

Theorem C01_empty_or_repeated_read_removes_nothing :
  forall s v,
  s_unread s v = false -> fst (sstep s (OData v)) = s.
Proof. exact spec_data_noop. Qed.

Check C01_empty_or_repeated_read_removes_nothing :
  forall s v,
  s_unread s v = false -> fst (sstep s (OData v)) = s.
Print Assumptions C01_empty_or_repeated_read_removes_nothing.

Theorem C01_unbound_vertex_never_removed :
  forall s v w,
  s_grp s v = None -> s_present (fst (sstep s (OData v))) w = s_present s w.
Proof. exact spec_data_ungrouped. Qed.

Check C01_unbound_vertex_never_removed :
  forall s v w,
  s_grp s v = None -> s_present (fst (sstep s (OData v))) w = s_present s w.
Print Assumptions C01_unbound_vertex_never_removed.

Theorem C01_def_present :
  forall g v, present g v = true <-> tag g v <> 0.
Proof. exact present_true. Qed.

Check C01_def_present :
  forall g v, present g v = true <-> tag g v <> 0.
Print Assumptions C01_def_present.

Theorem C01_clone_is_identity :
  forall g, op_clone g = g.
Proof. exact clone_exact. Qed.

Check C01_clone_is_identity :
  forall g, op_clone g = g.
Print Assumptions C01_clone_is_identity.


Ltac limits_solve :=
  repeat match goal with
         | |- _ /\ _ => split
         | |- True => exact I
         | |- _ = _ => reflexivity
         | |- _ <> _ => discriminate || lia
         | |- _ < _ => vm_compute; lia
         | |- _ \/ _ => (left; reflexivity) || (right; vm_compute; lia)
         | |- match ?x with _ => _ end => let y := eval vm_compute in x in change x with y; cbv iota beta
         | |- exists _ : nat, _ =>
             first [ (exists 0; vm_compute; repeat split; (lia || reflexivity))
                   | (exists 1; vm_compute; repeat split; (lia || reflexivity))
                   | (exists 2; vm_compute; repeat split; (lia || reflexivity))
                   | (exists 3; vm_compute; repeat split; (lia || reflexivity))
                   | (exists 4; vm_compute; repeat split; (lia || reflexivity))
                   | (exists 5; vm_compute; repeat split; (lia || reflexivity)) ]
         end.

(** non-vacuity: a history within the limits whose last call collects, and
    the chain of binds that links the removed vertex 1 to the vertex read *)
Definition ex_os : list op :=
  [OAdd 1; OAdd 2; OAdd 3; OBind 1 2 (Alpha 0); OBind 3 2 (Greek 961); OPut 3 (HVector [9%N])].

Example C01_example : within_limits 2 4 sinit (ex_os ++ [OData 3])
  /\ s_keys (fst (srun sinit ex_os)) = [1; 2; 3]
  /\ s_keys (fst (srun sinit (ex_os ++ [OData 3]))) = []
  /\ linked (bind_pairs ex_os) 3 1.
Proof.
  split.
  - unfold ex_os. cbn [app within_limits pre]. repeat (split; [limits_solve|]); limits_solve.
  - split; [vm_compute; reflexivity|]. split; [vm_compute; reflexivity|].
    cbn. eapply l_trans; [apply l_edge; right; left; reflexivity|].
    apply l_sym. apply l_edge. left. reflexivity.
Qed.


