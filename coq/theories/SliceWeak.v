(** * SliceWeak: [slice_some] needs of its SOURCE graph only that the labels
    of every vertex are pairwise distinct and at most [n] -- not the whole
    representation invariant.

    SliceFacts.v proves the closure loop for any source ([pclosed] only).
    SliceFacts2.v proves the rebuild loop and the end-to-end theorems under
    [Inv n g] on the source, but uses of that invariant only the field
    [i_edges]: [rebuild] reads the source through [edg g _] and [cap_of g]
    alone, never its tags, group tables or counters.  This file re-proves the
    theorems of SliceFacts2.v with [Inv n g] replaced by [src_edges_ok n g] (the
    statement of the field [i_edges], literally), keeps [Inv n ng] for the
    RESULT, derives the old theorems from the new ones, and shows on a state
    that the real code reaches (a pair bound while all 14 group slots are
    taken) that the weaker hypothesis covers sources outside [Inv].

    ([SliceFacts2.edges_ok g], one argument, is a different predicate: "every
    edge leads to another slot of the graph".) *)

From Sodg Require Import SliceFacts2 SpecDec History.

(** the field [i_edges] of [Inv] (Inv.v), on its own; it carries no guard
    [v < cap_of g] there, so none here *)
Definition src_edges_ok (n : nat) (g : sodg) : Prop :=
  forall v, NoDup (map fst (edg g v)) /\ length (edg g v) <= n.

Lemma inv_src_edges_ok n g : Inv n g -> src_edges_ok n g.
Proof. intros HI. exact (i_edges HI). Qed.

(** ** the rebuild loop, source under [src_edges_ok] only

    [rb], [rb_empty], [add_rb], [keep], [expect] of SliceFacts2.v speak about
    the graph under construction (whose [Inv] is established, not assumed) and
    are reused as they are; the three lemmas that used [Inv n g] of the source
    are proved again. *)

Section RebuildWeak.
  Variable n : nat.
  Variable g : sodg.
  Variable done : list nat.
  Hypothesis Hg : src_edges_ok n g.
  Hypothesis Hnd : NoDup done.
  Hypothesis Hlen : length done <= 16.
  Hypothesis Hlt : forall x, In x done -> x < cap_of g.
  Hypothesis Hnoself : forall u a, In u done -> ~ In (a, u) (edg g u).

  Lemma rebuild_src_edges_ok_weak v1 : In v1 done ->
    forall es pre ng,
      edg g v1 = pre ++ es ->
      rb n g done ng -> tag ng v1 <> 0 -> edg ng v1 = keep done pre ->
      exists ng', rebuild_edges n ng done v1 es = Ok ng' /\ rb n g done ng'
        /\ (forall w, tag ng w <> 0 -> tag ng' w <> 0)
        /\ (forall w, w <> v1 -> edg ng' w = edg ng w)
        /\ edg ng' v1 = keep done (edg g v1).
  Proof.
    intros Hv1. induction es as [|[k v2] rest IH]; intros pre ng Hsplit R T1 E1.
    - exists ng. cbn [rebuild_edges]. rewrite app_nil_r in Hsplit. subst pre.
      split; [reflexivity|]. split; [exact R|]. split; [auto|]. split; [auto|exact E1].
    - cbn [rebuild_edges].
      assert (Hsplit' : edg g v1 = (pre ++ [(k, v2)]) ++ rest) by (rewrite <- app_assoc; exact Hsplit).
      destruct (mem v2 done) eqn:M2.
      + apply mem_In in M2.
        destruct (add_rb n g done Hlt ng v2 R M2) as (ng1 & A1 & R1 & Ee1 & T2 & Tm1).
        rewrite A1. cbn [obind].
        assert (T1' : tag ng1 v1 <> 0) by (apply Tm1; exact T1).
        assert (Hin : In (k, v2) (edg g v1)) by (rewrite Hsplit; apply in_or_app; right; left; reflexivity).
        assert (Hne : v1 <> v2) by (intros ->; apply (Hnoself v2 k M2 Hin)).
        assert (Hk : ~ In k (map fst (keep done pre))).
        { intros H. apply keep_keys in H.
          destruct (Hg v1) as [Nd _]. rewrite Hsplit, map_app in Nd. cbn [map fst] in Nd.
          apply NoDup_remove_2 in Nd. apply Nd. apply in_or_app. left; exact H. }
        destruct R1 as [RI RG RC RP RS RA].
        assert (Hc : cpre n ng1 (OBind v1 v2 k)).
        { cbn [cpre]. split; [exact T1'|]. split; [exact T2|]. split; [exact Hne|].
          split; [|split; [|split]].
          - right. rewrite Ee1, E1. destruct (Hg v1) as [_ Ln].
            pose proof (keep_length done pre) as Lk.
            rewrite Hsplit, app_length in Ln. cbn [length] in Ln. lia.
          - intros U1 U2. apply (free_slot_count n ng1 done v1 v2); auto.
          - intros U1 U2. pose proof (i_tag RI v2) as Lt.
            apply (group_room n ng1 done v1); auto. lia.
          - intros U1 U2. pose proof (i_tag RI v1) as Lt.
            apply (group_room n ng1 done v2); auto. lia. }
        destruct (bind_effect n ng1 v1 v2 k RI Hc) as (ng2 & A2 & I2 & C2 & Z2 & P2 & E2 & G2).
        rewrite A2. cbn [obind].
        assert (E2v : edg ng2 v1 = keep done (pre ++ [(k, v2)])).
        { rewrite E2, Nat.eqb_refl, Ee1, E1, keep_app. rewrite spec_insert_fresh by exact Hk.
          f_equal. unfold keep. cbn [filter snd]. apply mem_In in M2. rewrite M2. reflexivity. }
        destruct (IH (pre ++ [(k, v2)]) ng2 Hsplit') as (ng' & A' & R' & Tm' & Fr' & Ev'); auto.
        { split.
          - exact I2.
          - apply G2. exact RG.
          - rewrite C2. exact RC.
          - intros w. rewrite P2. apply RP.
          - intros w Hw. apply RS. intros Z. apply Hw. apply Z2. exact Z.
          - intros w Hw. apply Z2 in Hw. rewrite E2.
            destruct (Nat.eqb_spec w v1) as [->|]; [contradiction|]. apply RA. exact Hw. }
        { intros Z. apply Z2 in Z. contradiction. }
        exists ng'. split; [exact A'|]. split; [exact R'|]. split; [|split; [|exact Ev']].
        * intros w Hw. apply Tm'. intros Z. apply Z2 in Z. apply (Tm1 w Hw). exact Z.
        * intros w Hw. rewrite (Fr' w Hw), E2.
          apply Nat.eqb_neq in Hw. rewrite Hw. apply Ee1.
      + apply (IH (pre ++ [(k, v2)]) ng Hsplit' R T1).
        rewrite keep_app, E1. unfold keep at 3. cbn [filter snd]. rewrite M2. rewrite app_nil_r. reflexivity.
  Qed.

  Lemma rebuild_ok_weak : forall vs procd ng,
    NoDup vs -> (forall x, In x vs -> ~ In x procd) ->
    rb n g done ng ->
    (forall w, In w done -> In w procd -> tag ng w <> 0) ->
    (forall w, edg ng w = expect g done (mem w procd) w) ->
    exists ng', rebuild n g ng done vs = Ok ng' /\ rb n g done ng'
      /\ (forall w, In w done -> In w vs \/ In w procd -> tag ng' w <> 0)
      /\ (forall w, edg ng' w = expect g done (mem w vs || mem w procd) w).
  Proof.
    induction vs as [|v1 rest IH]; intros procd ng Hvs Hfresh R Tp Ep.
    - exists ng. cbn [rebuild]. split; [reflexivity|]. split; [exact R|]. split.
      + intros w Hd [[]|Hp]. apply Tp; assumption.
      + intros w. rewrite Ep. reflexivity.
    - cbn [rebuild]. inversion Hvs as [|? ? Hv1 Hrest]; subst.
      assert (Hfresh' : forall x, In x rest -> ~ In x (v1 :: procd)).
      { intros x Hx [<-|Hp]; [contradiction|]. apply (Hfresh x (or_intror Hx) Hp). }
      assert (Hmem : forall w, mem w (v1 :: rest) || mem w procd = mem w rest || mem w (v1 :: procd)).
      { intros w. rewrite !mem_cons. destruct (w =? v1), (mem w rest); reflexivity. }
      destruct (mem v1 done) eqn:M1.
      + apply mem_In in M1.
        destruct (add_rb n g done Hlt ng v1 R M1) as (ng1 & A1 & R1 & Ee1 & T1 & Tm1).
        rewrite A1. cbn [obind].
        assert (Hnp : mem v1 procd = false).
        { apply mem_false. apply Hfresh. left; reflexivity. }
        destruct (rebuild_src_edges_ok_weak v1 M1 (edg g v1) [] ng1 eq_refl R1 T1) as (ng2 & A2 & R2 & Tm2 & Fr2 & Ev2).
        { rewrite Ee1, Ep. unfold expect. rewrite Hnp, andb_false_r. reflexivity. }
        rewrite A2. cbn [obind].
        destruct (IH (v1 :: procd) ng2 Hrest Hfresh' R2) as (ng' & A' & R' & T' & E').
        * intros w Hd [<-|Hp]; [apply Tm2; exact T1|]. apply Tm2, Tm1, Tp; assumption.
        * intros w. destruct (Nat.eq_dec w v1) as [->|Hne].
          -- rewrite Ev2, mem_cons, Nat.eqb_refl. unfold expect. apply mem_In in M1. rewrite M1.
             reflexivity.
          -- rewrite (Fr2 w Hne), Ee1, Ep, mem_cons.
             apply Nat.eqb_neq in Hne. rewrite Hne. reflexivity.
        * exists ng'. split; [exact A'|]. split; [exact R'|]. split.
          -- intros w Hd Hw. apply T'; [exact Hd|].
             destruct Hw as [[<-|Hw]|Hw];
               [right; left; reflexivity | left; exact Hw | right; right; exact Hw].
          -- intros w. rewrite E', Hmem. reflexivity.
      + destruct (IH (v1 :: procd) ng Hrest Hfresh' R) as (ng' & A' & R' & T' & E').
        * intros w Hd [<-|Hp]; [|apply Tp; assumption].
          apply mem_false in M1. contradiction.
        * intros w. rewrite Ep, mem_cons.
          destruct (Nat.eqb_spec w v1) as [->|]; [|reflexivity].
          unfold expect. rewrite M1. reflexivity.
        * exists ng'. split; [exact A'|]. split; [exact R'|]. split.
          -- intros w Hd Hw. apply T'; [exact Hd|].
             destruct Hw as [[<-|Hw]|Hw];
               [right; left; reflexivity | left; exact Hw | right; right; exact Hw].
          -- intros w. rewrite E', Hmem. reflexivity.
  Qed.

  Lemma rebuild_all_weak :
    exists ng, rebuild n g (op_empty (cap_of g)) done (iota (cap_of g)) = Ok ng
      /\ Inv n ng /\ cap_of ng = cap_of g
      /\ (forall w, tag ng w <> 0 <-> In w done)
      /\ (forall w, edg ng w = if mem w done then keep done (edg g w) else [])
      /\ (forall w, prs ng w = PEmpty).
  Proof.
    destruct (rebuild_ok_weak (iota (cap_of g)) [] (op_empty (cap_of g))) as (ng & A & R & T & E).
    - apply seq_NoDup.
    - intros x _ [].
    - apply rb_empty. exact Hlen.
    - intros w _ [].
    - intros w. rewrite edg_empty. unfold expect. cbn [mem existsb]. rewrite andb_false_r. reflexivity.
    - exists ng. destruct R as [RI RG RC RP RS RA].
      split; [exact A|]. split; [exact RI|]. split; [exact RC|]. split; [|split; [|exact RP]].
      + intros w. split; [apply RS|]. intros Hd. apply T; auto. left.
        unfold iota. apply in_seq. specialize (Hlt w Hd). lia.
      + intros w. rewrite E. unfold expect. cbn [mem existsb]. rewrite orb_false_r.
        destruct (mem w done) eqn:Md; [|reflexivity].
        assert (Hi : mem w (iota (cap_of g)) = true).
        { apply mem_In. unfold iota. apply in_seq. apply mem_In in Md. specialize (Hlt w Md). lia. }
        fold (mem w (iota (cap_of g))). rewrite Hi. reflexivity.
  Qed.
End RebuildWeak.

(** ** [slice_some] end to end, source under [src_edges_ok] only *)

Theorem slice_some_correct_16_weak n order p g v :
  src_edges_ok n g -> (forall l, Permutation (order l) l) -> pclosed p g v ->
  (forall rs, NoDup rs -> (forall u, In u rs -> reach p g v u) -> length rs <= 16) ->
  (forall u a, reach p g v u -> ~ In (a, u) (edg g u)) ->
  exists ng (kept : nat -> bool),
    op_slice_some n order g v p = Ok ng
    /\ Inv n ng /\ cap_of ng = cap_of g
    /\ (forall w, kept w = true <-> reach p g v w)
    /\ (forall w, tag ng w <> 0 <-> reach p g v w)
    /\ (forall w, edg ng w =
                  if kept w then filter (fun e : label * nat => kept (snd e)) (edg g w) else [])
    /\ (forall w, prs ng w = PEmpty).
Proof.
  intros Hg Ho Hc Hb Hs.
  destruct (closure_correct order p g v Ho Hc) as (done & Ecl & Nd & Hr).
  assert (Hlen : length done <= 16) by (apply Hb; [exact Nd | intros u Hu; apply Hr; exact Hu]).
  assert (Hlt : forall x, In x done -> x < cap_of g).
  { intros x Hx. eapply pclosed_reach_lt; [exact Hc | apply Hr; exact Hx]. }
  assert (Hns : forall u a, In u done -> ~ In (a, u) (edg g u)).
  { intros u a Hu. apply Hs. apply Hr. exact Hu. }
  destruct (rebuild_all_weak n g done Hg Nd Hlen Hlt Hns) as (ng & A & I & C & T & E & P).
  exists ng, (fun w => mem w done).
  unfold op_slice_some. rewrite Ecl. cbn [obind].
  split; [exact A|]. split; [exact I|]. split; [exact C|]. split; [|split; [|split; [exact E | exact P]]].
  - intros w. rewrite mem_In. apply Hr.
  - intros w. rewrite T. apply Hr.
Qed.

(** the form of the property text: at most 14 kept vertices *)
Theorem slice_some_correct_weak n order p g v :
  src_edges_ok n g -> (forall l, Permutation (order l) l) -> pclosed p g v ->
  (forall rs, NoDup rs -> (forall u, In u rs -> reach p g v u) -> length rs <= 14) ->
  (forall u a, reach p g v u -> ~ In (a, u) (edg g u)) ->
  exists ng,
    op_slice_some n order g v p = Ok ng
    /\ Inv n ng /\ cap_of ng = cap_of g
    /\ (forall w, tag ng w <> 0 <-> reach p g v w)
    /\ (exists kept : nat -> bool,
          (forall w, kept w = true <-> reach p g v w)
          /\ forall w, edg ng w =
                       if kept w then filter (fun e : label * nat => kept (snd e)) (edg g w) else [])
    /\ (forall w, prs ng w = PEmpty).
Proof.
  intros Hg Ho Hc Hb Hs.
  assert (Hb16 : forall rs, NoDup rs -> (forall u, In u rs -> reach p g v u) -> length rs <= 16).
  { intros rs N H. specialize (Hb rs N H). lia. }
  destruct (slice_some_correct_16_weak n order p g v Hg Ho Hc Hb16 Hs) as (ng & kept & A & I & C & K & T & E & P).
  exists ng. split; [exact A|]. split; [exact I|]. split; [exact C|]. split; [exact T|].
  split; [|exact P]. exists kept. split; assumption.
Qed.

(** the edges of the slice, as a set *)
Theorem slice_some_edges_weak n order p g v ng :
  src_edges_ok n g -> (forall l, Permutation (order l) l) -> pclosed p g v ->
  (forall rs, NoDup rs -> (forall u, In u rs -> reach p g v u) -> length rs <= 14) ->
  (forall u a, reach p g v u -> ~ In (a, u) (edg g u)) ->
  op_slice_some n order g v p = Ok ng ->
  forall w a t,
    In (a, t) (edg ng w) <-> reach p g v w /\ In (a, t) (edg g w) /\ reach p g v t.
Proof.
  intros Hg Ho Hc Hb Hs A w a t.
  destruct (slice_some_correct_weak n order p g v Hg Ho Hc Hb Hs) as (ng' & A' & _ & _ & _ & (kept & K & E) & _).
  rewrite A in A'. injection A' as <-.
  rewrite E. destruct (kept w) eqn:Kw.
  - rewrite filter_In. cbn [snd]. rewrite !K. apply K in Kw. tauto.
  - split; [intros []|]. intros (Hw & _). apply K in Hw. congruence.
Qed.

Theorem slice_some_accepted_edges_kept_weak n order p g v ng :
  src_edges_ok n g -> (forall l, Permutation (order l) l) -> pclosed p g v ->
  (forall rs, NoDup rs -> (forall u, In u rs -> reach p g v u) -> length rs <= 14) ->
  (forall u a, reach p g v u -> ~ In (a, u) (edg g u)) ->
  op_slice_some n order g v p = Ok ng ->
  forall w a t, tag ng w <> 0 -> In (a, t) (edg g w) -> p w t a = true ->
    In (a, t) (edg ng w) /\ tag ng t <> 0.
Proof.
  intros Hg Ho Hc Hb Hs A w a t Tw Hin Hp.
  destruct (slice_some_correct_weak n order p g v Hg Ho Hc Hb Hs) as (ng' & A' & _ & _ & T & _ & _).
  rewrite A in A'. injection A' as <-.
  apply T in Tw.
  assert (Ht : reach p g v t) by (apply (reach_step p g v w a t); assumption).
  split; [|apply T; exact Ht].
  apply (slice_some_edges_weak n order p g v ng Hg Ho Hc Hb Hs A). auto.
Qed.

Theorem slice_some_no_foreign_edge_weak n order p g v ng :
  src_edges_ok n g -> (forall l, Permutation (order l) l) -> pclosed p g v ->
  (forall rs, NoDup rs -> (forall u, In u rs -> reach p g v u) -> length rs <= 14) ->
  (forall u a, reach p g v u -> ~ In (a, u) (edg g u)) ->
  op_slice_some n order g v p = Ok ng ->
  forall w a t, In (a, t) (edg ng w) -> In (a, t) (edg g w) /\ tag ng w <> 0 /\ tag ng t <> 0.
Proof.
  intros Hg Ho Hc Hb Hs A w a t Hin.
  destruct (slice_some_correct_weak n order p g v Hg Ho Hc Hb Hs) as (ng' & A' & _ & _ & T & _ & _).
  rewrite A in A'. injection A' as <-.
  apply (slice_some_edges_weak n order p g v ng Hg Ho Hc Hb Hs A) in Hin as (Hw & He & Ht).
  split; [exact He|]. split; apply T; assumption.
Qed.

Theorem slice_some_no_data_weak n order p g v ng :
  src_edges_ok n g -> (forall l, Permutation (order l) l) -> pclosed p g v ->
  (forall rs, NoDup rs -> (forall u, In u rs -> reach p g v u) -> length rs <= 14) ->
  (forall u a, reach p g v u -> ~ In (a, u) (edg g u)) ->
  op_slice_some n order g v p = Ok ng ->
  forall w, prs ng w = PEmpty /\ has_data ng w = false.
Proof.
  intros Hg Ho Hc Hb Hs A w.
  destruct (slice_some_correct_weak n order p g v Hg Ho Hc Hb Hs) as (ng' & A' & _ & _ & _ & _ & P).
  rewrite A in A'. injection A' as <-.
  split; [apply P|]. unfold has_data. rewrite P. reflexivity.
Qed.

(** [slice]: every edge is accepted *)
Theorem slice_correct_weak n order g v :
  src_edges_ok n g -> (forall l, Permutation (order l) l) -> closed g v ->
  (forall rs, NoDup rs -> (forall u, In u rs -> reach ptrue g v u) -> length rs <= 14) ->
  (forall u a, reach ptrue g v u -> ~ In (a, u) (edg g u)) ->
  exists ng,
    op_slice n order g v = Ok ng
    /\ Inv n ng /\ cap_of ng = cap_of g
    /\ (forall w, tag ng w <> 0 <-> reach ptrue g v w)
    /\ (forall w a t, In (a, t) (edg ng w) <-> reach ptrue g v w /\ In (a, t) (edg g w))
    /\ (forall w, reach ptrue g v w -> edg ng w = edg g w)
    /\ (forall w, prs ng w = PEmpty).
Proof.
  intros Hg Ho Hc Hb Hs. apply closed_pclosed in Hc.
  destruct (slice_some_correct_weak n order ptrue g v Hg Ho Hc Hb Hs) as (ng & A & I & C & T & (kept & K & E) & P).
  exists ng. unfold op_slice. fold ptrue. split; [exact A|]. split; [exact I|]. split; [exact C|].
  split; [exact T|]. split; [|split; [|exact P]].
  - intros w a t. rewrite (slice_some_edges_weak n order ptrue g v ng Hg Ho Hc Hb Hs A). split; [tauto|].
    intros (Hw & He). split; [exact Hw|]. split; [exact He|].
    apply (reach_step ptrue g v w a t); auto.
  - intros w Hw. rewrite E. apply K in Hw as Kw. rewrite Kw.
    assert (F : forall e, In e (edg g w) -> kept (snd e) = true).
    { intros [a t] He. cbn [snd]. apply K. apply (reach_step ptrue g v w a t); auto. }
    clear - F. induction (edg g w) as [|e l IH]; cbn [filter]; [reflexivity|].
    rewrite (F e (or_introl eq_refl)). f_equal. apply IH. intros x Hx. apply F. right; exact Hx.
Qed.

(** ** sanity: the theorems of SliceFacts2.v are instances of the weak ones *)

Theorem slice_some_correct_16_from_weak n order p g v :
  Inv n g -> (forall l, Permutation (order l) l) -> pclosed p g v ->
  (forall rs, NoDup rs -> (forall u, In u rs -> reach p g v u) -> length rs <= 16) ->
  (forall u a, reach p g v u -> ~ In (a, u) (edg g u)) ->
  exists ng (kept : nat -> bool),
    op_slice_some n order g v p = Ok ng
    /\ Inv n ng /\ cap_of ng = cap_of g
    /\ (forall w, kept w = true <-> reach p g v w)
    /\ (forall w, tag ng w <> 0 <-> reach p g v w)
    /\ (forall w, edg ng w =
                  if kept w then filter (fun e : label * nat => kept (snd e)) (edg g w) else [])
    /\ (forall w, prs ng w = PEmpty).
Proof. intros HI. exact (slice_some_correct_16_weak n order p g v (inv_src_edges_ok n g HI)). Qed.

Theorem slice_some_correct_from_weak n order p g v :
  Inv n g -> (forall l, Permutation (order l) l) -> pclosed p g v ->
  (forall rs, NoDup rs -> (forall u, In u rs -> reach p g v u) -> length rs <= 14) ->
  (forall u a, reach p g v u -> ~ In (a, u) (edg g u)) ->
  exists ng,
    op_slice_some n order g v p = Ok ng
    /\ Inv n ng /\ cap_of ng = cap_of g
    /\ (forall w, tag ng w <> 0 <-> reach p g v w)
    /\ (exists kept : nat -> bool,
          (forall w, kept w = true <-> reach p g v w)
          /\ forall w, edg ng w =
                       if kept w then filter (fun e : label * nat => kept (snd e)) (edg g w) else [])
    /\ (forall w, prs ng w = PEmpty).
Proof. intros HI. exact (slice_some_correct_weak n order p g v (inv_src_edges_ok n g HI)). Qed.

Theorem slice_some_edges_from_weak n order p g v ng :
  Inv n g -> (forall l, Permutation (order l) l) -> pclosed p g v ->
  (forall rs, NoDup rs -> (forall u, In u rs -> reach p g v u) -> length rs <= 14) ->
  (forall u a, reach p g v u -> ~ In (a, u) (edg g u)) ->
  op_slice_some n order g v p = Ok ng ->
  forall w a t,
    In (a, t) (edg ng w) <-> reach p g v w /\ In (a, t) (edg g w) /\ reach p g v t.
Proof. intros HI. exact (slice_some_edges_weak n order p g v ng (inv_src_edges_ok n g HI)). Qed.

Theorem slice_some_accepted_edges_kept_from_weak n order p g v ng :
  Inv n g -> (forall l, Permutation (order l) l) -> pclosed p g v ->
  (forall rs, NoDup rs -> (forall u, In u rs -> reach p g v u) -> length rs <= 14) ->
  (forall u a, reach p g v u -> ~ In (a, u) (edg g u)) ->
  op_slice_some n order g v p = Ok ng ->
  forall w a t, tag ng w <> 0 -> In (a, t) (edg g w) -> p w t a = true ->
    In (a, t) (edg ng w) /\ tag ng t <> 0.
Proof. intros HI. exact (slice_some_accepted_edges_kept_weak n order p g v ng (inv_src_edges_ok n g HI)). Qed.

Theorem slice_some_no_foreign_edge_from_weak n order p g v ng :
  Inv n g -> (forall l, Permutation (order l) l) -> pclosed p g v ->
  (forall rs, NoDup rs -> (forall u, In u rs -> reach p g v u) -> length rs <= 14) ->
  (forall u a, reach p g v u -> ~ In (a, u) (edg g u)) ->
  op_slice_some n order g v p = Ok ng ->
  forall w a t, In (a, t) (edg ng w) -> In (a, t) (edg g w) /\ tag ng w <> 0 /\ tag ng t <> 0.
Proof. intros HI. exact (slice_some_no_foreign_edge_weak n order p g v ng (inv_src_edges_ok n g HI)). Qed.

(** the statements are the old ones, word for word: each new proof is
    accepted at the type of the corresponding theorem of SliceFacts2.v *)
Check (slice_some_correct_16_from_weak
       : ltac:(let t := type of slice_some_correct_16 in exact t)).
Check (slice_some_correct_from_weak
       : ltac:(let t := type of slice_some_correct in exact t)).
Check (slice_some_edges_from_weak
       : ltac:(let t := type of slice_some_edges in exact t)).
Check (slice_some_accepted_edges_kept_from_weak
       : ltac:(let t := type of slice_some_accepted_edges_kept in exact t)).
Check (slice_some_no_foreign_edge_from_weak
       : ltac:(let t := type of slice_some_no_foreign_edge in exact t)).

(** ** computable checks for the hypotheses, for the example *)

Fixpoint nodup_labelsb (l : list label) : bool :=
  match l with
  | [] => true
  | x :: t => negb (existsb (label_eqb x) t) && nodup_labelsb t
  end.

Lemma nodup_labelsb_spec l : nodup_labelsb l = true -> NoDup l.
Proof.
  induction l as [|x t IH]; intros H; cbn [nodup_labelsb] in H; [constructor|].
  apply andb_true_iff in H as [H1 H2]. constructor; [|apply IH; exact H2].
  intros Hin. apply negb_true_iff in H1.
  assert (E : existsb (label_eqb x) t = true).
  { apply existsb_exists. exists x. split; [exact Hin | apply label_eqb_refl]. }
  congruence.
Qed.

Definition src_edges_okb (n : nat) (g : sodg) : bool :=
  forallb (fun v => nodup_labelsb (map fst (edg g v)) && (length (edg g v) <=? n))
          (iota (cap_of g)).

Lemma src_edges_okb_spec n g : src_edges_okb n g = true -> src_edges_ok n g.
Proof.
  intros H v. destruct (Nat.lt_ge_cases v (cap_of g)) as [L|L].
  - unfold src_edges_okb in H. rewrite forallb_forall in H.
    assert (Hv : In v (iota (cap_of g))) by (unfold iota; apply in_seq; lia).
    specialize (H v Hv). apply andb_true_iff in H as [H1 H2].
    split; [apply nodup_labelsb_spec; exact H1 | apply Nat.leb_le; exact H2].
  - unfold edg. rewrite vtx_overflow by exact L. cbn. split; [constructor | lia].
Qed.

(** [l] contains [v] and every target of an edge that leaves a member of [l] *)
Definition closed_setb (g : sodg) (l : list nat) : bool :=
  forallb (fun u => forallb (fun e : label * nat => mem (snd e) l) (edg g u)) l.

Lemma closed_setb_reach p g v l :
  closed_setb g l = true -> In v l -> forall u, reach p g v u -> In u l.
Proof.
  intros H Hv. apply (reach_in_closed_set p g v (fun u => In u l) Hv).
  intros u a w Hu Hin _. unfold closed_setb in H. rewrite forallb_forall in H.
  specialize (H u Hu). rewrite forallb_forall in H. specialize (H (a, w) Hin).
  cbn [snd] in H. apply mem_In. exact H.
Qed.

Lemma closed_setb_bound p g v l k :
  closed_setb g l = true -> In v l -> length l <= k ->
  forall rs, NoDup rs -> (forall u, In u rs -> reach p g v u) -> length rs <= k.
Proof.
  intros H Hv Hk rs N Hr. eapply Nat.le_trans; [|exact Hk].
  apply NoDup_incl_length; [exact N|].
  intros u Hu. apply (closed_setb_reach p g v l H Hv). apply Hr. exact Hu.
Qed.

(** ** a source outside [Inv]: a pair bound while all 14 group slots are taken

    Fourteen pairs [add 2b; add 2b+1; bind 2b (2b+1) a0] take the group slots
    2..15.  Then [add 40; add 41; add 42; bind 40 41 a1; bind 41 42 a2]: both
    ends of each of these two [bind] calls are ungrouped and the loop over the
    group table finds no empty slot, so [ours] stays 1 (BRANCH_STATIC): the
    three vertices keep tag 1 although they have edges, and [bind] pushes its
    second end on the member list of slot 1, the sentinel slot.  The calls are
    outside [within_limits] (the model of the documented limits), but the real
    code and the model perform them without a panic.  The state breaks the
    field [i_m1] of [Inv] ([members g 1 = [0]]): slot 1 holds [0; 41; 42]. *)
Definition ex_full_calls : list op :=
  flat_map (fun b => [OAdd (2 * b); OAdd (2 * b + 1); OBind (2 * b) (2 * b + 1) (Alpha 0)]) (iota 14)
  ++ [OAdd 40; OAdd 41; OAdd 42; OBind 40 41 (Alpha 1); OBind 41 42 (Alpha 2)].

Definition ex_full : sodg := built 16 48 ex_full_calls.

(** the calls do run (no panic), and the last two are outside the limits *)
Example ex_full_runs :
  is_ok (run 16 (op_empty 48) ex_full_calls) = true
  /\ within_limitsb 16 48 sinit ex_full_calls = false
  /\ within_limitsb 16 48 sinit (firstn 45 ex_full_calls) = true.
Proof.
  split; [vm_compute; reflexivity|]. split; vm_compute; reflexivity.
Qed.

Example ex_full_shape :
  first_empty ex_full = None
  /\ tag ex_full 40 = 1 /\ tag ex_full 41 = 1 /\ tag ex_full 42 = 1
  /\ edg ex_full 40 = [(Alpha 1, 41)] /\ edg ex_full 41 = [(Alpha 2, 42)] /\ edg ex_full 42 = []
  /\ members ex_full 1 = [0; 41; 42].
Proof.
  split; [vm_compute; reflexivity|]. split; [vm_compute; reflexivity|].
  split; [vm_compute; reflexivity|]. split; [vm_compute; reflexivity|].
  split; [vm_compute; reflexivity|]. split; [vm_compute; reflexivity|].
  split; vm_compute; reflexivity.
Qed.

Example ex_full_not_inv : forall n, ~ Inv n ex_full.
Proof.
  intros n HI. pose proof (i_m1 HI) as H.
  assert (E : members ex_full 1 = [0; 41; 42]) by (vm_compute; reflexivity).
  rewrite E in H. clear E. discriminate H.
Qed.

Example ex_full_src_edges_ok : src_edges_ok 16 ex_full.
Proof. apply src_edges_okb_spec. vm_compute. reflexivity. Qed.

Example ex_full_pclosed : pclosed ptrue ex_full 40.
Proof. apply closedb_pclosed; [vm_compute; reflexivity | vm_compute; lia]. Qed.

(** every hypothesis of [slice_some_correct_weak] holds of [ex_full] (which is
    outside [Inv]), start vertex 40, identity iteration order; the slice is a
    graph inside [Inv] whose keys are 40, 41, 42 with the two edges *)
Example slice_weak_example :
  ~ Inv 16 ex_full
  /\ src_edges_ok 16 ex_full
  /\ (forall l : list nat, Permutation ((fun x => x) l) l)
  /\ pclosed ptrue ex_full 40
  /\ (forall rs, NoDup rs -> (forall u, In u rs -> reach ptrue ex_full 40 u) -> length rs <= 14)
  /\ (forall u a, reach ptrue ex_full 40 u -> ~ In (a, u) (edg ex_full u))
  /\ exists ng, op_slice 16 (fun x => x) ex_full 40 = Ok ng
       /\ Inv 16 ng
       /\ op_keys ng = [40; 41; 42]
       /\ edg ng 40 = [(Alpha 1, 41)] /\ edg ng 41 = [(Alpha 2, 42)] /\ edg ng 42 = []
       /\ tag ng 40 = 2 /\ tag ng 41 = 2 /\ tag ng 42 = 2
       /\ ng = built 16 48 [OAdd 40; OAdd 41; OBind 40 41 (Alpha 1); OAdd 42; OBind 41 42 (Alpha 2)].
Proof.
  assert (Hb : forall rs, NoDup rs -> (forall u, In u rs -> reach ptrue ex_full 40 u) -> length rs <= 14).
  { apply (closed_setb_bound ptrue ex_full 40 [40; 41; 42]);
      [vm_compute; reflexivity | left; reflexivity | cbn; lia]. }
  assert (Hs : forall u a, reach ptrue ex_full 40 u -> ~ In (a, u) (edg ex_full u)).
  { intros u a Hr. apply noselfb_spec; [vm_compute; reflexivity|].
    eapply pclosed_reach_lt; [exact ex_full_pclosed | exact Hr]. }
  split; [apply ex_full_not_inv|].
  split; [exact ex_full_src_edges_ok|].
  split; [intros l; apply Permutation_refl|].
  split; [exact ex_full_pclosed|].
  split; [exact Hb|].
  split; [exact Hs|].
  destruct (slice_some_correct_weak 16 (fun x => x) ptrue ex_full 40 ex_full_src_edges_ok
              (fun l => Permutation_refl l) ex_full_pclosed Hb Hs) as (ng & A & I & _).
  exists ng. unfold op_slice. fold ptrue. split; [exact A|]. split; [exact I|].
  assert (E : op_slice_some 16 (fun x => x) ex_full 40 ptrue
              = Ok (built 16 48 [OAdd 40; OAdd 41; OBind 40 41 (Alpha 1); OAdd 42; OBind 41 42 (Alpha 2)]))
    by (vm_compute; reflexivity).
  rewrite E in A. injection A as <-. clear E I.
  split; [vm_compute; reflexivity|]. split; [vm_compute; reflexivity|].
  split; [vm_compute; reflexivity|]. split; [vm_compute; reflexivity|].
  split; [vm_compute; reflexivity|]. split; [vm_compute; reflexivity|].
  split; [vm_compute; reflexivity|reflexivity].
Qed.

Print Assumptions inv_src_edges_ok.
Print Assumptions slice_some_correct_16_weak.
Print Assumptions slice_some_correct_weak.
Print Assumptions slice_some_edges_weak.
Print Assumptions slice_some_accepted_edges_kept_weak.
Print Assumptions slice_some_no_foreign_edge_weak.
Print Assumptions slice_some_no_data_weak.
Print Assumptions slice_correct_weak.
Print Assumptions slice_some_correct_16_from_weak.
Print Assumptions slice_some_correct_from_weak.
Print Assumptions slice_some_edges_from_weak.
Print Assumptions slice_some_accepted_edges_kept_from_weak.
Print Assumptions slice_some_no_foreign_edge_from_weak.
Print Assumptions ex_full_not_inv.
Print Assumptions slice_weak_example.
