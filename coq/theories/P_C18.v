(** * P_C18: property C18 of the sodg verification.

    "to_xml() and to_dot() contain one node per present vertex and none for
    absent ids, one edge entry per edge with its label and target, and the
    data bytes of every vertex that has data.  Vertices appear in ascending
    id order, and two graphs with the same present vertices, edges and data
    produce the same text however they were built."

    [op_to_xml g = render_xml (export_doc g)] and
    [op_to_dot g = render_dot (export_doc g)] (Export.v): the theorems about
    nodes, edge entries and data are about the document [export_doc g]; the
    canonical-form theorem [C18_canonical] is about the two texts.

    - nodes: [C18_nodes], [C18_keys_spec], [C18_keys_sorted], [C18_keys_nodup],
      [C18_absent_not_printed], [C18_out_of_range_not_printed],
      [C18_node_of_vertex];
    - edge entries and data of a node: [C18_node_content],
      [C18_edge_entries], [C18_edge_count];
    - the order used for the edge entries is a total order on labels:
      [C18_label_compare_*], [C18_label_leb_order];
    - canonical form: [C18_def_same_content], [C18_canonical],
      [C18_canonical_doc], [C18_doc_determines_content].

    The hypothesis of [C18_canonical] that the labels of a vertex are
    pairwise distinct is an invariant of the edge map ([micromap] replaces
    the value of an existing key), proved for reachable states elsewhere.

    This file holds only the property theorems; every proof is in
    ExportFacts.v. *)

From Sodg Require Import Base Text Hex Label Sodg Esort Print Export ExportFacts.
From Coq Require Import Permutation Sorting.

(** ** one node per present vertex, none for absent ids, ascending *)

Theorem C18_nodes :
  forall g, map x_id (export_doc g) = op_keys g.
Proof. exact export_ids. Qed.

Check C18_nodes :
  forall g, map x_id (export_doc g) = op_keys g.
Print Assumptions C18_nodes.

Theorem C18_keys_spec :
  forall g v, In v (op_keys g) <-> v < cap_of g /\ tag g v <> 0.
Proof. exact keys_spec. Qed.

Check C18_keys_spec :
  forall g v, In v (op_keys g) <-> v < cap_of g /\ tag g v <> 0.
Print Assumptions C18_keys_spec.

Theorem C18_keys_sorted :
  forall g, StronglySorted lt (op_keys g).
Proof. exact keys_sorted. Qed.

Check C18_keys_sorted :
  forall g, StronglySorted lt (op_keys g).
Print Assumptions C18_keys_sorted.

Theorem C18_keys_nodup :
  forall g, NoDup (op_keys g).
Proof. exact keys_nodup. Qed.

Check C18_keys_nodup :
  forall g, NoDup (op_keys g).
Print Assumptions C18_keys_nodup.

Theorem C18_absent_not_printed :
  forall g v, tag g v = 0 -> ~ In v (map x_id (export_doc g)).
Proof. exact export_absent. Qed.

Check C18_absent_not_printed :
  forall g v, tag g v = 0 -> ~ In v (map x_id (export_doc g)).
Print Assumptions C18_absent_not_printed.

Theorem C18_out_of_range_not_printed :
  forall g v, cap_of g <= v -> ~ In v (map x_id (export_doc g)).
Proof. exact export_out_of_range. Qed.

Check C18_out_of_range_not_printed :
  forall g v, cap_of g <= v -> ~ In v (map x_id (export_doc g)).
Print Assumptions C18_out_of_range_not_printed.

Theorem C18_node_of_vertex :
  forall g v,
    In v (op_keys g) ->
    In (mkX v (sort_edges (edg g v)) (if has_data g v then Some (dat g v) else None))
       (export_doc g).
Proof. exact export_node_of_key. Qed.

Check C18_node_of_vertex :
  forall g v,
    In v (op_keys g) ->
    In (mkX v (sort_edges (edg g v)) (if has_data g v then Some (dat g v) else None))
       (export_doc g).
Print Assumptions C18_node_of_vertex.

(** ** one edge entry per edge, in label order; data iff the vertex has data *)

Theorem C18_node_content :
  forall g x,
    In x (export_doc g) ->
    Permutation (x_edges x) (edg g (x_id x)) /\
    StronglySorted (fun a b => label_leb (fst a) (fst b) = true) (x_edges x) /\
    x_data x = (if has_data g (x_id x) then Some (dat g (x_id x)) else None).
Proof. exact export_node_content. Qed.

Check C18_node_content :
  forall g x,
    In x (export_doc g) ->
    Permutation (x_edges x) (edg g (x_id x)) /\
    StronglySorted (fun a b => label_leb (fst a) (fst b) = true) (x_edges x) /\
    x_data x = (if has_data g (x_id x) then Some (dat g (x_id x)) else None).
Print Assumptions C18_node_content.

Theorem C18_edge_entries :
  forall g x a w,
    In x (export_doc g) ->
    (In (a, w) (x_edges x) <-> In (a, w) (edg g (x_id x))).
Proof. exact export_edge_entries. Qed.

Check C18_edge_entries :
  forall g x a w,
    In x (export_doc g) ->
    (In (a, w) (x_edges x) <-> In (a, w) (edg g (x_id x))).
Print Assumptions C18_edge_entries.

Theorem C18_edge_count :
  forall g x,
    In x (export_doc g) -> length (x_edges x) = length (edg g (x_id x)).
Proof. exact export_edge_count. Qed.

Check C18_edge_count :
  forall g x,
    In x (export_doc g) -> length (x_edges x) = length (edg g (x_id x)).
Print Assumptions C18_edge_count.

(** ** the label order is a total order *)

Theorem C18_label_compare_eq :
  forall a b, label_compare a b = Eq <-> a = b.
Proof. exact label_compare_eq_iff. Qed.

Check C18_label_compare_eq :
  forall a b, label_compare a b = Eq <-> a = b.
Print Assumptions C18_label_compare_eq.

Theorem C18_label_compare_antisym :
  forall a b, label_compare a b = CompOpp (label_compare b a).
Proof. exact label_compare_antisym. Qed.

Check C18_label_compare_antisym :
  forall a b, label_compare a b = CompOpp (label_compare b a).
Print Assumptions C18_label_compare_antisym.

Theorem C18_label_compare_trans :
  forall c a b d,
    label_compare a b = c -> label_compare b d = c -> label_compare a d = c.
Proof. exact label_compare_trans. Qed.

Check C18_label_compare_trans :
  forall c a b d,
    label_compare a b = c -> label_compare b d = c -> label_compare a d = c.
Print Assumptions C18_label_compare_trans.

Theorem C18_label_leb_order :
  (forall a, label_leb a a = true) /\
  (forall a b, label_leb a b = false -> label_leb b a = true) /\
  (forall a b c, label_leb a b = true -> label_leb b c = true -> label_leb a c = true) /\
  (forall a b, label_leb a b = true -> label_leb b a = true -> a = b).
Proof.
  exact (conj label_leb_refl (conj label_leb_total (conj label_leb_trans label_leb_antisym))).
Qed.

Check C18_label_leb_order :
  (forall a, label_leb a a = true) /\
  (forall a b, label_leb a b = false -> label_leb b a = true) /\
  (forall a b c, label_leb a b = true -> label_leb b c = true -> label_leb a c = true) /\
  (forall a b, label_leb a b = true -> label_leb b a = true -> a = b).
Print Assumptions C18_label_leb_order.

(** ** canonical form *)

Theorem C18_def_same_content :
  forall g1 g2,
    same_content g1 g2 <->
    op_keys g1 = op_keys g2 /\
    forall v, In v (op_keys g1) ->
      Permutation (edg g1 v) (edg g2 v) /\
      has_data g1 v = has_data g2 v /\
      (has_data g1 v = true -> bytes (dat g1 v) = bytes (dat g2 v)).
Proof. exact same_content_def. Qed.

Check C18_def_same_content :
  forall g1 g2,
    same_content g1 g2 <->
    op_keys g1 = op_keys g2 /\
    forall v, In v (op_keys g1) ->
      Permutation (edg g1 v) (edg g2 v) /\
      has_data g1 v = has_data g2 v /\
      (has_data g1 v = true -> bytes (dat g1 v) = bytes (dat g2 v)).
Print Assumptions C18_def_same_content.

Theorem C18_canonical :
  forall g1 g2,
    (forall v, In v (op_keys g1) -> NoDup (map fst (edg g1 v))) ->
    same_content g1 g2 ->
    op_to_xml g1 = op_to_xml g2 /\ op_to_dot g1 = op_to_dot g2.
Proof. exact export_canonical. Qed.

Check C18_canonical :
  forall g1 g2,
    (forall v, In v (op_keys g1) -> NoDup (map fst (edg g1 v))) ->
    same_content g1 g2 ->
    op_to_xml g1 = op_to_xml g2 /\ op_to_dot g1 = op_to_dot g2.
Print Assumptions C18_canonical.

(** the documents themselves agree, the data taken as bytes *)
Theorem C18_canonical_doc :
  forall g1 g2,
    (forall v, In v (op_keys g1) -> NoDup (map fst (edg g1 v))) ->
    same_content g1 g2 ->
    map (fun x => (x_id x, x_edges x, option_map bytes (x_data x))) (export_doc g1) =
    map (fun x => (x_id x, x_edges x, option_map bytes (x_data x))) (export_doc g2).
Proof. exact export_canonical_doc. Qed.

Check C18_canonical_doc :
  forall g1 g2,
    (forall v, In v (op_keys g1) -> NoDup (map fst (edg g1 v))) ->
    same_content g1 g2 ->
    map (fun x => (x_id x, x_edges x, option_map bytes (x_data x))) (export_doc g1) =
    map (fun x => (x_id x, x_edges x, option_map bytes (x_data x))) (export_doc g2).
Print Assumptions C18_canonical_doc.

(** and nothing but the content enters the document *)
Theorem C18_doc_determines_content :
  forall g1 g2,
    map (fun x => (x_id x, x_edges x, option_map bytes (x_data x))) (export_doc g1) =
    map (fun x => (x_id x, x_edges x, option_map bytes (x_data x))) (export_doc g2) ->
    same_content g1 g2.
Proof. exact export_doc_determines_content. Qed.

Check C18_doc_determines_content :
  forall g1 g2,
    map (fun x => (x_id x, x_edges x, option_map bytes (x_data x))) (export_doc g1) =
    map (fun x => (x_id x, x_edges x, option_map bytes (x_data x))) (export_doc g2) ->
    same_content g1 g2.
Print Assumptions C18_doc_determines_content.

(** ** the hypotheses are satisfiable *)

(** [ex_a] and [ex_b] (ExportFacts.v) are built by [op_add]/[op_bind]/[op_put]
    with different capacities, the vertices added and the edges of vertex 0
    bound in different orders, and the data of vertex 0 in different
    representations *)
Example ex_built_differently :
  cap_of ex_a = 4 /\ cap_of ex_b = 6 /\
  edg ex_a 0 = [(Alpha 1, 1); (Greek 961, 2)] /\
  edg ex_b 0 = [(Greek 961, 2); (Alpha 1, 1)] /\
  dat ex_a 0 = HVector [202; 254]%N /\
  dat ex_b 0 = HBytes [202; 254; 7; 7; 7; 7; 7; 7]%N 2 /\
  ex_a <> ex_b.
Proof.
  repeat split; try (vm_compute; reflexivity).
  intros H. apply (f_equal cap_of) in H. vm_compute in H. discriminate H.
Qed.

Example ex_same_content : same_content ex_a ex_b.
Proof.
  split; [vm_compute; reflexivity|].
  intros v Hv. vm_compute in Hv.
  destruct Hv as [<-|[<-|[<-|[]]]]; vm_compute;
    (split; [|split; [reflexivity | intros _; reflexivity]]).
  - apply perm_swap.
  - apply perm_nil.
  - apply Permutation_refl.
Qed.

Example ex_labels_distinct :
  forall v, In v (op_keys ex_a) -> NoDup (map fst (edg ex_a v)).
Proof.
  intros v Hv. vm_compute in Hv.
  destruct Hv as [<-|[<-|[<-|[]]]]; vm_compute.
  - constructor; [intros [H|[]]; discriminate H|]. constructor; [intros []|constructor].
  - constructor.
  - constructor; [intros []|constructor].
Qed.

Example ex_same_text :
  op_to_xml ex_a = op_to_xml ex_b /\ op_to_dot ex_a = op_to_dot ex_b.
Proof. vm_compute. split; reflexivity. Qed.

(** the same through the theorem *)
Example ex_same_text_by_theorem :
  op_to_xml ex_a = op_to_xml ex_b /\ op_to_dot ex_a = op_to_dot ex_b.
Proof. exact (C18_canonical ex_a ex_b ex_labels_distinct ex_same_content). Qed.

(** the document of [ex_a]: ids ascending, edges of 0 in label order (Greek
    before Alpha), data of 0 *)
Example ex_doc :
  export_doc ex_a =
  [ mkX 0 [(Greek 961, 2); (Alpha 1, 1)] (Some (HVector [202; 254]%N));
    mkX 1 [] None;
    mkX 2 [(lbl_foo, 1)] None ].
Proof. vm_compute. reflexivity. Qed.

(** [ex_stale]: vertices 0 and 1 were destroyed by [op_data]; their slots
    still hold an edge and data, and neither is printed *)
Example ex_stale_slots :
  tag ex_stale 0 = 0 /\ tag ex_stale 1 = 0 /\ tag ex_stale 2 <> 0 /\
  edg ex_stale 0 = [(Alpha 0, 1)] /\
  has_data ex_stale 1 = true /\ dat ex_stale 1 = HVector [222; 173]%N.
Proof. vm_compute. repeat split. intros H; discriminate H. Qed.

Example ex_stale_not_printed :
  op_keys ex_stale = [2] /\
  export_doc ex_stale = [mkX 2 [] None] /\
  op_to_xml ex_stale = op_to_xml ex_fresh /\
  op_to_dot ex_stale = op_to_dot ex_fresh.
Proof. vm_compute. repeat split. Qed.

(** a node with edges and data for [C18_node_content] *)
Example ex_node_content :
  In (mkX 0 [(Greek 961, 2); (Alpha 1, 1)] (Some (HVector [202; 254]%N))) (export_doc ex_a).
Proof. vm_compute. left. reflexivity. Qed.

(** ** the hypothesis on distinct labels holds in every invariant state *)

From Sodg Require Import Wf.

Theorem C18_canonical_invariant_states :
  forall n g1 g2,
  Inv n g1 -> same_content g1 g2 -> op_to_xml g1 = op_to_xml g2 /\ op_to_dot g1 = op_to_dot g2.
Proof. exact invariant_export_canonical. Qed.

Check C18_canonical_invariant_states :
  forall n g1 g2,
  Inv n g1 -> same_content g1 g2 -> op_to_xml g1 = op_to_xml g2 /\ op_to_dot g1 = op_to_dot g2.
Print Assumptions C18_canonical_invariant_states.
