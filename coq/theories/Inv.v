(** * Inv: the representation invariant of the graph model and its
    preservation by every primitive call made within concrete preconditions.

    [Inv n g] says what sodg's own bookkeeping relies on:
    - the two group tables have their 16 slots, slots 0 and 1 hold the
      sentinel member list [[0]] (so they are never handed out as a group);
    - every vertex carries a tag below 16; for every group slot b >= 2 the
      member list is duplicate free, at most 16 long, and lists exactly the
      vertices tagged b  (partition);
    - the unread counter of slot b equals the number of members of b whose
      datum is stored-and-unread  (counter = recount);
    - the labels of every vertex are pairwise distinct and at most n;
    - the allocator position does not exceed the capacity.

    This file proves: [Inv] holds of [op_empty cap]; every call whose concrete
    precondition [cpre] holds returns [Ok] (never panics) and re-establishes
    [Inv]. *)

From Sodg Require Export Effects.
From Coq Require Import Permutation.

Definition nstored (g : sodg) (l : list nat) : nat := length (filter (is_stored g) l).

Record Inv (n : nat) (g : sodg) : Prop := {
  i_nb : nb g = 16;
  i_ns : ns g = 16;
  i_m0 : members g 0 = [0];
  i_m1 : members g 1 = [0];
  i_next : g_next g <= cap_of g;
  i_tag : forall v, tag g v < 16;
  i_mem : forall b v, 2 <= b -> b < 16 -> (In v (members g b) <-> tag g v = b);
  i_nodup : forall b, 2 <= b -> b < 16 -> NoDup (members g b);
  i_len : forall b, 2 <= b -> b < 16 -> length (members g b) <= 16;
  i_cnt : forall b, 2 <= b -> b < 16 -> store g b = nstored g (members g b);
  i_edges : forall v, NoDup (map fst (edg g v)) /\ length (edg g v) <= n
}.

Arguments i_nb {n g} _.
Arguments i_ns {n g} _.
Arguments i_m0 {n g} _.
Arguments i_m1 {n g} _.
Arguments i_next {n g} _.
Arguments i_tag {n g} _ _.
Arguments i_mem {n g} _ _ _ _ _.
Arguments i_nodup {n g} _ _ _ _.
Arguments i_len {n g} _ _ _ _.
Arguments i_cnt {n g} _ _ _ _.
Arguments i_edges {n g} _ _.

(** ** counting lemmas *)

Lemma nstored_ext g g' l :
  (forall w, In w l -> is_stored g' w = is_stored g w) -> nstored g' l = nstored g l.
Proof.
  unfold nstored. induction l as [|x t IH]; intros H; cbn [filter]; [reflexivity|].
  rewrite (H x) by (left; reflexivity).
  destruct (is_stored g x); cbn [length]; rewrite IH; auto; intros w Hw; apply H; right; exact Hw.
Qed.

Lemma nstored_app g l1 l2 : nstored g (l1 ++ l2) = nstored g l1 + nstored g l2.
Proof. unfold nstored. rewrite filter_app, app_length. reflexivity. Qed.

Lemma nstored_one g v : nstored g [v] = b2n (is_stored g v).
Proof. unfold nstored; cbn [filter]. destruct (is_stored g v); reflexivity. Qed.

Lemma nstored_nil g : nstored g [] = 0.
Proof. reflexivity. Qed.

(** switching one member from not-stored to stored adds one *)
Lemma nstored_flip_on g g' l v :
  NoDup l -> In v l -> is_stored g v = false -> is_stored g' v = true ->
  (forall w, w <> v -> is_stored g' w = is_stored g w) ->
  nstored g' l = nstored g l + 1.
Proof.
  unfold nstored. induction l as [|x t IH]; intros Hnd Hin H0 H1 Hother; [destruct Hin|].
  inversion Hnd as [|? ? Hx Ht]; subst. cbn [filter].
  destruct (Nat.eq_dec x v) as [->|Hne].
  - rewrite H0, H1. cbn [length].
    assert (E : filter (is_stored g') t = filter (is_stored g) t).
    { apply filter_ext_in. intros w Hw. apply Hother. intros ->. contradiction. }
    rewrite E. lia.
  - rewrite (Hother x Hne). destruct Hin as [Hin|Hin]; [congruence|].
    destruct (is_stored g x); cbn [length]; rewrite (IH Ht Hin H0 H1 Hother); lia.
Qed.

Lemma nstored_flip_off g g' l v :
  NoDup l -> In v l -> is_stored g v = true -> is_stored g' v = false ->
  (forall w, w <> v -> is_stored g' w = is_stored g w) ->
  nstored g l = nstored g' l + 1.
Proof.
  intros Hnd Hin H1 H0 Hother. apply (nstored_flip_on g' g l v); auto.
  intros w Hw. symmetry. apply Hother. exact Hw.
Qed.

Lemma nstored_zero g l : nstored g l = 0 <-> forall w, In w l -> is_stored g w = false.
Proof.
  unfold nstored. induction l as [|x t IH]; cbn [filter].
  - split; [intros _ w []|reflexivity].
  - destruct (is_stored g x) eqn:E; cbn [length].
    + split; [lia|]. intros H. specialize (H x (or_introl eq_refl)). congruence.
    + rewrite IH. split; intros H w Hw; [destruct Hw as [<-|Hw]; auto|apply H; right; exact Hw].
Qed.

Lemma is_stored_prs g g' w : prs g' w = prs g w -> is_stored g' w = is_stored g w.
Proof. unfold is_stored. intros ->. reflexivity. Qed.

Lemma mem_In w l : mem w l = true <-> In w l.
Proof.
  unfold mem. rewrite existsb_exists. split.
  - intros (x & Hx & E). apply Nat.eqb_eq in E. subst. exact Hx.
  - intros H. exists w. split; [exact H|apply Nat.eqb_refl].
Qed.

Lemma mem_false w l : mem w l = false <-> ~ In w l.
Proof.
  rewrite <- mem_In. destruct (mem w l); split; intros H; try congruence; try discriminate;
    try (exfalso; apply H; reflexivity).
Qed.

(** ** the initial graph *)

Lemma nth_repeat_any {A} (x d : A) k i : nth i (repeat x k) d = if i <? k then x else d.
Proof.
  revert i; induction k as [|k IH]; intros [|i]; cbn [repeat nth]; auto.
  rewrite IH. reflexivity.
Qed.

Lemma tag_empty cap v : tag (op_empty cap) v = 0.
Proof.
  unfold tag, vtx, op_empty; cbn [g_vertices]. rewrite nth_repeat_any.
  destruct (v <? cap); reflexivity.
Qed.

Lemma edg_empty cap v : edg (op_empty cap) v = [].
Proof.
  unfold edg, vtx, op_empty; cbn [g_vertices]. rewrite nth_repeat_any.
  destruct (v <? cap); reflexivity.
Qed.

Lemma members_empty cap b : members (op_empty cap) b = if b <? 2 then [0] else [].
Proof.
  unfold members, op_empty; cbn [g_branches].
  destruct b as [|[|b]]; cbn [nth Nat.ltb Nat.leb]; try reflexivity.
  rewrite nth_repeat_any. destruct (b <? MAX_BRANCHES - 2); reflexivity.
Qed.

Lemma store_empty cap b : store (op_empty cap) b = 0.
Proof.
  unfold store, op_empty; cbn [g_stores]. rewrite nth_repeat_any.
  destruct (b <? MAX_BRANCHES); reflexivity.
Qed.

Lemma cap_empty cap : cap_of (op_empty cap) = cap.
Proof. unfold cap_of, op_empty; cbn [g_vertices]. apply repeat_length. Qed.

Lemma inv_empty n cap : Inv n (op_empty cap).
Proof.
  split.
  - reflexivity.
  - reflexivity.
  - reflexivity.
  - reflexivity.
  - cbn. lia.
  - intros v. rewrite tag_empty. lia.
  - intros b v H1 H2. rewrite members_empty, tag_empty.
    destruct (Nat.ltb_spec b 2); [lia|]. split; [intros []|lia].
  - intros b H1 H2. rewrite members_empty. destruct (Nat.ltb_spec b 2); [lia|]. constructor.
  - intros b H1 H2. rewrite members_empty. destruct (Nat.ltb_spec b 2); [lia|]. cbn; lia.
  - intros b H1 H2. rewrite members_empty, store_empty. destruct (Nat.ltb_spec b 2); [lia|]. reflexivity.
  - intros v. rewrite edg_empty. split; [constructor|cbn; lia].
Qed.

(** ** concrete preconditions *)

Definition room (n : nat) (g : sodg) (v : nat) (a : label) : Prop :=
  mm_get (edg g v) a <> None \/ length (edg g v) < n.

Definition cpre (n : nat) (g : sodg) (o : op) : Prop :=
  match o with
  | OAdd v => v < cap_of g
  | OBind v1 v2 a =>
      tag g v1 <> 0 /\ tag g v2 <> 0 /\ v1 <> v2 /\ room n g v1 a
      /\ (tag g v1 = 1 -> tag g v2 = 1 -> exists b, first_empty g = Some b)
      /\ (tag g v1 = 1 -> tag g v2 <> 1 -> length (members g (tag g v2)) < 16)
      /\ (tag g v1 <> 1 -> tag g v2 = 1 -> length (members g (tag g v1)) < 16)
  | OPut v _ | OData v | OKid v _ | OKids v => tag g v <> 0
  | ONext => exists id, g_next g <= id /\ id < cap_of g /\ tag g id = 0
  | OKeys => True
  end.

Lemma tag_nonzero_lt g v : tag g v <> 0 -> v < cap_of g.
Proof.
  intros H. destruct (Nat.lt_ge_cases v (cap_of g)) as [L|L]; [exact L|].
  exfalso. apply H. unfold tag. rewrite vtx_overflow by exact L. reflexivity.
Qed.

(** ** edge-map facts needed for I4 *)

Lemma mm_get_in_keys e a : mm_get e a <> None <-> In a (map fst e).
Proof.
  induction e as [|[k w] t IH]; cbn [mm_get map fst]; [split; [congruence|intros []]|].
  destruct (label_eqb k a) eqn:E.
  - apply label_eqb_spec in E. subst. split; [left; reflexivity|discriminate].
  - rewrite IH. split; [right; assumption|].
    intros [H|H]; [|exact H]. subst. rewrite label_eqb_refl in E. discriminate.
Qed.

Lemma spec_insert_keys e a v :
  map fst (spec_insert e a v) = if in_dec label_eq_dec a (map fst e) then map fst e else map fst e ++ [a].
Proof.
  unfold spec_insert. destruct (mm_replace e a v) as [e'|] eqn:R.
  - rewrite (mm_replace_keys _ _ _ _ R).
    destruct (in_dec label_eq_dec a (map fst e)) as [_|Hn]; [reflexivity|].
    exfalso. apply Hn. apply mm_get_in_keys. intros H. apply (proj2 (mm_replace_none e a v)) in H. congruence.
  - apply mm_replace_none in R.
    destruct (in_dec label_eq_dec a (map fst e)) as [Hi|_].
    + apply mm_get_in_keys in Hi. congruence.
    + rewrite map_app. reflexivity.
Qed.

Lemma NoDup_app_fresh {A} (l : list A) (a : A) : NoDup l -> ~ In a l -> NoDup (l ++ [a]).
Proof.
  induction l as [|x t IH]; intros Hnd Hn; cbn [app].
  - constructor; [intros []|constructor].
  - inversion Hnd as [|? ? Hx Ht]; subst. constructor.
    + rewrite in_app_iff. intros [H|[H|[]]]; [contradiction|]. subst. apply Hn. left; reflexivity.
    + apply IH; [exact Ht|]. intros H. apply Hn. right; exact H.
Qed.

Lemma spec_insert_ok n e a v :
  NoDup (map fst e) -> length e <= n -> (mm_get e a <> None \/ length e < n) ->
  NoDup (map fst (spec_insert e a v)) /\ length (spec_insert e a v) <= n.
Proof.
  intros Hnd Hlen Hroom.
  assert (L : length (spec_insert e a v) = length (map fst (spec_insert e a v))) by (symmetry; apply map_length).
  rewrite L, spec_insert_keys.
  destruct (in_dec label_eq_dec a (map fst e)) as [Hi|Hn].
  - split; [exact Hnd|rewrite map_length; exact Hlen].
  - destruct Hroom as [H|H]; [apply mm_get_in_keys in H; contradiction|].
    split.
    + apply NoDup_app_fresh; assumption.
    + rewrite app_length, map_length. cbn. lia.
Qed.

(** ** generic preservation lemmas, stated on the accessor equations that
    Effects.v provides *)

Ltac inv_destruct H :=
  destruct H as [Inb Ins Im0 Im1 Inx Itag Imem Ind Ilen Icnt Iedg].

(** nothing about groups changes (tags, persistence, member lists, counters
    as before); only edges/data may differ *)
Lemma inv_same_groups n g g' :
  Inv n g -> same_except_vertices g g' ->
  (forall w, tag g' w = tag g w) -> (forall w, prs g' w = prs g w) ->
  (forall c, members g' c = members g c) -> (forall c, store g' c = store g c) ->
  (forall w, NoDup (map fst (edg g' w)) /\ length (edg g' w) <= n) ->
  Inv n g'.
Proof.
  intros HI [X1 X2 X3 X4] T P M S E. inv_destruct HI.
  split.
  - congruence.
  - congruence.
  - rewrite M; exact Im0.
  - rewrite M; exact Im1.
  - rewrite X4, X1; exact Inx.
  - intros v. rewrite T. apply Itag.
  - intros b v H1 H2. rewrite M, T. apply Imem; assumption.
  - intros b H1 H2. rewrite M. apply Ind; assumption.
  - intros b H1 H2. rewrite M. apply Ilen; assumption.
  - intros b H1 H2. rewrite M, S, (Icnt b H1 H2). symmetry. apply nstored_ext.
    intros w _. apply is_stored_prs. apply P.
  - exact E.
Qed.

(** an ungrouped vertex [x] joins the group in slot [t] *)
Lemma inv_join n g g' x t :
  Inv n g -> same_except_vertices g g' ->
  tag g x = 1 -> 2 <= t -> t < 16 -> length (members g t) < 16 ->
  (forall w, tag g' w = if w =? x then t else tag g w) -> (forall w, prs g' w = prs g w) ->
  (forall c, members g' c = if c =? t then members g c ++ [x] else members g c) ->
  (forall c, store g' c = if c =? t then store g c + b2n (is_stored g x) else store g c) ->
  (forall w, NoDup (map fst (edg g' w)) /\ length (edg g' w) <= n) ->
  Inv n g'.
Proof.
  intros HI [X1 X2 X3 X4] Tx Ht1 Ht2 Hlen T P M S E. inv_destruct HI.
  assert (Hx : forall c, 2 <= c -> c < 16 -> ~ In x (members g c)).
  { intros c H1 H2 H. apply (Imem c x H1 H2) in H. lia. }
  split.
  - congruence.
  - congruence.
  - rewrite M. destruct (Nat.eqb_spec 0 t); [lia|exact Im0].
  - rewrite M. destruct (Nat.eqb_spec 1 t); [lia|exact Im1].
  - rewrite X4, X1; exact Inx.
  - intros v. rewrite T. destruct (v =? x); [lia|apply Itag].
  - intros b v H1 H2. rewrite M, T.
    destruct (Nat.eqb_spec b t) as [->|Hbt]; destruct (Nat.eqb_spec v x) as [->|Hvx].
    + rewrite in_app_iff. split; [reflexivity|]. intros _. right. left. reflexivity.
    + rewrite in_app_iff. rewrite (Imem t v H1 H2). split; [intros [H|[H|[]]]; congruence|tauto].
    + rewrite (Imem b x H1 H2). split; [lia|congruence].
    + apply Imem; assumption.
  - intros b H1 H2. rewrite M. destruct (Nat.eqb_spec b t) as [->|Hbt]; [|apply Ind; assumption].
    apply NoDup_app_fresh; [apply Ind; assumption|apply Hx; assumption].
  - intros b H1 H2. rewrite M. destruct (Nat.eqb_spec b t) as [->|Hbt]; [|apply Ilen; assumption].
    rewrite app_length. cbn. lia.
  - intros b H1 H2. rewrite M, S.
    assert (Q : forall l, nstored g' l = nstored g l).
    { intros l. apply nstored_ext. intros w _. apply is_stored_prs. apply P. }
    destruct (Nat.eqb_spec b t) as [->|Hbt].
    + rewrite Q, nstored_app, nstored_one, (Icnt t H1 H2). reflexivity.
    + rewrite Q. apply Icnt; assumption.
  - exact E.
Qed.

(** two ungrouped vertices form a new group in the empty slot [b] *)
Lemma inv_newgroup n g g' v1 v2 b :
  Inv n g -> same_except_vertices g g' ->
  tag g v1 = 1 -> tag g v2 = 1 -> v1 <> v2 -> 2 <= b -> b < 16 -> members g b = [] ->
  (forall w, tag g' w = if (w =? v1) || (w =? v2) then b else tag g w) ->
  (forall w, prs g' w = prs g w) ->
  (forall c, members g' c = if c =? b then [v1; v2] else members g c) ->
  (forall c, store g' c = if c =? b then store g b + (b2n (is_stored g v1) + b2n (is_stored g v2))
                          else store g c) ->
  (forall w, NoDup (map fst (edg g' w)) /\ length (edg g' w) <= n) ->
  Inv n g'.
Proof.
  intros HI [X1 X2 X3 X4] T1 T2 Hne Hb1 Hb2 Hmb T P M S E. inv_destruct HI.
  assert (Hsb : store g b = 0).
  { rewrite (Icnt b Hb1 Hb2), Hmb. reflexivity. }
  assert (Q : forall l, nstored g' l = nstored g l).
  { intros l. apply nstored_ext. intros w _. apply is_stored_prs. apply P. }
  split.
  - congruence.
  - congruence.
  - rewrite M. destruct (Nat.eqb_spec 0 b); [lia|exact Im0].
  - rewrite M. destruct (Nat.eqb_spec 1 b); [lia|exact Im1].
  - rewrite X4, X1; exact Inx.
  - intros v. rewrite T. destruct ((v =? v1) || (v =? v2)); [lia|apply Itag].
  - intros c v H1 H2. rewrite M, T.
    destruct (Nat.eqb_spec c b) as [->|Hcb].
    + destruct (Nat.eqb_spec v v1) as [->|N1]; cbn [orb].
      * split; [reflexivity|intros _; left; reflexivity].
      * destruct (Nat.eqb_spec v v2) as [->|N2].
        -- split; [reflexivity|intros _; right; left; reflexivity].
        -- rewrite <- (Imem b v H1 H2), Hmb. split; [intros [H|[H|[]]]; congruence|intros []].
    + destruct (Nat.eqb_spec v v1) as [->|N1]; cbn [orb].
      * rewrite (Imem c v1 H1 H2). split; [lia|congruence].
      * destruct (Nat.eqb_spec v v2) as [->|N2].
        -- rewrite (Imem c v2 H1 H2). split; [lia|congruence].
        -- apply Imem; assumption.
  - intros c H1 H2. rewrite M. destruct (Nat.eqb_spec c b) as [->|Hcb]; [|apply Ind; assumption].
    constructor; [intros [H|[]]; congruence|]. constructor; [intros []|constructor].
  - intros c H1 H2. rewrite M. destruct (Nat.eqb_spec c b) as [->|Hcb]; [|apply Ilen; assumption].
    cbn. lia.
  - intros c H1 H2. rewrite M, S, Q. destruct (Nat.eqb_spec c b) as [->|Hcb].
    + rewrite Hsb. change [v1; v2] with ([v1] ++ [v2]). rewrite nstored_app, !nstored_one. reflexivity.
    + apply Icnt; assumption.
  - exact E.
Qed.

(** ** add *)

Lemma add_effect g v :
  v < cap_of g ->
  exists g', op_add g v = Ok g'
    /\ (forall w, tag g' w = if (w =? v) && (tag g v =? 0) then 1 else tag g w)
    /\ (forall w, prs g' w = if (w =? v) && (tag g v =? 0) then PEmpty else prs g w)
    /\ (forall w, dat g' w = if (w =? v) && (tag g v =? 0) then hex_empty else dat g w)
    /\ (forall w, edg g' w = if (w =? v) && (tag g v =? 0) then [] else edg g w)
    /\ (forall c, members g' c = members g c) /\ (forall c, store g' c = store g c)
    /\ same_except_vertices g g'.
Proof.
  intros Hv. unfold op_add. rewrite chk_v_ok by exact Hv. cbn [obind]. unfold BRANCH_NONE.
  destruct (Nat.eqb_spec (tag g v) 0) as [E|E].
  - eexists. split; [reflexivity|].
    assert (A : forall w, vtx (set_vtx g v (mkV BRANCH_STATIC hex_empty PEmpty [])) w
                          = if w =? v then mkV 1 hex_empty PEmpty [] else vtx g w).
    { intros w. rewrite vtx_set_vtx. apply Nat.ltb_lt in Hv. rewrite Hv, andb_true_r, Nat.eqb_sym.
      destruct (w =? v); reflexivity. }
    repeat split; try (intros w; unfold tag, prs, dat, edg; rewrite A, andb_true_r;
                       destruct (w =? v); reflexivity).
    apply cap_set_vtx.
  - exists g. split; [reflexivity|].
    repeat split; intros w; rewrite andb_false_r; reflexivity.
Qed.

Lemma inv_add n g v :
  Inv n g -> v < cap_of g ->
  exists g', op_add g v = Ok g' /\ Inv n g'.
Proof.
  intros HI Hv. destruct (add_effect g v Hv) as (g' & A & T & P & D & E & M & S & X).
  exists g'. split; [exact A|].
  destruct (Nat.eqb_spec (tag g v) 0) as [Z|NZ].
  2:{ apply (inv_same_groups n g g' HI X); auto.
      - intros w. rewrite T, andb_false_r. reflexivity.
      - intros w. rewrite P, andb_false_r. reflexivity.
      - intros w. rewrite E, andb_false_r. apply HI. }
  destruct X as [X1 X2 X3 X4]. inv_destruct HI.
  assert (Hv' : forall c, 2 <= c -> c < 16 -> ~ In v (members g c)).
  { intros c H1 H2 H. apply (Imem c v H1 H2) in H. lia. }
  split.
  - congruence.
  - congruence.
  - rewrite M; exact Im0.
  - rewrite M; exact Im1.
  - rewrite X4, X1; exact Inx.
  - intros w. rewrite T. destruct ((w =? v) && true); [lia|apply Itag].
  - intros b w H1 H2. rewrite M, T, andb_true_r.
    destruct (Nat.eqb_spec w v) as [->|Hne]; [|apply Imem; assumption].
    rewrite (Imem b v H1 H2). split; lia.
  - intros b H1 H2. rewrite M. apply Ind; assumption.
  - intros b H1 H2. rewrite M. apply Ilen; assumption.
  - intros b H1 H2. rewrite M, S, (Icnt b H1 H2). symmetry. apply nstored_ext.
    intros w Hw. apply is_stored_prs. rewrite P, andb_true_r.
    destruct (Nat.eqb_spec w v) as [->|Hne]; [|reflexivity].
    exfalso. apply (Hv' b H1 H2 Hw).
  - intros w. rewrite E. destruct ((w =? v) && true); [split; [constructor|cbn; lia]|apply Iedg].
Qed.

(** ** bind *)

Lemma edges_after_bind n g g' v1 a v2 :
  Inv n g -> room n g v1 a ->
  (forall w, edg g' w = if w =? v1 then spec_insert (edg g v1) a v2 else edg g w) ->
  forall w, NoDup (map fst (edg g' w)) /\ length (edg g' w) <= n.
Proof.
  intros HI Hr E w. rewrite E. destruct (w =? v1); [|apply HI].
  apply spec_insert_ok; [apply HI|apply HI|exact Hr].
Qed.

Lemma first_empty_group n g b :
  Inv n g -> first_empty g = Some b -> 2 <= b /\ b < 16 /\ members g b = [].
Proof.
  intros HI Hf. destruct (first_empty_spec g b Hf) as (H1 & H2 & _).
  rewrite (i_nb HI) in H1. repeat split; auto.
  destruct b as [|[|b]]; try lia.
  - rewrite (i_m0 HI) in H2. discriminate.
  - rewrite (i_m1 HI) in H2. discriminate.
Qed.

Lemma inv_bind n g v1 v2 a :
  Inv n g -> cpre n g (OBind v1 v2 a) ->
  exists g', op_bind n g v1 v2 a = Ok g' /\ Inv n g'.
Proof.
  intros HI (T1 & T2 & Hne & Hr & Huu & Hug & Hgu).
  pose proof (tag_nonzero_lt g v1 T1) as L1. pose proof (tag_nonzero_lt g v2 T2) as L2.
  pose proof (i_nb HI) as Hnb. pose proof (i_ns HI) as Hns.
  destruct (Nat.eq_dec (tag g v1) 1) as [E1|N1]; destruct (Nat.eq_dec (tag g v2) 1) as [E2|N2].
  - destruct (Huu E1 E2) as (b & Hf).
    destruct (first_empty_group n g b HI Hf) as (Hb1 & Hb2 & Hmb).
    destruct (bind_uu n g v1 v2 a b L1 L2 Hnb Hns E1 E2 Hr Hf) as (g' & B & T & P & D & E & M & S & X).
    exists g'. split; [exact B|].
    apply (inv_newgroup n g g' v1 v2 b HI X E1 E2 Hne Hb1 Hb2 Hmb T P M S).
    apply (edges_after_bind n g g' v1 a v2 HI Hr E).
  - pose proof (i_tag HI v2) as Lt.
    destruct (bind_ug n g v1 v2 a L1 L2 Hnb Hns E1 N2 Lt Hr (Hug E1 N2)) as (g' & B & T & P & D & E & M & S & X).
    exists g'. split; [exact B|].
    assert (G2 : 2 <= tag g v2) by lia.
    apply (inv_join n g g' v1 (tag g v2) HI X E1 G2 Lt (Hug E1 N2) T P M S).
    apply (edges_after_bind n g g' v1 a v2 HI Hr E).
  - pose proof (i_tag HI v1) as Lt.
    destruct (bind_gu n g v1 v2 a L1 L2 Hnb Hns N1 E2 Lt Hr (Hgu N1 E2)) as (g' & B & T & P & D & E & M & S & X).
    exists g'. split; [exact B|].
    assert (G2 : 2 <= tag g v1) by lia.
    apply (inv_join n g g' v2 (tag g v1) HI X E2 G2 Lt (Hgu N1 E2) T P M S).
    apply (edges_after_bind n g g' v1 a v2 HI Hr E).
  - destruct (bind_gg n g v1 v2 a L1 L2 N1 N2 Hr) as (g' & B & T & P & D & E & M & S & X).
    exists g'. split; [exact B|].
    apply (inv_same_groups n g g' HI X T P M S).
    apply (edges_after_bind n g g' v1 a v2 HI Hr E).
Qed.

(** ** put *)

Lemma inv_put n g v d :
  Inv n g -> tag g v <> 0 ->
  exists g', op_put g v d = Ok g' /\ Inv n g'.
Proof.
  intros HI Tv. pose proof (tag_nonzero_lt g v Tv) as Lv.
  pose proof (i_tag HI v) as Lt.
  destruct (put_effect g v d Lv) as (g' & A & T & P & D & E & M & S & X).
  { rewrite (i_nb HI); exact Lt. } { rewrite (i_ns HI); exact Lt. }
  exists g'. split; [exact A|].
  destruct X as [X1 X2 X3 X4]. inv_destruct HI.
  assert (Q : forall w, w <> v -> is_stored g' w = is_stored g w).
  { intros w Hw. apply is_stored_prs. rewrite P. apply Nat.eqb_neq in Hw. rewrite Hw. reflexivity. }
  assert (Qv : is_stored g' v = true).
  { unfold is_stored. rewrite P, Nat.eqb_refl. reflexivity. }
  split.
  - congruence.
  - congruence.
  - rewrite M; exact Im0.
  - rewrite M; exact Im1.
  - rewrite X4, X1; exact Inx.
  - intros w. rewrite T. apply Itag.
  - intros b w H1 H2. rewrite M, T. apply Imem; assumption.
  - intros b H1 H2. rewrite M. apply Ind; assumption.
  - intros b H1 H2. rewrite M. apply Ilen; assumption.
  - intros b H1 H2. rewrite M, S.
    destruct (Nat.eqb_spec b (tag g v)) as [Hb|Hb]; cbn [andb].
    + assert (Hin : In v (members g b)) by (apply Imem; auto).
      assert (N1 : (tag g v =? 1) = false) by (apply Nat.eqb_neq; lia).
      rewrite N1. cbn [negb]. rewrite andb_true_r.
      destruct (is_stored g v) eqn:Sv; cbn [negb].
      * rewrite (Icnt b H1 H2). symmetry. apply nstored_ext. intros w _.
        destruct (Nat.eq_dec w v) as [->|Hw]; [congruence|apply Q; exact Hw].
      * rewrite (Icnt b H1 H2). symmetry. apply (nstored_flip_on g g' (members g b) v); auto.
    + rewrite (Icnt b H1 H2). symmetry. apply nstored_ext. intros w Hw. apply Q.
      intros ->. apply Hb. symmetry. apply (Imem b v H1 H2). exact Hw.
  - intros w. rewrite E. apply Iedg.
Qed.

(** ** data *)

(** first read of a stored datum of a grouped vertex, other unread data
    remain in the group: the counter goes down by one *)
Lemma inv_read n g g' v t :
  Inv n g -> same_except_vertices g g' ->
  tag g v = t -> 2 <= t -> prs g v = PStored ->
  (forall w, tag g' w = tag g w) ->
  (forall w, prs g' w = if w =? v then PTaken else prs g w) ->
  (forall c, members g' c = members g c) ->
  (forall c, store g' c = if c =? t then store g t - 1 else store g c) ->
  (forall w, edg g' w = edg g w) ->
  Inv n g'.
Proof.
  intros HI [X1 X2 X3 X4] Tv Ht Pv T P M S E. inv_destruct HI.
  assert (Q : forall w, w <> v -> is_stored g' w = is_stored g w).
  { intros w Hw. apply is_stored_prs. rewrite P. apply Nat.eqb_neq in Hw. rewrite Hw. reflexivity. }
  assert (Qv : is_stored g' v = false).
  { unfold is_stored. rewrite P, Nat.eqb_refl. reflexivity. }
  assert (Sv : is_stored g v = true) by (unfold is_stored; rewrite Pv; reflexivity).
  pose proof (Itag v) as Lt.
  split.
  - congruence.
  - congruence.
  - rewrite M; exact Im0.
  - rewrite M; exact Im1.
  - rewrite X4, X1; exact Inx.
  - intros w. rewrite T. apply Itag.
  - intros b w H1 H2. rewrite M, T. apply Imem; assumption.
  - intros b H1 H2. rewrite M. apply Ind; assumption.
  - intros b H1 H2. rewrite M. apply Ilen; assumption.
  - intros b H1 H2. rewrite M, S.
    destruct (Nat.eqb_spec b t) as [->|Hb].
    + assert (Hin : In v (members g t)) by (apply Imem; auto; lia).
      rewrite (Icnt t H1 H2).
      rewrite (nstored_flip_off g g' (members g t) v); auto. lia.
    + rewrite (Icnt b H1 H2). symmetry. apply nstored_ext. intros w Hw. apply Q.
      intros ->. apply Hb. rewrite <- Tv. symmetry. apply (Imem b v H1 H2). exact Hw.
  - intros w. rewrite E. apply Iedg.
Qed.

(** first read of a stored datum of an ungrouped vertex *)
Lemma inv_read_static n g g' v :
  Inv n g -> same_except_vertices g g' -> tag g v = 1 ->
  (forall w, tag g' w = tag g w) ->
  (forall w, w <> v -> prs g' w = prs g w) ->
  (forall c, members g' c = members g c) -> (forall c, store g' c = store g c) ->
  (forall w, edg g' w = edg g w) ->
  Inv n g'.
Proof.
  intros HI [X1 X2 X3 X4] Tv T P M S E. inv_destruct HI.
  split.
  - congruence.
  - congruence.
  - rewrite M; exact Im0.
  - rewrite M; exact Im1.
  - rewrite X4, X1; exact Inx.
  - intros w. rewrite T. apply Itag.
  - intros b w H1 H2. rewrite M, T. apply Imem; assumption.
  - intros b H1 H2. rewrite M. apply Ind; assumption.
  - intros b H1 H2. rewrite M. apply Ilen; assumption.
  - intros b H1 H2. rewrite M, S, (Icnt b H1 H2). symmetry. apply nstored_ext.
    intros w Hw. apply is_stored_prs. apply P. intros ->.
    apply (Imem b v H1 H2) in Hw. lia.
  - intros w. rewrite E. apply Iedg.
Qed.

(** the read of the last unread datum of group [t]: the group dies *)
Lemma inv_collect n g g' v t :
  Inv n g -> same_except_vertices g g' ->
  tag g v = t -> 2 <= t ->
  (forall w, tag g' w = if mem w (members g t) then 0 else tag g w) ->
  (forall w, prs g' w = if w =? v then PTaken else prs g w) ->
  (forall c, members g' c = if c =? t then [] else members g c) ->
  (forall c, store g' c = if c =? t then 0 else store g c) ->
  (forall w, edg g' w = edg g w) ->
  Inv n g'.
Proof.
  intros HI [X1 X2 X3 X4] Tv Ht T P M S E. inv_destruct HI.
  pose proof (Itag v) as Lt.
  assert (Hmt : forall w, mem w (members g t) = true <-> tag g w = t).
  { intros w. rewrite mem_In. apply Imem; lia. }
  split.
  - congruence.
  - congruence.
  - rewrite M. destruct (Nat.eqb_spec 0 t); [lia|exact Im0].
  - rewrite M. destruct (Nat.eqb_spec 1 t); [lia|exact Im1].
  - rewrite X4, X1; exact Inx.
  - intros w. rewrite T. destruct (mem w (members g t)); [lia|apply Itag].
  - intros b w H1 H2. rewrite M, T.
    destruct (Nat.eqb_spec b t) as [->|Hb].
    + split; [intros []|]. destruct (mem w (members g t)) eqn:Em; [lia|].
      intros Hw. apply Hmt in Hw. congruence.
    + destruct (mem w (members g t)) eqn:Em.
      * apply Hmt in Em. rewrite (Imem b w H1 H2). split; lia.
      * apply Imem; assumption.
  - intros b H1 H2. rewrite M. destruct (b =? t); [constructor|apply Ind; assumption].
  - intros b H1 H2. rewrite M. destruct (b =? t); [cbn; lia|apply Ilen; assumption].
  - intros b H1 H2. rewrite M, S.
    destruct (Nat.eqb_spec b t) as [->|Hb]; [reflexivity|].
    rewrite (Icnt b H1 H2). symmetry. apply nstored_ext. intros w Hw. apply is_stored_prs.
    rewrite P. destruct (Nat.eqb_spec w v) as [->|Hne]; [|reflexivity].
    exfalso. apply Hb. rewrite <- Tv. symmetry. apply (Imem b v H1 H2). exact Hw.
  - intros w. rewrite E. apply Iedg.
Qed.

(** inside the invariant the counter of a group with an unread member is positive *)
Lemma store_pos n g v :
  Inv n g -> 2 <= tag g v -> prs g v = PStored -> 1 <= store g (tag g v).
Proof.
  intros HI Ht Pv. pose proof (i_tag HI v) as Lt.
  rewrite (i_cnt HI (tag g v) Ht Lt).
  destruct (nstored g (members g (tag g v))) eqn:Z; [|lia].
  apply nstored_zero with (w := v) in Z.
  - unfold is_stored in Z. rewrite Pv in Z. discriminate.
  - apply (i_mem HI); auto.
Qed.

Lemma inv_data n g v :
  Inv n g -> tag g v <> 0 ->
  exists g' r, op_data g v = Ok (g', r) /\ Inv n g'.
Proof.
  intros HI Tv. pose proof (tag_nonzero_lt g v Tv) as Lv. pose proof (i_tag HI v) as Lt.
  destruct (prs g v) eqn:Pv.
  - exists g, None. split; [apply data_empty; assumption|exact HI].
  - destruct (Nat.eq_dec (tag g v) 1) as [E1|N1].
    + exists (set_prs g v PTaken), (Some (dat g v)). split; [apply data_stored_static; assumption|].
      apply (inv_read_static n g _ v HI); auto.
      * split; sodg_rw; reflexivity.
      * intros w. sodg_rw. reflexivity.
      * intros w Hw. sodg_rw. apply Nat.eqb_neq in Hw. rewrite Nat.eqb_sym, Hw. reflexivity.
      * intros w. sodg_rw. reflexivity.
    + assert (Ht : 2 <= tag g v) by lia.
      pose proof (store_pos n g v HI Ht Pv) as Hs.
      assert (Hnb : tag g v < nb g) by (rewrite (i_nb HI); exact Lt).
      assert (Hns : tag g v < ns g) by (rewrite (i_ns HI); exact Lt).
      destruct (Nat.eq_dec (store g (tag g v)) 1) as [S1|S2].
      * destruct (data_stored_last g v Lv Pv N1 Hnb Hns S1) as (g' & A & T & P & D & E & M & S & X).
        { intros m Hm. apply (i_mem HI) in Hm; auto. apply tag_nonzero_lt. lia. }
        exists g', (Some (dat g v)). split; [exact A|].
        apply (inv_collect n g g' v (tag g v) HI X eq_refl Ht T P M S E).
      * eexists _, _. split; [apply data_stored_keep; auto; lia|].
        apply (inv_read n g _ v (tag g v) HI); auto.
        -- split; sodg_rw; reflexivity.
        -- intros w. sodg_rw. reflexivity.
        -- intros w. sodg_rw. apply Nat.ltb_lt in Lv. rewrite Lv, andb_true_r, Nat.eqb_sym. reflexivity.
        -- intros c. sodg_rw. apply Nat.ltb_lt in Hns. rewrite Hns, andb_true_r, Nat.eqb_sym. reflexivity.
        -- intros w. sodg_rw. reflexivity.
  - exists g, (Some (dat g v)). split; [apply data_taken; assumption|exact HI].
Qed.

(** ** next_id *)

Lemma inv_next n g :
  Inv n g -> cpre n g ONext ->
  exists g' id, op_next_id g = Ok (g', id) /\ Inv n g'.
Proof.
  intros HI Hp. destruct (next_id_effect g Hp) as (id & A & H1 & H2 & H3 & H4).
  exists (set_next g (S id)), id. split; [exact A|].
  inv_destruct HI. split.
  - exact Inb.
  - exact Ins.
  - exact Im0.
  - exact Im1.
  - change (S id <= cap_of g). lia.
  - exact Itag.
  - exact Imem.
  - exact Ind.
  - exact Ilen.
  - exact Icnt.
  - exact Iedg.
Qed.

(** ** every call within its concrete precondition succeeds and keeps [Inv] *)

Theorem step_inv n g o :
  Inv n g -> cpre n g o -> exists g' r, step n g o = Ok (g', r) /\ Inv n g'.
Proof.
  intros HI Hp. destruct o as [v|v1 v2 a|v d|v| |v a|v|]; cbn [step].
  - destruct (inv_add n g v HI Hp) as (g' & A & I'). rewrite A. cbn [obind]. eauto.
  - destruct (inv_bind n g v1 v2 a HI Hp) as (g' & A & I'). rewrite A. cbn [obind]. eauto.
  - destruct (inv_put n g v d HI Hp) as (g' & A & I'). rewrite A. cbn [obind]. eauto.
  - destruct (inv_data n g v HI Hp) as (g' & r & A & I'). rewrite A. cbn [obind fst snd]. eauto.
  - destruct (inv_next n g HI Hp) as (g' & id & A & I'). rewrite A. cbn [obind fst snd]. eauto.
  - unfold op_kid. rewrite chk_v_ok by (apply tag_nonzero_lt; exact Hp). cbn [obind]. eauto.
  - unfold op_kids. rewrite chk_v_ok by (apply tag_nonzero_lt; exact Hp). cbn [obind]. eauto.
  - eauto.
Qed.
