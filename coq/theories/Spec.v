(** * Spec: the reference model the properties C01-C06 are judged against.

    No slots, no counters, no sentinels, no capacities: a present set,
    abstract group names drawn from a counter, an unread flag, last-write
    maps for edges and data, an allocator floor.  Short enough to be read
    against the property texts.  The only thing shared with the model of the
    code is the insertion discipline of a vertex's edge list ([mm_replace]:
    a re-bound label keeps its position), which C03 characterises. *)

From Sodg Require Export Sodg.

Record spec := mkS {
  s_bound : nat;                  (* every id ever added is below it *)
  s_present : nat -> bool;
  s_grp : nat -> option nat;      (* group name, None = ungrouped *)
  s_unread : nat -> bool;         (* holds a datum put and not yet read *)
  s_edges : nat -> edges;
  s_data : nat -> option hex;     (* the datum of the last put since the vertex was added *)
  s_alloc : nat;                  (* ids below it have been handed out *)
  s_fresh : nat                   (* next unused group name *)
}.

Definition sinit : spec :=
  mkS 0 (fun _ => false) (fun _ => None) (fun _ => false) (fun _ => []) (fun _ => None) 0 0.

Definition fupd {A} (f : nat -> A) (k : nat) (x : A) : nat -> A :=
  fun w => if k =? w then x else f w.

(** the calls and what they return *)
Inductive op :=
| OAdd (v : nat) | OBind (v1 v2 : nat) (a : label) | OPut (v : nat) (d : hex)
| OData (v : nat) | ONext | OKid (v : nat) (a : label) | OKids (v : nat) | OKeys.

Inductive res :=
| RUnit | RData (d : option hex) | RId (v : nat) | RKid (o : option nat)
| RKids (e : edges) | RKeys (l : list nat).

Definition ids (s : spec) : list nat := iota (s_bound s).

Definition in_group (s : spec) (g : nat) (w : nat) : bool :=
  s_present s w && match s_grp s w with Some g' => g' =? g | None => false end.

Definition group_members (s : spec) (g : nat) : list nat := filter (in_group s g) (ids s).

Definition spec_insert (e : edges) (a : label) (v : nat) : edges :=
  match mm_replace e a v with Some e' => e' | None => e ++ [(a, v)] end.

Definition s_keys (s : spec) : list nat := filter (s_present s) (ids s).

Definition sstep (s : spec) (o : op) : spec * res :=
  match o with
  | OAdd v =>
      if s_present s v then (s, RUnit)
      else (mkS (Nat.max (s_bound s) (S v)) (fupd (s_present s) v true) (fupd (s_grp s) v None)
                (fupd (s_unread s) v false) (fupd (s_edges s) v []) (fupd (s_data s) v None)
                (s_alloc s) (s_fresh s), RUnit)
  | OBind v1 v2 a =>
      let e := fupd (s_edges s) v1 (spec_insert (s_edges s v1) a v2) in
      match s_grp s v1, s_grp s v2 with
      | None, None =>       (* two ungrouped vertices form a group *)
          (mkS (s_bound s) (s_present s) (fupd (fupd (s_grp s) v1 (Some (s_fresh s))) v2 (Some (s_fresh s)))
               (s_unread s) e (s_data s) (s_alloc s) (S (s_fresh s)), RUnit)
      | None, Some g2 =>    (* an ungrouped vertex joins the group of the other *)
          (mkS (s_bound s) (s_present s) (fupd (s_grp s) v1 (Some g2))
               (s_unread s) e (s_data s) (s_alloc s) (s_fresh s), RUnit)
      | Some g1, None =>
          (mkS (s_bound s) (s_present s) (fupd (s_grp s) v2 (Some g1))
               (s_unread s) e (s_data s) (s_alloc s) (s_fresh s), RUnit)
      | Some _, Some _ =>   (* two grouped vertices: no group changes *)
          (mkS (s_bound s) (s_present s) (s_grp s) (s_unread s) e (s_data s) (s_alloc s) (s_fresh s), RUnit)
      end
  | OPut v d =>
      (mkS (s_bound s) (s_present s) (s_grp s) (fupd (s_unread s) v true) (s_edges s)
           (fupd (s_data s) v (Some d)) (s_alloc s) (s_fresh s), RUnit)
  | OData v =>
      if s_unread s v then
        let unread' := fupd (s_unread s) v false in
        let s1 := mkS (s_bound s) (s_present s) (s_grp s) unread' (s_edges s) (s_data s)
                      (s_alloc s) (s_fresh s) in
        match s_grp s v with
        | None => (s1, RData (s_data s v))          (* ungrouped: never collected *)
        | Some g =>
            if existsb unread' (group_members s g)
            then (s1, RData (s_data s v))           (* another member still holds unread data *)
            else                                      (* last unread datum of the group: it dies *)
              (mkS (s_bound s)
                   (fun w => if in_group s g w then false else s_present s w)
                   (fun w => if in_group s g w then None else s_grp s w)
                   unread' (s_edges s) (s_data s) (s_alloc s) (s_fresh s),
               RData (s_data s v))
        end
      else (s, RData (s_data s v))
  | ONext =>
      (* the least id at or above the allocator floor that is not present *)
      match find (fun w => negb (s_present s w)) (seq (s_alloc s) (S (s_bound s))) with
      | Some id => (mkS (s_bound s) (s_present s) (s_grp s) (s_unread s) (s_edges s) (s_data s)
                        (S id) (s_fresh s), RId id)
      | None => (s, RId (s_alloc s))    (* unreachable: at most [s_bound] ids are present *)
      end
  | OKid v a => (s, RKid (mm_get (s_edges s v) a))
  | OKids v => (s, RKids (s_edges s v))
  | OKeys => (s, RKeys (s_keys s))
  end.

(** ** the capacity limits and documented preconditions, on the reference run *)

Definition alive_groups (s : spec) : list nat :=
  nodup Nat.eq_dec
    (concat (map (fun w => if s_present s w then match s_grp s w with Some g => [g] | None => [] end else [])
                 (ids s))).

Definition has_label (e : edges) (a : label) : bool :=
  match mm_get e a with Some _ => true | None => false end.

(** [pre n cap s o]: call [o] is within the limits in reference state [s],
    for a graph of edge capacity [n] and vertex capacity [cap] *)
Definition pre (n cap : nat) (s : spec) (o : op) : Prop :=
  match o with
  | OAdd v => v < cap
  | OBind v1 v2 a =>
      s_present s v1 = true /\ s_present s v2 = true /\ v1 <> v2
      /\ (has_label (s_edges s v1) a = true \/ length (s_edges s v1) < n)
      /\ match s_grp s v1, s_grp s v2 with
         | None, None => length (alive_groups s) < 14
         | None, Some g => length (group_members s g) < 16
         | Some g, None => length (group_members s g) < 16
         | Some _, Some _ => True
         end
  | OPut v _ | OData v | OKid v _ | OKids v => s_present s v = true
  | ONext => exists id, s_alloc s <= id /\ id < cap /\ s_present s id = false
  | OKeys => True
  end.

(** the run of a call list on the reference model *)
Fixpoint srun (s : spec) (os : list op) : spec * list res :=
  match os with
  | [] => (s, [])
  | o :: t => let '(s1, r) := sstep s o in let '(s2, rs) := srun s1 t in (s2, r :: rs)
  end.

(** every call of the list is within the limits at the moment it is made *)
Fixpoint within_limits (n cap : nat) (s : spec) (os : list op) : Prop :=
  match os with
  | [] => True
  | o :: t => pre n cap s o /\ within_limits n cap (fst (sstep s o)) t
  end.

(** ** the same calls on the model of the code *)

Definition step (n : nat) (g : sodg) (o : op) : outcome (sodg * res) :=
  match o with
  | OAdd v => g' <- op_add g v ;; Ok (g', RUnit)
  | OBind v1 v2 a => g' <- op_bind n g v1 v2 a ;; Ok (g', RUnit)
  | OPut v d => g' <- op_put g v d ;; Ok (g', RUnit)
  | OData v => r <- op_data g v ;; Ok (fst r, RData (snd r))
  | ONext => r <- op_next_id g ;; Ok (fst r, RId (snd r))
  | OKid v a => r <- op_kid g v a ;; Ok (g, RKid r)
  | OKids v => r <- op_kids g v ;; Ok (g, RKids r)
  | OKeys => Ok (g, RKeys (op_keys g))
  end.

Fixpoint run (n : nat) (g : sodg) (os : list op) : outcome (sodg * list res) :=
  match os with
  | [] => Ok (g, [])
  | o :: t =>
      r <- step n g o ;;
      r2 <- run n (fst r) t ;;
      Ok (fst r2, snd r :: snd r2)
  end.
