(** * P_C17: label text <-> label value round trips.

    Property C17:

      "For every label text of 1 to 8 non-space characters (the alpha sign
       followed by a canonical decimal index, or any text not starting with
       the alpha sign), parsing then printing returns the text and distinct
       texts give distinct labels.  For every label value in canonical form
       (a single character, an index, or 2 to 8 non-space characters),
       printing then parsing returns an equal label, so an edge bound under a
       parsed name is found under the same name built directly.  Texts longer
       than 8 characters or with a malformed index are rejected with Err."

    Model: [label_from_str] / [label_print] of Label.v ([FromStr] / [Display]
    of [sodg::Label]), [parse_usize] / [print_dec] of Text.v, [mm_get] /
    [mm_insert] of Sodg.v.  Texts are lists of Unicode code points.

    Predicates (defined in LabelFacts.v):
    - [no_space t]    every character of [t] differs from ' ' (32);
    - [canon_dec d n] [d = print_dec n]; by [canon_dec_iff] this is: [d] is a
                      non-empty all-digit text (so no sign) without leading
                      zero (unless it is "0") whose value is [n];
    - [valid_text t]  [no_space t] and either [t = 'α' :: print_dec n] with
                      [n <= 2^64-1], or [t = c :: r] with [c <> 'α'] and
                      [length t <= 8].  (Alpha texts may thus be up to 21
                      characters long: more general than the property.)
    - [canonical l]   [Greek c]: [c <> 'α'];  [Alpha n]: [n <= 2^64-1];
                      [LStr cs]: [cs] is a body of 2..8 non-space characters
                      not starting with 'α', padded with spaces to 8.

    This file only states the theorems; proofs are in LabelFacts.v.  Every
    theorem is followed by a [Check] repeating its statement and by
    [Print Assumptions] (expected: "Closed under the global context"). *)

From Sodg Require Import Base Text Label Sodg LabelFacts.

(* ------------------------------------------------------------------ *)
(** ** 1. text -> label -> text *)

Theorem C17_text_roundtrip :
  forall t : text,
    valid_text t ->
    exists l, label_from_str t = Some l /\ label_print l = t.
Proof. exact (@text_roundtrip). Qed.
Check C17_text_roundtrip :
  forall t : text,
    valid_text t ->
    exists l, label_from_str t = Some l /\ label_print l = t.
Print Assumptions C17_text_roundtrip.

(** ** 2. distinct texts give distinct labels *)

Theorem C17_text_injective :
  forall t1 t2 : text,
    valid_text t1 -> valid_text t2 ->
    label_from_str t1 = label_from_str t2 -> t1 = t2.
Proof. exact (@text_injective). Qed.
Check C17_text_injective :
  forall t1 t2 : text,
    valid_text t1 -> valid_text t2 ->
    label_from_str t1 = label_from_str t2 -> t1 = t2.
Print Assumptions C17_text_injective.

Theorem C17_text_distinct :
  forall (t1 t2 : text) (l1 l2 : label),
    valid_text t1 -> valid_text t2 -> t1 <> t2 ->
    label_from_str t1 = Some l1 -> label_from_str t2 = Some l2 -> l1 <> l2.
Proof. exact (@text_distinct). Qed.
Check C17_text_distinct :
  forall (t1 t2 : text) (l1 l2 : label),
    valid_text t1 -> valid_text t2 -> t1 <> t2 ->
    label_from_str t1 = Some l1 -> label_from_str t2 = Some l2 -> l1 <> l2.
Print Assumptions C17_text_distinct.

(** ** 3. label -> text -> label *)

Theorem C17_label_roundtrip :
  forall l : label,
    canonical l -> label_from_str (label_print l) = Some l.
Proof. exact (@label_roundtrip). Qed.
Check C17_label_roundtrip :
  forall l : label,
    canonical l -> label_from_str (label_print l) = Some l.
Print Assumptions C17_label_roundtrip.

(** the two canonical forms correspond *)
Theorem C17_valid_text_canonical :
  forall (t : text) (l : label),
    valid_text t -> label_from_str t = Some l -> canonical l.
Proof. exact (@valid_text_canonical). Qed.
Check C17_valid_text_canonical :
  forall (t : text) (l : label),
    valid_text t -> label_from_str t = Some l -> canonical l.
Print Assumptions C17_valid_text_canonical.

(** ** 4. more than 8 characters *)

Theorem C17_reject_long :
  forall (c : N) (r : text),
    c <> ch_alpha -> 8 < length (c :: r) -> label_from_str (c :: r) = None.
Proof. exact (@reject_long). Qed.
Check C17_reject_long :
  forall (c : N) (r : text),
    c <> ch_alpha -> 8 < length (c :: r) -> label_from_str (c :: r) = None.
Print Assumptions C17_reject_long.

(** ** 5. malformed index *)

Theorem C17_reject_index :
  forall tail : text,
    parse_usize tail = None -> label_from_str (ch_alpha :: tail) = None.
Proof. exact (@reject_index). Qed.
Check C17_reject_index :
  forall tail : text,
    parse_usize tail = None -> label_from_str (ch_alpha :: tail) = None.
Print Assumptions C17_reject_index.

(** the decimal round trip everything rests on *)
Theorem C17_index_roundtrip :
  forall n : N, (n <= usize_max)%N -> parse_usize (print_dec n) = Some n.
Proof. exact (@parse_usize_print_dec). Qed.
Check C17_index_roundtrip :
  forall n : N, (n <= usize_max)%N -> parse_usize (print_dec n) = Some n.
Print Assumptions C17_index_roundtrip.

(** what "malformed" means: (a) nothing after the alpha sign *)
Theorem C17_malformed_empty : parse_usize [] = None.
Proof. exact parse_usize_empty. Qed.
Check C17_malformed_empty : parse_usize [] = None.
Print Assumptions C17_malformed_empty.

(** (b) a sign and nothing else *)
Theorem C17_malformed_plus_only : parse_usize [ch_plus] = None.
Proof. exact parse_usize_plus_only. Qed.
Check C17_malformed_plus_only : parse_usize [ch_plus] = None.
Print Assumptions C17_malformed_plus_only.

(** (c) a character that is not an ASCII digit, after the optional sign
    ([strip_plus] removes one leading '+') *)
Theorem C17_malformed_nondigit :
  forall (tail : text) (c : N),
    In c (strip_plus tail) -> is_digit c = false -> parse_usize tail = None.
Proof. exact (@parse_usize_nondigit). Qed.
Check C17_malformed_nondigit :
  forall (tail : text) (c : N),
    In c (strip_plus tail) -> is_digit c = false -> parse_usize tail = None.
Print Assumptions C17_malformed_nondigit.

Theorem C17_malformed_nondigit_unsigned :
  forall (tail : text) (c : N),
    hd 0%N tail <> ch_plus -> In c tail -> is_digit c = false ->
    parse_usize tail = None.
Proof. exact (@parse_usize_nondigit_unsigned). Qed.
Check C17_malformed_nondigit_unsigned :
  forall (tail : text) (c : N),
    hd 0%N tail <> ch_plus -> In c tail -> is_digit c = false ->
    parse_usize tail = None.
Print Assumptions C17_malformed_nondigit_unsigned.

Theorem C17_malformed_nondigit_signed :
  forall (body : text) (c : N),
    In c body -> is_digit c = false -> parse_usize (ch_plus :: body) = None.
Proof. exact (@parse_usize_nondigit_signed). Qed.
Check C17_malformed_nondigit_signed :
  forall (body : text) (c : N),
    In c body -> is_digit c = false -> parse_usize (ch_plus :: body) = None.
Print Assumptions C17_malformed_nondigit_signed.

(** (d) all digits, but the value exceeds 2^64-1 *)
Theorem C17_malformed_overflow :
  forall (tail : text) (n : N),
    parse_digits 0 (strip_plus tail) = Some n -> (usize_max < n)%N ->
    parse_usize tail = None.
Proof. exact (@parse_usize_overflow). Qed.
Check C17_malformed_overflow :
  forall (tail : text) (n : N),
    parse_digits 0 (strip_plus tail) = Some n -> (usize_max < n)%N ->
    parse_usize tail = None.
Print Assumptions C17_malformed_overflow.

Theorem C17_malformed_overflow_canonical :
  forall n : N, (usize_max < n)%N -> parse_usize (print_dec n) = None.
Proof. exact (@parse_usize_overflow_print_dec). Qed.
Check C17_malformed_overflow_canonical :
  forall n : N, (usize_max < n)%N -> parse_usize (print_dec n) = None.
Print Assumptions C17_malformed_overflow_canonical.

(** (a)-(d) are all the ways to be rejected *)
Theorem C17_malformed_exhaustive :
  forall tail : text,
    parse_usize tail = None <->
    tail = [] \/ tail = [ch_plus] \/
    (exists c, In c (strip_plus tail) /\ is_digit c = false) \/
    (exists n, parse_digits 0 (strip_plus tail) = Some n /\ (usize_max < n)%N).
Proof. exact parse_usize_none_iff. Qed.
Check C17_malformed_exhaustive :
  forall tail : text,
    parse_usize tail = None <->
    tail = [] \/ tail = [ch_plus] \/
    (exists c, In c (strip_plus tail) /\ is_digit c = false) \/
    (exists n, parse_digits 0 (strip_plus tail) = Some n /\ (usize_max < n)%N).
Print Assumptions C17_malformed_exhaustive.

(** "canonical decimal" = no sign, no leading zero *)
Theorem C17_canon_dec_iff :
  forall (d : text) (n : N),
    canon_dec d n <->
    d <> [] /\ forallb is_digit d = true /\
    (d = [48%N] \/ hd 0%N d <> 48%N) /\ parse_digits 0 d = Some n.
Proof. exact canon_dec_iff. Qed.
Check C17_canon_dec_iff :
  forall (d : text) (n : N),
    canon_dec d n <->
    d <> [] /\ forallb is_digit d = true /\
    (d = [48%N] \/ hd 0%N d <> 48%N) /\ parse_digits 0 d = Some n.
Print Assumptions C17_canon_dec_iff.

(** ** 6. an edge bound under the constructed label is found under the
       parsed name *)

Theorem C17_kid_lookup :
  forall l : label,
    canonical l ->
    forall (e : edges) (v : nat),
    exists l', label_from_str (label_print l) = Some l' /\
               mm_get ((l, v) :: e) l' = Some v.
Proof. exact (@kid_lookup). Qed.
Check C17_kid_lookup :
  forall l : label,
    canonical l ->
    forall (e : edges) (v : nat),
    exists l', label_from_str (label_print l) = Some l' /\
               mm_get ((l, v) :: e) l' = Some v.
Print Assumptions C17_kid_lookup.

(** the same with the edge stored by [micromap::Map::insert] *)
Theorem C17_kid_lookup_insert :
  forall l : label,
    canonical l ->
    forall (cap : nat) (e e' : edges) (v : nat),
    mm_insert cap e l v = Ok e' ->
    exists l', label_from_str (label_print l) = Some l' /\ mm_get e' l' = Some v.
Proof. exact (@kid_lookup_insert). Qed.
Check C17_kid_lookup_insert :
  forall l : label,
    canonical l ->
    forall (cap : nat) (e e' : edges) (v : nat),
    mm_insert cap e l v = Ok e' ->
    exists l', label_from_str (label_print l) = Some l' /\ mm_get e' l' = Some v.
Print Assumptions C17_kid_lookup_insert.

(* ------------------------------------------------------------------ *)
(** ** Examples

    Code points: 'α' 945, 'ρ' 961 (2 bytes in UTF-8), '𝜑'-like 120593
    (4 bytes), '€' 8364 (3 bytes), 'a' 97, 'b' 98, '0'..'9' 48..57,
    '+' 43, '-' 45, ' ' 32. *)

(** *** the hypotheses are satisfiable *)

Example ex_no_space : no_space [961; 120593; 97]%N.
Proof. apply no_spaceb_spec. vm_compute. reflexivity. Qed.

Example ex_no_space_neg : ~ no_space [97; 32; 98]%N.
Proof. intros H. apply no_spaceb_spec in H. vm_compute in H. discriminate H. Qed.

Example ex_canon_dec : canon_dec [49; 50]%N 12.
Proof. vm_compute. reflexivity. Qed.

Example ex_canon_dec_max :
  canon_dec [49;56;52;52;54;55;52;52;48;55;51;55;48;57;53;53;49;54;49;53]%N usize_max.
Proof. vm_compute. reflexivity. Qed.

Example ex_valid_single : valid_text [961%N].                        (* "ρ" *)
Proof. apply plain_textb_valid. vm_compute. reflexivity. Qed.

Example ex_valid_single_4byte : valid_text [120593%N].
Proof. apply plain_textb_valid. vm_compute. reflexivity. Qed.

Example ex_valid_multi : valid_text [961; 120593; 8364; 97]%N.
Proof. apply plain_textb_valid. vm_compute. reflexivity. Qed.

Example ex_valid_eight :                     (* 8 characters, 24 bytes *)
  valid_text [961; 120593; 8364; 97; 961; 120593; 8364; 98]%N.
Proof. apply plain_textb_valid. vm_compute. reflexivity. Qed.

Example ex_valid_alpha : valid_text [945; 49; 50]%N.                 (* "α12" *)
Proof. apply (valid_text_alpha (n := 12)). vm_compute. discriminate. Qed.

Example ex_valid_alpha_zero : valid_text [945; 48]%N.                (* "α0" *)
Proof. apply (valid_text_alpha (n := 0)). vm_compute. discriminate. Qed.

Example ex_valid_alpha_max : valid_text (ch_alpha :: print_dec usize_max).
Proof. apply valid_text_alpha. apply N.le_refl. Qed.

Example ex_canonical_greek : canonical (Greek 961).
Proof. vm_compute. discriminate. Qed.

Example ex_canonical_greek_4byte : canonical (Greek 120593).
Proof. vm_compute. discriminate. Qed.

Example ex_canonical_alpha : canonical (Alpha 12).
Proof. vm_compute. discriminate. Qed.

Example ex_canonical_str :
  canonical (LStr [961; 120593; 32; 32; 32; 32; 32; 32]%N).
Proof.
  exists [961; 120593]%N. repeat split.
  - cbn [length]. lia.
  - cbn [length]. lia.
  - apply no_spaceb_spec. vm_compute. reflexivity.
  - vm_compute. discriminate.
Qed.

Example ex_canonical_str_full :
  canonical (LStr [961; 120593; 8364; 97; 961; 120593; 8364; 98]%N).
Proof.
  exists [961; 120593; 8364; 97; 961; 120593; 8364; 98]%N. repeat split.
  - cbn [length]. lia.
  - cbn [length]. lia.
  - apply no_spaceb_spec. vm_compute. reflexivity.
  - vm_compute. discriminate.
Qed.

(** *** the functions on multi-byte characters *)

Example ex_parse_rho : label_from_str [961%N] = Some (Greek 961).
Proof. vm_compute. reflexivity. Qed.

Example ex_parse_4byte : label_from_str [120593%N] = Some (Greek 120593).
Proof. vm_compute. reflexivity. Qed.

Example ex_parse_two :
  label_from_str [961; 120593]%N = Some (LStr [961; 120593; 32; 32; 32; 32; 32; 32]%N).
Proof. vm_compute. reflexivity. Qed.

Example ex_print_two :
  label_print (LStr [961; 120593; 32; 32; 32; 32; 32; 32]%N) = [961; 120593]%N.
Proof. vm_compute. reflexivity. Qed.

Example ex_parse_eight :
  label_from_str [961; 120593; 8364; 97; 961; 120593; 8364; 98]%N
  = Some (LStr [961; 120593; 8364; 97; 961; 120593; 8364; 98]%N).
Proof. vm_compute. reflexivity. Qed.

Example ex_parse_alpha : label_from_str [945; 49; 50]%N = Some (Alpha 12).
Proof. vm_compute. reflexivity. Qed.

Example ex_print_alpha : label_print (Alpha 12) = [945; 49; 50]%N.
Proof. vm_compute. reflexivity. Qed.

Example ex_parse_alpha_max :
  label_from_str (ch_alpha :: print_dec usize_max) = Some (Alpha usize_max).
Proof. vm_compute. reflexivity. Qed.

Example ex_alpha_inside :                  (* 'α' not in front: a plain name *)
  label_from_str [961; 945]%N = Some (LStr [961; 945; 32; 32; 32; 32; 32; 32]%N).
Proof. vm_compute. reflexivity. Qed.

(** *** rejections *)

Example ex_reject_nine :
  label_from_str [961; 120593; 8364; 97; 961; 120593; 8364; 98; 97]%N = None.
Proof. vm_compute. reflexivity. Qed.

Example ex_reject_alpha_alone : label_from_str [945%N] = None.            (* "α" *)
Proof. vm_compute. reflexivity. Qed.

Example ex_reject_alpha_plus : label_from_str [945; 43]%N = None.         (* "α+" *)
Proof. vm_compute. reflexivity. Qed.

Example ex_reject_alpha_minus : label_from_str [945; 45; 49]%N = None.    (* "α-1" *)
Proof. vm_compute. reflexivity. Qed.

Example ex_reject_alpha_letter : label_from_str [945; 49; 961]%N = None.  (* "α1ρ" *)
Proof. vm_compute. reflexivity. Qed.

Example ex_reject_alpha_inner_plus : label_from_str [945; 49; 43; 50]%N = None.  (* "α1+2" *)
Proof. vm_compute. reflexivity. Qed.

Example ex_reject_alpha_overflow :                                       (* "α18446744073709551616" *)
  label_from_str (ch_alpha :: print_dec (usize_max + 1)) = None.
Proof. vm_compute. reflexivity. Qed.

(** *** why the hypotheses are needed: accepted, but not round-tripping *)

Example ex_leading_zero :                                   (* "α01" -> Alpha 1 -> "α1" *)
  label_from_str [945; 48; 49]%N = Some (Alpha 1) /\
  label_print (Alpha 1) = [945; 49]%N.
Proof. vm_compute. split; reflexivity. Qed.

Example ex_explicit_sign :                                  (* "α+5" -> Alpha 5 -> "α5" *)
  label_from_str [945; 43; 53]%N = Some (Alpha 5) /\
  label_print (Alpha 5) = [945; 53]%N.
Proof. vm_compute. split; reflexivity. Qed.

Example ex_inner_space :                                    (* "a b" -> ... -> "ab" *)
  label_from_str [97; 32; 98]%N = Some (LStr [97; 32; 98; 32; 32; 32; 32; 32]%N) /\
  label_print (LStr [97; 32; 98; 32; 32; 32; 32; 32]%N) = [97; 98]%N.
Proof. vm_compute. split; reflexivity. Qed.

Example ex_greek_alpha_not_canonical :                      (* Greek('α') -> "α" -> Err *)
  label_from_str (label_print (Greek 945)) = None.
Proof. vm_compute. reflexivity. Qed.

Example ex_short_str_not_canonical :                        (* Str("a") -> "a" -> Greek('a') *)
  label_from_str (label_print (LStr [97; 32; 32; 32; 32; 32; 32; 32]%N)) = Some (Greek 97).
Proof. vm_compute. reflexivity. Qed.

Example ex_str_alpha_not_canonical :                        (* Str("α7") -> "α7" -> Alpha(7) *)
  label_from_str (label_print (LStr [945; 55; 32; 32; 32; 32; 32; 32]%N)) = Some (Alpha 7).
Proof. vm_compute. reflexivity. Qed.

(** *** an edge bound under [Str("ρ𝜑")] is found under the parsed "ρ𝜑" *)

Example ex_kid_lookup :
  match label_from_str [961; 120593]%N with
  | Some l' =>
      mm_get [(LStr [961; 120593; 32; 32; 32; 32; 32; 32]%N, 7); (Alpha 0, 3)] l'
  | None => None
  end = Some 7.
Proof. vm_compute. reflexivity. Qed.

Example ex_kid_lookup_insert :
  match mm_insert 4 [(Alpha 0, 3)] (Greek 120593) 9, label_from_str [120593%N] with
  | Ok e', Some l' => mm_get e' l'
  | _, _ => None
  end = Some 9.
Proof. vm_compute. reflexivity. Qed.
