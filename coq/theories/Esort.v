(** * Esort: stable insertion sort of edge lists by label, the model of
    [itertools::sorted_by_key(|e| e.0)] / [sorted()] on a vertex's edges
    (labels are unique per vertex, so sorting pairs equals sorting by key). *)

From Sodg Require Export Sodg.

Fixpoint ins_edge (x : label * nat) (l : edges) : edges :=
  match l with
  | [] => [x]
  | y :: t => if label_leb (fst y) (fst x) then y :: ins_edge x t else x :: y :: t
  end.

Fixpoint sort_edges (l : edges) : edges :=
  match l with
  | [] => []
  | x :: t => ins_edge x (sort_edges t)
  end.
