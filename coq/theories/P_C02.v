(** * C02  GC exactness: a group dies exactly when its last unread datum is read

    Property text: "Binding two ungrouped vertices forms a group, binding an
    ungrouped vertex with a grouped one adds it to that group, and binding two
    grouped vertices changes no group.  The data() call that reads the last
    unread datum held by members of a group removes all members of that group
    and nobody else within that same call, whatever the order of put,
    overwriting put, add and bind calls that led there; until then every
    member stays present.  Within the capacity limits none of these calls
    panics."  Quantifier: every finite call sequence within the capacity
    limits and with the documented preconditions; the alive set after every
    call equals the alive set of an independent reference model.

    Shape of the proof: the reference model is [sstep] of Spec.v (its grouping
    rules are restated below as theorems so that they can be read against the
    property text); the model of the code ([step] over Sodg.v, with slots,
    member stacks, unread counters, sentinels) refines it: [C02_refines].
    "Within the limits" is [within_limits], judged on the reference run. *)

From Sodg Require Import History SpecDec.

(** every call sequence within the limits runs without panic on the model of
    the code, returns the reference model's results, and leaves exactly the
    reference model's alive set; [Inv] (counter = recount etc.) holds *)
Theorem C02_refines : forall n cap os,
  within_limits n cap sinit os ->
  exists g', run n (op_empty cap) os = Ok (g', snd (srun sinit os))
             /\ op_keys g' = s_keys (fst (srun sinit os))
             /\ Inv n g'.
Proof.
  intros n cap os HW. destruct (sim_run_empty n cap os HW) as (g' & A & I & HR & C).
  exists g'. split; [exact A|]. split; [symmetry; apply keys_agree; exact HR|exact I].
Qed.
Check C02_refines : forall n cap os,
  within_limits n cap sinit os ->
  exists g', run n (op_empty cap) os = Ok (g', snd (srun sinit os))
             /\ op_keys g' = s_keys (fst (srun sinit os))
             /\ Inv n g'.
Print Assumptions C02_refines.

(** ... and the same after every single call of the sequence *)
Theorem C02_after_every_call : forall n cap os k,
  within_limits n cap sinit os ->
  exists g', run n (op_empty cap) (firstn k os) = Ok (g', snd (srun sinit (firstn k os)))
             /\ op_keys g' = s_keys (fst (srun sinit (firstn k os))).
Proof.
  intros n cap os k HW. apply (within_limits_firstn n cap sinit os k) in HW.
  destruct (C02_refines n cap _ HW) as (g' & A & B & _). eauto.
Qed.
Check C02_after_every_call : forall n cap os k,
  within_limits n cap sinit os ->
  exists g', run n (op_empty cap) (firstn k os) = Ok (g', snd (srun sinit (firstn k os)))
             /\ op_keys g' = s_keys (fst (srun sinit (firstn k os))).
Print Assumptions C02_after_every_call.

(** one call from any pair of related states: no panic, same result, related again *)
Theorem C02_step : forall n g s o,
  Inv n g -> R g s -> pre n (cap_of g) s o ->
  exists g', step n g o = Ok (g', snd (sstep s o)) /\ Inv n g' /\ R g' (fst (sstep s o)).
Proof. exact sim_step. Qed.
Check C02_step : forall n g s o,
  Inv n g -> R g s -> pre n (cap_of g) s o ->
  exists g', step n g o = Ok (g', snd (sstep s o)) /\ Inv n g' /\ R g' (fst (sstep s o)).
Print Assumptions C02_step.

(** the latent state the property's anchors name: counter = recount, member
    lists = tags, in every state the invariant holds of *)
Theorem C02_counter_exact : forall n g b,
  Inv n g -> 2 <= b -> b < 16 ->
  store g b = length (filter (is_stored g) (members g b))
  /\ NoDup (members g b)
  /\ (forall v, In v (members g b) <-> tag g v = b).
Proof.
  intros n g b HI H1 H2. split; [apply (i_cnt HI b H1 H2)|].
  split; [apply (i_nodup HI b H1 H2)|]. intros v. apply (i_mem HI b v H1 H2).
Qed.
Check C02_counter_exact : forall n g b,
  Inv n g -> 2 <= b -> b < 16 ->
  store g b = length (filter (is_stored g) (members g b))
  /\ NoDup (members g b)
  /\ (forall v, In v (members g b) <-> tag g v = b).
Print Assumptions C02_counter_exact.

(** ** the reference model's rules, to be read against the property text *)

Theorem C02_rule_bind_two_ungrouped : forall s v1 v2 a,
  s_grp s v1 = None -> s_grp s v2 = None ->
  let s' := fst (sstep s (OBind v1 v2 a)) in
  s_grp s' v1 = Some (s_fresh s) /\ s_grp s' v2 = Some (s_fresh s)
  /\ (forall w, w <> v1 -> w <> v2 -> s_grp s' w = s_grp s w).
Proof. exact spec_bind_uu. Qed.
Check C02_rule_bind_two_ungrouped : forall s v1 v2 a,
  s_grp s v1 = None -> s_grp s v2 = None ->
  let s' := fst (sstep s (OBind v1 v2 a)) in
  s_grp s' v1 = Some (s_fresh s) /\ s_grp s' v2 = Some (s_fresh s)
  /\ (forall w, w <> v1 -> w <> v2 -> s_grp s' w = s_grp s w).
Print Assumptions C02_rule_bind_two_ungrouped.

Theorem C02_rule_bind_joins_left : forall s v1 v2 a k,
  s_grp s v1 = None -> s_grp s v2 = Some k ->
  let s' := fst (sstep s (OBind v1 v2 a)) in
  s_grp s' v1 = Some k /\ (forall w, w <> v1 -> s_grp s' w = s_grp s w).
Proof. exact spec_bind_ug. Qed.
Check C02_rule_bind_joins_left : forall s v1 v2 a k,
  s_grp s v1 = None -> s_grp s v2 = Some k ->
  let s' := fst (sstep s (OBind v1 v2 a)) in
  s_grp s' v1 = Some k /\ (forall w, w <> v1 -> s_grp s' w = s_grp s w).
Print Assumptions C02_rule_bind_joins_left.

Theorem C02_rule_bind_joins_right : forall s v1 v2 a k,
  s_grp s v1 = Some k -> s_grp s v2 = None ->
  let s' := fst (sstep s (OBind v1 v2 a)) in
  s_grp s' v2 = Some k /\ (forall w, w <> v2 -> s_grp s' w = s_grp s w).
Proof. exact spec_bind_gu. Qed.
Check C02_rule_bind_joins_right : forall s v1 v2 a k,
  s_grp s v1 = Some k -> s_grp s v2 = None ->
  let s' := fst (sstep s (OBind v1 v2 a)) in
  s_grp s' v2 = Some k /\ (forall w, w <> v2 -> s_grp s' w = s_grp s w).
Print Assumptions C02_rule_bind_joins_right.

Theorem C02_rule_bind_two_grouped : forall s v1 v2 a k1 k2,
  s_grp s v1 = Some k1 -> s_grp s v2 = Some k2 ->
  forall w, s_grp (fst (sstep s (OBind v1 v2 a))) w = s_grp s w.
Proof. exact spec_bind_gg. Qed.
Check C02_rule_bind_two_grouped : forall s v1 v2 a k1 k2,
  s_grp s v1 = Some k1 -> s_grp s v2 = Some k2 ->
  forall w, s_grp (fst (sstep s (OBind v1 v2 a))) w = s_grp s w.
Print Assumptions C02_rule_bind_two_grouped.

Theorem C02_rule_bind_removes_nobody : forall s v1 v2 a w,
  s_present (fst (sstep s (OBind v1 v2 a))) w = s_present s w.
Proof. exact spec_bind_present. Qed.
Check C02_rule_bind_removes_nobody : forall s v1 v2 a w,
  s_present (fst (sstep s (OBind v1 v2 a))) w = s_present s w.
Print Assumptions C02_rule_bind_removes_nobody.

(** the read of the last unread datum of a group removes exactly its members *)
Theorem C02_rule_last_read : forall s v k w,
  s_unread s v = true -> s_grp s v = Some k ->
  (forall m, In m (group_members s k) -> m <> v -> s_unread s m = false) ->
  s_present (fst (sstep s (OData v))) w = s_present s w && negb (in_group s k w).
Proof. exact spec_data_last. Qed.
Check C02_rule_last_read : forall s v k w,
  s_unread s v = true -> s_grp s v = Some k ->
  (forall m, In m (group_members s k) -> m <> v -> s_unread s m = false) ->
  s_present (fst (sstep s (OData v))) w = s_present s w && negb (in_group s k w).
Print Assumptions C02_rule_last_read.

(** until then every member stays present *)
Theorem C02_rule_not_last_read : forall s v k w,
  s_grp s v = Some k ->
  (exists m, In m (group_members s k) /\ m <> v /\ s_unread s m = true) ->
  s_present (fst (sstep s (OData v))) w = s_present s w.
Proof. exact spec_data_keep. Qed.
Check C02_rule_not_last_read : forall s v k w,
  s_grp s v = Some k ->
  (exists m, In m (group_members s k) /\ m <> v /\ s_unread s m = true) ->
  s_present (fst (sstep s (OData v))) w = s_present s w.
Print Assumptions C02_rule_not_last_read.

Theorem C02_rule_repeated_or_empty_read : forall s v,
  s_unread s v = false -> fst (sstep s (OData v)) = s.
Proof. exact spec_data_noop. Qed.
Check C02_rule_repeated_or_empty_read : forall s v,
  s_unread s v = false -> fst (sstep s (OData v)) = s.
Print Assumptions C02_rule_repeated_or_empty_read.

(** what "member of group k" means *)
Theorem C02_def_group_members : forall s k w,
  In w (group_members s k) <-> w < s_bound s /\ s_present s w = true /\ s_grp s w = Some k.
Proof. exact group_members_spec. Qed.
Check C02_def_group_members : forall s k w,
  In w (group_members s k) <-> w < s_bound s /\ s_present s w = true /\ s_grp s w = Some k.
Print Assumptions C02_def_group_members.

(** the limits predicate is decidable: the boolean used by the correspondence
    check to judge generated histories is the predicate of the theorems *)
Theorem C02_limits_decided : forall n cap s o, preb n cap s o = true <-> pre n cap s o.
Proof. exact preb_spec. Qed.
Check C02_limits_decided : forall n cap s o, preb n cap s o = true <-> pre n cap s o.
Print Assumptions C02_limits_decided.

(** ** non-vacuity: histories with the orders the tests never sample are
    within the limits, and the second one ends in a collection *)

Definition d1 : hex := HVector [1%N; 2%N].
Definition d2 : hex := HBytes [7; 0; 0; 0; 0; 0; 0; 0]%N 1.

(** put before bind, overwrite of an unread datum, re-add of a present vertex *)
Definition ex_history : list op :=
  [OAdd 1; OAdd 2; OPut 2 d1; OBind 1 2 (Alpha 0); OPut 2 d2; OAdd 2; OPut 1 d1;
   OData 2; OKeys; OData 1; OKeys].

Ltac limits_solve :=
  repeat match goal with
         | |- _ /\ _ => split
         | |- True => exact I
         | |- _ = _ => reflexivity
         | |- _ <> _ => discriminate || lia
         | |- _ < _ => vm_compute; lia
         | |- _ \/ _ => (left; reflexivity) || (right; vm_compute; lia)
         | |- match ?x with _ => _ end => let y := eval vm_compute in x in change x with y; cbv iota beta
         end.

Example C02_example_within_limits : within_limits 2 4 sinit ex_history.
Proof.
  unfold ex_history. cbn [within_limits pre]. 
  repeat (split; [limits_solve|]); limits_solve.
Qed.

Example C02_example_run :
  exists g', run 2 (op_empty 4) ex_history = Ok (g', snd (srun sinit ex_history))
             /\ snd (srun sinit ex_history)
                = [RUnit; RUnit; RUnit; RUnit; RUnit; RUnit; RUnit;
                   RData (Some d2); RKeys [1; 2]; RData (Some d1); RKeys []].
Proof. eexists. split; vm_compute; reflexivity. Qed.
