(** * Text: strings as lists of Unicode scalar values, decimal and hex digits.

    Rust [String]/[&str]/[char] values are modelled as [list N] of code
    points.  Only definitions and their small characterising lemmas. *)

From Sodg Require Export Base.
From Coq Require Import DecimalN DecimalFacts.

Definition text := list N.

Definition ch_space : N := 32.
Definition ch_tab : N := 9.
Definition ch_lf : N := 10.
Definition ch_cr : N := 13.
Definition ch_plus : N := 43.
Definition ch_dash : N := 45.
Definition ch_alpha : N := 945.   (* U+03B1 α *)
Definition ch_nu : N := 957.      (* U+03BD ν *)

Definition usize_max : N := 18446744073709551615.   (* 2^64 - 1 *)

(** A Unicode scalar value, i.e. what a Rust [char] can hold. *)
Definition is_scalar (c : N) : bool :=
  ((c <? 55296) || ((57343 <? c) && (c <? 1114112)))%N.

(** ** decimal *)

Fixpoint uint_digits (u : Decimal.uint) : text :=
  match u with
  | Decimal.Nil => []
  | Decimal.D0 u => 48%N :: uint_digits u
  | Decimal.D1 u => 49%N :: uint_digits u
  | Decimal.D2 u => 50%N :: uint_digits u
  | Decimal.D3 u => 51%N :: uint_digits u
  | Decimal.D4 u => 52%N :: uint_digits u
  | Decimal.D5 u => 53%N :: uint_digits u
  | Decimal.D6 u => 54%N :: uint_digits u
  | Decimal.D7 u => 55%N :: uint_digits u
  | Decimal.D8 u => 56%N :: uint_digits u
  | Decimal.D9 u => 57%N :: uint_digits u
  end.

(** [format!("{n}")] of an unsigned integer *)
Definition print_dec (n : N) : text := uint_digits (N.to_uint n).

Definition print_nat (n : nat) : text := print_dec (N.of_nat n).

Definition is_digit (c : N) : bool := ((48 <=? c) && (c <=? 57))%N.

(** value of a non-empty all-digit text; [None] otherwise *)
Fixpoint parse_digits (acc : N) (l : text) : option N :=
  match l with
  | [] => Some acc
  | c :: t => if is_digit c then parse_digits (acc * 10 + (c - 48))%N t else None
  end.

(** [usize::from_str]: optional leading [+], at least one ASCII digit,
    value at most 2^64-1; anything else is an error. *)
Definition parse_usize (l : text) : option N :=
  let body := match l with
              | c :: t => if (c =? ch_plus)%N then t else l
              | [] => []
              end in
  match body with
  | [] => None
  | _ => match parse_digits 0 body with
         | Some n => if (n <=? usize_max)%N then Some n else None
         | None => None
         end
  end.

(** ** hexadecimal *)

Definition hexdigit_upper (d : N) : N := (if d <? 10 then 48 + d else 55 + d)%N.
Definition hexdigit_lower (d : N) : N := (if d <? 10 then 48 + d else 87 + d)%N.

(** [format!("{b:02X}")] *)
Definition print_byte_upper (b : N) : text :=
  [hexdigit_upper (b / 16); hexdigit_upper (b mod 16)]%N.

Definition hexval (c : N) : option N :=
  (if (48 <=? c) && (c <=? 57) then Some (c - 48)
   else if (65 <=? c) && (c <=? 70) then Some (c - 55)
   else if (97 <=? c) && (c <=? 102) then Some (c - 87)
   else None)%N.

(** [hex::decode]: even number of hex digits (either case) *)
Fixpoint hex_decode (l : text) : option (list N) :=
  match l with
  | [] => Some []
  | [_] => None
  | a :: b :: t =>
      match hexval a, hexval b, hex_decode t with
      | Some x, Some y, Some r => Some ((x * 16 + y)%N :: r)
      | _, _, _ => None
      end
  end.

(** join with a separator *)
Fixpoint join (sep : text) (parts : list text) : text :=
  match parts with
  | [] => []
  | [p] => p
  | p :: rest => p ++ sep ++ join sep rest
  end.
