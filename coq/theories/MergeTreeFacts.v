(** * MergeTreeFacts: [merge] of two trees (C11).

    [h] is the right graph with the tree [T] embedded at [right], [s] the
    left graph with the tree [U] embedded at [left].  The proof is an
    induction on the fuel of [merge_rec] (which bounds the size of the right
    subtree handed to a call); the loop over the kids of a right vertex is
    handled by composing the summaries [lpost] of its iterations. *)

From Sodg Require Export TreeFacts.

Lemma ids_kids_app ks1 ks2 : ids_kids (ks1 ++ ks2) = ids_kids ks1 ++ ids_kids ks2.
Proof.
  induction ks1 as [|p r IH]; cbn [ids_kids app]; [reflexivity|]. rewrite IH, app_assoc. reflexivity.
Qed.

Lemma tsize_kids_app ks1 ks2 : tsize_kids (ks1 ++ ks2) = tsize_kids ks1 + tsize_kids ks2.
Proof. induction ks1 as [|p r IH]; cbn [tsize_kids app]; [reflexivity|]. rewrite IH. lia. Qed.

Lemma map_get_app_cases e2 e1 u v :
  map_get (e2 ++ e1) u = Some v ->
  map_get e2 u = Some v \/ (map_get e2 u = None /\ map_get e1 u = Some v).
Proof. rewrite map_get_app. destruct (map_get e2 u); [left; assumption|right; split; auto]. Qed.

Section TreeMerge.
Variable n : nat.
Variable h : sodg.
Variable D : nat.
Hypothesis Hh : Inv n h.
Hypothesis HD : D <= n.

(** ** the summary of a piece of the run: [s] before, [s'] after, [ext] the
    entries added to the mapping.  [R] is the part of the old left graph the
    piece was allowed to work on, [K] the right vertices it had to map, [E]
    the vertices exempt from the edge frame. *)
Record gpost (R : nat -> Prop) (K : list nat) (E : nat -> Prop) (s s' : sodg)
  (ext : mapping) (k' c' : nat) : Prop := {
  gp_inv : Inv n s';
  gp_mono : mono s s';
  gp_keys : forall x, In x (keys ext) <-> In x K;
  gp_nodup : NoDup (keys ext);
  gp_img : forall u v, map_get ext u = Some v ->
                       tag s' v <> 0 /\ (R v \/ (tag s v = 0 /\ g_next s <= v));
  gp_inj : forall u1 u2 v, map_get ext u1 = Some v -> map_get ext u2 = Some v -> u1 = u2;
  gp_new : forall v, tag s v = 0 -> tag s' v <> 0 ->
                     g_next s <= v /\ exists u, map_get ext u = Some v;
  gp_frame : forall v, tag s v <> 0 -> (forall u, map_get ext u <> Some v) ->
                       dat s' v = dat s v /\ prs s' v = prs s v /\ (~ E v -> edg s' v = edg s v);
  gp_hom : forall u l a w, map_get ext u = Some l -> In (a, w) (edg h u) ->
                           exists x, mm_get (edg s' l) a = Some x /\ map_get ext w = Some x;
  gp_data : forall u l, map_get ext u = Some l -> has_data h u = true ->
                        dat s' l = dat h u /\ prs s' l = PStored;
  gp_nodata : forall u l, map_get ext u = Some l -> has_data h u = false -> tag s l <> 0 ->
                          dat s' l = dat s l /\ prs s' l = prs s l;
  gp_bound : bound s' k';
  gp_free : free s' c'
}.

(** the vertices of the kid subtrees of [left] whose label is one of [ks] *)
Definition region (us ks : list (label * tree)) (v : nat) : Prop :=
  exists b w, In (b, w) us /\ In b (map fst ks) /\ In v (ids w).

Record lpost (left : nat) (us ks : list (label * tree)) (s s' : sodg)
  (ext : mapping) (k' c' : nat) : Prop := {
  lp_g : gpost (region us ks) (ids_kids ks) (eq left) s s' ext k' c';
  lp_left : forall b, ~ In b (map fst ks) -> mm_get (edg s' left) b = mm_get (edg s left) b;
  lp_len : length (edg s' left) <= length (edg s left) + length ks;
  lp_kids : forall b t, In (b, t) ks ->
                        exists x, mm_get (edg s' left) b = Some x /\ map_get ext (root t) = Some x
}.

Lemma lpost_nil left us s k c :
  Inv n s -> bound s k -> free s c -> lpost left us [] s s [] k c.
Proof.
  intros HI HB HF. split.
  - split; auto.
    + apply mono_refl.
    + intros x. cbn. tauto.
    + constructor.
    + intros u v H. discriminate.
    + intros u1 u2 v H. discriminate.
    + intros v H1 H2. contradiction.
    + intros u l a w H. discriminate.
    + intros u l H. discriminate.
  - reflexivity.
  - cbn [length]. lia.
  - intros b t [].
Qed.

Lemma lpost_comp left us ks1 ks2 s s1 s' ext1 ext2 k1 c1 k' c' :
  NoDup (left :: ids_kids us) -> tag s left <> 0 -> (forall v, In v (ids_kids us) -> tag s v <> 0) ->
  NoDup (map fst (ks1 ++ ks2)) -> NoDup (ids_kids (ks1 ++ ks2)) ->
  lpost left us ks1 s s1 ext1 k1 c1 -> lpost left us ks2 s1 s' ext2 k' c' ->
  lpost left us (ks1 ++ ks2) s s' (ext2 ++ ext1) k' c'.
Proof.
  intros Hnd Hl Hus Hlab Hids [G1 L1 N1 K1] [G2 L2 N2 K2].
  destruct G1 as [I1 M1 Ky1 Nd1 Im1 In1 Nw1 Fr1 Ho1 Da1 Nd1' B1 F1].
  destruct G2 as [I2 M2 Ky2 Nd2 Im2 In2 Nw2 Fr2 Ho2 Da2 Nd2' B2 F2].
  rewrite map_app in Hlab. rewrite ids_kids_app in Hids.
  apply nodup_app_inv in Hlab as (Hlab1 & Hlab2 & Hlab3).
  apply nodup_app_inv in Hids as (Hids1 & Hids2 & Hids3).
  inversion Hnd as [|? ? Hl_us Hnd_us]; subst.
  (* keys of the two pieces are disjoint *)
  assert (KD : forall x, In x (keys ext1) -> ~ In x (keys ext2)).
  { intros x H1 H2. apply Ky1 in H1. apply Ky2 in H2. apply (Hids3 x H1 H2). }
  assert (G1in : forall u v, map_get ext1 u = Some v -> map_get (ext2 ++ ext1) u = Some v).
  { intros u v H. rewrite map_get_app_r; [exact H|]. apply KD. eapply map_get_some_key; eauto. }
  (* images of the two pieces are disjoint *)
  assert (X : forall u1 u2 v, map_get ext1 u1 = Some v -> map_get ext2 u2 = Some v -> False).
  { intros u1 u2 v H1 H2. destruct (Im1 _ _ H1) as [P1 Q1]. destruct (Im2 _ _ H2) as [P2 Q2].
    destruct Q2 as [(b2 & w2 & Hb2 & Hk2 & Hv2)|[Z _]]; [|contradiction].
    assert (Pv : tag s v <> 0) by (apply Hus; eapply ids_kids_in; eauto).
    destruct Q1 as [(b1 & w1 & Hb1 & Hk1 & Hv1)|[Z _]]; [|contradiction].
    assert (Hne : b1 <> b2) by (intros ->; apply (Hlab3 b2 Hk1 Hk2)).
    apply (ids_kids_disjoint us b1 w1 b2 w2 Hnd_us Hb1 Hb2 Hne v Hv1 Hv2). }
  assert (M : mono s s') by (eapply mono_trans; eauto).
  split; [split|..].
  - exact I2.
  - exact M.
  - intros x. rewrite keys_app, ids_kids_app, !in_app_iff, Ky1, Ky2. tauto.
  - rewrite keys_app. apply nodup_app; auto. intros x H2 H1. apply (KD x H1 H2).
  - intros u v H. apply map_get_app_cases in H as [H|[_ H]].
    + destruct (Im2 _ _ H) as [P Q]. split; [exact P|]. destruct Q as [(b & w & Hb & Hk & Hv)|[Z Hg]].
      * left. exists b, w. split; [exact Hb|]. split; [rewrite map_app; apply in_app_iff; right; exact Hk|exact Hv].
      * right. split; [apply (mono_absent s s1 v M1 Z)|].
        apply (Nat.le_trans _ (g_next s1)); [apply (mo_next _ _ M1)|exact Hg].
    + destruct (Im1 _ _ H) as [P Q]. split; [apply (mo_tag _ _ M2); exact P|].
      destruct Q as [(b & w & Hb & Hk & Hv)|Q]; [|right; exact Q].
      left. exists b, w. split; [exact Hb|]. split; [rewrite map_app; apply in_app_iff; left; exact Hk|exact Hv].
  - intros u1 u2 v H1 H2.
    apply map_get_app_cases in H1 as [H1|[_ H1]]; apply map_get_app_cases in H2 as [H2|[_ H2]].
    + eapply In2; eauto.
    + exfalso. eapply X; eauto.
    + exfalso. eapply X; eauto.
    + eapply In1; eauto.
  - intros v Z P. destruct (Nat.eq_dec (tag s1 v) 0) as [Z1|P1].
    + destruct (Nw2 v Z1 P) as (Hg & u & Hu).
      split; [apply (Nat.le_trans _ (g_next s1)); [apply (mo_next _ _ M1)|exact Hg]|].
      exists u. apply map_get_app_l. exact Hu.
    + destruct (Nw1 v Z P1) as (Hg & u & Hu). split; [exact Hg|]. exists u. apply G1in. exact Hu.
  - intros v P Hno.
    assert (No1 : forall u, map_get ext1 u <> Some v) by (intros u Hu; apply (Hno u); apply G1in; exact Hu).
    assert (No2 : forall u, map_get ext2 u <> Some v) by (intros u Hu; apply (Hno u); apply map_get_app_l; exact Hu).
    destruct (Fr1 v P No1) as (A1 & A2 & A3).
    destruct (Fr2 v (mo_tag _ _ M1 v P) No2) as (C1 & C2 & C3).
    split; [congruence|]. split; [congruence|]. intros Hne. rewrite C3, A3; auto.
  - intros u l a w H Hin. apply map_get_app_cases in H as [H|[_ H]].
    + destruct (Ho2 _ _ _ _ H Hin) as (x & Hx1 & Hx2). exists x. split; [exact Hx1|].
      apply map_get_app_l. exact Hx2.
    + destruct (Ho1 _ _ _ _ H Hin) as (x & Hx1 & Hx2). exists x. split; [|apply G1in; exact Hx2].
      apply (mo_keep _ _ M2); [|exact Hx1]. apply (Im1 _ _ H).
  - intros u l H Hd. apply map_get_app_cases in H as [H|[_ H]].
    + eapply Da2; eauto.
    + destruct (Da1 _ _ H Hd) as [A1 A2].
      destruct (Fr2 l) as (C1 & C2 & _).
      * apply (Im1 _ _ H).
      * intros u2 Hu2. eapply X; eauto.
      * split; congruence.
  - intros u l H Hd Pl. apply map_get_app_cases in H as [H|[_ H]].
    + destruct (Nd2' _ _ H Hd (mo_tag _ _ M1 l Pl)) as [A1 A2].
      destruct (Fr1 l Pl) as (C1 & C2 & _).
      * intros u1 Hu1. eapply X; eauto.
      * split; congruence.
    + destruct (Nd1' _ _ H Hd Pl) as [A1 A2].
      destruct (Fr2 l) as (C1 & C2 & _).
      * apply (Im1 _ _ H).
      * intros u2 Hu2. eapply X; eauto.
      * split; congruence.
  - exact B2.
  - exact F2.
  - intros b Hb. rewrite map_app, in_app_iff in Hb. rewrite L2, L1; auto.
  - rewrite app_length. lia.
  - intros b t Hin. apply in_app_iff in Hin as [Hin|Hin].
    + destruct (K1 b t Hin) as (x & Hx1 & Hx2). exists x. split; [|apply G1in; exact Hx2].
      apply (mo_keep _ _ M2); [|exact Hx1]. apply (mo_tag _ _ M1). exact Hl.
    + destruct (K2 b t Hin) as (x & Hx1 & Hx2). exists x. split; [exact Hx1|].
      apply map_get_app_l. exact Hx2.
Qed.

(** ** one call of [merge_rec] *)

Record cpost (left : nat) (U T : tree) (s s' : sodg) (ext : mapping) (k' c' : nat) : Prop := {
  cp_g : gpost (fun v => In v (ids U)) (ids T) (fun _ => False) s s' ext k' c';
  cp_root : map_get ext (root T) = Some left
}.

Definition call_ok (f : nat) : Prop :=
  forall s left T U m k c,
    Inv n s -> emb h T -> NoDup (ids T) -> (forall x, In x (ids T) -> ~ In x (keys m)) ->
    tsize T <= f -> maxdeg T <= D ->
    emb s U -> NoDup (ids U) -> root U = left ->
    (forall v, In v (ids U) -> length (edg s v) + D <= n) ->
    bound s k -> k + tsize_kids (kids T) <= 15 -> free s (c + tsize_kids (kids T)) ->
    exists s' ext,
      merge_rec f n h s left (root T) m = Ok (s', ext ++ m)
      /\ cpost left U T s s' ext (k + tsize_kids (kids T)) c.

Lemma op_kid_present s v a : tag s v <> 0 -> op_kid s v a = Ok (mm_get (edg s v) a).
Proof. intros H. unfold op_kid. rewrite chk_v_ok by (apply tag_nonzero_lt; exact H). reflexivity. Qed.

(** one iteration of the loop: find or graft the kid, then recurse *)
Lemma head_ok f :
  call_ok f ->
  forall s m left us a t k c,
    Inv n s -> tag s left <> 0 ->
    emb h t -> NoDup (ids t) -> (forall x, In x (ids t) -> ~ In x (keys m)) ->
    tsize t <= f -> maxdeg t <= D ->
    NoDup (left :: ids_kids us) -> (forall v, In v (ids_kids us) -> tag s v <> 0) ->
    (forall x, mm_get (edg s left) a = Some x -> exists u, In (a, u) us /\ root u = x) ->
    (forall u, In (a, u) us -> emb s u /\ forall v, In v (ids u) -> length (edg s v) + D <= n) ->
    length (edg s left) < n ->
    bound s k -> k + tsize t <= 15 -> free s (c + tsize t) ->
    exists kk sm s' ext,
      op_kid s left a = Ok kk
      /\ attach n s left a kk (map_get m (root t)) = Ok sm
      /\ merge_rec f n h (fst sm) (snd sm) (root t) m = Ok (s', ext ++ m)
      /\ lpost left us [(a, t)] s s' ext (k + tsize t) c.
Proof.
  intros HC s m left us a t k c HI Tl Et Nt Dt St Mt Hnd Hus HE HAV Hlen HB Hk HF.
  inversion Hnd as [|? ? Hl_us Hnd_us]; subst.
  assert (TS : tsize t = S (tsize_kids (kids t))) by (destruct t; rewrite tsize_node; reflexivity).
  exists (mm_get (edg s left) a). rewrite (op_kid_present s left a Tl).
  destruct (mm_get (edg s left) a) as [x|] eqn:G.
  - (* the kid exists *)
    destruct (HE x eq_refl) as (u & Hu & Hr).
    destruct (HAV u Hu) as (Eu & Ru).
    assert (Nu : NoDup (ids u)) by (eapply ids_kids_nodup_in; eauto).
    destruct (HC s x t u m k (c + 1) HI Et Nt Dt St Mt Eu Nu Hr Ru HB) as (s' & ext & Hrec & [Gp Rt]).
    { lia. }
    { eapply free_le; [exact HF|lia]. }
    exists (s, x), s', ext. cbn [attach fst snd]. split; [reflexivity|]. split; [reflexivity|].
    split; [exact Hrec|].
    destruct Gp as [I1 M1 Ky1 Nd1 Im1 In1 Nw1 Fr1 Ho1 Da1 Nd1' B1 F1].
    assert (Lno : forall u0, map_get ext u0 <> Some left).
    { intros u0 H0. destruct (Im1 _ _ H0) as [_ [Q|[Q _]]]; [|contradiction].
      apply Hl_us. eapply ids_kids_in; eauto. }
    destruct (Fr1 left Tl Lno) as (_ & _ & EL). specialize (EL (fun x => x)).
    split; [split|..].
    + exact I1.
    + exact M1.
    + intros y. cbn [ids_kids snd]. rewrite app_nil_r. apply Ky1.
    + exact Nd1.
    + intros u0 v H0. destruct (Im1 _ _ H0) as [P Q]. split; [exact P|].
      destruct Q as [Q|Q]; [left|right; exact Q]. exists a, u. split; [exact Hu|]. split; [left; reflexivity|exact Q].
    + exact In1.
    + exact Nw1.
    + intros v P Hno. destruct (Fr1 v P Hno) as (A1 & A2 & A3). split; [exact A1|]. split; [exact A2|].
      intros _. apply A3. intros [].
    + exact Ho1.
    + exact Da1.
    + exact Nd1'.
    + eapply bound_le; [exact B1|lia].
    + eapply free_le; [exact F1|lia].
    + intros b _. rewrite EL. reflexivity.
    + rewrite EL. lia.
    + intros b t' [E|[]]. injection E as <- <-. exists x. split; [rewrite EL; exact G|exact Rt].
  - (* the kid is grafted *)
    assert (Gm : map_get m (root t) = None) by (apply map_get_none; apply Dt; apply root_in_ids).
    rewrite Gm.
    pose proof (tsize_pos t) as Tp.
    destruct (attach_fresh n s left a k (c + tsize_kids (kids t)) HI Tl G Hlen HB) as
      (s0 & id & Hat & I0 & M0 & Zid & Gid & Cid & Nid & T0 & PD0 & P0id & D0id & E0 & B0 & F0).
    { lia. }
    { eapply free_le; [exact HF|lia]. }
    assert (Eid : edg s0 id = []).
    { rewrite E0. apply Nat.eqb_neq in Nid. rewrite Nid, Nat.eqb_refl. reflexivity. }
    assert (Pid : tag s0 id <> 0) by (apply T0; left; reflexivity).
    destruct (HC s0 id t (Node id []) m (S k) c I0 Et Nt Dt St Mt) as (s' & ext & Hrec & [Gp Rt]).
    { apply emb_node. split; [exact Pid|]. split; [rewrite Eid; reflexivity|]. intros ? ? []. }
    { rewrite ids_node. cbn [ids_kids]. constructor; [intros []|constructor]. }
    { reflexivity. }
    { intros v Hv. rewrite ids_node in Hv. cbn [ids_kids] in Hv. destruct Hv as [<-|[]].
      rewrite Eid. cbn [length]. lia. }
    { exact B0. }
    { lia. }
    { exact F0. }
    exists (s0, id), s', ext. cbn [fst snd]. split; [reflexivity|]. split; [exact Hat|].
    split; [exact Hrec|].
    destruct Gp as [I1 M1 Ky1 Nd1 Im1 In1 Nw1 Fr1 Ho1 Da1 Nd1' B1 F1].
    assert (Tl0 : tag s0 left <> 0) by (apply T0; right; exact Tl).
    assert (Lno : forall u0, map_get ext u0 <> Some left).
    { intros u0 H0. destruct (Im1 _ _ H0) as [_ [Q|[Q _]]]; [|contradiction].
      rewrite ids_node in Q. cbn [ids_kids] in Q. destruct Q as [Q|[]]. congruence. }
    destruct (Fr1 left Tl0 Lno) as (_ & _ & EL). specialize (EL (fun x => x)).
    assert (EL' : edg s' left = edg s left ++ [(a, id)]).
    { rewrite EL, E0, Nat.eqb_refl. reflexivity. }
    split; [split|..].
    + exact I1.
    + eapply mono_trans; eauto.
    + intros y. cbn [ids_kids snd]. rewrite app_nil_r. apply Ky1.
    + exact Nd1.
    + intros u0 v H0. destruct (Im1 _ _ H0) as [P Q]. split; [exact P|]. right.
      destruct Q as [Q|[Q1 Q2]].
      * rewrite ids_node in Q. cbn [ids_kids] in Q. destruct Q as [<-|[]]. split; assumption.
      * split; [apply (mono_absent s s0 v M0 Q1)|].
        apply (Nat.le_trans _ (g_next s0)); [apply (mo_next _ _ M0)|exact Q2].
    + exact In1.
    + intros v Zv Pv. destruct (Nat.eq_dec v id) as [->|Nv].
      * split; [exact Gid|]. exists (root t). exact Rt.
      * assert (Z0 : tag s0 v = 0).
        { destruct (Nat.eq_dec (tag s0 v) 0) as [E|NE]; [exact E|]. apply T0 in NE as [NE|NE]; contradiction. }
        destruct (Nw1 v Z0 Pv) as (Hg & Hex). split; [|exact Hex].
        apply (Nat.le_trans _ (g_next s0)); [apply (mo_next _ _ M0)|exact Hg].
    + intros v P Hno. assert (Nv : v <> id) by (intros ->; contradiction).
      destruct (PD0 v Nv) as [A1 A2].
      destruct (Fr1 v (mo_tag _ _ M0 v P) Hno) as (C1 & C2 & C3).
      split; [congruence|]. split; [congruence|]. intros Hne. rewrite C3 by (intros []).
      rewrite E0. assert (v <> left) by congruence.
      apply Nat.eqb_neq in H, Nv. rewrite H, Nv. reflexivity.
    + exact Ho1.
    + exact Da1.
    + intros u0 l H0 Hd Pl. assert (Nl : l <> id) by (intros ->; contradiction).
      destruct (Nd1' _ _ H0 Hd (mo_tag _ _ M0 l Pl)) as [A1 A2]. destruct (PD0 l Nl) as [A3 A4].
      split; congruence.
    + eapply bound_le; [exact B1|lia].
    + exact F1.
    + intros b Hb. rewrite EL', (mm_get_app_fresh _ _ _ _ G).
      destruct (label_eqb a b) eqn:Eab; [|reflexivity].
      apply label_eqb_spec in Eab. subst b. exfalso. apply Hb. left; reflexivity.
    + rewrite EL', app_length. cbn [length]. lia.
    + intros b t' [E|[]]. injection E as <- <-. exists id. split; [|exact Rt].
      rewrite EL', (mm_get_app_fresh _ _ _ _ G), label_eqb_refl. reflexivity.
Qed.

(** ** the loop over the kids of a right vertex *)

Lemma loop_ok f :
  call_ok f ->
  forall ks s m left us k c,
    Inv n s -> tag s left <> 0 ->
    (forall a t, In (a, t) ks -> emb h t) -> NoDup (ids_kids ks) -> NoDup (map fst ks) ->
    (forall x, In x (ids_kids ks) -> ~ In x (keys m)) ->
    (forall a t, In (a, t) ks -> tsize t <= f /\ maxdeg t <= D) ->
    NoDup (left :: ids_kids us) -> (forall v, In v (ids_kids us) -> tag s v <> 0) ->
    (forall a x, In a (map fst ks) -> mm_get (edg s left) a = Some x ->
                 exists u, In (a, u) us /\ root u = x) ->
    (forall a u, In (a, u) us -> In a (map fst ks) ->
                 emb s u /\ forall v, In v (ids u) -> length (edg s v) + D <= n) ->
    length (edg s left) + length ks <= n ->
    bound s k -> k + tsize_kids ks <= 15 -> free s (c + tsize_kids ks) ->
    exists s' ext,
      mgo (merge_rec f n h) n left (kid_edges ks) s m = Ok (s', ext ++ m)
      /\ lpost left us ks s s' ext (k + tsize_kids ks) c.
Proof.
  intros HC ks. induction ks as [|[a t] rest IH];
    intros s m left us k c HI Tl Eh Nids Nlab Dm Sz Hnd Hus HE HAV Hlen HB Hk HF.
  - exists s, []. split; [reflexivity|]. cbn [tsize_kids] in *. apply lpost_nil; auto.
    + eapply bound_le; [exact HB|lia].
    + eapply free_le; [exact HF|lia].
  - cbn [tsize_kids snd ids_kids map fst length] in *.
    inversion Nlab as [|? ? Na Nlab']; subst.
    apply nodup_app_inv in Nids as (Nt & Nrest & Ndis).
    inversion Hnd as [|? ? Hl_us Hnd_us]; subst.
    destruct (Sz a t (or_introl eq_refl)) as [St Mt].
    destruct (head_ok f HC s m left us a t k (c + tsize_kids rest) HI Tl) as
      (kk & sm & s1 & ext1 & Hkid & Hat & Hrec & LP1); auto.
    { apply (Eh a t). left; reflexivity. }
    { intros x Hx. apply Dm. apply in_app_iff. left; exact Hx. }
    { intros x Hx. apply (HE a x); [left; reflexivity|exact Hx]. }
    { intros u Hu. apply (HAV a u Hu). left; reflexivity. }
    { lia. }
    { lia. }
    { eapply free_le; [exact HF|lia]. }
    pose proof LP1 as [G1 L1 N1 K1].
    destruct G1 as [I1 M1 Ky1 Nd1 Im1 In1 Nw1 Fr1 Ho1 Da1 Nd1' B1 F1].
    cbn [ids_kids snd] in Ky1. 
    destruct (IH s1 (ext1 ++ m) left us (k + tsize t) c) as (s' & ext2 & Hgo & LP2); auto.
    { apply (mo_tag _ _ M1). exact Tl. }
    { intros b u Hin. apply (Eh b u). right; exact Hin. }
    { intros x Hx. rewrite keys_app. intros Hin. apply in_app_iff in Hin as [Hin|Hin].
      - apply Ky1 in Hin. rewrite app_nil_r in Hin. apply (Ndis x Hin Hx).
      - apply (Dm x); [apply in_app_iff; right; exact Hx|exact Hin]. }
    { intros b u Hin. apply (Sz b u). right; exact Hin. }
    { intros v Hv. apply (mo_tag _ _ M1). apply Hus. exact Hv. }
    { intros b x Hb Hg. rewrite L1 in Hg.
      - apply (HE b x); [right; exact Hb|exact Hg].
      - intros [E|[]]. subst b. contradiction. }
    { intros b u Hu Hb. destruct (HAV b u Hu (or_intror Hb)) as [Eu Ru].
      assert (Q : forall v, In v (ids u) -> tag s1 v <> 0 /\ edg s1 v = edg s v).
      { intros v Hv.
        assert (Pv : tag s v <> 0) by (apply Hus; eapply ids_kids_in; eauto).
        split; [apply (mo_tag _ _ M1); exact Pv|].
        destruct (Fr1 v Pv) as (_ & _ & A3).
        - intros u0 H0. destruct (Im1 _ _ H0) as [_ [(b' & w' & Hb' & Hk' & Hv')|[Q _]]]; [|contradiction].
          destruct Hk' as [E|[]]. cbn [fst] in E. subst b'.
          assert (Hne : a <> b) by (intros ->; contradiction).
          apply (ids_kids_disjoint us a w' b u Hnd_us Hb' Hu Hne v Hv' Hv).
        - apply A3. intros ->. apply Hl_us. eapply ids_kids_in; eauto. }
      split.
      - eapply emb_frame; [exact Eu|exact Q].
      - intros v Hv. destruct (Q v Hv) as [_ ->]. apply Ru. exact Hv. }
    { cbn [length] in N1. lia. }
    { lia. }
    exists s', (ext2 ++ ext1). split.
    + unfold kid_edges. cbn [map fst snd]. fold (kid_edges rest). cbn [mgo]. rewrite Hkid. cbn [obind]. rewrite Hat. cbn [obind]. rewrite Hrec. cbn [obind fst snd].
      rewrite Hgo. rewrite app_assoc. reflexivity.
    + replace (k + (tsize t + tsize_kids rest)) with (k + tsize t + tsize_kids rest) by lia.
      change ((a, t) :: rest) with ([(a, t)] ++ rest).
      apply (lpost_comp left us [(a, t)] rest s s1 s' ext1 ext2 (k + tsize t) (c + tsize_kids rest)); auto;
        try (cbn [app map fst]; constructor; assumption);
        cbn [app ids_kids snd]; rewrite ?app_nil_r; apply nodup_app; assumption.
Qed.

(** ** every call *)

Lemma mono_same s s1 :
  cap_of s1 = cap_of s -> g_next s1 = g_next s ->
  (forall w, tag s1 w = tag s w) -> (forall w, edg s1 w = edg s w) -> mono s s1.
Proof.
  intros C N T E. split.
  - exact C.
  - rewrite N. apply Nat.le_refl.
  - intros v. rewrite T. auto.
  - intros v a w _. rewrite E. auto.
  - intros v a x _. rewrite E. auto.
  - intros v a x H1 H2. rewrite T in H2. contradiction.
Qed.

Lemma check_joins_ok s left m es :
  tag s left <> 0 ->
  (forall a to, In (a, to) es -> exists x, mm_get (edg s left) a = Some x /\ map_get m to = Some x) ->
  check_joins s left m es = Ok tt.
Proof.
  intros Tl. induction es as [|[a to] rest IH]; intros H; cbn [check_joins]; [reflexivity|].
  rewrite (op_kid_present s left a Tl). cbn [obind].
  destruct (H a to (or_introl eq_refl)) as (x & H1 & H2). rewrite H1, H2, Nat.eqb_refl.
  apply IH. intros b w Hin. apply (H b w). right; exact Hin.
Qed.

Lemma call_all : forall f, call_ok f.
Proof.
  induction f as [|f IHf]; intros s left T U m k c HI Et Nt Dt St Mt Eu Nu Hr Ru HB Hk HF.
  { pose proof (tsize_pos T). lia. }
  destruct T as [right ks]. destruct U as [l us]. cbn [root kids] in *. subst l.
  apply emb_node in Et as (Pr & Er & Ek). apply emb_node in Eu as (Tl & El & Euk).
  rewrite ids_node in *. rewrite tsize_node in St. rewrite maxdeg_node in Mt.
  inversion Nt as [|? ? Nr Nks]; subst. inversion Nu as [|? ? Nl Nus]; subst.
  assert (Gm : map_get m right = None) by (apply map_get_none; apply Dt; left; reflexivity).
  rewrite merge_rec_S, Gm. rewrite chk_v_ok by (apply tag_nonzero_lt; exact Pr). cbn [obind].
  (* the optional put *)
  assert (PUT : exists s1,
    (if has_data h right then op_put s left (dat h right) else Ok s) = Ok s1
    /\ Inv n s1 /\ cap_of s1 = cap_of s /\ g_next s1 = g_next s
    /\ (forall w, tag s1 w = tag s w) /\ (forall w, edg s1 w = edg s w)
    /\ (forall w, w <> left -> prs s1 w = prs s w /\ dat s1 w = dat s w)
    /\ (has_data h right = true -> dat s1 left = dat h right /\ prs s1 left = PStored)
    /\ (has_data h right = false -> dat s1 left = dat s left /\ prs s1 left = prs s left)).
  { destruct (has_data h right) eqn:Hd.
    - destruct (put_sum n s left (dat h right) HI Tl) as (s1 & A & I1 & C1 & N1 & T1 & P1 & D1 & E1).
      exists s1. split; [exact A|]. split; [exact I1|]. split; [exact C1|]. split; [exact N1|].
      split; [exact T1|]. split; [exact E1|]. split.
      + intros w Hw. rewrite P1, D1. apply Nat.eqb_neq in Hw. rewrite Hw. split; reflexivity.
      + split; [|discriminate]. intros _. rewrite D1, P1, Nat.eqb_refl. split; reflexivity.
    - exists s. split; [reflexivity|]. split; [exact HI|]. split; [reflexivity|]. split; [reflexivity|].
      split; [reflexivity|]. split; [reflexivity|]. split; [split; reflexivity|].
      split; [discriminate|]. intros _. split; reflexivity. }
  destruct PUT as (s1 & Hput & I1 & C1 & N1 & T1 & E1 & PD1 & Dput & Dnone).
  rewrite Hput. cbn [obind].
  assert (M01 : mono s s1) by (apply mono_same; assumption).
  assert (B1 : bound s1 k).
  { destruct HB as (L & A1 & A2). exists L. split; [exact A1|]. intros v. rewrite T1. apply A2. }
  assert (F1 : free s1 (c + tsize_kids ks)).
  { destruct HF as (F & A1 & A2 & A3). exists F. split; [exact A1|]. split; [exact A2|].
    intros v Hv. rewrite N1, C1, T1. apply A3. exact Hv. }
  assert (Pus : forall v, In v (ids_kids us) -> tag s v <> 0).
  { intros v Hv. apply ids_kids_inv in Hv as (a & u & Hin & Hv). eapply emb_present; eauto. }
  assert (Nlab : NoDup (map fst ks)).
  { rewrite <- kid_edges_keys, <- Er. apply (i_edges Hh). }
  destruct (loop_ok f IHf ks s1 ((right, left) :: m) left us k c) as (s2 & ext & Hgo & LP); auto.
  { rewrite T1; exact Tl. }
  { intros x Hx [E|Hin]; [subst x; contradiction|]. apply (Dt x); [right; exact Hx|exact Hin]. }
  { intros a t Hin. pose proof (tsize_kids_in ks a t Hin). pose proof (maxdeg_kids_in ks a t Hin). lia. }
  { intros v Hv. rewrite T1. apply Pus. exact Hv. }
  { intros a x _ Hg. rewrite E1, El in Hg. apply mm_get_kid_edges. exact Hg. }
  { intros a u Hin _. split.
    - eapply emb_frame; [apply (Euk a u Hin)|]. intros v Hv. rewrite T1, E1. split; [|reflexivity].
      apply Pus. eapply ids_kids_in; eauto.
    - intros v Hv. rewrite E1. apply Ru. right. eapply ids_kids_in; eauto. }
  { rewrite E1. pose proof (Ru left (or_introl eq_refl)). lia. }
  rewrite Er, Hgo. cbn [obind fst snd].
  destruct LP as [G L0 N0 K0].
  destruct G as [I2 M2 Ky Nd Im Inj Nw Fr Ho Da Nda B2 F2].
  assert (Tl1 : tag s1 left <> 0) by (rewrite T1; exact Tl).
  assert (Tl2 : tag s2 left <> 0) by (apply (mo_tag _ _ M2); exact Tl1).
  rewrite check_joins_ok; [|exact Tl2|].
  2:{ intros a to Hin. apply kid_edges_in in Hin as (t & Hin & <-).
      destruct (K0 a t Hin) as (x & Hx1 & Hx2). exists x. split; [exact Hx1|].
      apply map_get_app_l. exact Hx2. }
  cbn [obind].
  exists s2, (ext ++ [(right, left)]). split.
  { rewrite <- app_assoc. reflexivity. }
  assert (Rno : ~ In right (keys ext)) by (intros Hin; apply Ky in Hin; contradiction).
  assert (Lno : forall u, map_get ext u <> Some left).
  { intros u H0. destruct (Im _ _ H0) as [_ [(b & w & Hb & _ & Hv)|[Q _]]]; [|contradiction].
    apply Nl. eapply ids_kids_in; eauto. }
  assert (Cases : forall u v, map_get (ext ++ [(right, left)]) u = Some v ->
                  map_get ext u = Some v \/ (u = right /\ v = left)).
  { intros u v H. apply map_get_app_cases in H as [H|[_ H]]; [left; exact H|]. right.
    cbn [map_get] in H. destruct (Nat.eqb_spec right u) as [->|_]; [|discriminate].
    injection H as <-. split; reflexivity. }
  assert (Inl : forall u v, map_get ext u = Some v -> map_get (ext ++ [(right, left)]) u = Some v).
  { intros u v H. apply map_get_app_l. exact H. }
  assert (Root : map_get (ext ++ [(right, left)]) right = Some left).
  { rewrite map_get_app_r by exact Rno. cbn [map_get]. rewrite Nat.eqb_refl. reflexivity. }
  split; [split|exact Root].
  - exact I2.
  - eapply mono_trans; eauto.
  - intros x. rewrite keys_app, in_app_iff, Ky. rewrite ids_node. unfold keys. cbn [map fst In]. tauto.
  - rewrite keys_app. apply nodup_app; [exact Nd|unfold keys; cbn [map fst]; constructor; [intros []|constructor]|].
    unfold keys at 2. cbn [map fst]. intros x Hx [E|[]]. subst x. contradiction.
  - intros u v H. apply Cases in H as [H|[-> ->]].
    + destruct (Im _ _ H) as [P Q]. split; [exact P|]. destruct Q as [(b & w & Hb & _ & Hv)|Q].
      * left. rewrite ids_node. right. eapply ids_kids_in; eauto.
      * right. rewrite <- T1, <- N1. exact Q.
    + split; [exact Tl2|]. left. rewrite ids_node. left; reflexivity.
  - intros u1 u2 v H1 H2. apply Cases in H1 as [H1|[-> ->]]; apply Cases in H2 as [H2|[-> E2]].
    + eapply Inj; eauto.
    + subst v. exfalso. apply (Lno u1 H1).
    + exfalso. apply (Lno u2 H2).
    + reflexivity.
  - intros v Zv Pv. rewrite <- T1 in Zv. destruct (Nw v Zv Pv) as (Hg & u & Hu).
    split; [rewrite <- N1; exact Hg|]. exists u. apply Inl. exact Hu.
  - intros v Pv Hno.
    assert (Nvl : v <> left) by (intros ->; apply (Hno right Root)).
    assert (No : forall u, map_get ext u <> Some v) by (intros u Hu; apply (Hno u); apply Inl; exact Hu).
    assert (Pv1 : tag s1 v <> 0) by (rewrite T1; exact Pv).
    destruct (Fr v Pv1 No) as (A1 & A2 & A3). destruct (PD1 v Nvl) as [A4 A5].
    split; [congruence|]. split; [congruence|]. intros _. rewrite A3 by congruence. apply E1.
  - intros u l a w H Hin. apply Cases in H as [H|[-> ->]].
    + destruct (Ho _ _ _ _ H Hin) as (x & Hx1 & Hx2). exists x. split; [exact Hx1|apply Inl; exact Hx2].
    + rewrite Er in Hin. apply kid_edges_in in Hin as (t & Hin & <-).
      destruct (K0 a t Hin) as (x & Hx1 & Hx2). exists x. split; [exact Hx1|apply Inl; exact Hx2].
  - intros u l H Hd. apply Cases in H as [H|[-> ->]].
    + eapply Da; eauto.
    + destruct (Dput Hd) as [A1 A2]. destruct (Fr left Tl1 Lno) as (C3 & C4 & _).
      split; congruence.
  - intros u l H Hd Pl. apply Cases in H as [H|[-> ->]].
    + assert (Nll : l <> left) by (intros ->; apply (Lno u H)).
      assert (Pl1 : tag s1 l <> 0) by (rewrite T1; exact Pl).
      destruct (Nda _ _ H Hd Pl1) as [A1 A2]. destruct (PD1 l Nll) as [A3 A4]. split; congruence.
    + destruct (Dnone Hd) as [A1 A2]. destruct (Fr left Tl1 Lno) as (C3 & C4 & _).
      split; congruence.
  - exact B2.
  - exact F2.
Qed.

End TreeMerge.

(** ** the top-level call on two trees *)

(** a sufficient condition, stated on the two trees and the left graph, for
    the merge to stay within the capacity limits:
    - the present vertices of [s] plus the vertices of [T] are at most 16
      (at most 15 vertices are present when a vertex is grafted, so a free
      group slot is found and no group overflows);
    - there are enough absent ids at or above the allocator position for the
      vertices of [T] other than its root;
    - every vertex of [U] has room for as many more labels as the largest
      out-degree in [T]. *)
Definition fits (n : nat) (s : sodg) (U T : tree) : Prop :=
  length (op_keys s) + tsize T <= 16
  /\ tsize T <= S (length (free_list s))
  /\ (forall v, In v (ids U) -> length (edg s v) + maxdeg T <= n).

Definition tree_hyps (n : nat) (s h : sodg) (left right : nat) (U T : tree) : Prop :=
  Inv n s /\ Inv n h /\ embeds s U /\ root U = left /\ embeds h T /\ root T = right
  /\ fits n s U T.

Lemma merge_trees n s h left right U T :
  tree_hyps n s h left right U T ->
  exists s' m,
    op_merge_mapped n s h left right = Ok (s', m)
    /\ cpost n h left U T s s' m (length (op_keys s) + tsize_kids (kids T)) 0.
Proof.
  intros (HI & Hh & [Eu Nu] & Hl & [Et Nt] & Hr & F1 & F2 & F3).
  assert (HD : maxdeg T <= n).
  { pose proof (F3 (root U) (root_in_ids U)). lia. }
  assert (TS : tsize T = S (tsize_kids (kids T))) by (destruct T; rewrite tsize_node; reflexivity).
  assert (Hf : tsize T <= cap_of h + 2).
  { rewrite <- ids_length. pose proof (nodup_lt_length (ids T) (cap_of h) Nt) as Q.
    assert (length (ids T) <= cap_of h); [|lia]. apply Q.
    intros x Hx. apply tag_nonzero_lt. eapply emb_present; eauto. }
  assert (A1 : forall x, In x (ids T) -> ~ In x (keys [])) by (intros x _ []).
  assert (A2 : length (op_keys s) + tsize_kids (kids T) <= 15) by lia.
  assert (A3 : free s (0 + tsize_kids (kids T))).
  { eapply free_le; [apply free_free_list|]. lia. }
  destruct (call_all n h (maxdeg T) Hh HD (cap_of h + 2) s left T U [] (length (op_keys s)) 0
              HI Et Nt A1 Hf (Nat.le_refl _) Eu Nu Hl F3 (bound_keys s) A2 A3)
    as (s' & ext & Hrec & CP).
  exists s', ext. rewrite app_nil_r in Hrec. subst right. split; [exact Hrec|exact CP].
Qed.

Lemma merge_trees_unique n s h left right U T s' m :
  tree_hyps n s h left right U T ->
  op_merge_mapped n s h left right = Ok (s', m) ->
  cpost n h left U T s s' m (length (op_keys s) + tsize_kids (kids T)) 0.
Proof.
  intros H E. destruct (merge_trees n s h left right U T H) as (s2 & m2 & E2 & CP).
  rewrite E in E2. injection E2 as <- <-. exact CP.
Qed.

(** *** 1. the call returns, the verdict is the one C12 dictates, [Inv] holds *)

Lemma verdict_tree h T m :
  emb h T -> (forall x, In x (keys m) <-> In x (ids T)) ->
  (verdict h m = None <-> forall v, tag h v <> 0 -> In v (ids T)).
Proof.
  intros Et Ky.
  assert (Hk : forall u, In u (keys m) <-> reach ptrue h (root T) u).
  { intros u. rewrite Ky. split; [apply emb_in_reach; exact Et|apply emb_reach_in; exact Et]. }
  pose proof (emb_hclosed h T Et) as Hc. split.
  - intros Hv v Pv. apply Ky. apply Hk. eapply verdict_none; eauto. apply tag_nonzero_lt; exact Pv.
  - intros Ha. eapply verdict_all; eauto. intros v _ Pv. apply Hk. apply Ky. apply Ha. exact Pv.
Qed.

Theorem merge_trees_ok n s h left right U T :
  tree_hyps n s h left right U T ->
  exists s' m,
    op_merge_mapped n s h left right = Ok (s', m)
    /\ op_merge n s h left right = Ok (s', verdict h m)
    /\ (verdict h m = None <-> forall v, tag h v <> 0 -> In v (ids T))
    /\ Inv n s' /\ cap_of s' = cap_of s.
Proof.
  intros H. destruct (merge_trees n s h left right U T H) as (s' & m & E & [G Rt]).
  exists s', m. split; [exact E|]. split.
  { rewrite op_merge_projection, E. reflexivity. }
  destruct H as (_ & _ & _ & _ & [Et _] & _ & _).
  split; [apply verdict_tree; [exact Et|apply (gp_keys _ _ _ _ _ _ _ _ _ _ G)]|].
  split; [apply (gp_inv _ _ _ _ _ _ _ _ _ _ G)|]. apply (mo_cap _ _ (gp_mono _ _ _ _ _ _ _ _ _ _ G)).
Qed.

(** *** 2. paths and data *)

Fixpoint path (g : sodg) (v : nat) (p : list label) (w : nat) : Prop :=
  match p with
  | [] => v = w
  | a :: r => exists x, mm_get (edg g v) a = Some x /\ path g x r w
  end.

Lemma path_unfold g v p w :
  path g v p w <->
  match p with
  | [] => v = w
  | a :: r => exists x, op_kid g v a = (_ <- chk_v g v ;; Ok (Some x)) /\ mm_get (edg g v) a = Some x
                        /\ path g x r w
  end.
Proof.
  destruct p as [|a r]; cbn [path]; [tauto|]. split.
  - intros (x & H1 & H2). exists x. split; [|split; assumption]. unfold op_kid. rewrite H1. reflexivity.
  - intros (x & _ & H1 & H2). eauto.
Qed.

Lemma path_det g p : forall v w1 w2, path g v p w1 -> path g v p w2 -> w1 = w2.
Proof.
  induction p as [|a r IH]; cbn [path]; intros v w1 w2 H1 H2; [congruence|].
  destruct H1 as (x1 & A1 & B1). destruct H2 as (x2 & A2 & B2).
  assert (x1 = x2) by congruence. subst x2. eapply IH; eauto.
Qed.

Section Consequences.
Variables (n : nat) (s h : sodg) (left right : nat) (U T : tree) (s' : sodg) (m : mapping).
Hypothesis HY : tree_hyps n s h left right U T.
Hypothesis HM : op_merge_mapped n s h left right = Ok (s', m).

Let CP := merge_trees_unique n s h left right U T s' m HY HM.
Let G := cp_g _ _ _ _ _ _ _ _ _ _ CP.

Lemma cq_root : map_get m right = Some left.
Proof. pose proof HY as (_ & _ & _ & _ & _ & Hr & _). rewrite <- Hr. apply (cp_root _ _ _ _ _ _ _ _ _ _ CP). Qed.

Lemma cq_total u : In u (ids T) <-> map_get m u <> None.
Proof.
  rewrite <- (gp_keys _ _ _ _ _ _ _ _ _ _ G). split.
  - intros H E. apply map_get_none in E. contradiction.
  - intros H. destruct (map_get m u) eqn:E; [eapply map_get_some_key; eauto|congruence].
Qed.

Lemma cq_path_from p : forall u0 l0 u,
  map_get m u0 = Some l0 -> path h u0 p u ->
  exists x, map_get m u = Some x /\ path s' l0 p x.
Proof.
  induction p as [|a r IH]; cbn [path]; intros u0 l0 u H0 Hp.
  - subst u. exists l0. split; [exact H0|reflexivity].
  - destruct Hp as (w & Hw & Hp). apply mm_get_in in Hw.
    destruct (gp_hom _ _ _ _ _ _ _ _ _ _ G _ _ _ _ H0 Hw) as (y & Hy1 & Hy2).
    destruct (IH w y u Hy2 Hp) as (x & Hx1 & Hx2). exists x. split; [exact Hx1|]. exists y. auto.
Qed.

Theorem cq_paths p u :
  path h right p u -> exists x, map_get m u = Some x /\ path s' left p x.
Proof. apply cq_path_from. apply cq_root. Qed.

Theorem cq_data u x :
  map_get m u = Some x -> has_data h u = true ->
  has_data s' x = true /\ dat s' x = dat h u.
Proof.
  intros H Hd. destruct (gp_data _ _ _ _ _ _ _ _ _ _ G _ _ H Hd) as [A1 A2].
  split; [unfold has_data; rewrite A2; reflexivity|exact A1].
Qed.

Theorem cq_nodata u x :
  map_get m u = Some x -> has_data h u = false -> tag s x <> 0 ->
  dat s' x = dat s x /\ prs s' x = prs s x.
Proof. apply (gp_nodata _ _ _ _ _ _ _ _ _ _ G). Qed.

(** *** 3. injectivity *)
Theorem cq_injective u1 u2 v : map_get m u1 = Some v -> map_get m u2 = Some v -> u1 = u2.
Proof. apply (gp_inj _ _ _ _ _ _ _ _ _ _ G). Qed.

(** *** 4. frame *)
Theorem cq_present v : tag s v <> 0 -> tag s' v <> 0.
Proof. apply (mo_tag _ _ (gp_mono _ _ _ _ _ _ _ _ _ _ G)). Qed.

Theorem cq_edges_kept v a w :
  tag s v <> 0 -> mm_get (edg s v) a = Some w -> mm_get (edg s' v) a = Some w.
Proof. apply (mo_keep _ _ (gp_mono _ _ _ _ _ _ _ _ _ _ G)). Qed.

Theorem cq_edges_added v a x :
  tag s v <> 0 -> mm_get (edg s' v) a = Some x -> mm_get (edg s v) a = Some x \/ tag s x = 0.
Proof. apply (mo_old _ _ (gp_mono _ _ _ _ _ _ _ _ _ _ G)). Qed.

Theorem cq_untouched v :
  tag s v <> 0 -> (forall u, map_get m u <> Some v) ->
  dat s' v = dat s v /\ prs s' v = prs s v /\ edg s' v = edg s v.
Proof.
  intros P Hno. destruct (gp_frame _ _ _ _ _ _ _ _ _ _ G v P Hno) as (A1 & A2 & A3).
  split; [exact A1|]. split; [exact A2|]. apply A3. intros [].
Qed.

Theorem cq_image v u : map_get m u = Some v -> tag s' v <> 0 /\ (In v (ids U) \/ (tag s v = 0 /\ g_next s <= v)).
Proof. apply (gp_img _ _ _ _ _ _ _ _ _ _ G). Qed.

Theorem cq_outside v :
  tag s v <> 0 -> ~ In v (ids U) ->
  dat s' v = dat s v /\ prs s' v = prs s v /\ edg s' v = edg s v.
Proof.
  intros P Hout. apply cq_untouched; [exact P|]. intros u Hu.
  destruct (cq_image v u Hu) as [_ [Q|[Q _]]]; contradiction.
Qed.

(** *** 5. the new vertices *)
Theorem cq_new v :
  tag s v = 0 -> tag s' v <> 0 ->
  g_next s <= v
  /\ exists u, In u (ids T) /\ map_get m u = Some v /\ forall u', map_get m u' = Some v -> u' = u.
Proof.
  intros Zv Pv. destruct (gp_new _ _ _ _ _ _ _ _ _ _ G v Zv Pv) as (Hg & u & Hu).
  split; [exact Hg|]. exists u. split; [apply cq_total; congruence|]. split; [exact Hu|].
  intros u' Hu'. eapply cq_injective; eauto.
Qed.

Lemma cq_newdesc p : forall w y u x,
  map_get m w = Some y -> path h w p u -> map_get m u = Some x -> tag s y = 0 -> tag s x = 0.
Proof.
  induction p as [|a r IH]; cbn [path]; intros w y u x Hw Hp Hu Zy.
  - subst u. congruence.
  - destruct Hp as (w' & Hw' & Hp). apply mm_get_in in Hw'.
    destruct (gp_hom _ _ _ _ _ _ _ _ _ _ G _ _ _ _ Hw Hw') as (y' & Hy1 & Hy2).
    apply (IH w' y' u x Hy2 Hp Hu).
    apply (mo_new _ _ (gp_mono _ _ _ _ _ _ _ _ _ _ G) y a y' Zy); [|exact Hy1].
    apply (cq_image y w Hw).
Qed.

Lemma cq_oldpath p : forall u0 l0 u x,
  map_get m u0 = Some l0 -> path h u0 p u -> map_get m u = Some x -> tag s x <> 0 ->
  path s l0 p x.
Proof.
  induction p as [|a r IH]; cbn [path]; intros u0 l0 u x H0 Hp Hu Px.
  - subst u. congruence.
  - assert (P0 : tag s l0 <> 0).
    { intros Z0. apply Px. exact (cq_newdesc (a :: r) u0 l0 u x H0 Hp Hu Z0). }
    destruct Hp as (w & Hw & Hp). pose proof (mm_get_in _ _ _ Hw) as Hw'.
    destruct (gp_hom _ _ _ _ _ _ _ _ _ _ G _ _ _ _ H0 Hw') as (y & Hy1 & Hy2).
    assert (Py : tag s y <> 0).
    { intros Zy. apply Px. exact (cq_newdesc r w y u x Hy2 Hp Hu Zy). }
    exists y. split; [|eapply IH; eauto].
    destruct (mo_old _ _ (gp_mono _ _ _ _ _ _ _ _ _ _ G) l0 a y P0 Hy1) as [Q|Q]; [exact Q|contradiction].
Qed.

Lemma path_in_tree g V : emb g V -> forall p v w, In v (ids V) -> path g v p w -> In w (ids V).
Proof.
  intros E p. induction p as [|a r IH]; cbn [path]; intros v w Hv Hp; [subst; exact Hv|].
  destruct Hp as (x & Hx & Hp). apply (IH x w); [|exact Hp].
  eapply emb_edge_in; eauto. eapply mm_get_in; eauto.
Qed.

Lemma cq_path_kept p : forall v w, In v (ids U) -> path s v p w -> path s' v p w.
Proof.
  pose proof HY as (_ & _ & [Eu _] & _).
  induction p as [|a r IH]; cbn [path]; intros v w Hv Hp; [exact Hp|].
  destruct Hp as (x & Hx & Hp). exists x. split.
  - apply cq_edges_kept; [eapply emb_present; eauto|exact Hx].
  - apply IH; [|exact Hp]. eapply emb_edge_in; eauto. eapply mm_get_in; eauto.
Qed.

(** a right vertex whose label path exists in the old left graph is mapped
    to the end of that path; one whose path is lacking is mapped to a vertex
    that was absent *)
Theorem cq_fresh_iff p u x :
  path h right p u -> map_get m u = Some x ->
  (forall w, path s left p w -> w = x)
  /\ ((~ exists w, path s left p w) -> tag s x = 0 /\ g_next s <= x)
  /\ (tag s x <> 0 -> path s left p x).
Proof.
  intros Hp Hu.
  assert (Hl : In left (ids U)).
  { pose proof HY as (_ & _ & _ & Hl & _). rewrite <- Hl. apply root_in_ids. }
  destruct (cq_paths p u Hp) as (x' & Hx1 & Hx2). assert (x' = x) by congruence. subst x'.
  assert (Old : tag s x <> 0 -> path s left p x).
  { intros Px. eapply cq_oldpath; eauto. apply cq_root. }
  split; [|split; [|exact Old]].
  - intros w Hw. eapply path_det; [apply cq_path_kept; eauto|exact Hx2].
  - intros Hno. destruct (Nat.eq_dec (tag s x) 0) as [Zx|Px].
    + split; [exact Zx|]. apply cq_new; [exact Zx|]. apply (cq_image x u Hu).
    + exfalso. apply Hno. exists x. apply Old. exact Px.
Qed.

End Consequences.

(** ** small restatements used by P_C11.v *)

Lemma ids_kids_spec ks v :
  In v (ids_kids ks) <-> exists a t, In (a, t) ks /\ In v (ids t).
Proof.
  split; [apply ids_kids_inv|]. intros (a & t & H1 & H2). eapply ids_kids_in; eauto.
Qed.

Lemma tsize_ids T : tsize T = length (ids T).
Proof. symmetry. apply ids_length. Qed.

Lemma emb_reach_iff g T :
  emb g T -> forall u, In u (ids T) <-> reach ptrue g (root T) u.
Proof.
  intros E u. split; [apply emb_in_reach; exact E|apply emb_reach_in; exact E].
Qed.

Lemma embeds_unfold g T : embeds g T <-> emb g T /\ NoDup (ids T).
Proof. unfold embeds. tauto. Qed.

Lemma fits_unfold n s U T :
  fits n s U T <->
  length (op_keys s) + tsize T <= 16
  /\ tsize T <= S (length (filter (fun v => (tag s v =? 0) && (g_next s <=? v)) (iota (cap_of s))))
  /\ (forall v, In v (ids U) -> length (edg s v) + maxdeg T <= n).
Proof. unfold fits, free_list. tauto. Qed.

Lemma tree_hyps_unfold n s h left right U T :
  tree_hyps n s h left right U T <->
  Inv n s /\ Inv n h /\ embeds s U /\ root U = left /\ embeds h T /\ root T = right
  /\ fits n s U T.
Proof. unfold tree_hyps. tauto. Qed.

Lemma calls_unfold n s s' :
  calls n s s' <-> exists ops rs, Forall prim_op ops /\ run n s ops = Ok (s', rs).
Proof. unfold calls. tauto. Qed.

Lemma prim_op_unfold o :
  prim_op o <-> match o with OAdd _ | OBind _ _ _ | OPut _ _ | ONext => True | _ => False end.
Proof. unfold prim_op. tauto. Qed.

Theorem cq_kept n s h left right U T s' m :
  tree_hyps n s h left right U T -> op_merge_mapped n s h left right = Ok (s', m) ->
  forall v, tag s v <> 0 ->
    tag s' v <> 0
    /\ forall a w, mm_get (edg s v) a = Some w -> mm_get (edg s' v) a = Some w.
Proof.
  intros H1 H2 v P. split.
  - eapply cq_present; eauto.
  - intros a w. eapply cq_edges_kept; eauto.
Qed.
