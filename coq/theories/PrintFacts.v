(** * PrintFacts: facts about the printers of Print.v ([inspect], [Debug] /
    [Display], [v_print]) -- property C20. *)

From Sodg Require Export Reach.

(** ** sorting the edges of a vertex only permutes them *)

Lemma ins_edge_perm x l : Permutation (ins_edge x l) (x :: l).
Proof.
  induction l as [|y t IH]; simpl; auto.
  destruct (label_leb (fst y) (fst x)); auto.
  eapply perm_trans; [apply perm_skip; exact IH | apply perm_swap].
Qed.

Lemma sort_edges_perm l : Permutation (sort_edges l) l.
Proof.
  induction l as [|x t IH]; simpl; auto.
  eapply perm_trans; [apply ins_edge_perm | apply perm_skip; exact IH].
Qed.

(** ** what a listing says *)

(** the edge a line of the listing shows *)
Definition triple (l : iline) : nat * label * nat := (il_from l, il_label l, il_to l).

(** the targets of the lines printed without the ellipsis, i.e. of the edges
    that [inspect] descends into *)
Definition fresh_targets (ls : list iline) : list nat :=
  map il_to (filter (fun l => negb (il_skip l)) ls).

Lemma fresh_targets_app l1 l2 : fresh_targets (l1 ++ l2) = fresh_targets l1 ++ fresh_targets l2.
Proof. unfold fresh_targets. rewrite filter_app, map_app. reflexivity. Qed.

(** ** the inner loop of [inspect_v] as a function of its own *)

Section Igo.
  Variable rec : nat -> nat -> list nat -> outcome (list iline * list nat).
  Variables depth v : nat.

  Fixpoint igo (es : edges) (seen : list nat) (acc : list iline) {struct es}
    : outcome (list iline * list nat) :=
    match es with
    | [] => Ok (acc, seen)
    | (a, to) :: rest =>
        if mem to seen
        then igo rest seen (acc ++ [mkIL depth v a to true])
        else
          r <- rec (S depth) to (to :: seen) ;;
          igo rest (snd r) (acc ++ [mkIL depth v a to false] ++ fst r)
    end.
End Igo.

Lemma inspect_v_S f g d v seen :
  inspect_v (S f) g d v seen =
  (_ <- chk_v g v ;; igo (inspect_v f g) d v (sort_edges (edg g v)) (v :: seen) []).
Proof. reflexivity. Qed.

(** ** the depth-first search invariant

    [base] is the set of vertices seen before the call, [seen'] the set after
    it, [new] the vertices the call visited (expanded), [ls] the lines it
    produced, [extra] the edges listed that do not start at a vertex of [new]
    (the edges of the vertex whose loop is running). *)
Definition visit_post (g : sodg) (v : nat) (base seen' : list nat) (ls : list iline)
  (extra : list (nat * label * nat)) (new : list nat) : Prop :=
  NoDup new
  /\ (forall x, In x new -> ~ In x base)
  /\ (forall x, In x seen' <-> In x new \/ In x base)
  /\ (forall x, In x new -> reach ptrue g v x)
  /\ (forall u a w, In u new -> In (a, w) (edg g u) -> In w seen')
  /\ Permutation (map triple ls) (extra ++ flat_map (out_edges g) new).

(** the statement about a call of [inspect_v] with fuel [fuel] *)
Definition visit_ok (g : sodg) (fuel : nat) : Prop :=
  forall d v seen base,
    closed g v -> ~ In v base ->
    (forall x, In x (v :: seen) <-> In x (v :: base)) ->
    unseen (cap_of g) base <= fuel ->
    exists ls seen',
      inspect_v fuel g d v seen = Ok (ls, seen')
      /\ exists new, visit_post g v base seen' ls [] new
                     /\ In v new
                     /\ Permutation (v :: fresh_targets ls) new.

Lemma igo_spec g f d v :
  visit_ok g f -> closed g v ->
  forall es s acc,
    In v s ->
    (forall a w, In (a, w) es -> In (a, w) (edg g v)) ->
    unseen (cap_of g) s <= f ->
    exists ls s',
      igo (inspect_v f g) d v es s acc = Ok (acc ++ ls, s')
      /\ exists new,
           visit_post g v s s' ls (map (fun e : label * nat => (v, fst e, snd e)) es) new
           /\ (forall a w, In (a, w) es -> In w s')
           /\ Permutation (fresh_targets ls) new.
Proof.
  intros HP Hc es. induction es as [|[a to] rest IH]; intros s acc Hvs Hes Hm.
  - exists [], s. split; [simpl; rewrite app_nil_r; reflexivity|].
    exists []. split; [|split].
    + unfold visit_post. simpl. split; [constructor|]. split; [intros x []|].
      split; [intros x; tauto|]. split; [intros x []|]. split; [intros u a w []|]. constructor.
    + intros a w [].
    + constructor.
  - simpl. destruct (mem to s) eqn:M.
    + (* the target has been seen: one line with the ellipsis *)
      apply mem_In in M.
      destruct (IH s (acc ++ [mkIL d v a to true])) as (ls & s' & E & new & Hpost & Htg & Hfr); auto.
      { intros a' w' H. apply Hes. right. exact H. }
      exists (mkIL d v a to true :: ls), s'. split.
      { rewrite E. rewrite <- app_assoc. reflexivity. }
      exists new. destruct Hpost as (N1 & N2 & N3 & N4 & N5 & N6).
      split; [|split].
      * unfold visit_post. repeat split; auto; try (apply N3).
        simpl. apply perm_skip. exact N6.
      * intros a' w' [H|H].
        -- inversion H; subst. apply N3. right. exact M.
        -- eapply Htg; eauto.
      * exact Hfr.
    + (* a new vertex: one line, then its listing, then the other edges *)
      apply mem_false in M.
      assert (Hav : In (a, to) (edg g v)) by (apply Hes; left; reflexivity).
      assert (Hct : closed g to) by (eapply closed_edge; eauto).
      destruct (HP (S d) to (to :: s) s) as (lsr & s1 & E1 & new1 & Hpost1 & Hin1 & Hfr1); auto.
      { intros x. simpl. tauto. }
      rewrite E1. cbn [obind fst snd].
      destruct Hpost1 as (A1 & A2 & A3 & A4 & A5 & A6).
      assert (Hss1 : incl s s1) by (intros x Hx; apply A3; right; exact Hx).
      destruct (IH s1 (acc ++ mkIL d v a to false :: lsr)) as (ls2 & s' & E2 & new2 & Hpost2 & Htg2 & Hfr2).
      { apply Hss1. exact Hvs. }
      { intros a' w' H. apply Hes. right. exact H. }
      { eapply Nat.le_trans; [apply unseen_le; exact Hss1 | exact Hm]. }
      destruct Hpost2 as (B1 & B2 & B3 & B4 & B5 & B6).
      exists (mkIL d v a to false :: lsr ++ ls2), s'. split.
      { rewrite E2. rewrite <- app_assoc. reflexivity. }
      exists (new1 ++ new2). split; [|split].
      * unfold visit_post. split; [|split; [|split; [|split; [|split]]]].
        -- apply nodup_app; auto. intros x H1 H2. apply (B2 x H2). apply A3. left. exact H1.
        -- intros x Hx. apply in_app_iff in Hx as [Hx|Hx]; [apply A2; exact Hx|].
           intros H. apply (B2 x Hx). apply Hss1. exact H.
        -- intros x. rewrite in_app_iff, B3, A3. tauto.
        -- intros x Hx. apply in_app_iff in Hx as [Hx|Hx]; [|apply B4; exact Hx].
           eapply reach_trans; [eapply reach_edge; [exact Hav | reflexivity] | apply A4; exact Hx].
        -- intros u a' w' Hu Hi. apply in_app_iff in Hu as [Hu|Hu].
           ++ apply B3. right. eapply A5; eauto.
           ++ eapply B5; eauto.
        -- cbn [map triple il_from il_label il_to fst snd app].
           apply perm_skip. rewrite map_app, flat_map_app.
           simpl in A6.
           eapply perm_trans; [apply Permutation_app; [exact A6 | exact B6]|].
           apply Permutation_app_swap_app.
      * intros a' w' [H|H].
        -- inversion H; subst. apply B3. right. apply A3. left. exact Hin1.
        -- eapply Htg2; eauto.
      * change (mkIL d v a to false :: lsr ++ ls2) with ([mkIL d v a to false] ++ lsr ++ ls2).
        rewrite !fresh_targets_app.
        change (fresh_targets [mkIL d v a to false]) with [to].
        rewrite app_assoc. apply Permutation_app; [exact Hfr1 | exact Hfr2].
Qed.

Lemma visit_ok_all g : forall fuel, visit_ok g fuel.
Proof.
  induction fuel as [|f IHf]; intros d v seen base Hc Hvb Hsame Hm.
  - exfalso.
    assert (H : unseen (cap_of g) (v :: base) < unseen (cap_of g) base).
    { apply unseen_lt with (y := v); auto.
      - intros x Hx; right; exact Hx.
      - apply Hc.
      - left; reflexivity. }
    lia.
  - rewrite inspect_v_S. rewrite chk_v_ok by apply Hc. cbn [obind].
    assert (Hlt : unseen (cap_of g) (v :: seen) <= f).
    { assert (H1 : unseen (cap_of g) (v :: seen) <= unseen (cap_of g) (v :: base)).
      { apply unseen_le. intros x Hx. apply Hsame. exact Hx. }
      assert (H2 : unseen (cap_of g) (v :: base) < unseen (cap_of g) base).
      { apply unseen_lt with (y := v); auto.
        - intros x Hx; right; exact Hx.
        - apply Hc.
        - left; reflexivity. }
      lia. }
    destruct (igo_spec g f d v IHf Hc (sort_edges (edg g v)) (v :: seen) [])
      as (ls & s' & E & new0 & Hpost & Htg & Hfr).
    { left; reflexivity. }
    { intros a w H. eapply Permutation_in; [apply sort_edges_perm | exact H]. }
    { exact Hlt. }
    exists ls, s'. split; [exact E|].
    destruct Hpost as (N1 & N2 & N3 & N4 & N5 & N6).
    exists (v :: new0). split; [|split].
    + unfold visit_post. split; [|split; [|split; [|split; [|split]]]].
      * constructor; auto. intros H. apply (N2 v H). left; reflexivity.
      * intros x [<-|Hx]; auto. intros Hb. apply (N2 x Hx). apply Hsame. right. exact Hb.
      * intros x. rewrite N3. specialize (Hsame x). simpl in *. tauto.
      * intros x [<-|Hx]; [apply reach_refl | apply N4; exact Hx].
      * intros u a w [<-|Hu] Hi.
        -- apply (Htg a w). eapply Permutation_in; [apply Permutation_sym, sort_edges_perm | exact Hi].
        -- eapply N5; eauto.
      * cbn [app flat_map]. eapply perm_trans; [exact N6|].
        apply Permutation_app_tail. unfold out_edges. apply Permutation_map. apply sort_edges_perm.
    + left; reflexivity.
    + apply perm_skip. exact Hfr.
Qed.

(** ** [inspect] *)

Lemma inspect_doc_spec g v :
  closed g v ->
  exists ls rs,
    inspect_doc g v = Ok ls
    /\ NoDup rs
    /\ (forall u, In u rs <-> reach ptrue g v u)
    /\ Permutation (map triple ls) (flat_map (out_edges g) rs)
    /\ Permutation (v :: fresh_targets ls) rs.
Proof.
  intros Hc.
  destruct (visit_ok_all g (cap_of g + 1) 0 v [] []) as (ls & s' & E & new & Hpost & Hin & Hfr); auto.
  { intros x; tauto. }
  { rewrite unseen_nil. lia. }
  destruct Hpost as (N1 & N2 & N3 & N4 & N5 & N6).
  exists ls, new. unfold inspect_doc. rewrite E. cbn [obind fst].
  split; [reflexivity|]. split; [exact N1|]. split; [|split; [exact N6 | exact Hfr]].
  intros u. split; [apply N4|].
  apply (reach_in_closed_set ptrue g v (fun u => In u new)); auto.
  intros x a w Hx Hi _. specialize (N5 x a w Hx Hi). apply N3 in N5. destruct N5 as [H|[]]. exact H.
Qed.

(** *** the fuel is enough on every graph

    Without closedness a call may hit the boundary assertion, but it never
    runs out of fuel: the one extra unit of [cap + 1] pays for the call on an
    out-of-range id, which panics at once. *)
Definition visit_total (g : sodg) (fuel : nat) : Prop :=
  forall d v seen base,
    ~ In v base ->
    (forall x, In x (v :: seen) <-> In x (v :: base)) ->
    unseen (cap_of g) base + 1 <= fuel ->
    (exists ls s', inspect_v fuel g d v seen = Ok (ls, s') /\ incl (v :: seen) s')
    \/ inspect_v fuel g d v seen = Panic PBoundary.

Lemma igo_total g f d v :
  visit_total g f ->
  forall es s acc,
    unseen (cap_of g) s + 1 <= f ->
    (exists ls s', igo (inspect_v f g) d v es s acc = Ok (ls, s') /\ incl s s')
    \/ igo (inspect_v f g) d v es s acc = Panic PBoundary.
Proof.
  intros HP es. induction es as [|[a to] rest IH]; intros s acc Hm.
  - left. exists acc, s. split; [reflexivity | intros x Hx; exact Hx].
  - cbn [igo]. destruct (mem to s) eqn:M.
    + apply IH. exact Hm.
    + apply mem_false in M.
      destruct (HP (S d) to (to :: s) s) as [(lsr & s1 & E1 & I1)|E1]; auto.
      { intros x. simpl. tauto. }
      * rewrite E1. cbn [obind fst snd].
        assert (Hss1 : incl s s1) by (intros x Hx; apply I1; right; right; exact Hx).
        destruct (IH s1 (acc ++ [mkIL d v a to false] ++ lsr)) as [(ls & s' & E2 & I2)|E2].
        { assert (H := unseen_le (cap_of g) s s1 Hss1). lia. }
        -- left. exists ls, s'. split; [exact E2|]. intros x Hx. apply I2. apply Hss1. exact Hx.
        -- right. exact E2.
      * right. rewrite E1. reflexivity.
Qed.

Lemma visit_total_all g : forall fuel, visit_total g fuel.
Proof.
  induction fuel as [|f IHf]; intros d v seen base Hvb Hsame Hm; [lia|].
  rewrite inspect_v_S. destruct (Nat.ltb_spec v (cap_of g)) as [Hv|Hv].
  - rewrite chk_v_ok by exact Hv. cbn [obind].
    assert (Hlt : unseen (cap_of g) (v :: seen) + 1 <= f).
    { assert (H1 : unseen (cap_of g) (v :: seen) <= unseen (cap_of g) (v :: base)).
      { apply unseen_le. intros x Hx. apply Hsame. exact Hx. }
      assert (H2 : unseen (cap_of g) (v :: base) < unseen (cap_of g) base).
      { apply unseen_lt with (y := v); auto.
        - intros x Hx; right; exact Hx.
        - left; reflexivity. }
      lia. }
    destruct (igo_total g f d v IHf (sort_edges (edg g v)) (v :: seen) [] Hlt)
      as [(ls & s' & E & I)|E].
    + left. exists ls, s'. split; assumption.
    + right. exact E.
  - right. rewrite chk_v_panic by exact Hv. reflexivity.
Qed.

Lemma inspect_total g v :
  (exists ls, inspect_doc g v = Ok ls) \/ inspect_doc g v = Panic PBoundary.
Proof.
  unfold inspect_doc.
  destruct (visit_total_all g (cap_of g + 1) 0 v [] []) as [(ls & s' & E & _)|E]; auto.
  - intros x; tauto.
  - rewrite unseen_nil. lia.
  - left. exists ls. rewrite E. reflexivity.
  - right. rewrite E. reflexivity.
Qed.

Lemma reach_list_unique g v rs1 rs2 :
  NoDup rs1 -> (forall u, In u rs1 <-> reach ptrue g v u) ->
  NoDup rs2 -> (forall u, In u rs2 <-> reach ptrue g v u) ->
  Permutation rs1 rs2.
Proof.
  intros N1 H1 N2 H2. apply NoDup_Permutation; auto. intros x. rewrite H1, H2. tauto.
Qed.

Lemma inspect_terminates g v : closed g v -> exists ls, inspect_doc g v = Ok ls.
Proof. intros Hc. destruct (inspect_doc_spec g v Hc) as (ls & rs & E & _). exists ls. exact E. Qed.

Lemma inspect_exactly_once g v ls :
  closed g v -> inspect_doc g v = Ok ls ->
  (exists rs, NoDup rs /\ forall u, In u rs <-> reach ptrue g v u)
  /\ forall rs, NoDup rs -> (forall u, In u rs <-> reach ptrue g v u) ->
       Permutation (map triple ls) (flat_map (out_edges g) rs).
Proof.
  intros Hc E. destruct (inspect_doc_spec g v Hc) as (ls' & rs' & E' & N & Hr & P & _).
  rewrite E in E'. inversion E'; subst ls'. split.
  - exists rs'. split; assumption.
  - intros rs N2 Hr2. eapply perm_trans; [exact P|].
    apply Permutation_flat_map. eapply reach_list_unique; eauto.
Qed.

Lemma inspect_skip_flag g v ls :
  closed g v -> inspect_doc g v = Ok ls ->
  forall rs, NoDup rs -> (forall u, In u rs <-> reach ptrue g v u) ->
    Permutation (v :: fresh_targets ls) rs.
Proof.
  intros Hc E rs N2 Hr2. destruct (inspect_doc_spec g v Hc) as (ls' & rs' & E' & N & Hr & _ & P).
  rewrite E in E'. inversion E'; subst ls'.
  eapply perm_trans; [exact P|]. eapply reach_list_unique; eauto.
Qed.

(** ** [Debug] / [Display] and [v_print] *)

Lemma in_op_keys g v : In v (op_keys g) <-> v < cap_of g /\ tag g v <> 0.
Proof.
  unfold op_keys, iota. rewrite filter_In, in_seq, negb_true_iff, Nat.eqb_neq. split; intros [H1 H2]; split; auto; lia.
Qed.

Lemma debug_doc_vertices g :
  map dv_id (dd_vertices (debug_doc g)) = op_keys g
  /\ forall d, In d (dd_vertices (debug_doc g)) ->
       dv_edges d = edg g (dv_id d)
       /\ dv_data d = if has_data g (dv_id d) then Some (dat g (dv_id d)) else None.
Proof.
  unfold debug_doc. cbn [dd_vertices]. split.
  - rewrite map_map. cbn [dv_id]. apply map_id.
  - intros d Hd. apply in_map_iff in Hd as (x & <- & _). cbn [dv_id dv_edges dv_data]. split; reflexivity.
Qed.

Lemma vprint_doc_ok g v : v < cap_of g -> vprint_doc g v = Ok (has_data g v, map fst (edg g v)).
Proof. intros H. unfold vprint_doc. rewrite chk_v_ok by exact H. reflexivity. Qed.

Lemma op_keys_nodup g : NoDup (op_keys g).
Proof. unfold op_keys, iota. apply NoDup_filter. apply seq_NoDup. Qed.

Lemma has_data_spec g v : has_data g v = true <-> prs g v <> PEmpty.
Proof.
  unfold has_data. destruct (prs g v); simpl; split; intros H; try discriminate; try congruence; auto.
Qed.
