(** * Bridge: the model the driver runs is the model the theorems are about

    The correspondence check runs every graph handle through the extended
    operations [x_*] of XJoin.v (state = the state of the proved model plus the
    list of vacant slots that [Sodg::join()] leaves behind).  The property
    theorems (P_C01 .. P_C20) are about the operations [op_*].  This file pins
    the link: on a state without vacant slots every extended operation IS the
    proved one ([xlift hs o]: the outcome [o] with the hole list [hs] attached),
    for merge whenever the proved model answers at all (it answers
    [Unmodelled] exactly where the code would call [join()]); holes only ever
    appear through [x_join] ([Bridge_join_holes], [Bridge_slice_no_holes]), i.e.
    through a merge of a right operand that is not a tree, which no property
    quantifies over.  Proofs: XJoinFacts.v.  Audited at every check of every
    property, like the property's own file. *)

From Sodg Require Import XJoinFacts.

Theorem Bridge_empty :
  forall cap, x_empty cap = mkX (op_empty cap) [].
Proof. exact x_empty_nohole. Qed.

Check Bridge_empty :
  forall cap, x_empty cap = mkX (op_empty cap) [].
Print Assumptions Bridge_empty.

Theorem Bridge_add :
  forall g v, x_add (mkX g []) v = xlift [] (op_add g v).
Proof. exact x_add_nohole. Qed.

Check Bridge_add :
  forall g v, x_add (mkX g []) v = xlift [] (op_add g v).
Print Assumptions Bridge_add.

Theorem Bridge_bind :
  forall n g v1 v2 a, x_bind n (mkX g []) v1 v2 a = xlift [] (op_bind n g v1 v2 a).
Proof. exact x_bind_nohole. Qed.

Check Bridge_bind :
  forall n g v1 v2 a, x_bind n (mkX g []) v1 v2 a = xlift [] (op_bind n g v1 v2 a).
Print Assumptions Bridge_bind.

Theorem Bridge_put :
  forall g v d, x_put (mkX g []) v d = xlift [] (op_put g v d).
Proof. exact x_put_nohole. Qed.

Check Bridge_put :
  forall g v d, x_put (mkX g []) v d = xlift [] (op_put g v d).
Print Assumptions Bridge_put.

Theorem Bridge_data :
  forall g v, x_data (mkX g []) v = xlift2 [] (op_data g v).
Proof. exact x_data_nohole. Qed.

Check Bridge_data :
  forall g v, x_data (mkX g []) v = xlift2 [] (op_data g v).
Print Assumptions Bridge_data.

Theorem Bridge_kids :
  forall g v, x_kids (mkX g []) v = op_kids g v.
Proof. exact x_kids_nohole. Qed.

Check Bridge_kids :
  forall g v, x_kids (mkX g []) v = op_kids g v.
Print Assumptions Bridge_kids.

Theorem Bridge_kid :
  forall g v a, x_kid (mkX g []) v a = op_kid g v a.
Proof. exact x_kid_nohole. Qed.

Check Bridge_kid :
  forall g v a, x_kid (mkX g []) v a = op_kid g v a.
Print Assumptions Bridge_kid.

Theorem Bridge_keys :
  forall g, x_keys (mkX g []) = op_keys g.
Proof. exact x_keys_nohole. Qed.

Check Bridge_keys :
  forall g, x_keys (mkX g []) = op_keys g.
Print Assumptions Bridge_keys.

Theorem Bridge_len :
  forall g, x_len (mkX g []) = op_len g.
Proof. exact x_len_nohole. Qed.

Check Bridge_len :
  forall g, x_len (mkX g []) = op_len g.
Print Assumptions Bridge_len.

Theorem Bridge_next_id :
  forall g, x_next_id (mkX g []) = xlift2 [] (op_next_id g).
Proof. exact x_next_id_nohole. Qed.

Check Bridge_next_id :
  forall g, x_next_id (mkX g []) = xlift2 [] (op_next_id g).
Print Assumptions Bridge_next_id.

Theorem Bridge_clone :
  forall g, x_clone (mkX g []) = mkX (op_clone g) [].
Proof. exact x_clone_nohole. Qed.

Check Bridge_clone :
  forall g, x_clone (mkX g []) = mkX (op_clone g) [].
Print Assumptions Bridge_clone.

Theorem Bridge_slice_some :
  forall n order g v p, x_slice_some n order (mkX g []) v p = xlift [] (op_slice_some n order g v p).
Proof. exact x_slice_some_nohole. Qed.

Check Bridge_slice_some :
  forall n order g v p, x_slice_some n order (mkX g []) v p = xlift [] (op_slice_some n order g v p).
Print Assumptions Bridge_slice_some.

Theorem Bridge_slice :
  forall n order g v, x_slice n order (mkX g []) v = xlift [] (op_slice n order g v).
Proof. exact x_slice_nohole. Qed.

Check Bridge_slice :
  forall n order g v, x_slice n order (mkX g []) v = xlift [] (op_slice n order g v).
Print Assumptions Bridge_slice.

Theorem Bridge_slice_no_holes :
  forall n order x v p x', x_slice_some n order x v p = Ok x' -> xh x' = [].
Proof. exact x_slice_some_no_holes. Qed.

Check Bridge_slice_no_holes :
  forall n order x v p x', x_slice_some n order x v p = Ok x' -> xh x' = [].
Print Assumptions Bridge_slice_no_holes.

Theorem Bridge_debug :
  forall g, x_debug (mkX g []) = op_debug g.
Proof. exact x_debug_nohole. Qed.

Check Bridge_debug :
  forall g, x_debug (mkX g []) = op_debug g.
Print Assumptions Bridge_debug.

Theorem Bridge_to_xml :
  forall g, x_to_xml (mkX g []) = op_to_xml g.
Proof. exact x_to_xml_nohole. Qed.

Check Bridge_to_xml :
  forall g, x_to_xml (mkX g []) = op_to_xml g.
Print Assumptions Bridge_to_xml.

Theorem Bridge_to_dot :
  forall g, x_to_dot (mkX g []) = op_to_dot g.
Proof. exact x_to_dot_nohole. Qed.

Check Bridge_to_dot :
  forall g, x_to_dot (mkX g []) = op_to_dot g.
Print Assumptions Bridge_to_dot.

Theorem Bridge_vprint :
  forall g v, x_vprint (mkX g []) v = (t <- op_vprint g v ;; Ok (Some t)).
Proof. exact x_vprint_nohole. Qed.

Check Bridge_vprint :
  forall g v, x_vprint (mkX g []) v = (t <- op_vprint g v ;; Ok (Some t)).
Print Assumptions Bridge_vprint.

Theorem Bridge_inspect :
  forall g v, x_inspect (mkX g []) v = (t <- op_inspect g v ;; Ok (Some t)).
Proof. exact x_inspect_nohole. Qed.

Check Bridge_inspect :
  forall g v, x_inspect (mkX g []) v = (t <- op_inspect g v ;; Ok (Some t)).
Print Assumptions Bridge_inspect.

Theorem Bridge_encode :
  forall g, x_encode (mkX g []) = encode g.
Proof. exact x_encode_nohole. Qed.

Check Bridge_encode :
  forall g, x_encode (mkX g []) = encode g.
Print Assumptions Bridge_encode.

Theorem Bridge_deploy :
  forall n g script, x_deploy n (mkX g []) script = xlift2 [] (op_deploy n g script).
Proof. exact x_deploy_nohole. Qed.

Check Bridge_deploy :
  forall n g script, x_deploy n (mkX g []) script = xlift2 [] (op_deploy n g script).
Print Assumptions Bridge_deploy.

Theorem Bridge_merge_ok :
  forall n s h left right s' v,
  op_merge n s h left right = Ok (s', v) ->
  x_merge n (mkX s []) (mkX h []) left right = Ok (mkX s' [], v).
Proof. exact x_merge_nohole. Qed.

Check Bridge_merge_ok :
  forall n s h left right s' v,
  op_merge n s h left right = Ok (s', v) ->
  x_merge n (mkX s []) (mkX h []) left right = Ok (mkX s' [], v).
Print Assumptions Bridge_merge_ok.

Theorem Bridge_merge_panic :
  forall n s h left right k,
  op_merge n s h left right = Panic k ->
  x_merge n (mkX s []) (mkX h []) left right = Panic k.
Proof. exact x_merge_nohole_panic. Qed.

Check Bridge_merge_panic :
  forall n s h left right k,
  op_merge n s h left right = Panic k ->
  x_merge n (mkX s []) (mkX h []) left right = Panic k.
Print Assumptions Bridge_merge_panic.

Theorem Bridge_merge_total :
  forall n s h left right,
  op_merge n s h left right <> Unmodelled ->
  x_merge n (mkX s []) (mkX h []) left right = xlift2 [] (op_merge n s h left right).
Proof. exact x_merge_nohole_total. Qed.

Check Bridge_merge_total :
  forall n s h left right,
  op_merge n s h left right <> Unmodelled ->
  x_merge n (mkX s []) (mkX h []) left right = xlift2 [] (op_merge n s h left right).
Print Assumptions Bridge_merge_total.

Theorem Bridge_def_xwf :
  forall x, xwf x <->
  (forall v, mem v (xh x) = true -> v < cap_of (xg x) /\ vtx (xg x) v = blank).
Proof. exact (fun x => conj (fun H => H) (fun H => H)). Qed.

Check Bridge_def_xwf :
  forall x, xwf x <->
  (forall v, mem v (xh x) = true -> v < cap_of (xg x) /\ vtx (xg x) v = blank).
Print Assumptions Bridge_def_xwf.

Theorem Bridge_xwf_nohole :
  forall g, xwf (mkX g []).
Proof. exact xwf_nohole. Qed.

Check Bridge_xwf_nohole :
  forall g, xwf (mkX g []).
Print Assumptions Bridge_xwf_nohole.

Theorem Bridge_hole_not_key :
  forall x v, xwf x -> mem v (xh x) = true -> ~ In v (x_keys x).
Proof. exact xwf_hole_not_key. Qed.

Check Bridge_hole_not_key :
  forall x v, xwf x -> mem v (xh x) = true -> ~ In v (x_keys x).
Print Assumptions Bridge_hole_not_key.

Theorem Bridge_merge_wf :
  forall n s g left right s' r, xwf s -> x_merge n s g left right = Ok (s', r) -> xwf s'.
Proof. exact x_merge_wf. Qed.

Check Bridge_merge_wf :
  forall n s g left right s' r, xwf s -> x_merge n s g left right = Ok (s', r) -> xwf s'.
Print Assumptions Bridge_merge_wf.

Theorem Bridge_join_holes :
  forall n x left right x',
  x_join n x left right = Ok x' -> xpres x x' /\ xh x' = right :: xh x.
Proof. exact x_join_pres. Qed.

Check Bridge_join_holes :
  forall n x left right x',
  x_join n x left right = Ok x' -> xpres x x' /\ xh x' = right :: xh x.
Print Assumptions Bridge_join_holes.

