(** * Wf: the value-level well-formedness that Rust gets from its types
    (labels hold scalar values, inline arrays have 8 bytes, ...) and that the
    model has to carry explicitly, as an invariant of every state reached
    through the interface with well-typed arguments; and its consequence: every
    such state satisfies the hypothesis [wf_image_state] of the save/load
    theorems C08/C09. *)

From Sodg Require Export HistoryThms Serial SerialFacts.

Definition hex_small (h : hex) : Prop :=
  match h with HVector l => (N.of_nat (length l) < two64)%N | HBytes _ _ => True end.

Record Wf (g : sodg) : Prop := {
  w_s0 : store g 0 = 0;
  w_s1 : store g 1 = 0;
  w_dat : forall v, wf_hex (dat g v) = true /\ hex_small (dat g v);
  w_edg : forall v a t, In (a, t) (edg g v) -> wf_label a = true /\ t < cap_of g
}.

(** well-typed call arguments: what the Rust types [Label], [Hex] guarantee *)
Definition wf_op (o : op) : Prop :=
  match o with
  | OBind _ _ a => wf_label a = true
  | OPut _ d => wf_hex d = true /\ hex_small d
  | _ => True
  end.

Lemma dat_empty cap v : dat (op_empty cap) v = hex_empty.
Proof.
  unfold dat, vtx, op_empty; cbn [g_vertices]. rewrite nth_repeat_any. destruct (v <? cap); reflexivity.
Qed.

Lemma wf_empty cap : Wf (op_empty cap).
Proof.
  split.
  - apply store_empty.
  - apply store_empty.
  - intros v. rewrite dat_empty. split; [reflexivity|exact I].
  - intros v a t. rewrite edg_empty. intros [].
Qed.

Lemma wf_transfer g g' :
  Wf g -> cap_of g' = cap_of g -> store g' 0 = store g 0 -> store g' 1 = store g 1 ->
  (forall v, dat g' v = dat g v \/ (wf_hex (dat g' v) = true /\ hex_small (dat g' v))) ->
  (forall v a t, In (a, t) (edg g' v) -> In (a, t) (edg g v) \/ (wf_label a = true /\ t < cap_of g)) ->
  Wf g'.
Proof.
  intros [A B C D] Hc H0 H1 Hd He. split.
  - congruence.
  - congruence.
  - intros v. destruct (Hd v) as [E|E]; [rewrite E; apply C|exact E].
  - intros v a t Hin. rewrite Hc. destruct (He v a t Hin) as [E|E]; [apply (D v a t E)|exact E].
Qed.

Lemma in_spec_insert e a v x t :
  In (x, t) (spec_insert e a v) -> (x = a /\ t = v) \/ In (x, t) e.
Proof.
  unfold spec_insert. destruct (mm_replace e a v) as [e'|] eqn:Rp.
  - revert e' Rp. induction e as [|[k w] r IH]; intros e' Rp; cbn [mm_replace] in Rp; [discriminate|].
    destruct (label_eqb k a) eqn:Eka.
    + injection Rp as <-. apply label_eqb_spec in Eka. subst k.
      intros [H|H]; [left; injection H as <- <-; auto|right; right; exact H].
    + destruct (mm_replace r a v) as [r'|] eqn:Rr; [|discriminate]. injection Rp as <-.
      intros [H|H]; [right; left; exact H|].
      destruct (IH r' eq_refl H) as [Q|Q]; [left; exact Q|right; right; exact Q].
  - intros H. apply in_app_or in H as [H|[H|[]]]; [right; exact H|left; injection H as <- <-; auto].
Qed.

(** every call within its concrete precondition and with well-typed
    arguments keeps [Wf] *)
Lemma wf_step n g o :
  Inv n g -> Wf g -> cpre n g o -> wf_op o ->
  forall g' r, step n g o = Ok (g', r) -> Wf g'.
Proof.
  intros HI HW Hp Ho g' r Hs.
  destruct o as [v|v1 v2 a|v d|v| |v a|v|]; cbn [step] in Hs.
  - (* add *)
    destruct (add_effect g v Hp) as (g1 & A & T & P & D & E & M & S & X).
    rewrite A in Hs. cbn [obind] in Hs. injection Hs as <- <-.
    apply (wf_transfer g g1 HW); try apply X; auto.
    + intros w. rewrite D. destruct ((w =? v) && (tag g v =? 0)); [right; split; [reflexivity|exact I]|left; reflexivity].
    + intros w a t. rewrite E. destruct ((w =? v) && (tag g v =? 0)); [intros []|left; assumption].
  - (* bind *)
    destruct Hp as (T1 & T2 & Hne & Hr & Huu & Hug & Hgu).
    pose proof (tag_nonzero_lt g v1 T1) as L1. pose proof (tag_nonzero_lt g v2 T2) as L2.
    pose proof (i_nb HI) as Hnb. pose proof (i_ns HI) as Hns.
    assert (Fin : forall g1, op_bind n g v1 v2 a = Ok g1 ->
              same_except_vertices g g1 -> (forall w, dat g1 w = dat g w) ->
              (forall w, edg g1 w = if w =? v1 then spec_insert (edg g v1) a v2 else edg g w) ->
              store g1 0 = store g 0 -> store g1 1 = store g 1 -> Wf g').
    { intros g1 A X D E S0 S1. rewrite A in Hs. cbn [obind] in Hs. injection Hs as <- <-.
      apply (wf_transfer g g1 HW); try apply X; auto.
      intros w x t. rewrite E. destruct (w =? v1) eqn:Ew; [|left; assumption].
      apply Nat.eqb_eq in Ew. subst w. intros Hin.
      destruct (in_spec_insert _ _ _ _ _ Hin) as [[-> ->]|Q]; [right; split; [exact Ho|exact L2]|left; exact Q]. }
    destruct (Nat.eq_dec (tag g v1) 1) as [E1|N1]; destruct (Nat.eq_dec (tag g v2) 1) as [E2|N2].
    + destruct (Huu E1 E2) as (b & Hf). destruct (first_empty_group n g b HI Hf) as (Hb1 & Hb2 & Hmb).
      destruct (bind_uu n g v1 v2 a b L1 L2 Hnb Hns E1 E2 Hr Hf) as (g1 & A & T & P & D & E & M & S & X).
      apply (Fin g1 A X D E); rewrite S; [destruct (Nat.eqb_spec 0 b); [lia|reflexivity]|destruct (Nat.eqb_spec 1 b); [lia|reflexivity]].
    + pose proof (i_tag HI v2) as Lt.
      destruct (bind_ug n g v1 v2 a L1 L2 Hnb Hns E1 N2 Lt Hr (Hug E1 N2)) as (g1 & A & T & P & D & E & M & S & X).
      apply (Fin g1 A X D E); rewrite S;
        [destruct (Nat.eqb_spec 0 (tag g v2)); [lia|reflexivity]|destruct (Nat.eqb_spec 1 (tag g v2)); [lia|reflexivity]].
    + pose proof (i_tag HI v1) as Lt.
      destruct (bind_gu n g v1 v2 a L1 L2 Hnb Hns N1 E2 Lt Hr (Hgu N1 E2)) as (g1 & A & T & P & D & E & M & S & X).
      apply (Fin g1 A X D E); rewrite S;
        [destruct (Nat.eqb_spec 0 (tag g v1)); [lia|reflexivity]|destruct (Nat.eqb_spec 1 (tag g v1)); [lia|reflexivity]].
    + destruct (bind_gg n g v1 v2 a L1 L2 N1 N2 Hr) as (g1 & A & T & P & D & E & M & S & X).
      apply (Fin g1 A X D E); apply S.
  - (* put *)
    assert (Tv : tag g v <> 0) by exact Hp.
    pose proof (tag_nonzero_lt g v Hp) as Lv. pose proof (i_tag HI v) as Lt.
    destruct (put_effect g v d Lv) as (g1 & A & T & P & D & E & M & S & X).
    { rewrite (i_nb HI); exact Lt. } { rewrite (i_ns HI); exact Lt. }
    rewrite A in Hs. cbn [obind] in Hs. injection Hs as <- <-.
    apply (wf_transfer g g1 HW); try apply X.
    + rewrite S. destruct (Nat.eqb_spec 0 (tag g v)); [lia|reflexivity].
    + rewrite S. destruct (Nat.eqb_spec 1 (tag g v)) as [Q|Q]; [|reflexivity].
      rewrite <- Q. rewrite Nat.eqb_refl. cbn [negb]. rewrite andb_false_r. reflexivity.
    + intros w. rewrite D. destruct (w =? v); [right; exact Ho|left; reflexivity].
    + intros w x t. rewrite E. left; assumption.
  - (* data *)
    assert (Tv : tag g v <> 0) by exact Hp.
    pose proof (tag_nonzero_lt g v Hp) as Lv. pose proof (i_tag HI v) as Lt.
    destruct (prs g v) eqn:Pv.
    + rewrite (data_empty g v Lv Pv) in Hs. cbn [obind fst snd] in Hs. injection Hs as <- <-. exact HW.
    + destruct (Nat.eq_dec (tag g v) 1) as [E1|N1].
      * rewrite (data_stored_static g v Lv Pv E1) in Hs. cbn [obind fst snd] in Hs. injection Hs as <- <-.
        apply (wf_transfer g _ HW); sodg_rw; auto; intros; sodg_rw; auto.
      * assert (Ht : 2 <= tag g v) by lia.
        pose proof (store_pos n g v HI Ht Pv) as Hpos.
        assert (Hnb : tag g v < nb g) by (rewrite (i_nb HI); exact Lt).
        assert (Hns : tag g v < ns g) by (rewrite (i_ns HI); exact Lt).
        destruct (Nat.eq_dec (store g (tag g v)) 1) as [S1|S2].
        -- destruct (data_stored_last g v Lv Pv N1 Hnb Hns S1) as (g1 & A & T & P & D & E & M & S & X).
           { intros m Hm. apply (i_mem HI) in Hm; auto. apply tag_nonzero_lt. lia. }
           rewrite A in Hs. cbn [obind fst snd] in Hs. injection Hs as <- <-.
           apply (wf_transfer g g1 HW); try apply X.
           ++ rewrite S. destruct (Nat.eqb_spec 0 (tag g v)); [lia|reflexivity].
           ++ rewrite S. destruct (Nat.eqb_spec 1 (tag g v)); [lia|reflexivity].
           ++ intros w. left. apply D.
           ++ intros w x t. rewrite E. left; assumption.
        -- rewrite (data_stored_keep g v Lv Pv N1 Hnb Hns) in Hs by lia.
           cbn [obind fst snd] in Hs. injection Hs as <- <-.
           apply (wf_transfer g _ HW); sodg_rw; auto.
           ++ destruct (Nat.eqb_spec (tag g v) 0); [lia|reflexivity].
           ++ destruct (Nat.eqb_spec (tag g v) 1); [lia|reflexivity].
           ++ intros; sodg_rw; auto.
           ++ intros w x t; sodg_rw; auto.
    + rewrite (data_taken g v Lv Pv) in Hs. cbn [obind fst snd] in Hs. injection Hs as <- <-. exact HW.
  - (* next *)
    destruct (next_id_effect g Hp) as (id & A & _). rewrite A in Hs. cbn [obind fst snd] in Hs.
    injection Hs as <- <-. destruct HW as [A0 A1 A2 A3]. split; auto.
  - destruct (op_kid g v a); cbn [obind] in Hs; try discriminate. injection Hs as <- <-. exact HW.
  - destruct (op_kids g v); cbn [obind] in Hs; try discriminate. injection Hs as <- <-. exact HW.
  - injection Hs as <- <-. exact HW.
Qed.

(** ** along a whole call sequence *)

Theorem wf_run n : forall os g s,
  Inv n g -> R g s -> Wf g -> within_limits n (cap_of g) s os -> Forall wf_op os ->
  exists g', run n g os = Ok (g', snd (srun s os))
             /\ Inv n g' /\ Wf g' /\ R g' (fst (srun s os)) /\ cap_of g' = cap_of g.
Proof.
  induction os as [|o t IH]; intros g s HI HR HW HL HO.
  - exists g. cbn. auto.
  - destruct HL as [Hp HL]. inversion HO as [|? ? Ho HO']; subst.
    destruct (sim_step n g s o HI HR Hp) as (g1 & A & I1 & R1).
    pose proof (wf_step n g o HI HW (pre_cpre n g s o HI HR Hp) Ho g1 _ A) as W1.
    pose proof (step_shape n g o g1 _ A) as (C1 & _). rewrite <- C1 in HL.
    destruct (IH g1 _ I1 R1 W1 HL HO') as (g2 & A2 & I2 & W2 & R2 & C2).
    exists g2. split; [|split; [exact I2|split; [exact W2|split; [|congruence]]]].
    + rewrite srun_cons. cbn [run fst snd]. rewrite A. cbn [obind fst snd]. rewrite A2. reflexivity.
    + rewrite srun_cons. exact R2.
Qed.

(** ** an invariant, well-formed state satisfies the hypothesis of C08/C09 *)

Lemma nstored_le g l : nstored g l <= length l.
Proof. unfold nstored. apply filter_length_le || (induction l as [|x t IH]; cbn [filter length]; [lia|destruct (is_stored g x); cbn [length]; lia]). Qed.

Theorem inv_wf_image n g lim :
  Inv n g -> Wf g ->
  (16 < lim)%N -> (N.of_nat (cap_of g) < lim)%N -> (lim <= two64)%N -> (N.of_nat n < two64)%N ->
  wf_image_state lim n g.
Proof.
  intros HI HW L16 Lcap Llim Ln. unfold wf_image_state, wf_num.
  pose proof (i_nb HI) as Hnb. pose proof (i_ns HI) as Hns. unfold nb, ns in *.
  split; [exact Llim|]. split; [exact Ln|].
  split; [rewrite Hns; lia|]. split; [rewrite Hnb; lia|]. split; [exact Lcap|].
  split; [|split].
  - apply Forall_forall. intros x Hx. destruct (In_nth _ _ 0 Hx) as (i & Hi & <-).
    fold (store g i). rewrite Hns in Hi.
    destruct i as [|[|i]]; [rewrite (w_s0 _ HW); lia|rewrite (w_s1 _ HW); lia|].
    rewrite (i_cnt HI (S (S i))) by lia.
    pose proof (nstored_le g (members g (S (S i)))). pose proof (i_len HI (S (S i))). lia.
  - apply Forall_forall. intros m Hm. destruct (In_nth _ _ [] Hm) as (i & Hi & <-).
    fold (members g i). rewrite Hnb in Hi. unfold wf_stack_img, wf_num.
    destruct i as [|[|i]].
    + rewrite (i_m0 HI). split; [cbn; lia|]. repeat constructor. lia.
    + rewrite (i_m1 HI). split; [cbn; lia|]. repeat constructor. lia.
    + split; [apply (i_len HI); lia|]. apply Forall_forall. intros v Hv.
      apply (i_mem HI (S (S i))) in Hv; [|lia|lia].
      assert (v < cap_of g) by (apply tag_nonzero_lt; lia). lia.
  - apply Forall_forall. intros x Hx. destruct (In_nth _ _ blank Hx) as (i & Hi & <-).
    fold (vtx g i). fold (cap_of g) in Hi. unfold wf_vertex_img, wf_num.
    change (v_branch (vtx g i)) with (tag g i). change (v_data (vtx g i)) with (dat g i).
    change (v_edges (vtx g i)) with (edg g i).
    pose proof (i_tag HI i). destruct (w_dat _ HW i) as [Hh Hs]. destruct (i_edges HI i) as [Hnd Hlen].
    split; [lia|]. split; [|split; [exact Hnd|split; [exact Hlen|]]].
    + unfold wf_hex_img. split; [exact Hh|]. destruct (dat g i) as [l|a k]; [exact Hs|].
      unfold wf_num. cbn [wf_hex] in Hh. apply andb_true_iff in Hh as [_ Hk]. apply Nat.leb_le in Hk. lia.
    + apply Forall_forall. intros [a t] He. destruct (w_edg _ HW i a t He) as [Hl Ht].
      split; [exact Hl|]. unfold wf_num. cbn [snd]. lia.
Qed.

(** every graph reached through the interface within the limits with
    well-typed arguments can be saved and loaded back (C08) and every strict
    prefix of its image is rejected (C09) *)
Theorem reachable_roundtrip n cap os lim :
  within_limits n cap sinit os -> Forall wf_op os ->
  (16 < lim)%N -> (N.of_nat cap < lim)%N -> (lim <= two64)%N -> (N.of_nat n < two64)%N ->
  exists g, run n (op_empty cap) os = Ok (g, snd (srun sinit os))
    /\ decode lim n (encode g) = LOk (mkG (g_stores g) (g_branches g) (g_vertices g) 0)
    /\ forall k, k < length (encode g) -> decode lim n (firstn k (encode g)) = LErr.
Proof.
  intros HL HO L16 Lcap Llim Ln. rewrite <- (cap_empty cap) in HL.
  destruct (wf_run n os (op_empty cap) sinit (inv_empty n cap) (R_init cap) (wf_empty cap) HL HO)
    as (g & A & I & W & _ & C).
  rewrite cap_empty in C. exists g. split; [exact A|].
  assert (WI : wf_image_state lim n g) by (apply inv_wf_image; auto; rewrite C; exact Lcap).
  split; [apply load_save; exact WI|]. intros k Hk. apply load_cut; assumption.
Qed.

(** ** consequences for the printers: every state reached through the
    interface is closed (all stored edge targets are below the capacity), so
    inspect() terminates on it from every start vertex; its labels are
    pairwise distinct, so the exports are canonical *)

From Sodg Require Import Reach PrintFacts Export ExportFacts.

Lemma wf_closed g v : Wf g -> v < cap_of g -> closed g v.
Proof.
  intros HW Hv. split; [exact Hv|]. intros u a w _ Hin. apply (w_edg _ HW u a w Hin).
Qed.

Theorem reachable_inspect_terminates n cap os v :
  within_limits n cap sinit os -> Forall wf_op os -> v < cap ->
  exists g ls, Spec.run n (op_empty cap) os = Ok (g, snd (srun sinit os)) /\ inspect_doc g v = Ok ls.
Proof.
  intros HL HO Hv. rewrite <- (cap_empty cap) in HL.
  destruct (wf_run n os (op_empty cap) sinit (inv_empty n cap) (R_init cap) (wf_empty cap) HL HO)
    as (g & A & I & W & _ & C).
  rewrite cap_empty in C.
  destruct (inspect_total g v) as [[ls E]|E].
  - exists g, ls. auto.
  - exfalso. assert (Hc : closed g v) by (apply wf_closed; [exact W|rewrite C; exact Hv]).
    destruct (inspect_doc_spec g v Hc) as (ls & rs & E' & _). rewrite E in E'. discriminate.
Qed.

Theorem invariant_export_canonical n g1 g2 :
  Inv n g1 -> same_content g1 g2 -> op_to_xml g1 = op_to_xml g2 /\ op_to_dot g1 = op_to_dot g2.
Proof.
  intros HI HS. apply export_canonical; [|exact HS]. intros v _. apply (i_edges HI v).
Qed.
