(** * XMergeFacts: the facts of MergeFacts.v about [merge_rec] / [op_merge]
    redone for the extended functions [x_merge_rec] / [x_merge] of XJoin.v,
    for ARBITRARY operands: the left graph and the right graph may have holes,
    and [join()] may be called any number of times.

    The right graph is [g : xs] throughout ([xg g] its store, [xh g] its
    holes); it is an immutable value.  The left graph is [x]/[s : xs].

    1. DFS / key counting.  [x_merge_rec] is a depth-first search of [xg g]
       whose visited set is the key set of the mapping.  Joins act on the left
       graph only; the mapping is threaded through [x_check_joins] untouched
       (it is not even returned by it).  No hypothesis on either graph:
       - [x_merge_rec_dfs]       the invariant ([dfs_post] of MergeFacts.v, on
                                 [xg g], plus: no key added is a hole of [g]);
       - [x_merge_rec_keys_gen]  keys after = keys before + what is reachable
                                 from [right] avoiding the keys before;
       - [x_merge_rec_keys]      top-level call: keys = reachable from [right];
       - [x_merge_rec_keys_nodup], [x_merge_rec_keys_lt],
         [x_merge_rec_keys_nohole];
       - [x_merge_rec_ok_walkable]  a call that returns has met no hole and no
                                 id beyond the capacity: "no reachable vertex
                                 is a hole" is a CONSEQUENCE of the answer
                                 [Ok], not a hypothesis.
    2. Fuel, unconditionally (no [xwf] needed):
       - [x_merge_rec_fuel], [x_merge_mapped_fuel], [x_merge_fuel]:
         [forall n s g left right, x_merge n s g left right <> OutOfFuel].
    3. Verdict.  [x_merge_mapped] returns the table; [x_merge_projection]:
       [x_merge] is [x_merge_mapped] followed by [verdict (xg g)].
       Hypothesis, the same as for the old model: [hclosed (xg g) right], which
       is equivalent to "every vertex reachable from [right] is present"
       ([hclosed_iff_present]).  Nothing is asked about holes, nor about the
       left graph.  The hypothesis cannot be dropped ([ex_present_needed]).
       - [x_merge_ok_complete], [x_merge_ok_complete_keys], [x_merge_ok_mapped],
         [x_merge_err_names_missed], [x_merge_all_reached_ok];
       - [x_merge_mapped_keys]: part 1 restated for [x_merge_mapped].

    Nothing here is partial. *)

From Sodg Require Export XJoinFacts.

(** ** small inversions *)

Lemma x_kids_ok g v es :
  x_kids g v = Ok es -> es = edg (xg g) v /\ mem v (xh g) = false /\ v < cap_of (xg g).
Proof.
  unfold x_kids, xa_kids, op_kids. intros H.
  apply obind_ok in H as (u1 & Hh & H). apply chk_h_ok in Hh.
  apply obind_ok in H as (u2 & Hc & H). apply chk_v_ok_inv in Hc.
  injection H as <-. auto.
Qed.

(** ** 1. the depth-first search invariant *)

(** what a returning call has done to the mapping: [dfs_post] of MergeFacts.v
    on the store of the right graph, and none of the keys added is a hole *)
Definition x_dfs_ok (n : nat) (g : xs) (f : nat) : Prop :=
  forall x left right m x' m',
    x_merge_rec f n g x left right m = Ok (x', m') ->
    exists ext, dfs_post (xg g) right m m' ext
                /\ (forall u, In u (keys ext) -> mem u (xh g) = false).

Lemma x_mgo_dfs n g f left :
  x_dfs_ok n g f ->
  forall es x m x' m',
    x_mgo (x_merge_rec f n g) n left es x m = Ok (x', m') ->
    exists ext,
      m' = ext ++ m
      /\ NoDup (keys ext)
      /\ (forall u, In u (keys ext) -> ~ In u (keys m))
      /\ (forall u, In u (keys ext) ->
            exists a to, In (a, to) es /\ ~ In to (keys m) /\ reach (pav (keys m)) (xg g) to u)
      /\ (forall u a w, In u (keys ext) -> In (a, w) (edg (xg g) u) -> In w (keys m'))
      /\ (forall a to, In (a, to) es -> In to (keys m'))
      /\ (forall u, In u (keys ext) -> u < cap_of (xg g))
      /\ (forall u, In u (keys ext) -> mem u (xh g) = false).
Proof.
  intros HP es. induction es as [|[a to] rest IH]; intros x m x' m' H.
  - cbn [x_mgo] in H. injection H as <- <-. exists []. cbn [app keys map].
    split; [reflexivity|]. split; [constructor|]. split; [intros u []|]. split; [intros u []|].
    split; [intros ? ? ? []|]. split; [intros ? ? []|]. split; intros u [].
  - cbn [x_mgo] in H.
    apply obind_ok in H as (k & _ & H).
    apply obind_ok in H as (sm & _ & H).
    apply obind_ok in H as ([x1 m1] & Hrec & H). cbn [fst snd] in H.
    destruct (HP _ _ _ _ _ _ Hrec) as (ext1 & [E1 N1 F1 R1 C1 T1 L1] & NH1).
    destruct (IH _ _ _ _ H) as (ext2 & E2 & N2 & F2 & R2 & C2 & T2 & L2 & NH2).
    assert (Hinc : incl (keys m) (keys m1)).
    { subst m1. rewrite keys_app. intros u Hu. apply in_app_iff. right. exact Hu. }
    exists (ext2 ++ ext1). split; [|split; [|split; [|split; [|split; [|split; [|split]]]]]].
    + subst m' m1. rewrite app_assoc. reflexivity.
    + rewrite keys_app. apply nodup_app; auto.
      intros u Hu2 Hu1. apply (F2 u Hu2). subst m1. rewrite keys_app. apply in_app_iff. left. exact Hu1.
    + intros u Hu. rewrite keys_app in Hu. apply in_app_iff in Hu as [Hu|Hu].
      * intros Hm. apply (F2 u Hu). apply Hinc. exact Hm.
      * apply F1. exact Hu.
    + intros u Hu. rewrite keys_app in Hu. apply in_app_iff in Hu as [Hu|Hu].
      * destruct (R2 u Hu) as (a' & to' & Hi & Hn & Hr).
        exists a', to'. split; [right; exact Hi|]. split.
        -- intros Hm. apply Hn. apply Hinc. exact Hm.
        -- eapply reach_mono; [|exact Hr]. intros x0 y b. apply pav_incl. exact Hinc.
      * destruct (R1 u Hu) as (Hn & Hr). exists a, to. split; [left; reflexivity|]. split; assumption.
    + intros u b w Hu Hi. rewrite keys_app in Hu. apply in_app_iff in Hu as [Hu|Hu].
      * eapply C2; eauto.
      * subst m'. rewrite keys_app. apply in_app_iff. right. eapply C1; eauto.
    + intros b w [Hi|Hi].
      * injection Hi as <- <-. subst m'. rewrite keys_app. apply in_app_iff. right. exact T1.
      * eapply T2; eauto.
    + intros u Hu. rewrite keys_app in Hu. apply in_app_iff in Hu as [Hu|Hu]; auto.
    + intros u Hu. rewrite keys_app in Hu. apply in_app_iff in Hu as [Hu|Hu]; auto.
Qed.

(** the joins of the second loop happen after the mapping of the call is
    final: [x_check_joins] neither reads more than [map_get] nor returns a
    mapping, so the mapping returned is the one [x_mgo] produced *)
Lemma x_merge_rec_dfs n g : forall f, x_dfs_ok n g f.
Proof.
  induction f as [|f IHf]; intros x left right m x' m' H; [discriminate|].
  rewrite x_merge_rec_S in H.
  destruct (map_get m right) as [t|] eqn:G.
  - injection H as <- <-. exists []. split; [|intros u []]. split; cbn [app keys map].
    + reflexivity.
    + constructor.
    + intros u [].
    + intros u [].
    + intros ? ? ? [].
    + eapply map_get_some_key; eauto.
    + intros u [].
  - apply map_get_none in G.
    apply obind_ok in H as (u0 & Hh & H). apply chk_h_ok in Hh.
    apply obind_ok in H as (u1 & Hc1 & H). apply chk_v_ok_inv in Hc1.
    apply obind_ok in H as (x1 & _ & H).
    apply obind_ok in H as (es & Hes & H). apply x_kids_ok in Hes as (-> & _ & _).
    apply obind_ok in H as ([x2 m2] & Hgo & H). cbn [fst snd] in H.
    apply obind_ok in H as (x3 & _ & H). injection H as <- <-.
    destruct (x_mgo_dfs n g f left IHf _ _ _ _ _ Hgo) as (ext & E & N & F & R & C & T & L & NH).
    cbn [keys map fst] in F, R. fold (keys m) in F, R.
    exists (ext ++ [(right, left)]). split; [split|].
    + subst m2. rewrite <- app_assoc. reflexivity.
    + rewrite keys_app. apply nodup_app; auto.
      * cbn. constructor; [intros []|constructor].
      * intros u Hu [Eu|[]]. subst u. apply (F right Hu). left; reflexivity.
    + intros u Hu. rewrite keys_app in Hu. apply in_app_iff in Hu as [Hu|[<-|[]]]; [|exact G].
      intros Hm. apply (F u Hu). right. exact Hm.
    + intros u Hu. split; [exact G|].
      rewrite keys_app in Hu. apply in_app_iff in Hu as [Hu|[<-|[]]]; [|apply reach_refl].
      destruct (R u Hu) as (a & to & Hi & Hn & Hr).
      assert (Hinc : incl (keys m) (right :: keys m)) by (intros y Hy; right; exact Hy).
      eapply reach_trans.
      * eapply reach_edge; [exact Hi|]. apply pav_true. intros Hm. apply Hn. right. exact Hm.
      * eapply reach_mono; [|exact Hr]. intros x0 y b. apply pav_incl. exact Hinc.
    + intros u a w Hu Hi. rewrite keys_app in Hu. apply in_app_iff in Hu as [Hu|[<-|[]]].
      * eapply C; eauto.
      * eapply T; eauto.
    + subst m2. rewrite keys_app. apply in_app_iff. right. left. reflexivity.
    + intros u Hu. rewrite keys_app in Hu. apply in_app_iff in Hu as [Hu|[<-|[]]]; auto.
    + intros u Hu. rewrite keys_app in Hu. apply in_app_iff in Hu as [Hu|[<-|[]]]; auto.
Qed.

(** (a), general form *)
Theorem x_merge_rec_keys_gen f n g x left right m x' m' :
  x_merge_rec f n g x left right m = Ok (x', m') ->
  forall u, In u (keys m') <->
            In u (keys m) \/ (~ In right (keys m) /\ reach (pav (keys m)) (xg g) right u).
Proof.
  intros H u. destruct (x_merge_rec_dfs n g f _ _ _ _ _ _ H) as (ext & [E N F R C T L] & _).
  split.
  - intros Hu. subst m'. rewrite keys_app in Hu. apply in_app_iff in Hu as [Hu|Hu]; [right|left; exact Hu].
    apply R. exact Hu.
  - intros [Hu|[Hn Hr]].
    + subst m'. rewrite keys_app. apply in_app_iff. right. exact Hu.
    + assert (Q : In u (keys ext)).
      { apply (reach_in_closed_set (pav (keys m)) (xg g) right (fun y => In y (keys ext))); auto.
        - subst m'. rewrite keys_app in T. apply in_app_iff in T as [T|T]; [exact T|contradiction].
        - intros y a w Hy Hi Hp. apply pav_true in Hp.
          pose proof (C y a w Hy Hi) as Hw. subst m'. rewrite keys_app in Hw.
          apply in_app_iff in Hw as [Hw|Hw]; [exact Hw|contradiction]. }
      subst m'. rewrite keys_app. apply in_app_iff. left. exact Q.
Qed.

(** (a), top-level call: the keys are the vertices of the right graph
    reachable from [right] -- whatever the holes of either graph, however many
    joins were performed *)
Theorem x_merge_rec_keys f n g x left right x' m' :
  x_merge_rec f n g x left right [] = Ok (x', m') ->
  forall u, In u (keys m') <-> reach ptrue (xg g) right u.
Proof.
  intros H u. rewrite (x_merge_rec_keys_gen _ _ _ _ _ _ _ _ _ H u). cbn [keys map].
  rewrite reach_pav_nil. split; [intros [[]|[_ Hr]]; exact Hr|]. intros Hr. right. split; [intros []|exact Hr].
Qed.

Lemma x_merge_rec_keys_nodup f n g x left right x' m' :
  x_merge_rec f n g x left right [] = Ok (x', m') -> NoDup (keys m').
Proof.
  intros H. destruct (x_merge_rec_dfs n g f _ _ _ _ _ _ H) as (ext & [E N F R C T L] & _).
  subst m'. rewrite app_nil_r. exact N.
Qed.

Lemma x_merge_rec_keys_lt f n g x left right x' m' :
  x_merge_rec f n g x left right [] = Ok (x', m') -> forall u, In u (keys m') -> u < cap_of (xg g).
Proof.
  intros H. destruct (x_merge_rec_dfs n g f _ _ _ _ _ _ H) as (ext & [E N F R C T L] & _).
  subst m'. rewrite app_nil_r. exact L.
Qed.

Lemma x_merge_rec_keys_nohole f n g x left right x' m' :
  x_merge_rec f n g x left right [] = Ok (x', m') -> forall u, In u (keys m') -> mem u (xh g) = false.
Proof.
  intros H. destruct (x_merge_rec_dfs n g f _ _ _ _ _ _ H) as (ext & [E N F R C T L] & NH).
  subst m'. rewrite app_nil_r. exact NH.
Qed.

(** the minimal hypothesis on the right graph for (a) is: none.  A reachable
    hole (or a reachable id beyond the capacity) makes the call panic, so for
    a call that returns both are excluded: *)
Theorem x_merge_rec_ok_walkable f n g x left right x' m' :
  x_merge_rec f n g x left right [] = Ok (x', m') ->
  forall u, reach ptrue (xg g) right u -> u < cap_of (xg g) /\ mem u (xh g) = false.
Proof.
  intros H u Hu. apply (x_merge_rec_keys _ _ _ _ _ _ _ _ H) in Hu. split.
  - eapply x_merge_rec_keys_lt; eauto.
  - eapply x_merge_rec_keys_nohole; eauto.
Qed.

(** the mapping only grows, at any level *)
Lemma x_merge_rec_keys_incl f n g x left right m x' m' :
  x_merge_rec f n g x left right m = Ok (x', m') -> incl (keys m) (keys m').
Proof.
  intros H u Hu. apply (x_merge_rec_keys_gen _ _ _ _ _ _ _ _ _ H). left. exact Hu.
Qed.

(** ** 2. the fuel *)

Lemma chk_h_fuel hs v : chk_h hs v <> OutOfFuel.
Proof. unfold chk_h. destruct (mem v hs); discriminate. Qed.

Lemma xlift_fuel hs o : o <> OutOfFuel -> xlift hs o <> OutOfFuel.
Proof. unfold xlift. intros H. apply obind_fuel; [exact H|discriminate]. Qed.

Lemma xlift2_fuel {R} hs (o : outcome (sodg * R)) : o <> OutOfFuel -> xlift2 hs o <> OutOfFuel.
Proof. unfold xlift2. intros H. apply obind_fuel; [exact H|discriminate]. Qed.

Lemma op_kids_fuel g v : op_kids g v <> OutOfFuel.
Proof. unfold op_kids. apply obind_fuel; [apply chk_v_fuel|discriminate]. Qed.

Lemma x_kid_fuel x v a : x_kid x v a <> OutOfFuel.
Proof. unfold x_kid, xa_kid. apply obind_fuel; [apply chk_h_fuel|]. intros _ _. apply op_kid_fuel. Qed.

Lemma x_kids_fuel x v : x_kids x v <> OutOfFuel.
Proof. unfold x_kids, xa_kids. apply obind_fuel; [apply chk_h_fuel|]. intros _ _. apply op_kids_fuel. Qed.

Lemma x_add_fuel x v : x_add x v <> OutOfFuel.
Proof.
  unfold x_add, xa_add. apply xlift_fuel. apply obind_fuel; [apply chk_h_fuel|]. intros _ _. apply op_add_fuel.
Qed.

Lemma x_put_fuel x v d : x_put x v d <> OutOfFuel.
Proof.
  unfold x_put, xa_put. apply xlift_fuel. apply obind_fuel; [apply chk_h_fuel|]. intros _ _. apply op_put_fuel.
Qed.

Lemma x_bind_fuel n x v1 v2 a : x_bind n x v1 v2 a <> OutOfFuel.
Proof.
  unfold x_bind, xa_bind. apply xlift_fuel.
  apply obind_fuel; [apply chk_h_fuel|]. intros _ _.
  apply obind_fuel; [apply chk_h_fuel|]. intros _ _. apply op_bind_fuel.
Qed.

Lemma x_next_id_fuel x : x_next_id x <> OutOfFuel.
Proof. unfold x_next_id, xa_next_id. apply xlift2_fuel. destruct (find _ _); discriminate. Qed.

Lemma x_attach_fuel n x left a k mt : x_attach n x left a k mt <> OutOfFuel.
Proof.
  unfold x_attach. destruct k; [discriminate|]. destruct mt.
  - apply obind_fuel; [apply x_bind_fuel|]. discriminate.
  - apply obind_fuel; [apply x_next_id_fuel|]. intros r _.
    apply obind_fuel; [apply x_add_fuel|]. intros x1 _.
    apply obind_fuel; [apply x_bind_fuel|]. discriminate.
Qed.

Lemma mm_insert_fuel n e a v : mm_insert n e a v <> OutOfFuel.
Proof. unfold mm_insert. destruct (mm_replace _ _ _); [discriminate|]. destruct (_ <? _); discriminate. Qed.

Lemma redirect_fuel n left right orig : forall nv, redirect n orig nv left right <> OutOfFuel.
Proof.
  induction orig as [|[a t] rest IH]; intros nv; cbn [redirect]; [discriminate|].
  destruct (t =? right); [|apply IH].
  apply obind_fuel; [apply mm_insert_fuel|]. intros nv' _. apply IH.
Qed.

Lemma redirect_all_fuel n left right vs : forall g, redirect_all n g left right vs <> OutOfFuel.
Proof.
  induction vs as [|v t IH]; intros g; cbn [redirect_all]; [discriminate|].
  apply obind_fuel; [apply redirect_fuel|]. intros e' _. apply IH.
Qed.

Lemma join_kids_fuel n left es : forall x, join_kids n x left es <> OutOfFuel.
Proof.
  induction es as [|[a t] rest IH]; intros x; cbn [join_kids]; [discriminate|].
  apply obind_fuel; [apply x_kid_fuel|]. intros k _. destruct k; [discriminate|].
  apply obind_fuel; [apply x_bind_fuel|]. intros x' _. apply IH.
Qed.

(** [join] itself has no fuel *)
Lemma x_join_fuel n x left right : x_join n x left right <> OutOfFuel.
Proof.
  unfold x_join. apply obind_fuel; [apply redirect_all_fuel|]. intros g1 _.
  apply obind_fuel; [apply x_kids_fuel|]. intros es _.
  apply obind_fuel; [apply join_kids_fuel|]. discriminate.
Qed.

Lemma x_check_joins_fuel n left m es : forall x, x_check_joins n x left m es <> OutOfFuel.
Proof.
  induction es as [|[a to] rest IH]; intros x; cbn [x_check_joins]; [discriminate|].
  apply obind_fuel; [apply x_kid_fuel|]. intros r _.
  destruct r as [first|]; [|apply IH]. destruct (map_get m to) as [second|]; [|apply IH].
  destruct (first =? second); [apply IH|].
  apply obind_fuel; [apply x_join_fuel|]. intros x' _. apply IH.
Qed.

Lemma x_mgo_fuel n g f left :
  (forall x left right m, unseen (cap_of (xg g)) (keys m) < f ->
                          x_merge_rec f n g x left right m <> OutOfFuel) ->
  forall es x m, unseen (cap_of (xg g)) (keys m) < f ->
                 x_mgo (x_merge_rec f n g) n left es x m <> OutOfFuel.
Proof.
  intros HP es. induction es as [|[a to] rest IH]; intros x m Hm; cbn [x_mgo]; [discriminate|].
  apply obind_fuel; [apply x_kid_fuel|].
  intros k _. apply obind_fuel; [apply x_attach_fuel|].
  intros sm _. apply obind_fuel; [apply HP; exact Hm|].
  intros [x1 m1] Hrec. cbn [fst snd]. apply IH.
  eapply Nat.le_lt_trans; [|exact Hm]. apply unseen_le.
  eapply x_merge_rec_keys_incl; eauto.
Qed.

(** every level that gets past the first test adds a key that is below the
    capacity of the right graph and was not there; joins do not touch the keys *)
Lemma x_merge_rec_fuel n g : forall f x left right m,
  unseen (cap_of (xg g)) (keys m) < f -> x_merge_rec f n g x left right m <> OutOfFuel.
Proof.
  induction f as [|f IHf]; intros x left right m Hm; [lia|].
  rewrite x_merge_rec_S. destruct (map_get m right) eqn:G; [discriminate|].
  apply map_get_none in G.
  apply obind_fuel; [apply chk_h_fuel|].
  intros u0 _. apply obind_fuel; [apply chk_v_fuel|].
  intros u1 Hc. apply chk_v_ok_inv in Hc.
  apply obind_fuel.
  { destruct (has_data (xg g) right); [apply x_put_fuel|discriminate]. }
  intros x1 _. apply obind_fuel; [apply x_kids_fuel|].
  intros es _. apply obind_fuel.
  { apply x_mgo_fuel; [exact IHf|]. cbn [keys map fst]. fold (keys m).
    assert (unseen (cap_of (xg g)) (right :: keys m) < unseen (cap_of (xg g)) (keys m)).
    { apply unseen_lt with (y := right); auto.
      - intros y Hy; right; exact Hy.
      - left; reflexivity. }
    lia. }
  intros r _. apply obind_fuel; [apply x_check_joins_fuel|discriminate].
Qed.

(** ** the mapping exposed, and [x_merge] as its projection *)

Definition x_merge_mapped (n : nat) (s g : xs) (left right : nat) : outcome (xs * mapping) :=
  x_merge_rec (cap_of (xg g) + 2) n g s left right [].

(** [x_merge] is [x_merge_mapped] followed by the comparison of the number of
    distinct keys with [len()] of the right graph ([verdict] of MergeFacts.v
    on the store of the right graph: the slot of a hole is not counted by
    [keys()] because [x_keys] filters on the tag) *)
Lemma x_merge_projection n s g left right :
  x_merge n s g left right =
  (r <- x_merge_mapped n s g left right ;; Ok (fst r, verdict (xg g) (snd r))).
Proof.
  unfold x_merge, x_merge_mapped, verdict, x_keys.
  destruct (x_merge_rec _ _ _ _ _ _ _) as [[s' m']| | |]; cbn [obind fst snd]; try reflexivity.
  destruct (_ =? _); reflexivity.
Qed.

Lemma x_merge_inv n s g left right s' r :
  x_merge n s g left right = Ok (s', r) ->
  exists m', x_merge_mapped n s g left right = Ok (s', m') /\ r = verdict (xg g) m'.
Proof.
  rewrite x_merge_projection. intros H. apply obind_ok in H as ([s1 m1] & E & H).
  cbn [fst snd] in H. injection H as <- <-. eauto.
Qed.

(** on hole-free operands, when the old model answers, the two tables agree *)
Lemma x_merge_mapped_nohole n s h left right s' m' :
  op_merge_mapped n s h left right = Ok (s', m') ->
  x_merge_mapped n (mkX s []) (mkX h []) left right = Ok (mkX s' [], m').
Proof. unfold op_merge_mapped, x_merge_mapped. cbn [xg]. apply x_merge_rec_nohole. Qed.

Theorem x_merge_mapped_fuel n s g left right : x_merge_mapped n s g left right <> OutOfFuel.
Proof. unfold x_merge_mapped. apply x_merge_rec_fuel. cbn [keys map]. rewrite unseen_nil. lia. Qed.

(** the full statement asked for in XJoinFacts.v: no hypothesis at all *)
Theorem x_merge_fuel n s g left right : x_merge n s g left right <> OutOfFuel.
Proof.
  rewrite x_merge_projection. apply obind_fuel; [apply x_merge_mapped_fuel|discriminate].
Qed.

(** ** 3. the verdict *)

(** [hclosed] says no more than: everything reachable from [right] is present
    (an id beyond the capacity reads as the blank vertex, tag 0) *)
Lemma hclosed_iff_present h right :
  hclosed h right <-> (forall u, reach ptrue h right u -> tag h u <> 0).
Proof.
  split.
  - intros [_ Hc] u Hu. exact (proj1 (Hc u Hu)).
  - intros Hp. split; [apply tag_nonzero_lt, Hp, reach_refl|].
    intros u Hu. split; [apply Hp; exact Hu|].
    intros a w Hi. apply tag_nonzero_lt, Hp. eapply reach_step; eauto.
Qed.

(** in a well-formed right graph a present vertex is not a hole, so under
    [hclosed] no hole is reachable -- not needed below, where the same fact
    comes from the call returning ([x_merge_rec_ok_walkable]) *)
Lemma hclosed_xwf_no_reachable_hole g right :
  xwf g -> hclosed (xg g) right -> forall u, reach ptrue (xg g) right u -> mem u (xh g) = false.
Proof.
  intros W Hc u Hu. destruct (mem u (xh g)) eqn:E; [|reflexivity]. exfalso.
  destruct (W u E) as [_ B]. apply (proj1 (hclosed_iff_present _ _) Hc u Hu).
  unfold tag. rewrite B. reflexivity.
Qed.

(** (b) *)
Theorem x_merge_ok_complete n s g left right s' :
  hclosed (xg g) right -> x_merge n s g left right = Ok (s', None) ->
  forall v, tag (xg g) v <> 0 -> v < cap_of (xg g) -> reach ptrue (xg g) right v.
Proof.
  intros Hc H. apply x_merge_inv in H as (m' & Hm & Hv).
  eapply verdict_none; eauto. eapply x_merge_rec_keys; eauto.
Qed.

(** the same in terms of [keys()] of the right graph *)
Corollary x_merge_ok_complete_keys n s g left right s' :
  hclosed (xg g) right -> x_merge n s g left right = Ok (s', None) ->
  forall v, In v (x_keys g) -> reach ptrue (xg g) right v.
Proof.
  intros Hc H v Hv. unfold x_keys in Hv. apply in_op_keys in Hv as [Hl Ht].
  eapply x_merge_ok_complete; eauto.
Qed.

Theorem x_merge_ok_mapped n s g left right s' :
  hclosed (xg g) right -> x_merge n s g left right = Ok (s', None) ->
  exists m', x_merge_mapped n s g left right = Ok (s', m')
             /\ forall v, tag (xg g) v <> 0 -> map_get m' v <> None.
Proof.
  intros Hc H. pose proof (x_merge_ok_complete _ _ _ _ _ _ Hc H) as Hall.
  apply x_merge_inv in H as (m' & Hm & Hv). exists m'. split; [exact Hm|].
  intros v Ht Hn. apply map_get_none in Hn. apply Hn.
  apply (x_merge_rec_keys _ _ _ _ _ _ _ _ Hm). apply Hall; [exact Ht|apply tag_nonzero_lt; exact Ht].
Qed.

(** (c) *)
Theorem x_merge_err_names_missed n s g left right s' r :
  hclosed (xg g) right -> x_merge n s g left right = Ok (s', r) ->
  (exists v, v < cap_of (xg g) /\ tag (xg g) v <> 0 /\ ~ reach ptrue (xg g) right v) ->
  exists missed,
    r = Some missed
    /\ (forall v, In v missed <->
                  (v < cap_of (xg g) /\ tag (xg g) v <> 0 /\ ~ reach ptrue (xg g) right v))
    /\ StronglySorted lt missed.
Proof.
  intros Hc H (v & Hl & Ht & Hn). apply x_merge_inv in H as (m' & Hm & Hv).
  pose proof (x_merge_rec_keys _ _ _ _ _ _ _ _ Hm) as Hk.
  destruct (verdict_missed (xg g) right m' v Hc Hk Hl Ht Hn) as (missed & E).
  exists missed. split; [congruence|].
  destruct (verdict_some_spec (xg g) m' missed E) as [A B]. split; [|exact B].
  intros y. rewrite A, Hk. tauto.
Qed.

Theorem x_merge_all_reached_ok n s g left right s' r :
  hclosed (xg g) right -> x_merge n s g left right = Ok (s', r) ->
  (forall v, v < cap_of (xg g) -> tag (xg g) v <> 0 -> reach ptrue (xg g) right v) ->
  r = None.
Proof.
  intros Hc H Ha. apply x_merge_inv in H as (m' & Hm & Hv). subst r.
  eapply verdict_all; eauto. eapply x_merge_rec_keys; eauto.
Qed.

(** the key facts of part 1 for the table of the top-level call *)
Theorem x_merge_mapped_keys n s g left right s' m' :
  x_merge_mapped n s g left right = Ok (s', m') ->
  (forall u, In u (keys m') <-> reach ptrue (xg g) right u)
  /\ NoDup (keys m')
  /\ (forall u, In u (keys m') -> u < cap_of (xg g) /\ mem u (xh g) = false).
Proof.
  unfold x_merge_mapped. intros H. split; [exact (x_merge_rec_keys _ _ _ _ _ _ _ _ H)|].
  split; [exact (x_merge_rec_keys_nodup _ _ _ _ _ _ _ _ H)|].
  intros u Hu. split; [exact (x_merge_rec_keys_lt _ _ _ _ _ _ _ _ H u Hu)|].
  exact (x_merge_rec_keys_nohole _ _ _ _ _ _ _ _ H u Hu).
Qed.

(** ** non-vacuity *)

(** *** a merge WITH a join: [ex_left] (0 -a-> 1, 0 -b-> 2, 1 -c-> 3, datum on
    1) and [ex_right] (0 -a-> 5, 0 -b-> 5) of XJoinFacts.v *)

Definition exj_l : xs := mkX ex_left [].
Definition exj_r : xs := mkX ex_right [].

Example exj_hclosed : hclosed (xg exj_r) 0.
Proof. apply hclosedb_hclosed. vm_compute. reflexivity. Qed.

(** the call returns [Ok(())], a join has happened (slot 1 of the left graph
    is a hole), the keys of the table are the two reachable right vertices --
    and the table still sends right vertex 5 to left slot 1, which is the
    hole: [join] does not update [mapped] *)
Example exj_result :
  exists x m',
    x_merge 16 exj_l exj_r 0 0 = Ok (x, None)
    /\ x_merge_mapped 16 exj_l exj_r 0 0 = Ok (x, m')
    /\ xh x = [1]
    /\ m' = [(5, 1); (0, 0)]
    /\ x_keys exj_r = [0; 5]
    /\ is_hole x 1 = true.
Proof. vm_compute. do 2 eexists. repeat split. Qed.

(** the old model gives up on the same operands *)
Example exj_old : op_merge 16 (xg exj_l) (xg exj_r) 0 0 = Unmodelled.
Proof. vm_compute. reflexivity. Qed.

(** the conclusions of (a) and (b) on it *)
Example exj_conclusions :
  exists x m',
    x_merge_mapped 16 exj_l exj_r 0 0 = Ok (x, m')
    /\ keys m' = [5; 0]
    /\ (forall u, In u (keys m') <-> reach ptrue (xg exj_r) 0 u)
    /\ NoDup (keys m')
    /\ (forall v, tag (xg exj_r) v <> 0 -> v < cap_of (xg exj_r) -> reach ptrue (xg exj_r) 0 v).
Proof.
  destruct exj_result as (x & m' & H1 & H2 & _ & E & _). exists x, m'.
  split; [exact H2|]. split; [rewrite E; reflexivity|].
  destruct (x_merge_mapped_keys _ _ _ _ _ _ _ H2) as (K1 & K2 & _).
  split; [exact K1|]. split; [exact K2|].
  exact (x_merge_ok_complete _ _ _ _ _ _ exj_hclosed H1).
Qed.

(** *** a join and an unreachable present right vertex (3) *)

Definition exj_r2 : xs :=
  mkX (match op_add ex_right 3 with Ok g => g | _ => op_empty 0 end) [].

Example exj2_hclosed : hclosed (xg exj_r2) 0.
Proof. apply hclosedb_hclosed. vm_compute. reflexivity. Qed.

Example exj2_unreachable_present :
  3 < cap_of (xg exj_r2) /\ tag (xg exj_r2) 3 <> 0 /\ ~ reach ptrue (xg exj_r2) 0 3.
Proof.
  split; [vm_compute; lia|]. split; [vm_compute; discriminate|].
  intros H.
  assert (P : forall u, reach ptrue (xg exj_r2) 0 u -> u = 0 \/ u = 5).
  { apply (reach_in_closed_set ptrue (xg exj_r2) 0 (fun u => u = 0 \/ u = 5)); [left; reflexivity|].
    intros u a w [->| ->] Hi _; vm_compute in Hi;
      repeat (destruct Hi as [Hi|Hi]; [injection Hi as <- <-; auto|]); destruct Hi. }
  destruct (P 3 H); discriminate.
Qed.

Example exj2_result :
  exists x,
    x_merge 16 exj_l exj_r2 0 0 = Ok (x, Some [3])
    /\ xh x = [1]
    /\ x_keys x = [0; 2; 3].
Proof. vm_compute. eexists. repeat split. Qed.

(** (c) applied to it: the list named is exactly the unreachable present vertices *)
Example exj2_conclusion :
  forall v, In v [3] <->
            (v < cap_of (xg exj_r2) /\ tag (xg exj_r2) v <> 0 /\ ~ reach ptrue (xg exj_r2) 0 v).
Proof.
  destruct exj2_result as (x & H & _).
  destruct (x_merge_err_names_missed _ _ _ _ _ _ _ exj2_hclosed H) as (missed & E & A & _).
  - exists 3. exact exj2_unreachable_present.
  - injection E as <-. exact A.
Qed.

(** *** a RIGHT graph with a hole: the left graph after the join above
    (vertices 0, 2, 3, hole 1) merged into a fresh one-vertex graph *)

Definition exj_holed : xs :=
  match x_merge 16 exj_l exj_r 0 0 with
  | Ok (x, _) => x
  | _ => x_empty 0
  end.

Definition exj_fresh : xs :=
  match x_add (x_empty 6) 0 with Ok x => x | _ => x_empty 0 end.

Example exh_hyps : xh exj_holed = [1] /\ xwf exj_holed /\ hclosed (xg exj_holed) 0.
Proof.
  split; [vm_compute; reflexivity|]. split.
  - intros v Hv. vm_compute in Hv. destruct v as [|[|v]]; try discriminate.
    vm_compute. split; [lia|reflexivity].
  - apply hclosedb_hclosed. vm_compute. reflexivity.
Qed.

Example exh_result :
  exists x m',
    x_merge 16 exj_fresh exj_holed 0 0 = Ok (x, None)
    /\ x_merge_mapped 16 exj_fresh exj_holed 0 0 = Ok (x, m')
    /\ keys m' = [3; 2; 0]
    /\ x_keys x = [0; 1; 2].
Proof. vm_compute. do 2 eexists. repeat split. Qed.

(** handing the hole in as [right] panics, as does [Option::unwrap] on [None] *)
Example exh_hole_root : x_merge 16 exj_fresh exj_holed 0 1 = Panic PUnwrapNone.
Proof. vm_compute. reflexivity. Qed.

(** *** the hypothesis of (b) cannot be dropped: a right graph whose root has
    an edge to an absent (collected, not removed) slot 1, plus a present
    vertex 2 nobody points to.  [merge] walks into slot 1, so it has two keys,
    [len()] is two: it answers [Ok(())] although 2 was never visited *)

Definition exa_right : sodg :=
  set_vtx (set_vtx (op_empty 4)
    0 (mkV 1 hex_empty PEmpty [(Alpha 0, 1)]))
    2 (mkV 1 hex_empty PEmpty []).

Example ex_present_needed :
  (exists x, x_merge 16 exj_fresh (mkX exa_right []) 0 0 = Ok (x, None))
  /\ tag exa_right 2 <> 0 /\ 2 < cap_of exa_right /\ ~ reach ptrue exa_right 0 2
  /\ ~ hclosed exa_right 0.
Proof.
  assert (P : forall u, reach ptrue exa_right 0 u -> u = 0 \/ u = 1).
  { apply (reach_in_closed_set ptrue exa_right 0 (fun u => u = 0 \/ u = 1)); [left; reflexivity|].
    intros u a w [->| ->] Hi _; vm_compute in Hi;
      repeat (destruct Hi as [Hi|Hi]; [injection Hi as <- <-; auto|]); destruct Hi. }
  split; [vm_compute; eexists; reflexivity|].
  split; [vm_compute; discriminate|]. split; [vm_compute; lia|]. split.
  - intros H. destruct (P 2 H); discriminate.
  - intros [_ Hc]. assert (R : reach ptrue exa_right 0 1).
    { apply (reach_edge ptrue exa_right 0 (Alpha 0) 1); [|reflexivity]. vm_compute. left; reflexivity. }
    destruct (Hc 1 R) as [Ht _]. apply Ht. vm_compute. reflexivity.
Qed.

Print Assumptions x_merge_rec_dfs.
Print Assumptions x_merge_rec_keys_gen.
Print Assumptions x_merge_rec_keys.
Print Assumptions x_merge_rec_keys_nodup.
Print Assumptions x_merge_rec_keys_lt.
Print Assumptions x_merge_rec_keys_nohole.
Print Assumptions x_merge_rec_ok_walkable.
Print Assumptions x_merge_rec_keys_incl.
Print Assumptions x_join_fuel.
Print Assumptions x_merge_rec_fuel.
Print Assumptions x_merge_mapped_fuel.
Print Assumptions x_merge_fuel.
Print Assumptions x_merge_projection.
Print Assumptions x_merge_inv.
Print Assumptions x_merge_mapped_nohole.
Print Assumptions hclosed_iff_present.
Print Assumptions hclosed_xwf_no_reachable_hole.
Print Assumptions x_merge_ok_complete.
Print Assumptions x_merge_ok_complete_keys.
Print Assumptions x_merge_ok_mapped.
Print Assumptions x_merge_err_names_missed.
Print Assumptions x_merge_all_reached_ok.
Print Assumptions x_merge_mapped_keys.
Print Assumptions exj_result.
Print Assumptions exj_conclusions.
Print Assumptions exj2_result.
Print Assumptions exj2_conclusion.
Print Assumptions exh_result.
Print Assumptions ex_present_needed.
