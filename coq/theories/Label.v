(** * Label: model of [sodg::Label] (src/lib.rs, src/label.rs). *)

From Sodg Require Export Base Text.

(** [Greek(char)], [Alpha(usize)], [Str([char; 8])]; characters are code
    points, [LStr] carries the eight array entries *)
Inductive label :=
| Greek (c : N)
| Alpha (n : N)
| LStr (cs : list N).

Definition wf_label (l : label) : bool :=
  match l with
  | Greek c => is_scalar c
  | Alpha n => (n <=? usize_max)%N
  | LStr cs => (length cs =? 8) && forallb is_scalar cs
  end.

(** derived [PartialEq]/[Eq] *)
Definition label_eqb (a b : label) : bool :=
  match a, b with
  | Greek x, Greek y => (x =? y)%N
  | Alpha x, Alpha y => (x =? y)%N
  | LStr x, LStr y => list_eqb N.eqb x y
  | _, _ => false
  end.

Lemma label_eqb_spec a b : label_eqb a b = true <-> a = b.
Proof.
  destruct a, b; simpl; split; intros H; try discriminate; try congruence.
  - apply N.eqb_eq in H; congruence.
  - inversion H; apply N.eqb_refl.
  - apply N.eqb_eq in H; congruence.
  - inversion H; apply N.eqb_refl.
  - apply (list_eqb_spec N.eqb N.eqb_eq) in H; congruence.
  - inversion H; subst. apply (list_eqb_spec N.eqb N.eqb_eq); auto.
Qed.

Lemma label_eqb_refl a : label_eqb a a = true.
Proof. apply label_eqb_spec; auto. Qed.

Lemma label_eq_dec (a b : label) : {a = b} + {a <> b}.
Proof.
  destruct (label_eqb a b) eqn:E.
  - left; apply label_eqb_spec; auto.
  - right; intros H; apply label_eqb_spec in H; congruence.
Defined.

(** derived [Ord]: variant order, then payload; arrays lexicographically *)
Fixpoint lex_compare (a b : list N) : comparison :=
  match a, b with
  | [], [] => Eq
  | [], _ => Lt
  | _, [] => Gt
  | x :: s, y :: t => match (x ?= y)%N with Eq => lex_compare s t | c => c end
  end.

Definition label_compare (a b : label) : comparison :=
  match a, b with
  | Greek x, Greek y => (x ?= y)%N
  | Greek _, _ => Lt
  | Alpha _, Greek _ => Gt
  | Alpha x, Alpha y => (x ?= y)%N
  | Alpha _, LStr _ => Lt
  | LStr x, LStr y => lex_compare x y
  | LStr _, _ => Gt
  end.

Definition label_leb (a b : label) : bool :=
  match label_compare a b with Gt => false | _ => true end.

(** [Display]/[Debug] *)
Definition label_print (l : label) : text :=
  match l with
  | Greek c => [c]
  | Alpha i => ch_alpha :: print_dec i
  | LStr a => filter (fun c => negb (c =? ch_space)%N) a
  end.

(** [from_str()] (after the repair of the single-character rule: the number
    of characters, not of UTF-8 bytes, decides) *)
Definition label_from_str (s : text) : option label :=
  match s with
  | c :: tail =>
      if (c =? ch_alpha)%N then
        match parse_usize tail with
        | Some n => Some (Alpha n)
        | None => None
        end
      else match tail with
           | [] => Some (Greek c)
           | _ => if length s <=? 8
                  then Some (LStr (s ++ repeat ch_space (8 - length s)))
                  else None
           end
  | [] => Some (LStr (repeat ch_space 8))
  end.
