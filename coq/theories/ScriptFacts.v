(** * ScriptFacts: lemmas about the model of [Script::deploy_to] (Script.v)
    behind property C14.  The property theorems are restated in P_C14.v.

    Contents
    - 1. generic facts on [split_on], [drop_ws]/[trim], [fields],
         [strip_comments], [take_while]/[drop_while];
    - 2. the abstract syntax [arg]/[cmd] of scripts and the direct
         interpreter [exec] (API calls only, no text processing);
    - 3. formatting choices [fmt], the renderer [render], well-formedness
         [wf_prog] and legality of a format [legal_fmt];
    - 4. what the pipeline of Script.v does to a rendered script, stage by
         stage: comments ([strip_flat]), the LINE regex ([parse_line_core]),
         [,]-splitting ([fields_body]), arguments ([parse_arg_tok]), data
         ([parse_data_tok]), one command ([deploy_one_core]), [;]-splitting
         ([commands_render]);
    - 5. the main theorem [deploy_render], the count, the variable table;
    - 6. malformed commands: [deploy_one] classified ([deploy_one_spec]),
         the loop ([deploy_cmds_malformed]), scripts with a well-formed
         prefix ([deploy_prefix], [deploy_malformed]);
    - 7. the renderer and the predicates unfolded, for P_C14.v;
    - 8. example values.

    Stdlib only, no axioms. *)

From Sodg Require Import Base Text Hex Label Sodg Script LabelFacts HexFacts.
From Coq Require Import Lia ZifyBool ZifyN.

Local Open Scope nat_scope.
Arguments N.add : simpl never.
Arguments N.mul : simpl never.
Arguments N.sub : simpl never.
Arguments N.div : simpl never.
Arguments N.modulo : simpl never.

(* ------------------------------------------------------------------ *)
(** ** 1. Generic text facts *)

(** [lacks x t]: the character [x] does not occur in [t] *)
Definition lacks (x : N) (t : text) : bool := forallb (fun c => negb (c =? x)%N) t.

(** [all_ws t]: nothing but Unicode white space *)
Definition all_ws (t : text) : bool := forallb is_ws t.

(** [nwl t]: [t] does not start with white space ([nwl (rev t)]: does not
    end with white space); the empty text passes *)
Definition nwl (t : text) : bool :=
  match t with [] => true | c :: _ => negb (is_ws c) end.

Lemma forallb_rev {A} (p : A -> bool) l : forallb p (rev l) = forallb p l.
Proof.
  induction l as [|a l IH]; [reflexivity|].
  cbn [rev forallb]. rewrite forallb_app, IH. cbn [forallb].
  rewrite andb_true_r. apply andb_comm.
Qed.

Lemma existsb_rev {A} (p : A -> bool) l : existsb p (rev l) = existsb p l.
Proof.
  induction l as [|a l IH]; [reflexivity|].
  cbn [rev existsb]. rewrite existsb_app, IH. cbn [existsb].
  rewrite orb_false_r. apply orb_comm.
Qed.

Lemma filter_rev {A} (p : A -> bool) l : filter p (rev l) = rev (filter p l).
Proof.
  induction l as [|a l IH]; [reflexivity|].
  cbn [rev filter]. rewrite filter_app, IH. cbn [filter].
  destruct (p a); cbn [rev]; [reflexivity | apply app_nil_r].
Qed.

Lemma lacks_app x a b : lacks x (a ++ b) = lacks x a && lacks x b.
Proof. apply forallb_app. Qed.

Lemma lacks_cons x c t : lacks x (c :: t) = negb (c =? x)%N && lacks x t.
Proof. reflexivity. Qed.

Lemma lacks_nil x : lacks x [] = true.
Proof. reflexivity. Qed.

Lemma lacks_rev x t : lacks x (rev t) = lacks x t.
Proof. apply forallb_rev. Qed.

Lemma lacks_existsb x t : lacks x t = true -> existsb (N.eqb x) t = false.
Proof.
  induction t as [|c t IH]; intros H; [reflexivity|].
  rewrite lacks_cons in H. apply andb_true_iff in H as [Hc Ht].
  cbn [existsb]. rewrite (IH Ht), N.eqb_sym.
  apply negb_true_iff in Hc. rewrite Hc. reflexivity.
Qed.

Lemma lacks_repeat x c k : (c =? x)%N = false -> lacks x (repeat c k) = true.
Proof.
  intros H. induction k as [|k IH]; [reflexivity|].
  cbn [repeat]. rewrite lacks_cons, H, IH. reflexivity.
Qed.

(** a property of characters carried over to texts *)
Lemma forallb_impl {A} (p q : A -> bool) l :
  (forall c, p c = true -> q c = true) -> forallb p l = true -> forallb q l = true.
Proof.
  intros Hpq. induction l as [|c l IH]; [reflexivity|].
  cbn [forallb]. intros H. apply andb_true_iff in H as [Hc Hl].
  rewrite (Hpq c Hc), (IH Hl). reflexivity.
Qed.

(** *** [split_on] *)

Lemma split_on_lacks sep x : lacks sep x = true -> split_on sep x = [x].
Proof.
  induction x as [|c x IH]; intros H; [reflexivity|].
  rewrite lacks_cons in H. apply andb_true_iff in H as [Hc Hx].
  apply negb_true_iff in Hc. cbn [split_on]. rewrite Hc, (IH Hx). reflexivity.
Qed.

Lemma split_on_app sep x rest :
  lacks sep x = true -> split_on sep (x ++ sep :: rest) = x :: split_on sep rest.
Proof.
  induction x as [|c x IH]; intros H.
  - cbn [app split_on]. rewrite N.eqb_refl. reflexivity.
  - rewrite lacks_cons in H. apply andb_true_iff in H as [Hc Hx].
    apply negb_true_iff in Hc. cbn [app split_on]. rewrite Hc, (IH Hx). reflexivity.
Qed.

(** *** [drop_ws], [trim] *)

Definition rtrim (x : text) : text := rev (drop_ws (rev x)).

Lemma trim_rtrim x : trim x = rtrim (drop_ws x).
Proof. reflexivity. Qed.

Lemma drop_ws_all l x : all_ws l = true -> drop_ws (l ++ x) = drop_ws x.
Proof.
  induction l as [|c l IH]; intros H; [reflexivity|].
  cbn [all_ws forallb] in H. apply andb_true_iff in H as [Hc Hl].
  cbn [app drop_ws]. rewrite Hc. apply IH, Hl.
Qed.

Lemma drop_ws_all_nil l : all_ws l = true -> drop_ws l = [].
Proof.
  intros H. rewrite <- (app_nil_r l). rewrite (drop_ws_all _ _ H). reflexivity.
Qed.

Lemma drop_ws_nwl x : nwl x = true -> drop_ws x = x.
Proof.
  destruct x as [|c x]; [reflexivity|]. cbn [nwl drop_ws]. intros H.
  apply negb_true_iff in H. rewrite H. reflexivity.
Qed.

Lemma all_ws_rev r : all_ws (rev r) = all_ws r.
Proof. apply forallb_rev. Qed.

Lemma rtrim_all x r : all_ws r = true -> rtrim (x ++ r) = rtrim x.
Proof.
  intros H. unfold rtrim. rewrite rev_app_distr.
  rewrite drop_ws_all; [reflexivity|]. rewrite all_ws_rev. exact H.
Qed.

Lemma rtrim_drop_app x r :
  all_ws r = true -> rtrim (drop_ws (x ++ r)) = rtrim (drop_ws x).
Proof.
  intros H. induction x as [|c x IH].
  - cbn [app]. rewrite (drop_ws_all_nil _ H). reflexivity.
  - cbn [app drop_ws]. destruct (is_ws c); [exact IH|].
    apply (rtrim_all (c :: x) _ H).
Qed.

(** white space around a text does not change what [trim] gives *)
Lemma trim_pad l x r :
  all_ws l = true -> all_ws r = true -> trim (l ++ x ++ r) = trim x.
Proof.
  intros Hl Hr. rewrite !trim_rtrim, (drop_ws_all _ _ Hl). apply rtrim_drop_app, Hr.
Qed.

Lemma trim_tight x : nwl x = true -> nwl (rev x) = true -> trim x = x.
Proof.
  intros H1 H2. unfold trim. rewrite (drop_ws_nwl _ H1), (drop_ws_nwl _ H2).
  apply rev_involutive.
Qed.

Lemma trim_pad_tight l x r :
  all_ws l = true -> all_ws r = true -> nwl x = true -> nwl (rev x) = true ->
  trim (l ++ x ++ r) = x.
Proof. intros Hl Hr H1 H2. rewrite (trim_pad _ _ _ Hl Hr). apply trim_tight; assumption. Qed.

Lemma trim_all_ws x : all_ws x = true -> trim x = [].
Proof.
  intros H. unfold trim. rewrite (drop_ws_all_nil _ H). reflexivity.
Qed.

(** filtering commutes with trimming when every white-space character of
    the text is filtered out anyway *)
Lemma filter_drop_ws (q : N -> bool) x :
  forallb (fun c => negb (is_ws c) || negb (q c)) x = true ->
  filter q (drop_ws x) = filter q x.
Proof.
  induction x as [|c x IH]; intros H; [reflexivity|].
  cbn [forallb] in H. apply andb_true_iff in H as [Hc Hx].
  cbn [drop_ws]. destruct (is_ws c) eqn:Ew; [|reflexivity].
  cbn [negb orb] in Hc. apply negb_true_iff in Hc.
  cbn [filter]. rewrite Hc. apply IH, Hx.
Qed.

Lemma forallb_drop_ws (p : N -> bool) x :
  forallb p x = true -> forallb p (drop_ws x) = true.
Proof.
  induction x as [|c x IH]; intros H; [reflexivity|].
  cbn [drop_ws]. destruct (is_ws c); [|exact H].
  cbn [forallb] in H. apply andb_true_iff in H as [_ Hx]. apply IH, Hx.
Qed.

Lemma filter_trim (q : N -> bool) x :
  forallb (fun c => negb (is_ws c) || negb (q c)) x = true ->
  filter q (trim x) = filter q x.
Proof.
  intros H. unfold trim. rewrite filter_rev, filter_drop_ws.
  - rewrite filter_rev, rev_involutive. apply filter_drop_ws, H.
  - rewrite forallb_rev. apply forallb_drop_ws, H.
Qed.

(** *** [fields] *)

Lemma fields_cons sep x rest y :
  lacks sep x = true -> trim x = y -> y <> [] ->
  fields sep (x ++ sep :: rest) = y :: fields sep rest.
Proof.
  intros Hx Ht Hy. unfold fields. rewrite (split_on_app _ _ _ Hx).
  cbn [map filter]. rewrite Ht. destruct y; [congruence|reflexivity].
Qed.

Lemma fields_skip sep x rest :
  lacks sep x = true -> trim x = [] ->
  fields sep (x ++ sep :: rest) = fields sep rest.
Proof.
  intros Hx Ht. unfold fields. rewrite (split_on_app _ _ _ Hx).
  cbn [map filter]. rewrite Ht. reflexivity.
Qed.

Lemma fields_last sep x y :
  lacks sep x = true -> trim x = y -> y <> [] -> fields sep x = [y].
Proof.
  intros Hx Ht Hy. unfold fields. rewrite (split_on_lacks _ _ Hx).
  cbn [map filter]. rewrite Ht. destruct y; [congruence|reflexivity].
Qed.

Lemma fields_none sep x :
  lacks sep x = true -> trim x = [] -> fields sep x = [].
Proof.
  intros Hx Ht. unfold fields. rewrite (split_on_lacks _ _ Hx).
  cbn [map filter]. rewrite Ht. reflexivity.
Qed.

(** *** [strip_comments] *)

Lemma strip_tok t rest :
  lacks ch_hash t = true ->
  strip_comments false (t ++ rest) = t ++ strip_comments false rest.
Proof.
  induction t as [|c t IH]; intros H; [reflexivity|].
  rewrite lacks_cons in H. apply andb_true_iff in H as [Hc Ht].
  apply negb_true_iff in Hc. cbn [app strip_comments]. rewrite Hc. cbn [andb].
  rewrite (IH Ht). reflexivity.
Qed.

Lemma strip_in_comment b rest :
  lacks ch_lf b = true ->
  strip_comments true (b ++ ch_lf :: rest) = strip_comments false rest.
Proof.
  induction b as [|c b IH]; intros H.
  - cbn [app strip_comments]. rewrite N.eqb_refl. reflexivity.
  - rewrite lacks_cons in H. apply andb_true_iff in H as [Hc Hb].
    apply negb_true_iff in Hc. cbn [app strip_comments]. rewrite Hc. apply IH, Hb.
Qed.

Lemma strip_comment b rest :
  lacks ch_lf b = true ->
  strip_comments false (ch_hash :: b ++ ch_lf :: rest) = strip_comments false rest.
Proof.
  intros H. cbn [strip_comments]. rewrite N.eqb_refl, existsb_app.
  cbn [existsb]. rewrite N.eqb_refl, orb_true_r. cbn [orb andb].
  apply strip_in_comment, H.
Qed.

(** *** [take_while], [drop_while] *)

Lemma take_while_app p a x :
  forallb p a = true -> match x with [] => true | c :: _ => negb (p c) end = true ->
  take_while p (a ++ x) = a.
Proof.
  intros Ha Hx. induction a as [|c a IH].
  - destruct x as [|d x]; [reflexivity|]. cbn [app take_while].
    apply negb_true_iff in Hx. rewrite Hx. reflexivity.
  - cbn [forallb] in Ha. apply andb_true_iff in Ha as [Hc Ha].
    cbn [app take_while]. rewrite Hc, (IH Ha). reflexivity.
Qed.

Lemma drop_while_app p a x :
  forallb p a = true -> match x with [] => true | c :: _ => negb (p c) end = true ->
  drop_while p (a ++ x) = x.
Proof.
  intros Ha Hx. induction a as [|c a IH].
  - destruct x as [|d x]; [reflexivity|]. cbn [app drop_while].
    apply negb_true_iff in Hx. rewrite Hx. reflexivity.
  - cbn [forallb] in Ha. apply andb_true_iff in Ha as [Hc Ha].
    cbn [app drop_while]. rewrite Hc. apply IH, Ha.
Qed.

Lemma text_eqb_refl t : text_eqb t t = true.
Proof. apply (list_eqb_spec N.eqb N.eqb_eq). reflexivity. Qed.

Lemma text_eqb_eq a b : text_eqb a b = true <-> a = b.
Proof. apply (list_eqb_spec N.eqb N.eqb_eq). Qed.

(* ------------------------------------------------------------------ *)
(** ** 2. Abstract syntax and the direct interpreter *)

(** an id argument: a literal, a [ν]-prefixed literal, a [$variable] *)
Inductive arg :=
| ALit (n : N)
| ANu (n : N)
| AVar (name : text).

(** a command; [l] is the text of the label, [bs] the data bytes *)
Inductive cmd :=
| CAdd (a : arg)
| CBind (a1 a2 : arg) (l : text)
| CPut (a : arg) (bs : list N).

(** the id an argument stands for.  A literal is itself (ids at or beyond
    the capacity all behave alike, see [clamp_id]); a variable is looked up
    in the table and, when absent, bound to a fresh [next_id()] *)
Definition resolve (vs : vars) (g : sodg) (a : arg) : outcome (vars * sodg * nat) :=
  match a with
  | ALit n => Ok (vs, g, clamp_id g n)
  | ANu n => Ok (vs, g, clamp_id g n)
  | AVar x =>
      match var_get vs x with
      | Some v => Ok (vs, g, v)
      | None => r <- op_next_id g ;; Ok ((x, snd r) :: vs, fst r, snd r)
      end
  end.

(** one command = its arguments resolved left to right, then one API call *)
Definition exec_cmd (n : nat) (vs : vars) (g : sodg) (c : cmd)
  : outcome (sres (vars * sodg)) :=
  match c with
  | CAdd a =>
      r <- resolve vs g a ;;
      match r with (vs1, g1, v) =>
        g2 <- op_add g1 v ;; Ok (SOk (vs1, g2))
      end
  | CBind a1 a2 l =>
      r1 <- resolve vs g a1 ;;
      match r1 with (vs1, g1, v1) =>
        r2 <- resolve vs1 g1 a2 ;;
        match r2 with (vs2, g2, v2) =>
          match label_from_str l with
          | Some lb => g3 <- op_bind n g2 v1 v2 lb ;; Ok (SOk (vs2, g3))
          | None => Ok (SErr g2)
          end
        end
      end
  | CPut a bs =>
      r <- resolve vs g a ;;
      match r with (vs1, g1, v) =>
        g2 <- op_put g1 v (from_vec bs) ;; Ok (SOk (vs1, g2))
      end
  end.

(** the commands in order; stops at the first [Err] *)
Fixpoint exec_run (n : nat) (vs : vars) (g : sodg) (prog : list cmd)
  : outcome (sres (vars * sodg)) :=
  match prog with
  | [] => Ok (SOk (vs, g))
  | c :: rest =>
      r <- exec_cmd n vs g c ;;
      match r with
      | SOk (vs1, g1) => exec_run n vs1 g1 rest
      | SErr g' => Ok (SErr g')
      end
  end.

(** what [deploy_to] reports: the graph, and the number of commands *)
Definition exec (n : nat) (vs : vars) (g : sodg) (prog : list cmd)
  : outcome (sodg * option nat) :=
  r <- exec_run n vs g prog ;;
  Ok (match r with
      | SOk (_, g') => (g', Some (length prog))
      | SErr g' => (g', None)
      end).

(* ------------------------------------------------------------------ *)
(** ** 3. Formats, renderer, well-formedness *)

(** *** gaps: white space and comments *)

Inductive gitem :=
| GWs (c : N)            (* one white-space character *)
| GCom (body : text).    (* a comment: # body LF *)

Definition gap := list gitem.

Definition gitem_text (i : gitem) : text :=
  match i with
  | GWs c => [c]
  | GCom b => ch_hash :: b ++ [ch_lf]
  end.

Definition gitem_ws (i : gitem) : text :=
  match i with GWs c => [c] | GCom _ => [] end.

Definition gap_text (gp : gap) : text := flat_map gitem_text gp.

(** the gap once its comments are gone *)
Definition gap_ws (gp : gap) : text := flat_map gitem_ws gp.

(** any Unicode white-space character; a comment body is anything without
    a line feed (the regex [#.*\n]: [.] does not match LF) *)
Definition legal_gitem (i : gitem) : bool :=
  match i with GWs c => is_ws c | GCom b => lacks ch_lf b end.

Definition legal_gap (gp : gap) : bool := forallb legal_gitem gp.

Definition legal_gaps (gs : gap * gap) : bool := legal_gap (fst gs) && legal_gap (snd gs).

(** *** data *)

(** per byte: what precedes it, the case of its two digits, and what
    stands between the two digits *)
Record bfmt := mkBF { bf_sep : text; bf_up1 : bool; bf_mid : text; bf_up2 : bool }.

Definition bf_default : bfmt := mkBF [] true [] true.

Definition hexdigit (up : bool) (d : N) : N :=
  if up then hexdigit_upper d else hexdigit_lower d.

Fixpoint tok_data (fs : list bfmt) (e : text) (bs : list N) : text :=
  match bs with
  | [] => e
  | b :: bs' =>
      let f := hd bf_default fs in
      bf_sep f ++ hexdigit (bf_up1 f) (b / 16) :: bf_mid f
        ++ hexdigit (bf_up2 f) (b mod 16) :: tok_data (tl fs) e bs'
  end.

(** separators inside data: blank, tab, LF, CR, dash (the DATA_STRIP regex) *)
Definition strip_text (t : text) : bool := forallb is_data_strip t.

Definition legal_bfmt (f : bfmt) : bool := strip_text (bf_sep f) && strip_text (bf_mid f).

(** *** commands *)

Record cfmt := mkCF {
  cf_pre : gap;          (* before the command name *)
  cf_sp : nat;           (* number of blanks between the name and ( *)
  cf_a1 : gap * gap;     (* around the first argument *)
  cf_a2 : gap * gap;     (* around the second argument *)
  cf_a3 : gap * gap;     (* around the third argument *)
  cf_data : list bfmt;   (* per data byte *)
  cf_dend : text;        (* after the last data byte *)
  cf_post : gap          (* between ) and ; *)
}.

Definition cf_default : cfmt := mkCF [] 0 ([], []) ([], []) ([], []) [] [] [].

Definition legal_cfmt (cf : cfmt) : bool :=
  legal_gap (cf_pre cf) && legal_gaps (cf_a1 cf) && legal_gaps (cf_a2 cf)
  && legal_gaps (cf_a3 cf) && forallb legal_bfmt (cf_data cf)
  && strip_text (cf_dend cf) && legal_gap (cf_post cf).

(** [f_cmds]: one entry per command (missing entries count as
    [cf_default]); [f_semi]: is the last command followed by [;];
    [f_end]: what follows the last command *)
Record fmt := mkF { f_cmds : list cfmt; f_semi : bool; f_end : gap }.

Definition legal_fmt (f : fmt) : bool :=
  forallb legal_cfmt (f_cmds f) && legal_gap (f_end f).

Definition tok_arg (a : arg) : text :=
  match a with
  | ALit n => print_dec n
  | ANu n => ch_nu :: print_dec n
  | AVar x => ch_dollar :: x
  end.

Definition cmd_name (c : cmd) : text :=
  match c with CAdd _ => t_ADD | CBind _ _ _ => t_BIND | CPut _ _ => t_PUT end.

Inductive piece := PTok (t : text) | PGap (gp : gap).

Definition piece_text (p : piece) : text :=
  match p with PTok t => t | PGap gp => gap_text gp end.

Definition flat (ps : list piece) : text := flat_map piece_text ps.

Definition lay_arg (gs : gap * gap) (t : text) : list piece :=
  [PGap (fst gs); PTok t; PGap (snd gs)].

Definition lay_args (cf : cfmt) (c : cmd) : list piece :=
  match c with
  | CAdd a => lay_arg (cf_a1 cf) (tok_arg a)
  | CBind a1 a2 l =>
      lay_arg (cf_a1 cf) (tok_arg a1) ++ PTok [ch_comma]
        :: lay_arg (cf_a2 cf) (tok_arg a2) ++ PTok [ch_comma]
        :: lay_arg (cf_a3 cf) l
  | CPut a bs =>
      lay_arg (cf_a1 cf) (tok_arg a) ++ PTok [ch_comma]
        :: lay_arg (cf_a2 cf) (tok_data (cf_data cf) (cf_dend cf) bs)
  end.

Definition lay_cmd (cf : cfmt) (c : cmd) : list piece :=
  PGap (cf_pre cf) :: PTok (cmd_name c) :: PTok (repeat ch_space (cf_sp cf))
    :: PTok [ch_lpar] :: lay_args cf c ++ [PTok [ch_rpar]; PGap (cf_post cf)].

(** [semi]: does a [;] follow the last command *)
Fixpoint lay_prog (semi : bool) (fs : list cfmt) (prog : list cmd) : list piece :=
  match prog with
  | [] => []
  | c :: cs =>
      lay_cmd (hd cf_default fs) c
        ++ (match cs with
            | [] => if semi then [PTok [ch_semi]] else []
            | _ => [PTok [ch_semi]]
            end)
        ++ lay_prog semi (tl fs) cs
  end.

(** the text of a script *)
Definition render (f : fmt) (prog : list cmd) : text :=
  flat (lay_prog (f_semi f) (f_cmds f) prog ++ [PGap (f_end f)]).

(** a sequence of commands, each followed by [;] *)
Definition render_cmds (fs : list cfmt) (prog : list cmd) : text :=
  flat (lay_prog true fs prog).

(** *** well-formedness *)

(** characters that end a token early *)
Definition special (c : N) : bool :=
  ((c =? ch_hash) || (c =? ch_comma) || (c =? ch_rpar) || (c =? ch_semi))%N.

Definition plain_text (t : text) : bool := forallb (fun c => negb (special c)) t.

(** - a number is a [usize];
    - a variable name (the text after [$]) has no [#] (a comment would start:
      STRIP_COMMENTS is applied to the whole script first), no [;] (commands
      are split there), no [)] (the LINE regex has [[^)]*] between the
      parentheses and [\)$] after), no [,] (arguments are split there), and
      does not end with white space (every argument is trimmed).  It may be
      empty. *)
Definition wf_arg (a : arg) : bool :=
  match a with
  | ALit n => (n <=? usize_max)%N
  | ANu n => (n <=? usize_max)%N
  | AVar x => plain_text x && nwl (rev x)
  end.

(** a label text: the same four characters are excluded for the same
    reasons, it neither starts nor ends with white space (trimmed) and is
    not empty (empty arguments are filtered out, the label would be missing) *)
Definition wf_ltext (l : text) : bool :=
  plain_text l && negb (isnil l) && nwl l && nwl (rev l).

(** data: at least one byte (DATA demands one), bytes are [u8] *)
Definition wf_cmd (c : cmd) : bool :=
  match c with
  | CAdd a => wf_arg a
  | CBind a1 a2 l => wf_arg a1 && wf_arg a2 && wf_ltext l
  | CPut a bs => wf_arg a && negb (isnil bs) && forallb wf_byte bs
  end.

Definition wf_prog (prog : list cmd) : bool := forallb wf_cmd prog.

(** every label of the script is accepted by [Label::from_str] *)
Definition labels_ok (prog : list cmd) : bool :=
  forallb (fun c => match c with
                    | CBind _ _ l => match label_from_str l with Some _ => true | None => false end
                    | _ => true
                    end) prog.

(* ------------------------------------------------------------------ *)
(** ** 4. The pipeline on a rendered script *)

(** *** character classes *)

Lemma ws_not_special c : is_ws c = true -> special c = false.
Proof. unfold is_ws, special, ch_hash, ch_comma, ch_rpar, ch_semi. lia. Qed.

Lemma digit_not_special c : is_digit c = true -> special c = false.
Proof. unfold is_digit, special, ch_hash, ch_comma, ch_rpar, ch_semi. lia. Qed.

Lemma digit_not_ws c : is_digit c = true -> is_ws c = false.
Proof. unfold is_digit, is_ws. lia. Qed.

Lemma plain_lacks x t : special x = true -> plain_text t = true -> lacks x t = true.
Proof.
  intros Hx. apply forallb_impl. intros c Hc.
  destruct (N.eqb_spec c x) as [->|Hne]; [|reflexivity].
  rewrite Hx in Hc. discriminate.
Qed.

Lemma plain_app a b : plain_text (a ++ b) = plain_text a && plain_text b.
Proof. apply forallb_app. Qed.

Lemma all_ws_plain t : all_ws t = true -> plain_text t = true.
Proof.
  apply forallb_impl. intros c Hc. rewrite (ws_not_special _ Hc). reflexivity.
Qed.

Lemma digits_plain t : forallb is_digit t = true -> plain_text t = true.
Proof.
  apply forallb_impl. intros c Hc. rewrite (digit_not_special _ Hc). reflexivity.
Qed.

Lemma all_ws_lacks x t : is_ws x = false -> all_ws t = true -> lacks x t = true.
Proof.
  intros Hx. apply forallb_impl. intros c Hc.
  destruct (N.eqb_spec c x) as [->|Hne]; [|reflexivity]. congruence.
Qed.

(** a text without white space is tight *)
Lemma nwl_forallb t : forallb (fun c => negb (is_ws c)) t = true -> nwl t = true.
Proof.
  destruct t as [|c t]; [reflexivity|]. cbn [forallb nwl]. intros H.
  apply andb_true_iff in H as [Hc _]. exact Hc.
Qed.

Lemma nwl_rev_forallb t : forallb (fun c => negb (is_ws c)) t = true -> nwl (rev t) = true.
Proof. intros H. apply nwl_forallb. rewrite forallb_rev. exact H. Qed.

Lemma nwl_app a b : nwl (a ++ b) = match a with [] => nwl b | _ => nwl a end.
Proof. destruct a; reflexivity. Qed.

(** *** gaps *)

Lemma gap_ws_cons i gp : gap_ws (i :: gp) = gitem_ws i ++ gap_ws gp.
Proof. reflexivity. Qed.

Lemma gap_text_cons i gp : gap_text (i :: gp) = gitem_text i ++ gap_text gp.
Proof. reflexivity. Qed.

Lemma gap_ws_all_ws gp : legal_gap gp = true -> all_ws (gap_ws gp) = true.
Proof.
  induction gp as [|i gp IH]; intros H; [reflexivity|].
  cbn [legal_gap forallb] in H. apply andb_true_iff in H as [Hi Hgp].
  rewrite gap_ws_cons. unfold all_ws. rewrite forallb_app.
  fold (all_ws (gap_ws gp)). rewrite (IH Hgp), andb_true_r.
  destruct i as [c|b]; cbn [gitem_ws forallb legal_gitem] in *; [|reflexivity].
  rewrite Hi. reflexivity.
Qed.

Lemma strip_gap gp rest :
  legal_gap gp = true ->
  strip_comments false (gap_text gp ++ rest) = gap_ws gp ++ strip_comments false rest.
Proof.
  induction gp as [|i gp IH]; intros H; [reflexivity|].
  cbn [legal_gap forallb] in H. apply andb_true_iff in H as [Hi Hgp].
  rewrite gap_ws_cons, gap_text_cons, <- !app_assoc.
  destruct i as [c|b]; cbn [gitem_text gitem_ws legal_gitem] in *.
  - rewrite (strip_tok [c]).
    + cbn [app]. rewrite (IH Hgp). reflexivity.
    + cbn [lacks forallb]. rewrite andb_true_r. apply negb_true_iff.
      destruct (N.eqb_spec c ch_hash) as [->|Hne]; [|reflexivity].
      vm_compute in Hi. discriminate.
  - cbn [app]. rewrite <- app_assoc. cbn [app].
    rewrite (strip_comment _ _ Hi). apply IH, Hgp.
Qed.

(** *** pieces *)

Definition piece_plain (p : piece) : text :=
  match p with PTok t => t | PGap gp => gap_ws gp end.

(** a piece list once its comments are gone *)
Definition plain (ps : list piece) : text := flat_map piece_plain ps.

Definition legal_piece (p : piece) : bool :=
  match p with PTok t => lacks ch_hash t | PGap gp => legal_gap gp end.

Lemma plain_cons p ps : plain (p :: ps) = piece_plain p ++ plain ps.
Proof. reflexivity. Qed.

Lemma flat_cons p ps : flat (p :: ps) = piece_text p ++ flat ps.
Proof. reflexivity. Qed.

Lemma strip_flat ps rest :
  forallb legal_piece ps = true ->
  strip_comments false (flat ps ++ rest) = plain ps ++ strip_comments false rest.
Proof.
  induction ps as [|p ps IH]; intros H; [reflexivity|].
  cbn [forallb] in H. apply andb_true_iff in H as [Hp Hps].
  rewrite flat_cons, plain_cons, <- !app_assoc.
  destruct p as [t|gp]; cbn [piece_text piece_plain legal_piece] in *.
  - rewrite (strip_tok _ _ Hp), (IH Hps). reflexivity.
  - rewrite (strip_gap _ _ Hp), (IH Hps). reflexivity.
Qed.

Lemma plain_app_pieces a b : plain (a ++ b) = plain a ++ plain b.
Proof. apply flat_map_app. Qed.

(** *** argument tokens *)

Lemma print_dec_plain n : plain_text (print_dec n) = true.
Proof. apply digits_plain, print_dec_all_digits. Qed.

Lemma print_dec_no_ws n : forallb (fun c => negb (is_ws c)) (print_dec n) = true.
Proof.
  apply (forallb_impl is_digit); [|apply print_dec_all_digits].
  intros c Hc. rewrite (digit_not_ws _ Hc). reflexivity.
Qed.

Lemma tok_arg_plain a : wf_arg a = true -> plain_text (tok_arg a) = true.
Proof.
  destruct a as [n|n|x]; cbn [wf_arg tok_arg]; intros H.
  - apply print_dec_plain.
  - cbn [plain_text forallb]. fold (plain_text (print_dec n)).
    rewrite print_dec_plain. reflexivity.
  - apply andb_true_iff in H as [H _]. cbn [plain_text forallb].
    fold (plain_text x). rewrite H. reflexivity.
Qed.

Lemma tok_arg_nonempty a : tok_arg a <> [].
Proof. destruct a as [n|n|x]; cbn [tok_arg]; try discriminate. apply print_dec_nonempty. Qed.

Lemma tok_arg_nwl a : nwl (tok_arg a) = true.
Proof.
  destruct a as [n|n|x]; cbn [tok_arg]; try reflexivity.
  apply nwl_forallb, print_dec_no_ws.
Qed.

Lemma tok_arg_nwr a : wf_arg a = true -> nwl (rev (tok_arg a)) = true.
Proof.
  destruct a as [n|n|x]; cbn [wf_arg tok_arg]; intros H.
  - apply nwl_rev_forallb, print_dec_no_ws.
  - apply nwl_rev_forallb. cbn [forallb]. rewrite print_dec_no_ws. reflexivity.
  - apply andb_true_iff in H as [_ H]. cbn [rev]. rewrite nwl_app.
    destruct (rev x); [reflexivity | exact H].
Qed.

(** *** data tokens *)

Definition is_hexc (c : N) : bool :=
  ((48 <=? c) && (c <=? 57) || (65 <=? c) && (c <=? 70) || (97 <=? c) && (c <=? 102))%N.

Lemma hexdigit_is_hexc up d : (d < 16)%N -> is_hexc (hexdigit up d) = true.
Proof.
  intros Hd. unfold is_hexc, hexdigit, hexdigit_upper, hexdigit_lower.
  destruct up; destruct (d <? 10)%N eqn:E; lia.
Qed.

Lemma hexval_lower d : (d < 16)%N -> hexval (hexdigit_lower d) = Some d.
Proof.
  intros Hd. unfold hexval, hexdigit_lower. destruct (d <? 10)%N eqn:E.
  - assert (((48 <=? 48 + d) && (48 + d <=? 57))%N = true) as -> by lia.
    f_equal. lia.
  - assert (((48 <=? 87 + d) && (87 + d <=? 57))%N = false) as -> by lia.
    assert (((65 <=? 87 + d) && (87 + d <=? 70))%N = false) as -> by lia.
    assert (((97 <=? 87 + d) && (87 + d <=? 102))%N = true) as -> by lia.
    f_equal. lia.
Qed.

Lemma hexval_hexdigit up d : (d < 16)%N -> hexval (hexdigit up d) = Some d.
Proof. destruct up; [apply hexval_upper | apply hexval_lower]. Qed.

Lemma hexc_not_strip c : is_hexc c = true -> is_data_strip c = false.
Proof. unfold is_hexc, is_data_strip, ch_dash. lia. Qed.

Lemma hexc_not_ws c : is_hexc c = true -> is_ws c = false.
Proof. unfold is_hexc, is_ws. lia. Qed.

Lemma hexc_not_special c : is_hexc c = true -> special c = false.
Proof. unfold is_hexc, special, ch_hash, ch_comma, ch_rpar, ch_semi. lia. Qed.

Lemma strip_not_special c : is_data_strip c = true -> special c = false.
Proof. unfold is_data_strip, special, ch_dash, ch_hash, ch_comma, ch_rpar, ch_semi. lia. Qed.

(** the characters of a data token *)
Definition datac (c : N) : bool := is_data_strip c || is_hexc c.

Lemma byte_nibbles b : wf_byte b = true -> (b / 16 < 16 /\ b mod 16 < 16)%N.
Proof. unfold wf_byte. intros H. split; lia. Qed.

Lemma legal_bfmts_hd fs :
  forallb legal_bfmt fs = true -> legal_bfmt (hd bf_default fs) = true.
Proof.
  destruct fs as [|f fs]; [reflexivity|]. cbn [forallb hd]. intros H.
  apply andb_true_iff in H as [H _]. exact H.
Qed.

Lemma legal_bfmts_tl fs :
  forallb legal_bfmt fs = true -> forallb legal_bfmt (tl fs) = true.
Proof.
  destruct fs as [|f fs]; [reflexivity|]. cbn [forallb tl]. intros H.
  apply andb_true_iff in H as [_ H]. exact H.
Qed.

Lemma strip_datac t : strip_text t = true -> forallb datac t = true.
Proof.
  apply forallb_impl. intros c Hc. unfold datac. rewrite Hc. reflexivity.
Qed.

Lemma tok_data_chars bs : forall fs e,
  forallb legal_bfmt fs = true -> strip_text e = true -> forallb wf_byte bs = true ->
  forallb datac (tok_data fs e bs) = true.
Proof.
  induction bs as [|b bs IH]; intros fs e Hfs He Hbs; cbn [tok_data].
  - apply strip_datac, He.
  - cbn [forallb] in Hbs. apply andb_true_iff in Hbs as [Hb Hbs].
    destruct (byte_nibbles _ Hb) as [H1 H2].
    pose proof (legal_bfmts_hd _ Hfs) as Hf. unfold legal_bfmt in Hf.
    apply andb_true_iff in Hf as [Hs Hm].
    rewrite forallb_app. cbn [forallb]. rewrite forallb_app. cbn [forallb].
    rewrite (strip_datac _ Hs), (strip_datac _ Hm).
    rewrite (IH _ _ (legal_bfmts_tl _ Hfs) He Hbs).
    assert (forall up d, (d < 16)%N -> datac (hexdigit up d) = true) as Hh.
    { intros up d Hd. unfold datac. rewrite (hexdigit_is_hexc up _ Hd). apply orb_true_r. }
    rewrite (Hh _ _ H1), (Hh _ _ H2). reflexivity.
Qed.

Lemma datac_plain t : forallb datac t = true -> plain_text t = true.
Proof.
  apply forallb_impl. intros c Hc. unfold datac in Hc.
  apply orb_true_iff in Hc as [Hc|Hc].
  - rewrite (strip_not_special _ Hc). reflexivity.
  - rewrite (hexc_not_special _ Hc). reflexivity.
Qed.

(** the hex digits of a data token *)
Fixpoint data_digits (fs : list bfmt) (bs : list N) : text :=
  match bs with
  | [] => []
  | b :: bs' =>
      let f := hd bf_default fs in
      hexdigit (bf_up1 f) (b / 16) :: hexdigit (bf_up2 f) (b mod 16)
        :: data_digits (tl fs) bs'
  end.

Definition keep_data (c : N) : bool := negb (is_data_strip c).

Lemma filter_strip_text t : strip_text t = true -> filter keep_data t = [].
Proof.
  induction t as [|c t IH]; intros H; [reflexivity|].
  cbn [strip_text forallb] in H. apply andb_true_iff in H as [Hc Ht].
  cbn [filter]. unfold keep_data at 1. rewrite Hc. cbn [negb]. apply IH, Ht.
Qed.

Lemma keep_hexdigit up d : (d < 16)%N -> keep_data (hexdigit up d) = true.
Proof.
  intros Hd. unfold keep_data. rewrite (hexc_not_strip _ (hexdigit_is_hexc up _ Hd)).
  reflexivity.
Qed.

Lemma filter_tok_data bs : forall fs e,
  forallb legal_bfmt fs = true -> strip_text e = true -> forallb wf_byte bs = true ->
  filter keep_data (tok_data fs e bs) = data_digits fs bs.
Proof.
  induction bs as [|b bs IH]; intros fs e Hfs He Hbs; cbn [tok_data data_digits].
  - apply filter_strip_text, He.
  - cbn [forallb] in Hbs. apply andb_true_iff in Hbs as [Hb Hbs].
    destruct (byte_nibbles _ Hb) as [H1 H2].
    pose proof (legal_bfmts_hd _ Hfs) as Hf. unfold legal_bfmt in Hf.
    apply andb_true_iff in Hf as [Hs Hm].
    rewrite filter_app, (filter_strip_text _ Hs). cbn [app filter].
    rewrite (keep_hexdigit _ _ H1).
    rewrite filter_app, (filter_strip_text _ Hm). cbn [app filter].
    rewrite (keep_hexdigit _ _ H2).
    rewrite (IH _ _ (legal_bfmts_tl _ Hfs) He Hbs). reflexivity.
Qed.

Lemma hex_decode_digits bs : forall fs,
  forallb wf_byte bs = true -> hex_decode (data_digits fs bs) = Some bs.
Proof.
  induction bs as [|b bs IH]; intros fs Hbs; [reflexivity|].
  cbn [forallb] in Hbs. apply andb_true_iff in Hbs as [Hb Hbs].
  destruct (byte_nibbles _ Hb) as [H1 H2].
  cbn [data_digits]. rewrite hex_decode_cons2.
  rewrite (hexval_hexdigit _ _ H1), (hexval_hexdigit _ _ H2), (IH _ Hbs).
  f_equal. f_equal. unfold wf_byte in Hb. lia.
Qed.

Lemma filter_trim_data t :
  forallb datac t = true -> filter keep_data (trim t) = filter keep_data t.
Proof.
  intros H. apply filter_trim. revert H. apply forallb_impl.
  intros c Hc. unfold datac in Hc. apply orb_true_iff in Hc as [Hc|Hc].
  - unfold keep_data. rewrite Hc. apply orb_true_r.
  - rewrite (hexc_not_ws _ Hc). reflexivity.
Qed.

(** [parse_data] of a rendered data token, trimmed as [fields] leaves it *)
Lemma parse_data_tok fs e bs :
  forallb legal_bfmt fs = true -> strip_text e = true ->
  bs <> [] -> forallb wf_byte bs = true ->
  parse_data (trim (tok_data fs e bs)) = Some (from_vec bs).
Proof.
  intros Hfs He Hne Hbs. unfold parse_data.
  change (fun c : N => negb (is_data_strip c)) with keep_data.
  rewrite (filter_trim_data _ (tok_data_chars _ _ _ Hfs He Hbs)).
  rewrite (filter_tok_data _ _ _ Hfs He Hbs).
  pose proof (hex_decode_digits _ fs Hbs) as Hd.
  destruct bs as [|b bs]; [congruence|].
  cbn [data_digits] in *. rewrite Hd. reflexivity.
Qed.

Lemma trim_tok_data_nonempty fs e bs :
  forallb legal_bfmt fs = true -> strip_text e = true ->
  bs <> [] -> forallb wf_byte bs = true ->
  trim (tok_data fs e bs) <> [].
Proof.
  intros Hfs He Hne Hbs E.
  pose proof (parse_data_tok _ _ _ Hfs He Hne Hbs) as H.
  rewrite E in H. discriminate.
Qed.

(** *** one command without its comments *)

Definition field (gs : gap * gap) (t : text) : text :=
  gap_ws (fst gs) ++ t ++ gap_ws (snd gs).

(** the text between the parentheses *)
Definition body (cf : cfmt) (c : cmd) : text :=
  match c with
  | CAdd a => field (cf_a1 cf) (tok_arg a)
  | CBind a1 a2 l =>
      field (cf_a1 cf) (tok_arg a1) ++ ch_comma
        :: field (cf_a2 cf) (tok_arg a2) ++ ch_comma :: field (cf_a3 cf) l
  | CPut a bs =>
      field (cf_a1 cf) (tok_arg a) ++ ch_comma
        :: field (cf_a2 cf) (tok_data (cf_data cf) (cf_dend cf) bs)
  end.

(** the command as [commands()] hands it to [deploy_one] *)
Definition core (cf : cfmt) (c : cmd) : text :=
  cmd_name c ++ repeat ch_space (cf_sp cf) ++ ch_lpar :: body cf c ++ [ch_rpar].

Lemma plain_lay_arg gs t : plain (lay_arg gs t) = field gs t.
Proof.
  unfold lay_arg, field. rewrite !plain_cons. cbn [piece_plain plain flat_map].
  rewrite app_nil_r. reflexivity.
Qed.

Lemma plain_lay_args cf c : plain (lay_args cf c) = body cf c.
Proof.
  destruct c as [a|a1 a2 l|a bs]; cbn [lay_args body];
    rewrite ?plain_app_pieces, ?plain_cons, ?plain_app_pieces, ?plain_cons, ?plain_lay_arg;
    cbn [piece_plain app]; reflexivity.
Qed.

Lemma plain_lay_cmd cf c :
  plain (lay_cmd cf c) = gap_ws (cf_pre cf) ++ core cf c ++ gap_ws (cf_post cf).
Proof.
  unfold lay_cmd, core. rewrite !plain_cons, plain_app_pieces, plain_lay_args, !plain_cons.
  cbn [piece_plain plain flat_map]. rewrite app_nil_r, <- !app_assoc. cbn [app].
  rewrite <- !app_assoc. cbn [app]. reflexivity.
Qed.

Lemma legal_gaps_inv gs :
  legal_gaps gs = true -> all_ws (gap_ws (fst gs)) = true /\ all_ws (gap_ws (snd gs)) = true.
Proof.
  unfold legal_gaps. intros H. apply andb_true_iff in H as [H1 H2].
  split; apply gap_ws_all_ws; assumption.
Qed.

Lemma field_plain gs t :
  legal_gaps gs = true -> plain_text t = true -> plain_text (field gs t) = true.
Proof.
  intros Hg Ht. destruct (legal_gaps_inv _ Hg) as [H1 H2].
  unfold field. rewrite !plain_app, Ht, (all_ws_plain _ H1), (all_ws_plain _ H2).
  reflexivity.
Qed.

Lemma trim_field gs t :
  legal_gaps gs = true -> nwl t = true -> nwl (rev t) = true -> trim (field gs t) = t.
Proof.
  intros Hg Ha Hb. destruct (legal_gaps_inv _ Hg) as [H1 H2].
  apply trim_pad_tight; assumption.
Qed.

Lemma trim_field_any gs t : legal_gaps gs = true -> trim (field gs t) = trim t.
Proof.
  intros Hg. destruct (legal_gaps_inv _ Hg) as [H1 H2]. apply trim_pad; assumption.
Qed.

Lemma special_hash : special ch_hash = true. Proof. reflexivity. Qed.
Lemma special_comma : special ch_comma = true. Proof. reflexivity. Qed.
Lemma special_rpar : special ch_rpar = true. Proof. reflexivity. Qed.
Lemma special_semi : special ch_semi = true. Proof. reflexivity. Qed.

(** what is known of a legal [cfmt] *)
Lemma legal_cfmt_inv cf :
  legal_cfmt cf = true ->
  legal_gap (cf_pre cf) = true /\ legal_gaps (cf_a1 cf) = true /\
  legal_gaps (cf_a2 cf) = true /\ legal_gaps (cf_a3 cf) = true /\
  forallb legal_bfmt (cf_data cf) = true /\ strip_text (cf_dend cf) = true /\
  legal_gap (cf_post cf) = true.
Proof.
  unfold legal_cfmt. intros H.
  repeat (apply andb_true_iff in H as [H ?]). repeat split; assumption.
Qed.

(** the texts of the arguments of a well-formed command are plain *)
Lemma wf_ltext_inv l :
  wf_ltext l = true ->
  plain_text l = true /\ l <> [] /\ nwl l = true /\ nwl (rev l) = true.
Proof.
  unfold wf_ltext. intros H. repeat (apply andb_true_iff in H as [H ?]).
  repeat split; try assumption. intros ->. discriminate.
Qed.

Lemma tok_data_plain cf bs :
  legal_cfmt cf = true -> forallb wf_byte bs = true ->
  plain_text (tok_data (cf_data cf) (cf_dend cf) bs) = true.
Proof.
  intros Hcf Hbs. destruct (legal_cfmt_inv _ Hcf) as (_ & _ & _ & _ & Hd & He & _).
  apply datac_plain, tok_data_chars; assumption.
Qed.

(** every field of the body is plain *)
Lemma body_lacks x cf c :
  special x = true -> (ch_comma =? x)%N = false ->
  legal_cfmt cf = true -> wf_cmd c = true -> lacks x (body cf c) = true.
Proof.
  intros Hx Hcx Hcf Hc.
  destruct (legal_cfmt_inv _ Hcf) as (_ & Hg1 & Hg2 & Hg3 & _ & _ & _).
  destruct c as [a|a1 a2 l|a bs]; cbn [wf_cmd body] in *.
  - apply (plain_lacks _ _ Hx), field_plain, tok_arg_plain; assumption.
  - apply andb_true_iff in Hc as [Hc Hl]. apply andb_true_iff in Hc as [Ha1 Ha2].
    destruct (wf_ltext_inv _ Hl) as (Hp & _).
    rewrite lacks_app, lacks_cons, lacks_app, lacks_cons, Hcx.
    rewrite !(plain_lacks _ _ Hx); auto using field_plain, tok_arg_plain.
  - apply andb_true_iff in Hc as [Hc Hbs]. apply andb_true_iff in Hc as [Ha _].
    rewrite lacks_app, lacks_cons, Hcx.
    rewrite !(plain_lacks _ _ Hx); auto using field_plain, tok_arg_plain, tok_data_plain.
Qed.

(** the argument list [deploy_one] works with *)
Definition cmd_fields (cf : cfmt) (c : cmd) : list text :=
  match c with
  | CAdd a => [tok_arg a]
  | CBind a1 a2 l => [tok_arg a1; tok_arg a2; l]
  | CPut a bs => [tok_arg a; trim (tok_data (cf_data cf) (cf_dend cf) bs)]
  end.

Lemma fields_body cf c :
  legal_cfmt cf = true -> wf_cmd c = true ->
  fields ch_comma (body cf c) = cmd_fields cf c.
Proof.
  intros Hcf Hc.
  destruct (legal_cfmt_inv _ Hcf) as (_ & Hg1 & Hg2 & Hg3 & Hd & He & _).
  assert (forall gs a, legal_gaps gs = true -> wf_arg a = true ->
            lacks ch_comma (field gs (tok_arg a)) = true) as Hla.
  { intros gs a Hgs Ha. apply (plain_lacks _ _ special_comma), field_plain; auto using tok_arg_plain. }
  assert (forall gs a, legal_gaps gs = true -> wf_arg a = true ->
            trim (field gs (tok_arg a)) = tok_arg a) as Hta.
  { intros gs a Hgs Ha. apply trim_field; auto using tok_arg_nwl, tok_arg_nwr. }
  destruct c as [a|a1 a2 l|a bs]; cbn [wf_cmd body cmd_fields] in *.
  - apply fields_last; auto using tok_arg_nonempty.
  - apply andb_true_iff in Hc as [Hc Hl]. apply andb_true_iff in Hc as [Ha1 Ha2].
    destruct (wf_ltext_inv _ Hl) as (Hp & Hne & Hl1 & Hl2).
    rewrite (fields_cons _ _ _ (tok_arg a1)); auto using tok_arg_nonempty.
    rewrite (fields_cons _ _ _ (tok_arg a2)); auto using tok_arg_nonempty.
    do 2 f_equal. apply fields_last; auto.
    + apply (plain_lacks _ _ special_comma), field_plain; assumption.
    + apply trim_field; assumption.
  - apply andb_true_iff in Hc as [Hc Hbs]. apply andb_true_iff in Hc as [Ha Hne].
    assert (bs <> []) as Hne' by (intros ->; discriminate).
    rewrite (fields_cons _ _ _ (tok_arg a)); auto using tok_arg_nonempty.
    f_equal. apply fields_last.
    + apply (plain_lacks _ _ special_comma), field_plain; auto using tok_data_plain.
    + apply trim_field_any, Hg2.
    + apply trim_tok_data_nonempty; assumption.
Qed.

(** *** the LINE regex *)

Lemma parse_line_shape name k bd :
  name <> [] -> forallb is_upper name = true -> lacks ch_rpar bd = true ->
  parse_line (name ++ repeat ch_space k ++ ch_lpar :: bd ++ [ch_rpar]) = Some (name, bd).
Proof.
  intros Hne Hup Hbd. unfold parse_line.
  assert (match repeat ch_space k ++ ch_lpar :: bd ++ [ch_rpar] with
          | [] => true | c :: _ => negb (is_upper c) end = true) as Hhd
    by (destruct k; reflexivity).
  rewrite (take_while_app _ _ _ Hup Hhd), (drop_while_app _ _ _ Hup Hhd).
  destruct name as [|c0 name']; [congruence|].
  rewrite drop_while_app.
  - rewrite N.eqb_refl, rev_app_distr. cbn [rev app].
    rewrite N.eqb_refl, existsb_rev, (lacks_existsb _ _ Hbd), rev_involutive.
    reflexivity.
  - clear. induction k as [|k IH]; [reflexivity|]. cbn [repeat forallb]. exact IH.
  - reflexivity.
Qed.

Lemma cmd_name_facts c :
  cmd_name c <> [] /\ forallb is_upper (cmd_name c) = true /\
  lacks ch_semi (cmd_name c) = true /\ lacks ch_hash (cmd_name c) = true /\
  nwl (cmd_name c) = true.
Proof. destruct c; repeat split; try reflexivity; discriminate. Qed.

Lemma parse_line_core cf c :
  legal_cfmt cf = true -> wf_cmd c = true ->
  parse_line (core cf c) = Some (cmd_name c, body cf c).
Proof.
  intros Hcf Hc. destruct (cmd_name_facts c) as (H1 & H2 & _).
  apply parse_line_shape; auto.
  apply body_lacks; auto.
Qed.

Lemma core_lacks_semi cf c :
  legal_cfmt cf = true -> wf_cmd c = true -> lacks ch_semi (core cf c) = true.
Proof.
  intros Hcf Hc. destruct (cmd_name_facts c) as (_ & _ & H3 & _).
  unfold core. rewrite lacks_app, lacks_app, lacks_cons, lacks_app, H3.
  rewrite lacks_repeat by reflexivity.
  rewrite body_lacks; auto.
Qed.

Lemma core_tight cf c : nwl (core cf c) = true /\ nwl (rev (core cf c)) = true /\ core cf c <> [].
Proof.
  destruct (cmd_name_facts c) as (H1 & _ & _ & _ & H5).
  unfold core. repeat split.
  - rewrite nwl_app. destruct (cmd_name c); [congruence | exact H5].
  - rewrite !rev_app_distr. cbn [rev]. rewrite !rev_app_distr. cbn [rev app]. reflexivity.
  - destruct (cmd_name c); [congruence | discriminate].
Qed.

(** *** arguments *)

Lemma parse_arg_number vs g n :
  (n <= usize_max)%N ->
  parse_arg vs g (print_dec n) = Ok (SOk (vs, g, clamp_id g n)).
Proof.
  intros Hn. pose proof (parse_usize_print_dec Hn) as Hp.
  destruct (print_dec_cons n) as (c & r & E & Hc & _).
  rewrite E in *. unfold parse_arg. rewrite Hp.
  apply is_digit_bounds in Hc.
  assert ((c =? ch_dollar)%N = false) as -> by (unfold ch_dollar; lia).
  assert ((c =? ch_nu)%N = false) as -> by (unfold ch_nu; lia).
  reflexivity.
Qed.

Lemma parse_arg_tok vs g a :
  wf_arg a = true ->
  parse_arg vs g (tok_arg a) = (r <- resolve vs g a ;; Ok (SOk r)).
Proof.
  destruct a as [m|m|x]; cbn [wf_arg tok_arg resolve obind]; intros H.
  - apply parse_arg_number. lia.
  - unfold parse_arg.
    assert ((ch_nu =? ch_dollar)%N = false) as -> by reflexivity.
    rewrite N.eqb_refl, parse_usize_print_dec by lia. reflexivity.
  - unfold parse_arg. rewrite N.eqb_refl.
    destruct (var_get vs x) as [v|]; [reflexivity|].
    destruct (op_next_id g) as [[g1 v]|k| |]; reflexivity.
Qed.

(** *** one command *)

Lemma deploy_one_core n vs g cf c :
  legal_cfmt cf = true -> wf_cmd c = true ->
  deploy_one n vs g (core cf c) = exec_cmd n vs g c.
Proof.
  intros Hcf Hc. unfold deploy_one.
  rewrite (parse_line_core _ _ Hcf Hc), (fields_body _ _ Hcf Hc).
  destruct (legal_cfmt_inv _ Hcf) as (_ & _ & _ & _ & Hd & He & _).
  destruct c as [a|a1 a2 l|a bs]; cbn [wf_cmd cmd_name cmd_fields exec_cmd] in *.
  - change (text_eqb t_ADD t_ADD) with true. cbv iota.
    rewrite (parse_arg_tok _ _ _ Hc).
    destruct (resolve vs g a) as [[[vs1 g1] v]|k| |]; reflexivity.
  - apply andb_true_iff in Hc as [Hc Hl]. apply andb_true_iff in Hc as [Ha1 Ha2].
    change (text_eqb t_BIND t_ADD) with false.
    change (text_eqb t_BIND t_BIND) with true. cbv iota.
    rewrite (parse_arg_tok _ _ _ Ha1).
    destruct (resolve vs g a1) as [[[vs1 g1] v1]|k| |]; cbn [obind]; try reflexivity.
    rewrite (parse_arg_tok _ _ _ Ha2).
    destruct (resolve vs1 g1 a2) as [[[vs2 g2] v2]|k| |]; reflexivity.
  - apply andb_true_iff in Hc as [Hc Hbs]. apply andb_true_iff in Hc as [Ha Hne].
    assert (bs <> []) as Hne' by (intros ->; discriminate).
    change (text_eqb t_PUT t_ADD) with false.
    change (text_eqb t_PUT t_BIND) with false.
    change (text_eqb t_PUT t_PUT) with true. cbv iota.
    rewrite (parse_arg_tok _ _ _ Ha).
    destruct (resolve vs g a) as [[[vs1 g1] v]|k| |]; cbn [obind]; try reflexivity.
    rewrite (parse_data_tok _ _ _ Hd He Hne' Hbs). reflexivity.
Qed.

(** *** the whole script: comments and [;] *)

Fixpoint cores (fs : list cfmt) (prog : list cmd) : list text :=
  match prog with
  | [] => []
  | c :: cs => core (hd cf_default fs) c :: cores (tl fs) cs
  end.

Lemma legal_cfmts_hd fs :
  forallb legal_cfmt fs = true -> legal_cfmt (hd cf_default fs) = true.
Proof.
  destruct fs as [|f fs]; [reflexivity|]. cbn [forallb hd]. intros H.
  apply andb_true_iff in H as [H _]. exact H.
Qed.

Lemma legal_cfmts_tl fs :
  forallb legal_cfmt fs = true -> forallb legal_cfmt (tl fs) = true.
Proof.
  destruct fs as [|f fs]; [reflexivity|]. cbn [forallb tl]. intros H.
  apply andb_true_iff in H as [_ H]. exact H.
Qed.

Lemma legal_lay_arg gs t :
  legal_gaps gs = true -> plain_text t = true -> forallb legal_piece (lay_arg gs t) = true.
Proof.
  unfold legal_gaps. intros Hg Ht. apply andb_true_iff in Hg as [H1 H2].
  unfold lay_arg. cbn [forallb legal_piece].
  rewrite H1, H2, (plain_lacks _ _ special_hash Ht). reflexivity.
Qed.

Lemma legal_lay_args cf c :
  legal_cfmt cf = true -> wf_cmd c = true -> forallb legal_piece (lay_args cf c) = true.
Proof.
  intros Hcf Hc.
  destruct (legal_cfmt_inv _ Hcf) as (_ & Hg1 & Hg2 & Hg3 & _ & _ & _).
  destruct c as [a|a1 a2 l|a bs]; cbn [wf_cmd lay_args] in *.
  - apply legal_lay_arg; auto using tok_arg_plain.
  - apply andb_true_iff in Hc as [Hc Hl]. apply andb_true_iff in Hc as [Ha1 Ha2].
    destruct (wf_ltext_inv _ Hl) as (Hp & _).
    rewrite forallb_app. cbn [forallb]. rewrite forallb_app. cbn [forallb].
    rewrite !legal_lay_arg; auto using tok_arg_plain.
  - apply andb_true_iff in Hc as [Hc Hbs]. apply andb_true_iff in Hc as [Ha _].
    rewrite forallb_app. cbn [forallb].
    rewrite !legal_lay_arg; auto using tok_arg_plain, tok_data_plain.
Qed.

Lemma legal_lay_cmd cf c :
  legal_cfmt cf = true -> wf_cmd c = true -> forallb legal_piece (lay_cmd cf c) = true.
Proof.
  intros Hcf Hc.
  destruct (legal_cfmt_inv _ Hcf) as (Hpre & _ & _ & _ & _ & _ & Hpost).
  destruct (cmd_name_facts c) as (_ & _ & _ & H4 & _).
  unfold lay_cmd. cbn [forallb legal_piece]. rewrite forallb_app. cbn [forallb legal_piece].
  rewrite Hpre, H4, Hpost, (legal_lay_args _ _ Hcf Hc).
  rewrite lacks_repeat by reflexivity. reflexivity.
Qed.

Lemma lay_prog_true_cons fs c cs :
  lay_prog true fs (c :: cs) =
  lay_cmd (hd cf_default fs) c ++ PTok [ch_semi] :: lay_prog true (tl fs) cs.
Proof. destruct cs; reflexivity. Qed.

Lemma lay_prog_cons2 semi fs c c' cs :
  lay_prog semi fs (c :: c' :: cs) =
  lay_cmd (hd cf_default fs) c ++ PTok [ch_semi] :: lay_prog semi (tl fs) (c' :: cs).
Proof. reflexivity. Qed.

Lemma lay_prog_false_one fs c :
  lay_prog false fs [c] = lay_cmd (hd cf_default fs) c.
Proof. cbn [lay_prog]. rewrite !app_nil_r. reflexivity. Qed.

Lemma legal_lay_prog semi prog : forall fs,
  forallb legal_cfmt fs = true -> wf_prog prog = true ->
  forallb legal_piece (lay_prog semi fs prog) = true.
Proof.
  induction prog as [|c cs IH]; intros fs Hfs Hp; [reflexivity|].
  cbn [wf_prog forallb] in Hp. apply andb_true_iff in Hp as [Hc Hcs].
  cbn [lay_prog]. rewrite !forallb_app.
  rewrite (legal_lay_cmd _ _ (legal_cfmts_hd _ Hfs) Hc).
  rewrite (IH _ (legal_cfmts_tl _ Hfs) Hcs).
  destruct cs; destruct semi; reflexivity.
Qed.

(** the text of one command up to its [;] *)
Lemma cmd_piece_facts cf c W :
  legal_cfmt cf = true -> wf_cmd c = true -> all_ws W = true ->
  lacks ch_semi (gap_ws (cf_pre cf) ++ core cf c ++ gap_ws (cf_post cf) ++ W) = true /\
  trim (gap_ws (cf_pre cf) ++ core cf c ++ gap_ws (cf_post cf) ++ W) = core cf c.
Proof.
  intros Hcf Hc HW.
  destruct (legal_cfmt_inv _ Hcf) as (Hpre & _ & _ & _ & _ & _ & Hpost).
  apply gap_ws_all_ws in Hpre, Hpost.
  destruct (core_tight cf c) as (T1 & T2 & _).
  assert (all_ws (gap_ws (cf_post cf) ++ W) = true) as Hr.
  { unfold all_ws. rewrite forallb_app. fold (all_ws (gap_ws (cf_post cf))). fold (all_ws W).
    rewrite Hpost, HW. reflexivity. }
  split.
  - rewrite lacks_app, lacks_app, (core_lacks_semi _ _ Hcf Hc).
    rewrite !all_ws_lacks by (assumption || reflexivity). reflexivity.
  - apply trim_pad_tight; assumption.
Qed.

Lemma fields_lay_prog_semi prog : forall fs R,
  forallb legal_cfmt fs = true -> wf_prog prog = true ->
  fields ch_semi (plain (lay_prog true fs prog) ++ R) = cores fs prog ++ fields ch_semi R.
Proof.
  induction prog as [|c cs IH]; intros fs R Hfs Hp; [reflexivity|].
  cbn [wf_prog forallb] in Hp. apply andb_true_iff in Hp as [Hc Hcs].
  pose proof (legal_cfmts_hd _ Hfs) as Hcf.
  rewrite lay_prog_true_cons, plain_app_pieces, plain_cons, plain_lay_cmd.
  cbn [piece_plain cores]. rewrite <- !app_assoc. cbn [app].
  destruct (cmd_piece_facts _ _ [] Hcf Hc eq_refl) as [L T].
  rewrite app_nil_r in L, T.
  rewrite (app_assoc (gap_ws _)), (app_assoc (_ ++ core _ _)), <- (app_assoc (gap_ws _)).
  rewrite (fields_cons _ _ _ (core (hd cf_default fs) c) L T).
  - rewrite (IH _ _ (legal_cfmts_tl _ Hfs) Hcs). reflexivity.
  - apply core_tight.
Qed.

Lemma fields_lay_prog_nosemi prog : forall fs W,
  forallb legal_cfmt fs = true -> wf_prog prog = true -> all_ws W = true ->
  fields ch_semi (plain (lay_prog false fs prog) ++ W) = cores fs prog.
Proof.
  induction prog as [|c cs IH]; intros fs W Hfs Hp HW.
  - cbn [lay_prog plain flat_map app cores]. apply fields_none.
    + apply all_ws_lacks; [reflexivity | exact HW].
    + apply trim_all_ws, HW.
  - cbn [wf_prog forallb] in Hp. apply andb_true_iff in Hp as [Hc Hcs].
    pose proof (legal_cfmts_hd _ Hfs) as Hcf.
    destruct cs as [|c' cs].
    + rewrite lay_prog_false_one, plain_lay_cmd. cbn [cores]. rewrite <- !app_assoc.
      destruct (cmd_piece_facts _ _ W Hcf Hc HW) as [L T].
      apply (fields_last _ _ _ L T). apply core_tight.
    + rewrite lay_prog_cons2, plain_app_pieces, plain_cons, plain_lay_cmd.
      cbn [piece_plain]. rewrite <- !app_assoc. cbn [app].
      destruct (cmd_piece_facts _ _ [] Hcf Hc eq_refl) as [L T].
      rewrite app_nil_r in L, T.
      rewrite (app_assoc (gap_ws _)), (app_assoc (_ ++ core _ _)), <- (app_assoc (gap_ws _)).
      rewrite (fields_cons _ _ _ (core (hd cf_default fs) c) L T).
      * cbn [cores]. f_equal.
        apply (IH (tl fs) W (legal_cfmts_tl _ Hfs) Hcs HW).
      * apply core_tight.
Qed.

Lemma legal_fmt_inv f :
  legal_fmt f = true -> forallb legal_cfmt (f_cmds f) = true /\ legal_gap (f_end f) = true.
Proof. unfold legal_fmt. intros H. apply andb_true_iff in H. exact H. Qed.

(** [commands()] of a rendered script *)
Lemma commands_render f prog :
  legal_fmt f = true -> wf_prog prog = true ->
  commands (render f prog) = cores (f_cmds f) prog.
Proof.
  intros Hf Hp. destruct (legal_fmt_inv _ Hf) as [Hfs He].
  unfold commands, render.
  rewrite <- (app_nil_r (flat _)), strip_flat.
  - cbn [strip_comments]. rewrite app_nil_r, plain_app_pieces.
    cbn [plain flat_map piece_plain]. rewrite app_nil_r.
    pose proof (gap_ws_all_ws _ He) as HW.
    destruct (f_semi f).
    + rewrite (fields_lay_prog_semi _ _ _ Hfs Hp), fields_none.
      * apply app_nil_r.
      * apply all_ws_lacks; [reflexivity | exact HW].
      * apply trim_all_ws, HW.
    + apply fields_lay_prog_nosemi; assumption.
  - rewrite forallb_app, (legal_lay_prog _ _ _ Hfs Hp). cbn [forallb legal_piece].
    rewrite He. reflexivity.
Qed.

(** [commands()] of rendered commands followed by any text *)
Lemma commands_render_cmds fs prog rest :
  forallb legal_cfmt fs = true -> wf_prog prog = true ->
  commands (render_cmds fs prog ++ rest) = cores fs prog ++ commands rest.
Proof.
  intros Hfs Hp. unfold commands, render_cmds.
  rewrite (strip_flat _ _ (legal_lay_prog true _ _ Hfs Hp)).
  apply fields_lay_prog_semi; assumption.
Qed.

(* ------------------------------------------------------------------ *)
(** ** 5. The main theorem *)

Lemma deploy_cores n prog : forall fs vs g more pos,
  forallb legal_cfmt fs = true -> wf_prog prog = true ->
  deploy_cmds n vs g (cores fs prog ++ more) pos =
  (r <- exec_run n vs g prog ;;
   match r with
   | SOk (vs1, g1) => deploy_cmds n vs1 g1 more (pos + length prog)
   | SErr g' => Ok (g', None)
   end).
Proof.
  induction prog as [|c cs IH]; intros fs vs g more pos Hfs Hp.
  - cbn [cores app exec_run obind length]. rewrite Nat.add_0_r. reflexivity.
  - cbn [wf_prog forallb] in Hp. apply andb_true_iff in Hp as [Hc Hcs].
    cbn [cores app deploy_cmds exec_run].
    rewrite (deploy_one_core _ _ _ _ _ (legal_cfmts_hd _ Hfs) Hc).
    destruct (exec_cmd n vs g c) as [[[vs1 g1]|g']|k| |]; cbn [obind]; try reflexivity.
    rewrite (IH _ _ _ _ _ (legal_cfmts_tl _ Hfs) Hcs).
    cbn [length]. rewrite Nat.add_succ_r. reflexivity.
Qed.

Theorem deploy_render n f prog g :
  wf_prog prog = true -> legal_fmt f = true ->
  op_deploy n g (render f prog) = exec n [] g prog.
Proof.
  intros Hp Hf. destruct (legal_fmt_inv _ Hf) as [Hfs _].
  unfold op_deploy, exec. rewrite (commands_render _ _ Hf Hp).
  rewrite <- (app_nil_r (cores _ _)), (deploy_cores _ _ _ _ _ _ _ Hfs Hp).
  destruct (exec_run n [] g prog) as [[[vs1 g1]|g']|k| |]; reflexivity.
Qed.

(** *** the count, and no [Err] from a well-formed script *)

Lemma exec_count n vs g prog g' c :
  exec n vs g prog = Ok (g', Some c) -> c = length prog.
Proof.
  unfold exec. destruct (exec_run n vs g prog) as [[[vs1 g1]|g'']|k| |];
    cbn [obind]; intros H; inversion H; reflexivity.
Qed.

Definition label_ok (c : cmd) : bool :=
  match c with
  | CBind _ _ l => match label_from_str l with Some _ => true | None => false end
  | _ => true
  end.

Lemma labels_ok_def prog : labels_ok prog = forallb label_ok prog.
Proof. reflexivity. Qed.

Lemma exec_cmd_no_err n vs g c g' :
  label_ok c = true -> exec_cmd n vs g c <> Ok (SErr g').
Proof.
  intros Hl. destruct c as [a|a1 a2 l|a bs]; cbn [exec_cmd label_ok] in *.
  - destruct (resolve vs g a) as [[[vs1 g1] v]|k| |]; cbn [obind]; try discriminate.
    destruct (op_add g1 v); cbn [obind]; discriminate.
  - destruct (resolve vs g a1) as [[[vs1 g1] v1]|k| |]; cbn [obind]; try discriminate.
    destruct (resolve vs1 g1 a2) as [[[vs2 g2] v2]|k| |]; cbn [obind]; try discriminate.
    destruct (label_from_str l) as [lb|]; [|discriminate].
    destruct (op_bind n g2 v1 v2 lb); cbn [obind]; discriminate.
  - destruct (resolve vs g a) as [[[vs1 g1] v]|k| |]; cbn [obind]; try discriminate.
    destruct (op_put g1 v (from_vec bs)); cbn [obind]; discriminate.
Qed.

Lemma exec_run_no_err n prog : forall vs g g',
  labels_ok prog = true -> exec_run n vs g prog <> Ok (SErr g').
Proof.
  induction prog as [|c cs IH]; intros vs g g' Hl; [discriminate|].
  rewrite labels_ok_def in Hl. cbn [forallb] in Hl. apply andb_true_iff in Hl as [Hc Hcs].
  cbn [exec_run]. pose proof (exec_cmd_no_err n vs g c) as Hne.
  destruct (exec_cmd n vs g c) as [[[vs1 g1]|g'']|k| |]; cbn [obind]; try discriminate.
  - apply IH, Hcs.
  - exfalso. apply (Hne g'' Hc). reflexivity.
Qed.

(** a script whose labels are valid never yields [Err]: if it returns at
    all (no panic of an API call), it returns the number of its commands *)
Lemma exec_total n vs g prog g' r :
  labels_ok prog = true -> exec n vs g prog = Ok (g', r) -> r = Some (length prog).
Proof.
  intros Hl. unfold exec. pose proof (exec_run_no_err n prog vs g) as Hne.
  destruct (exec_run n vs g prog) as [[[vs1 g1]|g'']|k| |]; cbn [obind]; intros H;
    inversion H; subst; try reflexivity.
  exfalso. apply (Hne g' Hl). reflexivity.
Qed.

(** *** variables: one [next_id()] per name *)

Lemma resolve_bound vs g x v :
  var_get vs x = Some v -> resolve vs g (AVar x) = Ok (vs, g, v).
Proof. intros H. cbn [resolve]. rewrite H. reflexivity. Qed.

Lemma resolve_fresh vs g x :
  var_get vs x = None ->
  resolve vs g (AVar x) = (r <- op_next_id g ;; Ok ((x, snd r) :: vs, fst r, snd r)).
Proof. intros H. cbn [resolve]. rewrite H. reflexivity. Qed.

Lemma resolve_literal vs g m :
  resolve vs g (ALit m) = Ok (vs, g, clamp_id g m) /\
  resolve vs g (ANu m) = Ok (vs, g, clamp_id g m).
Proof. split; reflexivity. Qed.

Lemma var_get_cons_same vs x v : var_get ((x, v) :: vs) x = Some v.
Proof. cbn [var_get]. rewrite text_eqb_refl. reflexivity. Qed.

(** after its resolution a variable is in the table, with the id it got *)
Lemma resolve_binds vs g x vs' g' v :
  resolve vs g (AVar x) = Ok (vs', g', v) -> var_get vs' x = Some v.
Proof.
  cbn [resolve]. destruct (var_get vs x) as [w|] eqn:E.
  - intros H. inversion H; subst. exact E.
  - destruct (op_next_id g) as [[g1 w]|k| |]; cbn [obind]; intros H; inversion H; subst.
    apply var_get_cons_same.
Qed.

(** and no entry of the table ever changes *)
Lemma resolve_keeps vs g a vs' g' v y w :
  resolve vs g a = Ok (vs', g', v) -> var_get vs y = Some w -> var_get vs' y = Some w.
Proof.
  destruct a as [m|m|x]; cbn [resolve]; intros H Hy; try (inversion H; subst; exact Hy).
  destruct (var_get vs x) as [u|] eqn:E.
  - inversion H; subst. exact Hy.
  - destruct (op_next_id g) as [[g1 u]|k| |]; cbn [obind] in H; inversion H; subst.
    cbn [var_get]. destruct (text_eqb x y) eqn:Exy; [|exact Hy].
    apply text_eqb_eq in Exy. subst. congruence.
Qed.

Lemma exec_cmd_keeps n vs g c vs' g' y w :
  exec_cmd n vs g c = Ok (SOk (vs', g')) -> var_get vs y = Some w -> var_get vs' y = Some w.
Proof.
  intros H Hy. destruct c as [a|a1 a2 l|a bs]; cbn [exec_cmd] in H.
  - destruct (resolve vs g a) as [[[vs1 g1] v]|k| |] eqn:E; cbn [obind] in H; try discriminate.
    destruct (op_add g1 v); cbn [obind] in H; inversion H; subst.
    eapply resolve_keeps; eassumption.
  - destruct (resolve vs g a1) as [[[vs1 g1] v1]|k| |] eqn:E1; cbn [obind] in H; try discriminate.
    destruct (resolve vs1 g1 a2) as [[[vs2 g2] v2]|k| |] eqn:E2; cbn [obind] in H; try discriminate.
    destruct (label_from_str l) as [lb|]; [|discriminate].
    destruct (op_bind n g2 v1 v2 lb); cbn [obind] in H; inversion H; subst.
    eapply resolve_keeps; [eassumption|]. eapply resolve_keeps; eassumption.
  - destruct (resolve vs g a) as [[[vs1 g1] v]|k| |] eqn:E; cbn [obind] in H; try discriminate.
    destruct (op_put g1 v (from_vec bs)); cbn [obind] in H; inversion H; subst.
    eapply resolve_keeps; eassumption.
Qed.

Lemma exec_run_keeps n prog : forall vs g vs' g' y w,
  exec_run n vs g prog = Ok (SOk (vs', g')) -> var_get vs y = Some w -> var_get vs' y = Some w.
Proof.
  induction prog as [|c cs IH]; intros vs g vs' g' y w H Hy; cbn [exec_run] in H.
  - inversion H; subst. exact Hy.
  - destruct (exec_cmd n vs g c) as [[[vs1 g1]|g'']|k| |] eqn:E; cbn [obind] in H; try discriminate.
    eapply IH; [eassumption|]. eapply exec_cmd_keeps; eassumption.
Qed.

(* ------------------------------------------------------------------ *)
(** ** 6. Malformed commands *)

(** an outcome that is a result or a panic (not a model artefact) *)
Definition fine {A} (x : outcome A) : Prop :=
  match x with Ok _ => True | Panic _ => True | _ => False end.

Lemma fine_obind {A B} (x : outcome A) (f : A -> outcome B) :
  fine x -> (forall a, fine (f a)) -> fine (obind x f).
Proof. destruct x; cbn [obind fine]; auto. Qed.

Lemma fine_chk_v g v : fine (chk_v g v).
Proof. unfold chk_v. destruct (v <? cap_of g); exact I. Qed.

Lemma fine_chk_b g b : fine (chk_b g b).
Proof. unfold chk_b. destruct ((b <? length (g_branches g)) && (b <? length (g_stores g))); exact I. Qed.

Lemma fine_push_member g b v : fine (push_member g b v).
Proof.
  unfold push_member. apply fine_obind; [apply fine_chk_b|]. intros _.
  destruct (length (members g b) <? MAX_BRANCH_SIZE); exact I.
Qed.

Lemma fine_add_store g b k : fine (add_store g b k).
Proof. unfold add_store. apply fine_obind; [apply fine_chk_b|]. intros _. exact I. Qed.

Lemma fine_mm_insert k e a v : fine (mm_insert k e a v).
Proof.
  unfold mm_insert. destruct (mm_replace e a v); [exact I|].
  destruct (length e <? k); exact I.
Qed.

Lemma fine_add g v : fine (op_add g v).
Proof.
  unfold op_add. apply fine_obind; [apply fine_chk_v|]. intros _.
  destruct (tag g v =? BRANCH_NONE); exact I.
Qed.

Lemma fine_put g v d : fine (op_put g v d).
Proof.
  unfold op_put. apply fine_obind; [apply fine_chk_v|]. intros _. cbv zeta.
  match goal with |- fine (if ?b then _ else _) => destruct b end;
    [apply fine_add_store | exact I].
Qed.

Lemma fine_next_id g : fine (op_next_id g).
Proof. unfold op_next_id. destruct (find _ _); exact I. Qed.

Lemma fine_bind n g v1 v2 a : fine (op_bind n g v1 v2 a).
Proof.
  unfold op_bind. apply fine_obind; [apply fine_chk_v|]. intros _.
  apply fine_obind; [apply fine_chk_v|]. intros _. cbv zeta.
  apply fine_obind; [apply fine_mm_insert|]. intros e'.
  repeat match goal with
         | |- fine (if ?b then _ else _) => destruct b
         | |- fine (let '(_, _) := ?x in _) => destruct x
         | |- fine (obind _ _) => apply fine_obind; [apply fine_push_member|intros ?]
         | |- fine (add_store _ _ _) => apply fine_add_store
         | |- fine (Ok _) => exact I
         end.
Qed.

(** *** arguments *)

Definition is_some {A} (o : option A) : bool :=
  match o with Some _ => true | None => false end.

(** the argument is an id in one of the three notations *)
Definition arg_ok (s : text) : bool :=
  match s with
  | [] => false
  | h :: t =>
      if (h =? ch_dollar)%N then true
      else if (h =? ch_nu)%N then is_some (parse_usize t)
      else is_some (parse_usize s)
  end.

(** everything [parse()] can do *)
Lemma parse_arg_cases vs g s :
  (arg_ok s = false /\ parse_arg vs g s = Ok (SErr g)) \/
  (arg_ok s = true /\
   ((exists v, parse_arg vs g s = Ok (SOk (vs, g, v))) \/
    (exists x g1 v, op_next_id g = Ok (g1, v) /\
                    parse_arg vs g s = Ok (SOk ((x, v) :: vs, g1, v))) \/
    (exists k, op_next_id g = Panic k /\ parse_arg vs g s = Panic k))).
Proof.
  destruct s as [|h t]; [left; split; reflexivity|].
  unfold parse_arg, arg_ok.
  destruct (h =? ch_dollar)%N.
  - right. split; [reflexivity|].
    destruct (var_get vs t) as [v|]; [left; exists v; reflexivity|].
    pose proof (fine_next_id g) as Hf.
    destruct (op_next_id g) as [[g1 v]|k| |]; cbn [obind fst snd]; try contradiction.
    + right; left. exists t, g1, v. split; reflexivity.
    + right; right. exists k. split; reflexivity.
  - destruct (h =? ch_nu)%N.
    + destruct (parse_usize t) as [m|]; cbn [is_some].
      * right. split; [reflexivity|]. left. eexists. reflexivity.
      * left. split; reflexivity.
    + destruct (parse_usize (h :: t)) as [m|]; cbn [is_some].
      * right. split; [reflexivity|]. left. eexists. reflexivity.
      * left. split; reflexivity.
Qed.

(** *** [deploy_one] *)

(** the command matches the LINE regex, has a known name, enough
    arguments, and every argument parses *)
Definition syntax_ok (c : text) : bool :=
  match parse_line c with
  | None => false
  | Some (name, raw) =>
      let args := fields ch_comma raw in
      if text_eqb name t_ADD then
        match args with
        | a1 :: _ => arg_ok a1
        | [] => false
        end
      else if text_eqb name t_BIND then
        match args with
        | a1 :: a2 :: a3 :: _ => arg_ok a1 && arg_ok a2 && is_some (label_from_str a3)
        | _ => false
        end
      else if text_eqb name t_PUT then
        match args with
        | a1 :: a2 :: _ => arg_ok a1 && is_some (parse_data a2)
        | _ => false
        end
      else false
  end.

(** [g'] is [g] after at most two [next_id()] calls *)
Definition allocated (g g' : sodg) : Prop :=
  g' = g \/
  (exists v, op_next_id g = Ok (g', v)) \/
  (exists g1 v1 v2, op_next_id g = Ok (g1, v1) /\ op_next_id g1 = Ok (g', v2)).

(** a panic of one of the four API calls *)
Definition api_panic (n : nat) (k : pkind) : Prop :=
  (exists g1, op_next_id g1 = Panic k) \/
  (exists g1 v, op_add g1 v = Panic k) \/
  (exists g1 v1 v2 l, op_bind n g1 v1 v2 l = Panic k) \/
  (exists g1 v d, op_put g1 v d = Panic k).

(** the complete classification of one step *)
Definition step_spec (n : nat) (g : sodg) (c : text) (r : outcome (sres (vars * sodg))) : Prop :=
  match r with
  | Ok (SOk _) => syntax_ok c = true
  | Ok (SErr g') => syntax_ok c = false /\ allocated g g'
  | Panic k => api_panic n k /\
               (syntax_ok c = false -> exists g1, op_next_id g1 = Panic k)
  | _ => False
  end.

Ltac use_arg s :=
  match goal with
  | |- context [parse_arg ?vs ?g s] =>
      let Hok := fresh "Hok" in
      let E := fresh "E" in
      let Hn := fresh "Hn" in
      destruct (parse_arg_cases vs g s)
        as [[Hok E]|[Hok [(? & E)|[(? & ? & ? & Hn & E)|(? & Hn & E)]]]];
      rewrite E, ?Hok; clear E; cbn [obind andb]
  end.

Ltac alloc0 := left; reflexivity.
Ltac alloc1 := right; left; eexists; eassumption.
Ltac alloc2 := right; right; do 3 eexists; split; eassumption.
Ltac panic_next := split; [left; eexists; eassumption | intros _; eexists; eassumption].
Ltac triv_false :=
  repeat match goal with
         | |- context [match ?l with [] => _ | _ :: _ => _ end] => is_var l; destruct l
         end;
  reflexivity.
Ltac fin :=
  first [ reflexivity
        | split; [triv_false | first [alloc0 | alloc1 | alloc2]]
        | panic_next ].

(** an API call: it returns, or its panic is the panic of the step *)
Ltac api_call :=
  match goal with
  | |- context [obind (op_add ?g ?v) _] =>
      let Hf := fresh "Hf" in let Ea := fresh "Ea" in
      pose proof (fine_add g v) as Hf;
      destruct (op_add g v) eqn:Ea; cbn [obind fine] in *; try contradiction;
      [reflexivity | split; [right; left; do 2 eexists; exact Ea | discriminate]]
  | |- context [obind (op_bind ?n ?g ?v1 ?v2 ?l) _] =>
      let Hf := fresh "Hf" in let Ea := fresh "Ea" in
      pose proof (fine_bind n g v1 v2 l) as Hf;
      destruct (op_bind n g v1 v2 l) eqn:Ea; cbn [obind fine] in *; try contradiction;
      [reflexivity | split; [right; right; left; do 4 eexists; exact Ea | discriminate]]
  | |- context [obind (op_put ?g ?v ?d) _] =>
      let Hf := fresh "Hf" in let Ea := fresh "Ea" in
      pose proof (fine_put g v d) as Hf;
      destruct (op_put g v d) eqn:Ea; cbn [obind fine] in *; try contradiction;
      [reflexivity | split; [right; right; right; do 3 eexists; exact Ea | discriminate]]
  end.

Lemma deploy_one_spec n vs g c : step_spec n g c (deploy_one n vs g c).
Proof.
  unfold deploy_one, step_spec, syntax_ok.
  destruct (parse_line c) as [[name raw]|]; [|fin].
  cbv zeta. destruct (text_eqb name t_ADD).
  { destruct (fields ch_comma raw) as [|a1 rest]; [fin|].
    use_arg a1; try fin; api_call. }
  destruct (text_eqb name t_BIND).
  { destruct (fields ch_comma raw) as [|a1 rest]; [fin|].
    use_arg a1; try fin.
    all: destruct rest as [|a2 rest2]; try fin.
    all: use_arg a2; try fin.
    all: destruct rest2 as [|a3 rest3]; try fin.
    all: destruct (label_from_str a3) as [lb|]; cbn [is_some]; try fin.
    all: api_call. }
  destruct (text_eqb name t_PUT).
  { destruct (fields ch_comma raw) as [|a1 rest]; [fin|].
    use_arg a1; try fin.
    all: destruct rest as [|a2 rest2]; try fin.
    all: destruct (parse_data a2) as [d|]; cbn [is_some]; try fin.
    all: api_call. }
  fin.
Qed.

Lemma deploy_one_err n vs g c g' :
  deploy_one n vs g c = Ok (SErr g') -> syntax_ok c = false /\ allocated g g'.
Proof. intros H. pose proof (deploy_one_spec n vs g c) as S. rewrite H in S. exact S. Qed.

Lemma deploy_one_ok n vs g c x :
  deploy_one n vs g c = Ok (SOk x) -> syntax_ok c = true.
Proof. intros H. pose proof (deploy_one_spec n vs g c) as S. rewrite H in S. exact S. Qed.

Lemma deploy_one_panic n vs g c k :
  deploy_one n vs g c = Panic k -> api_panic n k.
Proof. intros H. pose proof (deploy_one_spec n vs g c) as S. rewrite H in S. apply S. Qed.

Lemma deploy_one_fine n vs g c : fine (deploy_one n vs g c).
Proof.
  pose proof (deploy_one_spec n vs g c) as S.
  destruct (deploy_one n vs g c); cbn [step_spec fine] in *; auto.
Qed.

(** a malformed command gives [Err] (the allocator possibly advanced by its
    own [$variables]) -- or the panic of such an allocation, never another *)
Lemma deploy_one_bad n vs g c :
  syntax_ok c = false ->
  (exists g', deploy_one n vs g c = Ok (SErr g') /\ allocated g g') \/
  (exists k g1, deploy_one n vs g c = Panic k /\ op_next_id g1 = Panic k).
Proof.
  intros Hs. pose proof (deploy_one_spec n vs g c) as S.
  destruct (deploy_one n vs g c) as [[x|g']|k| |]; cbn [step_spec] in S; try contradiction.
  - congruence.
  - left. exists g'. split; [reflexivity | apply S].
  - right. destruct S as [_ S]. destruct (S Hs) as [g1 Hg1]. exists k, g1. split; auto.
Qed.

Lemma deploy_one_good n vs g c :
  syntax_ok c = true ->
  (exists x, deploy_one n vs g c = Ok (SOk x)) \/
  (exists k, deploy_one n vs g c = Panic k /\ api_panic n k).
Proof.
  intros Hs. pose proof (deploy_one_spec n vs g c) as S.
  destruct (deploy_one n vs g c) as [[x|g']|k| |]; cbn [step_spec] in S; try contradiction.
  - left. exists x. reflexivity.
  - destruct S as [S _]. congruence.
  - right. exists k. split; [reflexivity | apply S].
Qed.

(** *** the loop *)

(** the commands of a list applied in order: the state they leave *)
Fixpoint run_cmds (n : nat) (vs : vars) (g : sodg) (cs : list text)
  : outcome (sres (vars * sodg)) :=
  match cs with
  | [] => Ok (SOk (vs, g))
  | c :: rest =>
      r <- deploy_one n vs g c ;;
      match r with
      | SOk (vs1, g1) => run_cmds n vs1 g1 rest
      | SErr g' => Ok (SErr g')
      end
  end.

Lemma deploy_cmds_app n cs1 : forall vs g cs2 pos,
  deploy_cmds n vs g (cs1 ++ cs2) pos =
  (r <- run_cmds n vs g cs1 ;;
   match r with
   | SOk (vs1, g1) => deploy_cmds n vs1 g1 cs2 (pos + length cs1)
   | SErr g' => Ok (g', None)
   end).
Proof.
  induction cs1 as [|c cs IH]; intros vs g cs2 pos.
  - cbn [app run_cmds obind length]. rewrite Nat.add_0_r. reflexivity.
  - cbn [app deploy_cmds run_cmds length].
    destruct (deploy_one n vs g c) as [[[vs1 g1]|g']|k| |]; cbn [obind]; try reflexivity.
    rewrite IH, Nat.add_succ_r. reflexivity.
Qed.

(** the malformed command stops the run with [Err]; the commands before it
    have been applied *)
Lemma deploy_cmds_malformed n vs g cs1 c cs2 pos vs1 g1 g' :
  run_cmds n vs g cs1 = Ok (SOk (vs1, g1)) ->
  deploy_one n vs1 g1 c = Ok (SErr g') ->
  deploy_cmds n vs g (cs1 ++ c :: cs2) pos = Ok (g', None).
Proof.
  intros H1 H2. rewrite deploy_cmds_app, H1. cbn [obind deploy_cmds].
  rewrite H2. reflexivity.
Qed.

(** the whole run never is a model artefact, and panics only in an API call *)
Lemma deploy_cmds_fine n cs : forall vs g pos, fine (deploy_cmds n vs g cs pos).
Proof.
  induction cs as [|c cs IH]; intros vs g pos; [exact I|].
  cbn [deploy_cmds]. apply fine_obind; [apply deploy_one_fine|].
  intros [[vs1 g1]|g']; [apply IH | exact I].
Qed.

Lemma deploy_cmds_panic n cs : forall vs g pos k,
  deploy_cmds n vs g cs pos = Panic k -> api_panic n k.
Proof.
  induction cs as [|c cs IH]; intros vs g pos k; [discriminate|].
  cbn [deploy_cmds].
  destruct (deploy_one n vs g c) as [[[vs1 g1]|g']|k'| |] eqn:E; cbn [obind];
    try discriminate.
  - apply IH.
  - intros H. inversion H; subst. eapply deploy_one_panic, E.
Qed.

Lemma op_deploy_fine n g s : fine (op_deploy n g s).
Proof. apply deploy_cmds_fine. Qed.

Lemma op_deploy_panic n g s k : op_deploy n g s = Panic k -> api_panic n k.
Proof. apply deploy_cmds_panic. Qed.

(** *** a well-formed prefix followed by anything *)

Theorem deploy_prefix n fs prog rest g :
  wf_prog prog = true -> forallb legal_cfmt fs = true ->
  op_deploy n g (render_cmds fs prog ++ rest) =
  (r <- exec_run n [] g prog ;;
   match r with
   | SOk (vs1, g1) => deploy_cmds n vs1 g1 (commands rest) (length prog)
   | SErr g' => Ok (g', None)
   end).
Proof.
  intros Hp Hfs. unfold op_deploy.
  rewrite (commands_render_cmds _ _ rest Hfs Hp).
  apply (deploy_cores n prog fs [] g (commands rest) 0 Hfs Hp).
Qed.

(** a command text without [#] and [;], followed by [;] *)
Lemma commands_cons bad rest :
  lacks ch_hash bad = true -> lacks ch_semi bad = true -> trim bad <> [] ->
  commands (bad ++ ch_semi :: rest) = trim bad :: commands rest.
Proof.
  intros Hh Hs Hne. unfold commands. rewrite (strip_tok _ _ Hh).
  cbn [strip_comments]. cbn [N.eqb ch_semi ch_hash Pos.eqb andb].
  apply fields_cons; auto.
Qed.

Theorem deploy_malformed n fs prog bad rest g vs1 g1 :
  wf_prog prog = true -> forallb legal_cfmt fs = true ->
  lacks ch_hash bad = true -> lacks ch_semi bad = true -> trim bad <> [] ->
  syntax_ok (trim bad) = false ->
  exec_run n [] g prog = Ok (SOk (vs1, g1)) ->
  (exists g', op_deploy n g (render_cmds fs prog ++ bad ++ ch_semi :: rest) = Ok (g', None)
              /\ allocated g1 g') \/
  (exists k g2, op_deploy n g (render_cmds fs prog ++ bad ++ ch_semi :: rest) = Panic k
                /\ op_next_id g2 = Panic k).
Proof.
  intros Hp Hfs Hh Hs Hne Hbad Hrun.
  rewrite (deploy_prefix _ _ _ _ _ Hp Hfs), Hrun. cbn [obind].
  rewrite (commands_cons _ _ Hh Hs Hne). cbn [deploy_cmds].
  destruct (deploy_one_bad n vs1 g1 (trim bad) Hbad) as [(g' & E & Ha)|(k & g2 & E & Hk)];
    rewrite E; cbn [obind].
  - left. exists g'. split; [reflexivity | exact Ha].
  - right. exists k, g2. split; [reflexivity | exact Hk].
Qed.

(* ------------------------------------------------------------------ *)
(** ** 7. The renderer, unfolded (for the reader of P_C14.v) *)

Definition cmd_text (cf : cfmt) (c : cmd) : text := flat (lay_cmd cf c).

(** an argument with the gaps around it *)
Definition arg_text (gs : gap * gap) (t : text) : text :=
  gap_text (fst gs) ++ t ++ gap_text (snd gs).

Lemma flat_app_pieces a b : flat (a ++ b) = flat a ++ flat b.
Proof. apply flat_map_app. Qed.

Lemma flat_lay_arg gs t : flat (lay_arg gs t) = arg_text gs t.
Proof.
  unfold lay_arg, arg_text. rewrite !flat_cons. cbn [piece_text flat flat_map].
  rewrite app_nil_r. reflexivity.
Qed.

Lemma cmd_text_shape cf c :
  cmd_text cf c =
  gap_text (cf_pre cf) ++ cmd_name c ++ repeat ch_space (cf_sp cf) ++ ch_lpar
    :: flat (lay_args cf c) ++ ch_rpar :: gap_text (cf_post cf).
Proof.
  unfold cmd_text, lay_cmd. rewrite !flat_cons, flat_app_pieces, !flat_cons.
  cbn [piece_text flat flat_map]. rewrite app_nil_r. cbn [app]. reflexivity.
Qed.

Lemma cmd_text_add cf a :
  cmd_text cf (CAdd a) =
  gap_text (cf_pre cf) ++ t_ADD ++ repeat ch_space (cf_sp cf) ++ ch_lpar
    :: arg_text (cf_a1 cf) (tok_arg a)
    ++ ch_rpar :: gap_text (cf_post cf).
Proof. rewrite cmd_text_shape. cbn [lay_args cmd_name]. rewrite flat_lay_arg. reflexivity. Qed.

Lemma cmd_text_bind cf a1 a2 l :
  cmd_text cf (CBind a1 a2 l) =
  gap_text (cf_pre cf) ++ t_BIND ++ repeat ch_space (cf_sp cf) ++ ch_lpar
    :: (arg_text (cf_a1 cf) (tok_arg a1) ++ ch_comma
        :: arg_text (cf_a2 cf) (tok_arg a2) ++ ch_comma
        :: arg_text (cf_a3 cf) l)
    ++ ch_rpar :: gap_text (cf_post cf).
Proof.
  rewrite cmd_text_shape. cbn [lay_args cmd_name].
  rewrite flat_app_pieces, flat_cons, flat_app_pieces, flat_cons, !flat_lay_arg.
  cbn [piece_text app]. reflexivity.
Qed.

Lemma cmd_text_put cf a bs :
  cmd_text cf (CPut a bs) =
  gap_text (cf_pre cf) ++ t_PUT ++ repeat ch_space (cf_sp cf) ++ ch_lpar
    :: (arg_text (cf_a1 cf) (tok_arg a) ++ ch_comma
        :: arg_text (cf_a2 cf) (tok_data (cf_data cf) (cf_dend cf) bs))
    ++ ch_rpar :: gap_text (cf_post cf).
Proof.
  rewrite cmd_text_shape. cbn [lay_args cmd_name].
  rewrite flat_app_pieces, flat_cons, !flat_lay_arg.
  cbn [piece_text app]. reflexivity.
Qed.

Lemma render_nil f : render f [] = gap_text (f_end f).
Proof. unfold render. cbn [lay_prog app flat flat_map piece_text]. apply app_nil_r. Qed.

Lemma render_one f c :
  render f [c] =
  cmd_text (hd cf_default (f_cmds f)) c
    ++ (if f_semi f then [ch_semi] else []) ++ gap_text (f_end f).
Proof.
  unfold render, cmd_text. cbn [lay_prog]. rewrite !flat_app_pieces.
  destruct (f_semi f); cbn [flat flat_map piece_text]; rewrite ?app_nil_r, <- ?app_assoc;
    reflexivity.
Qed.

Lemma render_cons f c c' cs :
  render f (c :: c' :: cs) =
  cmd_text (hd cf_default (f_cmds f)) c
    ++ ch_semi :: render (mkF (tl (f_cmds f)) (f_semi f) (f_end f)) (c' :: cs).
Proof.
  unfold render, cmd_text. cbn [f_cmds f_semi f_end].
  rewrite lay_prog_cons2, <- app_assoc, flat_app_pieces. cbn [app].
  rewrite flat_cons. reflexivity.
Qed.

Lemma render_cmds_nil fs : render_cmds fs [] = [].
Proof. reflexivity. Qed.

Lemma render_cmds_cons fs c cs :
  render_cmds fs (c :: cs) =
  cmd_text (hd cf_default fs) c ++ ch_semi :: render_cmds (tl fs) cs.
Proof.
  unfold render_cmds, cmd_text. rewrite lay_prog_true_cons, flat_app_pieces, flat_cons.
  reflexivity.
Qed.

Lemma gap_text_nil : gap_text [] = [].
Proof. reflexivity. Qed.

Lemma gap_text_ws c gp : gap_text (GWs c :: gp) = c :: gap_text gp.
Proof. reflexivity. Qed.

Lemma gap_text_com b gp : gap_text (GCom b :: gp) = ch_hash :: b ++ ch_lf :: gap_text gp.
Proof. rewrite gap_text_cons. cbn [gitem_text app]. rewrite <- app_assoc. reflexivity. Qed.

Lemma tok_data_nil fs e : tok_data fs e [] = e.
Proof. reflexivity. Qed.

Lemma tok_data_cons fs e b bs :
  tok_data fs e (b :: bs) =
  bf_sep (hd bf_default fs) ++ hexdigit (bf_up1 (hd bf_default fs)) (b / 16)
    :: bf_mid (hd bf_default fs) ++ hexdigit (bf_up2 (hd bf_default fs)) (b mod 16)
    :: tok_data (tl fs) e bs.
Proof. reflexivity. Qed.

(** the boolean predicates, spelled out *)

Lemma legal_gap_spec gp :
  legal_gap gp = true <->
  forall i, In i gp ->
    match i with
    | GWs c => is_ws c = true
    | GCom b => ~ In ch_lf b
    end.
Proof.
  unfold legal_gap. rewrite forallb_forall. split; intros H i Hi; specialize (H i Hi).
  - destruct i as [c|b]; cbn [legal_gitem] in H; [exact H|].
    intros Hin. unfold lacks in H. rewrite forallb_forall in H.
    specialize (H _ Hin). rewrite N.eqb_refl in H. discriminate.
  - destruct i as [c|b]; cbn [legal_gitem]; [exact H|].
    unfold lacks. apply forallb_forall. intros c Hc.
    destruct (N.eqb_spec c ch_lf) as [->|Hne]; [contradiction | reflexivity].
Qed.

Lemma plain_text_spec t :
  plain_text t = true <->
  ~ In ch_hash t /\ ~ In ch_comma t /\ ~ In ch_rpar t /\ ~ In ch_semi t.
Proof.
  unfold plain_text. rewrite forallb_forall. split.
  - intros H. repeat split; intros Hin; specialize (H _ Hin); discriminate.
  - intros (H1 & H2 & H3 & H4) c Hc. unfold special.
    destruct (N.eqb_spec c ch_hash) as [->|?]; [contradiction|].
    destruct (N.eqb_spec c ch_comma) as [->|?]; [contradiction|].
    destruct (N.eqb_spec c ch_rpar) as [->|?]; [contradiction|].
    destruct (N.eqb_spec c ch_semi) as [->|?]; [contradiction|]. reflexivity.
Qed.

Lemma nwl_spec t : nwl t = true <-> (forall c r, t = c :: r -> is_ws c = false).
Proof.
  destruct t as [|c t]; cbn [nwl]; split; intros H.
  - intros c r E. discriminate.
  - reflexivity.
  - intros c' r E. inversion E; subst. apply negb_true_iff, H.
  - apply negb_true_iff. eapply H. reflexivity.
Qed.

Lemma nwr_spec t : nwl (rev t) = true <-> (forall c r, t = r ++ [c] -> is_ws c = false).
Proof.
  rewrite nwl_spec. split; intros H c r E.
  - apply (H c (rev r)). rewrite E, rev_app_distr. reflexivity.
  - apply (H c (rev r)). rewrite <- (rev_involutive t), E. reflexivity.
Qed.

Lemma strip_text_spec t :
  strip_text t = true <->
  forall c, In c t -> c = ch_space \/ c = ch_tab \/ c = ch_lf \/ c = ch_cr \/ c = ch_dash.
Proof.
  unfold strip_text. rewrite forallb_forall. split; intros H c Hc; specialize (H c Hc).
  - unfold is_data_strip, ch_space, ch_tab, ch_lf, ch_cr, ch_dash in *. lia.
  - unfold is_data_strip, ch_space, ch_tab, ch_lf, ch_cr, ch_dash in *. lia.
Qed.

(** the same for a script object whose variable table is not empty (a
    second [deploy_to] of one [Script]) *)
Theorem deploy_render_vars n f prog vs g :
  wf_prog prog = true -> legal_fmt f = true ->
  deploy_cmds n vs g (commands (render f prog)) 0 = exec n vs g prog.
Proof.
  intros Hp Hf. destruct (legal_fmt_inv _ Hf) as [Hfs _].
  unfold exec. rewrite (commands_render _ _ Hf Hp).
  rewrite <- (app_nil_r (cores _ _)), (deploy_cores _ _ _ _ _ _ _ Hfs Hp).
  destruct (exec_run n vs g prog) as [[[vs1 g1]|g']|k| |]; reflexivity.
Qed.

(* ------------------------------------------------------------------ *)
(** ** 7b. Definitions restated (the [C14_def_...] theorems of P_C14.v) *)

Lemma def_resolve vs g m x :
  resolve vs g (ALit m) = Ok (vs, g, clamp_id g m) /\
  resolve vs g (ANu m) = Ok (vs, g, clamp_id g m) /\
  (forall v, var_get vs x = Some v -> resolve vs g (AVar x) = Ok (vs, g, v)) /\
  (var_get vs x = None ->
   resolve vs g (AVar x) =
   (r <- op_next_id g ;; Ok ((x, snd r) :: vs, fst r, snd r))).
Proof.
  repeat split; try reflexivity.
  - intros v. apply resolve_bound.
  - apply resolve_fresh.
Qed.

Lemma def_exec_cmd n vs g a a1 a2 l bs :
  exec_cmd n vs g (CAdd a) =
    (r <- resolve vs g a ;;
     match r with (vs1, g1, v) => g2 <- op_add g1 v ;; Ok (SOk (vs1, g2)) end) /\
  exec_cmd n vs g (CBind a1 a2 l) =
    (r1 <- resolve vs g a1 ;;
     match r1 with (vs1, g1, v1) =>
       r2 <- resolve vs1 g1 a2 ;;
       match r2 with (vs2, g2, v2) =>
         match label_from_str l with
         | Some lb => g3 <- op_bind n g2 v1 v2 lb ;; Ok (SOk (vs2, g3))
         | None => Ok (SErr g2)
         end
       end
     end) /\
  exec_cmd n vs g (CPut a bs) =
    (r <- resolve vs g a ;;
     match r with (vs1, g1, v) =>
       g2 <- op_put g1 v (from_vec bs) ;; Ok (SOk (vs1, g2))
     end).
Proof. repeat split; reflexivity. Qed.

Lemma def_exec n vs g c prog :
  exec_run n vs g [] = Ok (SOk (vs, g)) /\
  exec_run n vs g (c :: prog) =
    (r <- exec_cmd n vs g c ;;
     match r with
     | SOk (vs1, g1) => exec_run n vs1 g1 prog
     | SErr g' => Ok (SErr g')
     end) /\
  exec n vs g prog =
    (r <- exec_run n vs g prog ;;
     Ok (match r with
         | SOk (_, g') => (g', Some (length prog))
         | SErr g' => (g', None)
         end)).
Proof. repeat split; reflexivity. Qed.

Lemma def_tokens m x :
  tok_arg (ALit m) = print_dec m /\
  tok_arg (ANu m) = ch_nu :: print_dec m /\
  tok_arg (AVar x) = ch_dollar :: x.
Proof. repeat split; reflexivity. Qed.

Lemma def_gap c b gp :
  gap_text [] = [] /\
  gap_text (GWs c :: gp) = c :: gap_text gp /\
  gap_text (GCom b :: gp) = ch_hash :: b ++ ch_lf :: gap_text gp.
Proof. repeat split; try reflexivity. apply gap_text_com. Qed.

Lemma def_data fs e b bs :
  tok_data fs e [] = e /\
  tok_data fs e (b :: bs) =
    bf_sep (hd bf_default fs) ++ hexdigit (bf_up1 (hd bf_default fs)) (b / 16)
      :: bf_mid (hd bf_default fs) ++ hexdigit (bf_up2 (hd bf_default fs)) (b mod 16)
      :: tok_data (tl fs) e bs.
Proof. split; reflexivity. Qed.

Lemma def_hexdigit d :
  hexdigit true d = hexdigit_upper d /\ hexdigit false d = hexdigit_lower d.
Proof. split; reflexivity. Qed.

Lemma def_cmd_text cf a a1 a2 l bs :
  cmd_text cf (CAdd a) =
    gap_text (cf_pre cf) ++ t_ADD ++ repeat ch_space (cf_sp cf) ++ ch_lpar
      :: arg_text (cf_a1 cf) (tok_arg a)
      ++ ch_rpar :: gap_text (cf_post cf) /\
  cmd_text cf (CBind a1 a2 l) =
    gap_text (cf_pre cf) ++ t_BIND ++ repeat ch_space (cf_sp cf) ++ ch_lpar
      :: (arg_text (cf_a1 cf) (tok_arg a1) ++ ch_comma
          :: arg_text (cf_a2 cf) (tok_arg a2) ++ ch_comma
          :: arg_text (cf_a3 cf) l)
      ++ ch_rpar :: gap_text (cf_post cf) /\
  cmd_text cf (CPut a bs) =
    gap_text (cf_pre cf) ++ t_PUT ++ repeat ch_space (cf_sp cf) ++ ch_lpar
      :: (arg_text (cf_a1 cf) (tok_arg a) ++ ch_comma
          :: arg_text (cf_a2 cf) (tok_data (cf_data cf) (cf_dend cf) bs))
      ++ ch_rpar :: gap_text (cf_post cf).
Proof. repeat split; [apply cmd_text_add | apply cmd_text_bind | apply cmd_text_put]. Qed.

Lemma def_arg_text gs t : arg_text gs t = gap_text (fst gs) ++ t ++ gap_text (snd gs).
Proof. reflexivity. Qed.

Lemma def_render f c c' cs :
  render f [] = gap_text (f_end f) /\
  render f [c] =
    cmd_text (hd cf_default (f_cmds f)) c
      ++ (if f_semi f then [ch_semi] else []) ++ gap_text (f_end f) /\
  render f (c :: c' :: cs) =
    cmd_text (hd cf_default (f_cmds f)) c
      ++ ch_semi :: render (mkF (tl (f_cmds f)) (f_semi f) (f_end f)) (c' :: cs).
Proof. repeat split; [apply render_nil | apply render_one | apply render_cons]. Qed.

Lemma def_render_cmds fs c cs :
  render_cmds fs [] = [] /\
  render_cmds fs (c :: cs) =
    cmd_text (hd cf_default fs) c ++ ch_semi :: render_cmds (tl fs) cs.
Proof. split; [reflexivity | apply render_cmds_cons]. Qed.

Lemma def_wf m x a a1 a2 l bs prog :
  wf_arg (ALit m) = (m <=? usize_max)%N /\
  wf_arg (ANu m) = (m <=? usize_max)%N /\
  wf_arg (AVar x) = plain_text x && nwl (rev x) /\
  wf_ltext l = plain_text l && negb (isnil l) && nwl l && nwl (rev l) /\
  wf_cmd (CAdd a) = wf_arg a /\
  wf_cmd (CBind a1 a2 l) = wf_arg a1 && wf_arg a2 && wf_ltext l /\
  wf_cmd (CPut a bs) = wf_arg a && negb (isnil bs) && forallb wf_byte bs /\
  wf_prog prog = forallb wf_cmd prog.
Proof. repeat split; reflexivity. Qed.

Lemma def_nwl t :
  (nwl t = true <-> (forall c r, t = c :: r -> is_ws c = false)) /\
  (nwl (rev t) = true <-> (forall c r, t = r ++ [c] -> is_ws c = false)).
Proof. split; [apply nwl_spec | apply nwr_spec]. Qed.

Lemma def_legal f cf bf :
  legal_fmt f = forallb legal_cfmt (f_cmds f) && legal_gap (f_end f) /\
  legal_cfmt cf =
    legal_gap (cf_pre cf) && legal_gaps (cf_a1 cf) && legal_gaps (cf_a2 cf)
    && legal_gaps (cf_a3 cf) && forallb legal_bfmt (cf_data cf)
    && strip_text (cf_dend cf) && legal_gap (cf_post cf) /\
  legal_bfmt bf = strip_text (bf_sep bf) && strip_text (bf_mid bf).
Proof. repeat split; reflexivity. Qed.

Lemma def_legal_gaps gs : legal_gaps gs = legal_gap (fst gs) && legal_gap (snd gs).
Proof. reflexivity. Qed.

Lemma def_labels_ok prog :
  labels_ok prog =
  forallb (fun c => match c with
                    | CBind _ _ l =>
                        match label_from_str l with Some _ => true | None => false end
                    | _ => true
                    end) prog.
Proof. reflexivity. Qed.

Lemma lacks_spec x t : lacks x t = true <-> ~ In x t.
Proof.
  unfold lacks. rewrite forallb_forall. split.
  - intros H Hin. specialize (H _ Hin). rewrite N.eqb_refl in H. discriminate.
  - intros H c Hc. destruct (N.eqb_spec c x) as [->|Hne]; [contradiction | reflexivity].
Qed.

Theorem deploy_render_count n f prog g g' r :
  wf_prog prog = true -> legal_fmt f = true -> labels_ok prog = true ->
  op_deploy n g (render f prog) = Ok (g', r) -> r = Some (length prog).
Proof.
  intros Hp Hf Hl. rewrite (deploy_render n f prog g Hp Hf). apply exec_total, Hl.
Qed.

Lemma variable_once vs g x vs' g' v :
  resolve vs g (AVar x) = Ok (vs', g', v) ->
  var_get vs' x = Some v /\
  (forall g2, resolve vs' g2 (AVar x) = Ok (vs', g2, v)).
Proof.
  intros H. pose proof (resolve_binds _ _ _ _ _ _ H) as Hb.
  split; [exact Hb|]. intros g2. apply resolve_bound, Hb.
Qed.

Lemma def_syntax_ok c :
  syntax_ok c =
  match parse_line c with
  | None => false
  | Some (name, raw) =>
      let args := fields ch_comma raw in
      if text_eqb name t_ADD then
        match args with
        | a1 :: _ => arg_ok a1
        | [] => false
        end
      else if text_eqb name t_BIND then
        match args with
        | a1 :: a2 :: a3 :: _ => arg_ok a1 && arg_ok a2 && is_some (label_from_str a3)
        | _ => false
        end
      else if text_eqb name t_PUT then
        match args with
        | a1 :: a2 :: _ => arg_ok a1 && is_some (parse_data a2)
        | _ => false
        end
      else false
  end.
Proof. reflexivity. Qed.

Lemma def_arg_ok s :
  arg_ok s =
  match s with
  | [] => false
  | h :: t =>
      if (h =? ch_dollar)%N then true
      else if (h =? ch_nu)%N then is_some (parse_usize t)
      else is_some (parse_usize s)
  end.
Proof. reflexivity. Qed.

Lemma def_allocated g g' :
  allocated g g' <->
  g' = g \/
  (exists v, op_next_id g = Ok (g', v)) \/
  (exists g1 v1 v2, op_next_id g = Ok (g1, v1) /\ op_next_id g1 = Ok (g', v2)).
Proof. reflexivity. Qed.

Lemma def_api_panic n k :
  api_panic n k <->
  (exists g1, op_next_id g1 = Panic k) \/
  (exists g1 v, op_add g1 v = Panic k) \/
  (exists g1 v1 v2 l, op_bind n g1 v1 v2 l = Panic k) \/
  (exists g1 v d, op_put g1 v d = Panic k).
Proof. reflexivity. Qed.

Lemma def_run_cmds n vs g c cs :
  run_cmds n vs g [] = Ok (SOk (vs, g)) /\
  run_cmds n vs g (c :: cs) =
    (r <- deploy_one n vs g c ;;
     match r with
     | SOk (vs1, g1) => run_cmds n vs1 g1 cs
     | SErr g' => Ok (SErr g')
     end).
Proof. split; reflexivity. Qed.

Lemma op_deploy_no_artefact n g s :
  op_deploy n g s <> OutOfFuel /\ op_deploy n g s <> Unmodelled.
Proof.
  pose proof (op_deploy_fine n g s) as H.
  split; intros E; rewrite E in H; exact H.
Qed.

(* ------------------------------------------------------------------ *)
(** ** 8. Example values (used by the [Example]s of P_C14.v) *)

Local Open Scope N_scope.

Definition sp (k : nat) : gap := repeat (GWs 32) k.

Definition x_nu1 : text := [957; 49].                      (* ν1 *)
Definition x_foo : text := [102; 111; 111].                (* foo *)
Definition x_privet : list N :=                            (* "привет" in UTF-8 *)
  [208; 191; 209; 128; 208; 184; 208; 178; 208; 181; 209; 130].

(** d0-bf-D1-80-d0-B8-d0-b2-d0-b5-d1-82 *)
Definition x_data_fmt : list bfmt :=
  [ mkBF [] false [] true; mkBF [45] false [] false; mkBF [45] true [] true;
    mkBF [45] true [] true; mkBF [45] false [] true; mkBF [45] true [] true;
    mkBF [45] false [] true; mkBF [45] false [] true; mkBF [45] false [] true;
    mkBF [45] false [] true; mkBF [45] false [] true; mkBF [45] true [] true ].

(** the script of the documentation of [Script] (src/lib.rs):
<<
ADD(0);
ADD($ν1); # adding new vertex
BIND(0, $ν1, foo);
PUT($ν1, d0-bf-D1-80-d0-B8-d0-b2-d0-b5-d1-82);
>> *)
Definition doc_prog : list cmd :=
  [ CAdd (ALit 0); CAdd (AVar x_nu1); CBind (ALit 0) (AVar x_nu1) x_foo;
    CPut (AVar x_nu1) x_privet ].

Definition doc_fmt : fmt :=
  mkF [ cf_default;
        mkCF [GWs 10] 0%nat ([], []) ([], []) ([], []) [] [] [];
        mkCF [GWs 32; GCom [32;97;100;100;105;110;103;32;110;101;119;32;118;101;114;116;101;120]]
             0%nat ([], []) ([GWs 32], []) ([GWs 32], []) [] [] [];
        mkCF [GWs 10] 0%nat ([], []) ([GWs 32], []) ([], []) x_data_fmt [] [] ]
      true [GWs 10].

Definition doc_text : text :=
  [65; 68; 68; 40; 48; 41; 59; 10; 65; 68; 68; 40; 36; 957; 49; 41; 59; 32; 35; 32; 97;
   100; 100; 105; 110; 103; 32; 110; 101; 119; 32; 118; 101; 114; 116; 101; 120; 10; 66;
   73; 78; 68; 40; 48; 44; 32; 36; 957; 49; 44; 32; 102; 111; 111; 41; 59; 10; 80; 85; 84;
   40; 36; 957; 49; 44; 32; 100; 48; 45; 98; 102; 45; 68; 49; 45; 56; 48; 45; 100; 48; 45;
   66; 56; 45; 100; 48; 45; 98; 50; 45; 100; 48; 45; 98; 53; 45; 100; 49; 45; 56; 50; 41;
   59; 10].

(** the script of the unit test [simple_command] of src/script.rs: leading
    and trailing blanks, [ν0], blanks before [,] and [)]
<<

        ADD(0);  ADD($ν1); # adding two vertices
        BIND(ν0, $ν1, foo  );
        PUT($ν1  , d0-bf-D1-80-d0-B8-d0-b2-d0-b5-d1-82);
        >> *)
Definition test_prog : list cmd :=
  [ CAdd (ALit 0); CAdd (AVar x_nu1); CBind (ANu 0) (AVar x_nu1) x_foo;
    CPut (AVar x_nu1) x_privet ].

Definition test_fmt : fmt :=
  mkF [ mkCF (GWs 10 :: sp 8%nat) 0%nat ([], []) ([], []) ([], []) [] [] [];
        mkCF (sp 2%nat) 0%nat ([], []) ([], []) ([], []) [] [] [];
        mkCF (GWs 32 :: GCom [32;97;100;100;105;110;103;32;116;119;111;32;118;101;114;116;105;99;101;115]
              :: sp 8%nat) 0%nat ([], []) ([GWs 32], []) ([GWs 32], sp 2%nat) [] [] [];
        mkCF (GWs 10 :: sp 8%nat) 0%nat ([], sp 2%nat) ([GWs 32], []) ([], []) x_data_fmt [] [] ]
      true (GWs 10 :: sp 8%nat).

Definition test_text : text :=
  [10; 32; 32; 32; 32; 32; 32; 32; 32; 65; 68; 68; 40; 48; 41; 59; 32; 32; 65; 68; 68; 40;
   36; 957; 49; 41; 59; 32; 35; 32; 97; 100; 100; 105; 110; 103; 32; 116; 119; 111; 32;
   118; 101; 114; 116; 105; 99; 101; 115; 10; 32; 32; 32; 32; 32; 32; 32; 32; 66; 73; 78;
   68; 40; 957; 48; 44; 32; 36; 957; 49; 44; 32; 102; 111; 111; 32; 32; 41; 59; 10; 32; 32;
   32; 32; 32; 32; 32; 32; 80; 85; 84; 40; 36; 957; 49; 32; 32; 44; 32; 100; 48; 45; 98;
   102; 45; 68; 49; 45; 56; 48; 45; 100; 48; 45; 66; 56; 45; 100; 48; 45; 98; 50; 45; 100;
   48; 45; 98; 53; 45; 100; 49; 45; 56; 50; 41; 59; 10; 32; 32; 32; 32; 32; 32; 32; 32].

(** a free format: tabs, a comment inside a command, blanks before [(], a
    no-break space, separators inside the data, no final [;]
<<
ADD  (\t7 # seven
 ) ;PUT(7,  -0 a\nFf-) >> *)
Definition odd_prog : list cmd := [ CAdd (ALit 7); CPut (ALit 7) [10; 255] ].

Definition odd_fmt : fmt :=
  mkF [ mkCF [] 2%nat ([GWs 9], [GWs 32; GCom [32;115;101;118;101;110]; GWs 32]) ([], []) ([], [])
             [] [] [GWs 32];
        mkCF [] 0%nat ([], []) ([GWs 160], []) ([], [])
             [mkBF [32; 45] true [32] false; mkBF [10] true [] false] [45] [GWs 32] ]
      false [].

Definition odd_text : text :=
  [65;68;68;32;32;40;9;55;32;35;32;115;101;118;101;110;10;32;41;32;59;
   80;85;84;40;55;44;160;32;45;48;32;97;10;70;102;45;41;32].

(** "ADD(0); ADD(x); ADD(1);": the second command is malformed *)
Definition bad_prefix : list cmd := [ CAdd (ALit 0) ].
Definition bad_cmd : text := [32; 65; 68; 68; 40; 120; 41].       (* " ADD(x)" *)
Definition bad_rest : text := [32; 65; 68; 68; 40; 49; 41; 59].   (* " ADD(1);" *)

(** "BIND($a, x, l)": fails after [$a] took an id *)
Definition bad_bind : text := [66;73;78;68;40;36;97;44;32;120;44;32;108;41].
