(** * Slice: model of src/slice.rs ([slice], [slice_some]). *)

From Sodg Require Export Sodg Print.

Definition pred := nat -> nat -> label -> bool.

(** one pass over the edges of [v]: every target that is not yet in [done]
    and whose edge the predicate accepts joins [done] and [todo] *)
Fixpoint scan_edges (p : pred) (v : nat) (es : edges) (done todo : list nat)
  : list nat * list nat :=
  match es with
  | [] => (done, todo)
  | (a, to) :: rest =>
      if mem to done then scan_edges p v rest done todo
      else if negb (p v to a) then scan_edges p v rest done todo
      else scan_edges p v rest (to :: done) (to :: todo)
  end.

(** the [for v in before] loop *)
Fixpoint scan_batch (p : pred) (g : sodg) (before : list nat) (done todo : list nat)
  : outcome (list nat * list nat) :=
  match before with
  | [] => Ok (done, todo)
  | v :: rest =>
      let done1 := if mem v done then done else v :: done in
      _ <- chk_v g v ;;
      let '(done2, todo2) := scan_edges p v (edg g v) done1 todo in
      scan_batch p g rest done2 todo2
  end.

(** the outer [loop]; [order] stands for the iteration order of
    [HashSet::drain] (any permutation of its argument); every round with a
    non-empty [todo] adds at least one vertex to [done], hence the fuel *)
Fixpoint closure (fuel : nat) (order : list nat -> list nat) (p : pred) (g : sodg)
  (done todo : list nat) : outcome (list nat) :=
  match fuel with
  | O => OutOfFuel
  | S f =>
      match todo with
      | [] => Ok done
      | _ => r <- scan_batch p g (order todo) done [] ;; closure f order p g (fst r) (snd r)
      end
  end.

(** the rebuild loop over the kept vertices in ascending id order *)
Fixpoint rebuild_edges (n : nat) (ng : sodg) (done : list nat) (v1 : nat) (es : edges)
  : outcome sodg :=
  match es with
  | [] => Ok ng
  | (k, v2) :: rest =>
      if mem v2 done then
        ng1 <- op_add ng v2 ;;
        ng2 <- op_bind n ng1 v1 v2 k ;;
        rebuild_edges n ng2 done v1 rest
      else rebuild_edges n ng done v1 rest
  end.

Fixpoint rebuild (n : nat) (g ng : sodg) (done : list nat) (vs : list nat) : outcome sodg :=
  match vs with
  | [] => Ok ng
  | v1 :: rest =>
      if mem v1 done then
        ng1 <- op_add ng v1 ;;
        ng2 <- rebuild_edges n ng1 done v1 (edg g v1) ;;
        rebuild n g ng2 done rest
      else rebuild n g ng done rest
  end.

(** [slice_some(v, p)]; [n] is the const generic [N] *)
Definition op_slice_some (n : nat) (order : list nat -> list nat) (g : sodg) (v : nat) (p : pred)
  : outcome sodg :=
  done <- closure (cap_of g + 2) order p g [] [v] ;;
  rebuild n g (op_empty (cap_of g)) done (iota (cap_of g)).

(** [slice(v)] *)
Definition op_slice (n : nat) (order : list nat -> list nat) (g : sodg) (v : nat) : outcome sodg :=
  op_slice_some n order g v (fun _ _ _ => true).
