(** * C10  clone() is an exact, independent copy

    "A clone answers every query as the original does and, given the same
    subsequent calls, keeps doing so, including which vertices get collected
    and which ids next_id() returns.  Mutating either graph never changes any
    answer of the other."

    clone.rs copies the four fields of the graph (the three emaps slot by slot,
    the member stacks by their used prefix, the allocator position); on the
    immutable values of the model that is the identity: [C10_clone_exact].
    Equal states have equal futures, for every continuation:
    [C10_same_future].  Independence (no aliasing between the two Rust values)
    cannot be expressed on immutable values; it is covered by the
    correspondence check only (each copy is mutated while the other is
    observed), see DESIGN.md section 12 -- this property is labelled partial
    there. *)

From Sodg Require Import HistoryThms.

Theorem C10_clone_exact :
  forall g, op_clone g = g.
Proof. exact clone_exact. Qed.

Check C10_clone_exact :
  forall g, op_clone g = g.
Print Assumptions C10_clone_exact.

Theorem C10_same_future :
  forall n g os, run n (op_clone g) os = run n g os.
Proof. exact clone_same_future. Qed.

Check C10_same_future :
  forall n g os, run n (op_clone g) os = run n g os.
Print Assumptions C10_same_future.

Theorem C10_same_observers :
  forall g,
  op_keys (op_clone g) = op_keys g /\ g_next (op_clone g) = g_next g
  /\ (forall v, op_kids (op_clone g) v = op_kids g v)
  /\ (forall v a, op_kid (op_clone g) v a = op_kid g v a)
  /\ (forall v, op_data (op_clone g) v = op_data g v)
  /\ op_next_id (op_clone g) = op_next_id g.
Proof. exact clone_observers. Qed.

Check C10_same_observers :
  forall g,
  op_keys (op_clone g) = op_keys g /\ g_next (op_clone g) = g_next g
  /\ (forall v, op_kids (op_clone g) v = op_kids g v)
  /\ (forall v a, op_kid (op_clone g) v a = op_kid g v a)
  /\ (forall v, op_data (op_clone g) v = op_data g v)
  /\ op_next_id (op_clone g) = op_next_id g.
Print Assumptions C10_same_observers.

