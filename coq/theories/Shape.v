(** * Shape: no call ever changes the capacity of the vertex store nor the
    sizes of the two group tables (unconditional facts about the model). *)

From Sodg Require Export Effects.

Definition same_shape (g g' : sodg) : Prop :=
  cap_of g' = cap_of g /\ nb g' = nb g /\ ns g' = ns g.

Lemma same_shape_refl g : same_shape g g.
Proof. repeat split. Qed.

Lemma same_shape_trans a b c : same_shape a b -> same_shape b c -> same_shape a c.
Proof. intros (A1 & A2 & A3) (B1 & B2 & B3). repeat split; congruence. Qed.

Ltac shape_setters := unfold same_shape; sodg_rw; repeat split; reflexivity.

Lemma push_member_shape g b v g' : push_member g b v = Ok g' -> same_shape g g'.
Proof.
  unfold push_member. destruct (chk_b g b); cbn [obind]; try discriminate.
  destruct (_ <? _); [|discriminate]. intros H; injection H as <-. shape_setters.
Qed.

Lemma add_store_shape g b k g' : add_store g b k = Ok g' -> same_shape g g'.
Proof.
  unfold add_store. destruct (chk_b g b); cbn [obind]; try discriminate.
  intros H; injection H as <-. shape_setters.
Qed.

Lemma kill_shape : forall ms g g', kill g ms = Ok g' -> same_shape g g'.
Proof.
  induction ms as [|m t IH]; intros g g' H; cbn [kill] in H.
  - injection H as <-. apply same_shape_refl.
  - destruct (chk_v g m); cbn [obind] in H; try discriminate.
    apply IH in H. eapply same_shape_trans; [|exact H]. shape_setters.
Qed.

Lemma op_add_shape g v g' : op_add g v = Ok g' -> same_shape g g'.
Proof.
  unfold op_add. destruct (chk_v g v); cbn [obind]; try discriminate.
  destruct (_ =? _); intros H; injection H as <-; [shape_setters|apply same_shape_refl].
Qed.

Lemma op_put_shape g v d g' : op_put g v d = Ok g' -> same_shape g g'.
Proof.
  unfold op_put. destruct (chk_v g v); cbn [obind]; try discriminate.
  destruct (_ && _).
  - intros H. apply add_store_shape in H. eapply same_shape_trans; [|exact H]. shape_setters.
  - intros H; injection H as <-. shape_setters.
Qed.

Lemma op_bind_shape n g v1 v2 a g' : op_bind n g v1 v2 a = Ok g' -> same_shape g g'.
Proof.
  unfold op_bind. destruct (chk_v g v1); cbn [obind]; try discriminate.
  destruct (chk_v g v2); cbn [obind]; try discriminate.
  destruct (mm_insert n (edg g v1) a v2) as [e'| | |]; cbn [obind]; try discriminate.
  destruct (tag g v1 =? BRANCH_STATIC).
  - destruct (tag g v2 =? BRANCH_STATIC).
    + destruct (first_empty (set_edges g v1 e')) as [b|].
      * destruct (push_member _ _ _) as [g4| | |] eqn:P; cbn [obind]; try discriminate.
        intros H. apply add_store_shape in H. apply push_member_shape in P.
        eapply same_shape_trans; [|exact H]. eapply same_shape_trans; [|exact P]. shape_setters.
      * destruct (push_member _ _ _) as [g4| | |] eqn:P; cbn [obind]; try discriminate.
        intros H. apply add_store_shape in H. apply push_member_shape in P.
        eapply same_shape_trans; [|exact H]. eapply same_shape_trans; [|exact P]. shape_setters.
    + destruct (push_member _ _ _) as [g4| | |] eqn:P; cbn [obind]; try discriminate.
      intros H. apply add_store_shape in H. apply push_member_shape in P.
      eapply same_shape_trans; [|exact H]. eapply same_shape_trans; [|exact P]. shape_setters.
  - destruct (tag (set_edges g v1 e') v2 =? BRANCH_STATIC).
    + destruct (push_member _ _ _) as [g4| | |] eqn:P; cbn [obind]; try discriminate.
      intros H. apply add_store_shape in H. apply push_member_shape in P.
      eapply same_shape_trans; [|exact H]. eapply same_shape_trans; [|exact P]. shape_setters.
    + intros H; injection H as <-. shape_setters.
Qed.

Lemma op_data_shape g v g' r : op_data g v = Ok (g', r) -> same_shape g g'.
Proof.
  unfold op_data. destruct (chk_v g v); cbn [obind]; try discriminate.
  destruct (v_pers (vtx g v)).
  - intros H; injection H as <- <-. apply same_shape_refl.
  - destruct (_ =? BRANCH_STATIC).
    + intros H; injection H as <- <-. shape_setters.
    + destruct (chk_b _ _); cbn [obind]; try discriminate.
      destruct (_ =? 0); [discriminate|].
      destruct (_ =? 0).
      * destruct (kill _ _) as [g3| | |] eqn:K; cbn [obind]; try discriminate.
        intros H; injection H as <- <-. apply kill_shape in K.
        eapply same_shape_trans; [|eapply same_shape_trans; [exact K|]]; shape_setters.
      * intros H; injection H as <- <-. shape_setters.
  - intros H; injection H as <- <-. apply same_shape_refl.
Qed.

Lemma op_next_id_shape g g' id : op_next_id g = Ok (g', id) -> same_shape g g'.
Proof.
  unfold op_next_id. destruct (find _ _); [|discriminate].
  destruct (_ <? _); intros H; injection H as <- <-; [shape_setters|apply same_shape_refl].
Qed.

Theorem step_shape n g o g' r : step n g o = Ok (g', r) -> same_shape g g'.
Proof.
  destruct o as [v|v1 v2 a|v d|v| |v a|v|]; cbn [step].
  - destruct (op_add g v) eqn:E; cbn [obind]; try discriminate.
    intros H; injection H as <- <-. eapply op_add_shape; eauto.
  - destruct (op_bind n g v1 v2 a) eqn:E; cbn [obind]; try discriminate.
    intros H; injection H as <- <-. eapply op_bind_shape; eauto.
  - destruct (op_put g v d) eqn:E; cbn [obind]; try discriminate.
    intros H; injection H as <- <-. eapply op_put_shape; eauto.
  - destruct (op_data g v) as [[g1 r1]| | |] eqn:E; cbn [obind fst snd]; try discriminate.
    intros H; injection H as <- <-. eapply op_data_shape; eauto.
  - destruct (op_next_id g) as [[g1 r1]| | |] eqn:E; cbn [obind fst snd]; try discriminate.
    intros H; injection H as <- <-. eapply op_next_id_shape; eauto.
  - destruct (op_kid g v a); cbn [obind]; try discriminate.
    intros H; injection H as <- <-. apply same_shape_refl.
  - destruct (op_kids g v); cbn [obind]; try discriminate.
    intros H; injection H as <- <-. apply same_shape_refl.
  - intros H; injection H as <- <-. apply same_shape_refl.
Qed.
