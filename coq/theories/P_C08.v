(** * P_C08: property C08 of the sodg verification.

    "save() followed by load() restores the graph: stores, branches and
    vertices come back exactly; only the allocator position [next_v]
    ([#[serde(skip)]]) is lost and is 0 afterwards."

    [encode] (Serial.v) is the byte image bincode writes, [psodg]/[decode]
    what bincode's deserializer and the container visitors do with it
    (results: a value and the unread bytes, end of input, another error, a
    panic of a visitor, or [DUnmod] for a number at or above the model's
    cut-off [lim]).  [n_edges] is the const generic [N] of [Sodg<N>].

    [wf_image_state lim n_edges g] is defined in SerialFacts.v and written
    out by [C08_def_wf_image_state]: what the Rust types guarantee (every
    [usize]/length below 2^64, [u8] bytes, [char] scalar values, eight array
    entries), the crate's invariants ([Hex::Bytes] length at most 8, at most
    16 members per group, at most [N] edges with distinct labels per vertex),
    and that every number the decoder turns into a [nat] is below [lim].
    [wf_hex] is in Hex.v, [wf_label] in Label.v.

    This file holds only the property theorems; every proof is in
    SerialFacts.v. *)

From Sodg Require Import Serial SerialFacts.

Theorem C08_def_wf_image_state :
  forall lim n_edges g,
    wf_image_state lim n_edges g <->
    (lim <= 18446744073709551616)%N /\
    (N.of_nat n_edges < 18446744073709551616)%N /\
    (N.of_nat (length (g_stores g)) < lim)%N /\
    (N.of_nat (length (g_branches g)) < lim)%N /\
    (N.of_nat (length (g_vertices g)) < lim)%N /\
    Forall (fun c => (N.of_nat c < lim)%N) (g_stores g) /\
    Forall (fun m => length m <= 16 /\ Forall (fun v => (N.of_nat v < lim)%N) m)
           (g_branches g) /\
    Forall (fun x =>
              (N.of_nat (v_branch x) < lim)%N /\
              (wf_hex (v_data x) = true /\
               match v_data x with
               | HVector l => (N.of_nat (length l) < 18446744073709551616)%N
               | HBytes _ k => (N.of_nat k < lim)%N
               end) /\
              NoDup (map fst (v_edges x)) /\
              length (v_edges x) <= n_edges /\
              Forall (fun e => wf_label (fst e) = true /\ (N.of_nat (snd e) < lim)%N)
                     (v_edges x))
           (g_vertices g).
Proof. exact wf_image_state_def. Qed.

Check C08_def_wf_image_state :
  forall lim n_edges g,
    wf_image_state lim n_edges g <->
    (lim <= 18446744073709551616)%N /\
    (N.of_nat n_edges < 18446744073709551616)%N /\
    (N.of_nat (length (g_stores g)) < lim)%N /\
    (N.of_nat (length (g_branches g)) < lim)%N /\
    (N.of_nat (length (g_vertices g)) < lim)%N /\
    Forall (fun c => (N.of_nat c < lim)%N) (g_stores g) /\
    Forall (fun m => length m <= 16 /\ Forall (fun v => (N.of_nat v < lim)%N) m)
           (g_branches g) /\
    Forall (fun x =>
              (N.of_nat (v_branch x) < lim)%N /\
              (wf_hex (v_data x) = true /\
               match v_data x with
               | HVector l => (N.of_nat (length l) < 18446744073709551616)%N
               | HBytes _ k => (N.of_nat k < lim)%N
               end) /\
              NoDup (map fst (v_edges x)) /\
              length (v_edges x) <= n_edges /\
              Forall (fun e => wf_label (fst e) = true /\ (N.of_nat (snd e) < lim)%N)
                     (v_edges x))
           (g_vertices g).
Print Assumptions C08_def_wf_image_state.

Theorem C08_wf_reflect :
  forall lim n_edges g,
    wf_image_stateb lim n_edges g = true <-> wf_image_state lim n_edges g.
Proof. exact wf_image_stateb_spec. Qed.

Check C08_wf_reflect :
  forall lim n_edges g,
    wf_image_stateb lim n_edges g = true <-> wf_image_state lim n_edges g.
Print Assumptions C08_wf_reflect.

Theorem C08_roundtrip :
  forall lim n g rest,
    wf_image_state lim n g ->
    psodg lim n (encode g ++ rest)
    = DOk (mkG (g_stores g) (g_branches g) (g_vertices g) 0) rest.
Proof. exact psodg_rt. Qed.

Check C08_roundtrip :
  forall lim n g rest,
    wf_image_state lim n g ->
    psodg lim n (encode g ++ rest)
    = DOk (mkG (g_stores g) (g_branches g) (g_vertices g) 0) rest.
Print Assumptions C08_roundtrip.

Theorem C08_load_save :
  forall lim n g,
    wf_image_state lim n g ->
    decode lim n (encode g)
    = LOk (mkG (g_stores g) (g_branches g) (g_vertices g) 0).
Proof. exact load_save. Qed.

Check C08_load_save :
  forall lim n g,
    wf_image_state lim n g ->
    decode lim n (encode g)
    = LOk (mkG (g_stores g) (g_branches g) (g_vertices g) 0).
Print Assumptions C08_load_save.

(** the cut-off [lim] of the model plays no role once it is above every
    number of the state *)
Theorem C08_lim_irrelevant :
  forall lim lim' n g rest,
    wf_image_state lim n g ->
    (lim <= lim')%N -> (lim' <= 18446744073709551616)%N ->
    psodg lim' n (encode g ++ rest) = psodg lim n (encode g ++ rest).
Proof. exact lim_irrelevant. Qed.

Check C08_lim_irrelevant :
  forall lim lim' n g rest,
    wf_image_state lim n g ->
    (lim <= lim')%N -> (lim' <= 18446744073709551616)%N ->
    psodg lim' n (encode g ++ rest) = psodg lim n (encode g ++ rest).
Print Assumptions C08_lim_irrelevant.

Theorem C08_lim_irrelevant_load :
  forall lim lim' n g,
    wf_image_state lim n g ->
    (lim <= lim')%N -> (lim' <= 18446744073709551616)%N ->
    decode lim' n (encode g) = decode lim n (encode g).
Proof. exact lim_irrelevant_load. Qed.

Check C08_lim_irrelevant_load :
  forall lim lim' n g,
    wf_image_state lim n g ->
    (lim <= lim')%N -> (lim' <= 18446744073709551616)%N ->
    decode lim' n (encode g) = decode lim n (encode g).
Print Assumptions C08_lim_irrelevant_load.

(** bytes after a complete image are ignored *)
Theorem C08_trailing_ignored :
  forall lim n g rest,
    wf_image_state lim n g ->
    decode lim n (encode g ++ rest) = decode lim n (encode g).
Proof. exact load_trailing. Qed.

Check C08_trailing_ignored :
  forall lim n g rest,
    wf_image_state lim n g ->
    decode lim n (encode g ++ rest) = decode lim n (encode g).
Print Assumptions C08_trailing_ignored.

(** ** non-vacuity: [example_graph] (SerialFacts.v) has a heap datum of ten
    bytes, an inline datum, edges with Greek labels of two, three and four
    UTF-8 bytes, a string label and an index label, a group with two members
    and counter 2, and allocator position 3 *)

Example C08_example_wf : wf_image_state 1048576 4 example_graph.
Proof. apply wf_image_stateb_spec. vm_compute. reflexivity. Qed.

Example C08_example_wf_tight : wf_image_state 4 3 example_graph.
Proof. apply wf_image_stateb_spec. vm_compute. reflexivity. Qed.

Example C08_example_image_size : length (encode example_graph) = 383.
Proof. vm_compute. reflexivity. Qed.

Example C08_example_load :
  decode 1048576 4 (encode example_graph) = LOk (set_next example_graph 0).
Proof. vm_compute. reflexivity. Qed.

Example C08_example_next_lost :
  g_next example_graph = 3 /\
  decode 1048576 4 (encode example_graph) <> LOk example_graph.
Proof. split; [reflexivity|]. vm_compute. discriminate. Qed.

(** ** every graph reachable through the interface satisfies the hypothesis *)

From Sodg Require Import Wf.

Theorem C08_reachable_graphs :
  forall n cap os lim,
  within_limits n cap sinit os -> Forall wf_op os ->
  (16 < lim)%N -> (N.of_nat cap < lim)%N -> (lim <= two64)%N -> (N.of_nat n < two64)%N ->
  exists g, run n (op_empty cap) os = Ok (g, snd (srun sinit os))
    /\ decode lim n (encode g) = LOk (mkG (g_stores g) (g_branches g) (g_vertices g) 0)
    /\ forall k, k < length (encode g) -> decode lim n (firstn k (encode g)) = LErr.
Proof. exact reachable_roundtrip. Qed.

Check C08_reachable_graphs :
  forall n cap os lim,
  within_limits n cap sinit os -> Forall wf_op os ->
  (16 < lim)%N -> (N.of_nat cap < lim)%N -> (lim <= two64)%N -> (N.of_nat n < two64)%N ->
  exists g, run n (op_empty cap) os = Ok (g, snd (srun sinit os))
    /\ decode lim n (encode g) = LOk (mkG (g_stores g) (g_branches g) (g_vertices g) 0)
    /\ forall k, k < length (encode g) -> decode lim n (firstn k (encode g)) = LErr.
Print Assumptions C08_reachable_graphs.

Theorem C08_invariant_states_are_wellformed :
  forall n g lim,
  Inv n g -> Wf g ->
  (16 < lim)%N -> (N.of_nat (cap_of g) < lim)%N -> (lim <= two64)%N -> (N.of_nat n < two64)%N ->
  wf_image_state lim n g.
Proof. exact inv_wf_image. Qed.

Check C08_invariant_states_are_wellformed :
  forall n g lim,
  Inv n g -> Wf g ->
  (16 < lim)%N -> (N.of_nat (cap_of g) < lim)%N -> (lim <= two64)%N -> (N.of_nat n < two64)%N ->
  wf_image_state lim n g.
Print Assumptions C08_invariant_states_are_wellformed.

Theorem C08_def_wf_op :
  forall o, wf_op o <-> match o with
                        | OBind _ _ a => wf_label a = true
                        | OPut _ d => wf_hex d = true /\ hex_small d
                        | _ => True
                        end.
Proof. intros o. reflexivity. Qed.

Check C08_def_wf_op :
  forall o, wf_op o <-> match o with
                        | OBind _ _ a => wf_label a = true
                        | OPut _ d => wf_hex d = true /\ hex_small d
                        | _ => True
                        end.
Print Assumptions C08_def_wf_op.

(** ** "behaves identically under any subsequent sequence of calls" *)

From Sodg Require Import NextIrrelevant.

Theorem C08_same_future :
  forall n os g k, no_next os ->
  run n (renext k g) os = omap (fun r : sodg * list res => (renext k (fst r), snd r)) (run n g os).
Proof. exact run_next. Qed.

Check C08_same_future :
  forall n os g k, no_next os ->
  run n (renext k g) os = omap (fun r : sodg * list res => (renext k (fst r), snd r)) (run n g os).
Print Assumptions C08_same_future.

Theorem C08_def_renext : forall k g, renext k g = mkG (g_stores g) (g_branches g) (g_vertices g) k.
Proof. intros k g. reflexivity. Qed.

Check C08_def_renext : forall k g, renext k g = mkG (g_stores g) (g_branches g) (g_vertices g) k.
Print Assumptions C08_def_renext.

Theorem C08_def_no_next : forall os, no_next os <-> Forall (fun o => o <> ONext) os.
Proof. intros os. reflexivity. Qed.

Check C08_def_no_next : forall os, no_next os <-> Forall (fun o => o <> ONext) os.
Print Assumptions C08_def_no_next.

Theorem C08_next_id_restarts_from_lowest_absent :
  forall g, g_next g = 0 -> (exists id, id < cap_of g /\ tag g id = 0) ->
  exists id, op_next_id g = Ok (set_next g (S id), id) /\ id < cap_of g /\ tag g id = 0
             /\ forall w, w < id -> tag g w <> 0.
Proof. exact next_id_from_zero. Qed.

Check C08_next_id_restarts_from_lowest_absent :
  forall g, g_next g = 0 -> (exists id, id < cap_of g /\ tag g id = 0) ->
  exists id, op_next_id g = Ok (set_next g (S id), id) /\ id < cap_of g /\ tag g id = 0
             /\ forall w, w < id -> tag g w <> 0.
Print Assumptions C08_next_id_restarts_from_lowest_absent.

(** ** generations of save+load, and what the image determines (SerialMore.v) *)

From Sodg Require Import SerialMore.

(** the allocator position is the only part of a graph that is not in its image *)
Theorem C08_image_ignores_allocator :
  forall k g, encode (renext k g) = encode g.
Proof. exact encode_renext. Qed.

Check C08_image_ignores_allocator :
  forall k g, encode (renext k g) = encode g.
Print Assumptions C08_image_ignores_allocator.

(** what load() returns satisfies the hypothesis again and is saved to the very same bytes *)
Theorem C08_save_load_save :
  forall lim n g g',
    wf_image_state lim n g ->
    decode lim n (encode g) = LOk g' ->
    g' = renext 0 g /\ encode g' = encode g /\ wf_image_state lim n g'
    /\ decode lim n (encode g') = LOk g'.
Proof. exact save_load_save. Qed.

Check C08_save_load_save :
  forall lim n g g',
    wf_image_state lim n g ->
    decode lim n (encode g) = LOk g' ->
    g' = renext 0 g /\ encode g' = encode g /\ wf_image_state lim n g'
    /\ decode lim n (encode g') = LOk g'.
Print Assumptions C08_save_load_save.

Theorem C08_def_generations :
  forall lim n k g,
    generations lim n k g =
    match k with
    | 0 => LOk g
    | S k' => match decode lim n (encode g) with
              | LOk g' => generations lim n k' g'
              | e => e
              end
    end.
Proof. exact generations_def. Qed.

Check C08_def_generations :
  forall lim n k g,
    generations lim n k g =
    match k with
    | 0 => LOk g
    | S k' => match decode lim n (encode g) with
              | LOk g' => generations lim n k' g'
              | e => e
              end
    end.
Print Assumptions C08_def_generations.

(** any number (at least one) of save+load generations gives the graph the first one gave *)
Theorem C08_generations_stable :
  forall lim n g k,
    wf_image_state lim n g -> generations lim n (S k) g = LOk (renext 0 g).
Proof. exact generations_stable. Qed.

Check C08_generations_stable :
  forall lim n g k,
    wf_image_state lim n g -> generations lim n (S k) g = LOk (renext 0 g).
Print Assumptions C08_generations_stable.

(** two graphs have the same image exactly when they differ in the allocator position only *)
Theorem C08_image_determines_graph :
  forall lim n g1 g2,
    wf_image_state lim n g1 -> wf_image_state lim n g2 ->
    encode g1 = encode g2 <-> renext 0 g1 = renext 0 g2.
Proof. exact encode_inj_renext. Qed.

Check C08_image_determines_graph :
  forall lim n g1 g2,
    wf_image_state lim n g1 -> wf_image_state lim n g2 ->
    encode g1 = encode g2 <-> renext 0 g1 = renext 0 g2.
Print Assumptions C08_image_determines_graph.

Example C08_generations_example :
  generations 1048576 4 1 example_graph = LOk (renext 0 example_graph)
  /\ generations 1048576 4 3 example_graph = LOk (renext 0 example_graph)
  /\ renext 0 example_graph <> example_graph.
Proof. exact generations_example. Qed.
