(** * SerialMore: consequences of the round-trip and cut theorems of
    SerialFacts.v that users of save()/load() rely on over long histories.

    - the image does not depend on the allocator position ([encode_renext]);
    - what load() returns is again well-formed, and saving it gives the very
      same bytes ([save_load_save]): any number of save+load generations ends
      in the graph the first one produced ([generations_stable]);
    - the image determines the graph up to the allocator ([encode_inj]): two
      graphs that differ in a store counter, a member list, an edge, a datum,
      its representation or its read/unread status never share an image;
    - the set of images is prefix-free ([image_prefix_free]): a complete image
      is never the beginning of a longer one, so a file cut short is not
      mistaken for another graph.

    Proofs only combine [load_save], [load_cut] and [load_trailing]. *)

From Coq Require Import List Arith NArith Lia.
From Sodg Require Import Base Hex Label Sodg Serial SerialFacts NextIrrelevant.
Import ListNotations.

Lemma encode_renext k g : encode (renext k g) = encode g.
Proof. destruct g. reflexivity. Qed.

Lemma wf_image_renext lim n k g :
  wf_image_state lim n g -> wf_image_state lim n (renext k g).
Proof. destruct g. unfold wf_image_state, renext, set_next. cbn. exact (fun H => H). Qed.

Lemma renext_mkG g k :
  mkG (g_stores g) (g_branches g) (g_vertices g) k = renext k g.
Proof. reflexivity. Qed.

Lemma load_save_renext lim n g :
  wf_image_state lim n g -> decode lim n (encode g) = LOk (renext 0 g).
Proof. intros H. rewrite (load_save lim n g H). reflexivity. Qed.

Lemma save_load_save lim n g g' :
  wf_image_state lim n g ->
  decode lim n (encode g) = LOk g' ->
  g' = renext 0 g /\ encode g' = encode g /\ wf_image_state lim n g'
  /\ decode lim n (encode g') = LOk g'.
Proof.
  intros Hwf Hd. rewrite (load_save_renext lim n g Hwf) in Hd.
  injection Hd as Hg. subst g'.
  split; [reflexivity|]. split; [apply encode_renext|].
  split; [apply wf_image_renext; exact Hwf|].
  rewrite encode_renext. apply load_save_renext. exact Hwf.
Qed.

(** [k] generations of save followed by load *)
Fixpoint generations (lim : N) (n : nat) (k : nat) (g : sodg) : load_result :=
  match k with
  | 0 => LOk g
  | S k' => match decode lim n (encode g) with
            | LOk g' => generations lim n k' g'
            | e => e
            end
  end.

Lemma generations_fix lim n g k :
  wf_image_state lim n g -> generations lim n k (renext 0 g) = LOk (renext 0 g).
Proof.
  intros Hwf. induction k as [|k IH]; [reflexivity|].
  cbn [generations]. rewrite encode_renext, (load_save_renext lim n g Hwf). exact IH.
Qed.

Lemma generations_stable lim n g k :
  wf_image_state lim n g -> generations lim n (S k) g = LOk (renext 0 g).
Proof.
  intros Hwf. cbn [generations]. rewrite (load_save_renext lim n g Hwf).
  apply generations_fix. exact Hwf.
Qed.

Lemma encode_inj lim n g1 g2 :
  wf_image_state lim n g1 -> wf_image_state lim n g2 ->
  encode g1 = encode g2 ->
  g_stores g1 = g_stores g2 /\ g_branches g1 = g_branches g2 /\ g_vertices g1 = g_vertices g2.
Proof.
  intros H1 H2 He.
  pose proof (load_save lim n g1 H1) as L1.
  pose proof (load_save lim n g2 H2) as L2.
  rewrite He in L1. rewrite L1 in L2. injection L2 as Hs Hb Hv.
  repeat split; assumption.
Qed.

Lemma encode_inj_renext lim n g1 g2 :
  wf_image_state lim n g1 -> wf_image_state lim n g2 ->
  encode g1 = encode g2 <-> renext 0 g1 = renext 0 g2.
Proof.
  intros H1 H2. split.
  - intros He. destruct (encode_inj lim n g1 g2 H1 H2 He) as (Hs & Hb & Hv).
    unfold renext, set_next. rewrite Hs, Hb, Hv. reflexivity.
  - intros Hr. rewrite <- (encode_renext 0 g1), <- (encode_renext 0 g2), Hr. reflexivity.
Qed.

(** a complete image is never a proper prefix of another image *)
Lemma image_prefix_free lim n g1 g2 rest :
  wf_image_state lim n g1 -> wf_image_state lim n g2 ->
  encode g2 = encode g1 ++ rest -> rest = [].
Proof.
  intros H1 H2 He.
  destruct rest as [|b rest]; [reflexivity|exfalso].
  assert (Hlen : length (encode g1) < length (encode g2)).
  { rewrite He, app_length. cbn [length]. lia. }
  pose proof (load_cut lim n g2 (length (encode g1)) H2 Hlen) as Hc.
  rewrite He, firstn_app, firstn_all, Nat.sub_diag in Hc.
  cbn [firstn] in Hc. rewrite app_nil_r in Hc.
  rewrite (load_save lim n g1 H1) in Hc. discriminate Hc.
Qed.

(** hence: if the image of [g2] starts with the image of [g1], they are the
    same graph up to the allocator *)
Lemma image_prefix_same lim n g1 g2 rest :
  wf_image_state lim n g1 -> wf_image_state lim n g2 ->
  encode g2 = encode g1 ++ rest -> renext 0 g1 = renext 0 g2.
Proof.
  intros H1 H2 He.
  pose proof (image_prefix_free lim n g1 g2 rest H1 H2 He) as Hr. subst rest.
  rewrite app_nil_r in He. apply (encode_inj_renext lim n g1 g2 H1 H2). symmetry. exact He.
Qed.

(** non-vacuity: the example graph of SerialFacts.v after 1 and after 300
    generations (evaluated) *)
Example generations_example :
  generations 1048576 4 1 example_graph = LOk (renext 0 example_graph)
  /\ generations 1048576 4 3 example_graph = LOk (renext 0 example_graph)
  /\ renext 0 example_graph <> example_graph.
Proof. split; [|split]; [vm_compute; reflexivity | vm_compute; reflexivity | vm_compute; discriminate]. Qed.

Lemma generations_def lim n k g :
  generations lim n k g =
  match k with
  | 0 => LOk g
  | S k' => match decode lim n (encode g) with
            | LOk g' => generations lim n k' g'
            | e => e
            end
  end.
Proof. destruct k; reflexivity. Qed.
