(** Extraction of the executable model to OCaml for the correspondence check.
    Only [ExtrOcamlBasic] is used: bool, option, unit, list, prod, sumbool,
    sumor map to the OCaml built-ins and andb/orb are inlined to (&&)/(||);
    nat, positive, N, Z stay the extracted inductive types. *)

Require Extraction.
Require Import ExtrOcamlBasic.
From Sodg Require Import Base Text Hex Label Sodg Esort Print Export Slice Merge Serial Script Spec SpecDec XShow HexMore XJoin.

Extraction Language OCaml.

Extraction "Model.ml"
  (* numbers *)
  N.of_nat N.to_nat N.add N.mul N.eqb N.leb N.ltb N.div N.modulo Z.of_N Z.to_N Z.opp Z.ltb
  (* text *)
  print_dec print_nat parse_digits parse_usize is_scalar
  (* hex *)
  wf_hex hex_empty bytes hex_len hex_is_empty from_slice from_vec hex_to_vec hex_eqb
  hex_index hex_range hex_byte_at hex_tail hex_print hex_from_str hex_concat
  hex_to_i64 hex_from_i64 hex_to_f64_bits hex_from_f64_bits
  hex_set hex_from_str_bytes hex_to_bool hex_to_utf8 hex_from_int hex_from_f32_bits hex_from_bool
  (* label *)
  wf_label label_eqb label_compare label_print label_from_str
  (* graph *)
  tag op_empty op_add op_bind op_put op_data op_kids op_kid op_keys op_len op_next_id op_clone cap_of
  (* printers, exports *)
  op_debug op_vprint op_inspect op_to_xml op_to_dot debug_doc vprint_doc inspect_doc export_doc
  (* slice, merge *)
  op_slice op_slice_some op_merge
  (* byte format *)
  encode decode
  (* script *)
  op_deploy commands
  (* reference model *)
  sinit sstep preb s_keys
  (* extraction cross-check *)
  xshow_run
  (* join and graphs with vacant slots (XJoin.v) *)
  x_empty x_add x_bind x_put x_data x_kids x_kid x_keys x_len x_next_id x_clone
  x_slice x_slice_some x_merge x_join x_debug x_vprint x_inspect x_to_xml x_to_dot
  x_encode x_deploy is_hole.
